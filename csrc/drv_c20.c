/* C20 driver template: Mobile Allocation decoding (layer23 sysinfo.c, function slice).
 *
 * "c20_slice.inc" is generated at run time by vlib/props/c20.py from the CURRENT tree:
 *   - the FREQ_TYPE_* macros cut out of layer23 include/osmocom/bb/common/sysinfo.h
 *   - struct gsm_sysinfo_freq cut out of libosmocore include/osmocom/gsm/gsm48_ie.h
 *   - the definition of gsm48_decode_mobile_alloc cut out of layer23 src/common/sysinfo.c
 * Nothing of the function is copied into /verif; only the prelude below is ours.
 *
 *   drv_c20 enum <spec> <ca_index> <start_idx> <progress_file>
 *   drv_c20 single <si4> <bg> <len> <ma-hex|-> <n> <arfcn>...
 *
 * spec file lines:
 *   C <n> <arfcn>...      a cell allocation (index = order of appearance)
 *   S <mask>              variants: bit (si4*2+bg) set -> run the case with that (si4, bg)
 *   A <len>               every bitmap of <len> octets
 *   B <len> <hex>         one bitmap, result dumped as an R line (result + the driver's verdict; cross-checked
 *                         by the Python reference)
 *   b <len> <hex>         one bitmap, not dumped
 * Case index = running number over (bitmap in spec order) x (si4, bg in mask order).
 *
 * Before each call the case (index, len, bitmap, si4, bg) and all counters are stored in the
 * MAP_SHARED progress file, so that the Python side can attribute an ASan/UBSan/signal death to the
 * concrete input, keep the counts, and restart the driver at index+1.
 *
 * freq[1024], ma[len], hopping[64] and hopp_len are separate exact-size heap blocks.
 */
#include <stdint.h>
#include <stdio.h>
#include <stdlib.h>
#include <string.h>
#include <errno.h>
#include <fcntl.h>
#include <unistd.h>
#include <sys/mman.h>

/* ---- prelude for the slice ---------------------------------------------------------------- */
#define LOGP(ss, level, fmt, args...) do { } while (0)
/* ---- the slice ------------------------------------------------------------------------------ */
#include "c20_slice.inc"
/* ----------------------------------------------------------------------------------------------- */

#ifndef FREQ_TYPE_SERV
#error "slice lacks FREQ_TYPE_SERV"
#endif
#ifndef FREQ_TYPE_HOPP
#error "slice lacks FREQ_TYPE_HOPP"
#endif
/* the flag values as numbers: the driver's own expressions must not depend on how the header spells the macros
 * (an unparenthesised `1 << n` would change the meaning of `~FREQ_TYPE_x` here as well) */
enum { T_SERV = (FREQ_TYPE_SERV), T_HOPP = (FREQ_TYPE_HOPP) };

enum { K_EVALS, K_NONTRIV, K_EINVAL, K_EMPTY_BITMAP, K_STOP_BEYOND, K_FULL64, K_ARFCN0_SEL, K_MAXLEN,
       K_NVIOL, K_DUMPED, K_LIST_TOTAL, K_CALLS_LEN0, K_NONEMPTY_LIST, K_NCOUNT };
static const char *knames[K_NCOUNT] = { "evaluations", "distinct_nontrivial", "expect_einval", "empty_bitmap",
	"stopped_by_bit_beyond_allocation", "lists_of_64", "lists_with_arfcn0", "max_list_len",
	"driver_violations", "dumped_for_python_reference", "channels_decoded_total", "cases_len0", "nonempty_lists" };

struct prog {
	uint64_t magic;
	uint64_t cur_valid;
	uint64_t cur_idx;
	uint64_t cnt[K_NCOUNT];
	uint8_t cur_len, cur_si4, cur_bg, pad;
	uint8_t cur_ma[12];
};
static struct prog local_prog;
static volatile struct prog *P = &local_prog;

static struct gsm_sysinfo_freq *freq;		/* exactly 1024 elements */
static uint8_t *ma_blk[16];			/* ma_blk[len]: exactly len octets */
static uint16_t *hopping;			/* exactly 64 elements */
static uint8_t *hopp_len;			/* exactly 1 octet */
static uint8_t base[2][1024];
static uint8_t base_nohopp[2][1024];	/* base with FREQ_TYPE_HOPP cleared */
static uint16_t ca_sorted[1024];
static int nca;
static unsigned long nprinted;
static int case_flagged;			/* the driver's oracle rejected the current case */

static void setup_blocks(void)
{
	int l;
	freq = malloc(1024 * sizeof(*freq));
	for (l = 0; l < 16; l++)
		ma_blk[l] = malloc(l);
	hopping = malloc(64 * sizeof(uint16_t));
	hopp_len = malloc(1);
	if (sizeof(*freq) != 1) {
		fprintf(stderr, "unexpected sizeof(struct gsm_sysinfo_freq) = %zu\n", sizeof(*freq));
		exit(3);
	}
}

static void set_ca(const int *arfcn, int n)
{
	static uint8_t in[1024];
	int i;
	memset(in, 0, sizeof(in));
	for (i = 0; i < n; i++)
		in[arfcn[i] & 1023] = 1;
	/* ordered cell allocation per 44.018 10.5.2.21: ascending, ARFCN 0 last */
	nca = 0;
	for (i = 1; i < 1024; i++)
		if (in[i])
			ca_sorted[nca++] = i;
	if (in[0])
		ca_sorted[nca++] = 0;
	for (i = 0; i < 1024; i++) {
		uint8_t noise = (uint8_t)(((uint32_t)i * 2654435761u) >> 13) & (uint8_t)~T_SERV;
		base[0][i] = in[i] ? T_SERV : 0;
		base[1][i] = (in[i] ? T_SERV : 0) | noise;
		base_nohopp[0][i] = base[0][i] & (uint8_t)~T_HOPP;
		base_nohopp[1][i] = base[1][i] & (uint8_t)~T_HOPP;
	}
}

static void hexs(char *o, const uint8_t *b, int n)
{
	int i;
	if (n == 0) { strcpy(o, "-"); return; }
	for (i = 0; i < n; i++)
		sprintf(o + 2 * i, "%02x", b[i]);
}

static void lists(char *o, const uint16_t *l, int n)
{
	int i, p = 0;
	if (n == 0) { strcpy(o, "-"); return; }
	for (i = 0; i < n && i < 80; i++)
		p += sprintf(o + p, "%s%u", i ? "," : "", l[i]);
}

static void viol(const char *kind, uint64_t idx, int len, const uint8_t *ma, int si4, int bg, int rc, int n,
		 const uint16_t *got, const uint16_t *want, int nwant, int wrc, const char *extra)
{
	char h[40], g[600], w[600];
	P->cnt[K_NVIOL]++;
	case_flagged = 1;
	if (nprinted++ >= 20)
		return;
	hexs(h, ma, len);
	lists(g, got, n > 64 ? 64 : n);
	lists(w, want, nwant);
	printf("V %s idx=%llu len=%d ma=%s si4=%d bg=%d rc=%d n=%d got=%s wantrc=%d wantn=%d want=%s %s\n",
	       kind, (unsigned long long)idx, len, h, si4, bg, rc, n, g, wrc, nwant, w, extra ? extra : "");
}

/* one evaluation.  The harness code itself is not instrumented (speed); the function under test is
 * (gcc does not inline across differing sanitize attributes). */
#define NOSAN __attribute__((no_sanitize("address", "undefined"), noinline))

/* Make reads of uninitialised stack deterministic: the region the function under test is about to use
 * (locals and the VLA) holds 0xA5 in every octet, in enum and in single mode alike. */
NOSAN static void poison_stack(void)
{
	uint8_t buf[24576];
	memset(buf, 0xA5, sizeof(buf));
	__asm__ volatile("" : : "r"(buf) : "memory");	/* keep the stores */
}

NOSAN static void run_case(uint64_t idx, int len, const uint8_t *ma, int si4, int bg, int dump, int first_variant)
{
	uint16_t want[80];
	int nwant = 0, wrc = 0, stopped = 0, k, i, rc, n, anybit = 0;
	char extra[128];

	/* ---- arrange --------------------------------------------------------------------------- */
	case_flagged = 0;
	memcpy(freq, base[bg], 1024);
	if (len)
		memcpy(ma_blk[len], ma, len);
	for (i = 0; i < 64; i++)
		hopping[i] = 0xA5A5;
	*hopp_len = 0xEE;

	P->cur_idx = idx; P->cur_len = len; P->cur_si4 = si4; P->cur_bg = bg;
	for (i = 0; i < 12; i++) P->cur_ma[i] = i < len ? ma[i] : 0;
	P->cur_valid = 1;
	fflush(stdout);		/* no syscall unless R/V lines are pending */

	/* ---- reference (44.018 10.5.2.21) ------------------------------------------------------ */
	if (len > 8) {
		wrc = -EINVAL;
	} else {
		for (k = 0; k < 8 * len; k++) {
			uint8_t octet = ma[len - 1 - k / 8];	/* last octet carries MA C 1..8 */
			if (!((octet >> (k % 8)) & 1))
				continue;
			anybit = 1;
			if (k >= nca) {			/* points beyond the cell allocation */
				stopped = 1;
				break;
			}
			want[nwant++] = ca_sorted[k];
		}
	}

	/* ---- counters -------------------------------------------------------------------------- */
	P->cnt[K_EVALS]++;
	if (len == 0) P->cnt[K_CALLS_LEN0]++;
	if (first_variant) {
		if (len > 8) P->cnt[K_EINVAL]++;
		else if (!anybit) P->cnt[K_EMPTY_BITMAP]++;
		if (len <= 8 && anybit && nca > 0) P->cnt[K_NONTRIV]++;
		if (stopped) P->cnt[K_STOP_BEYOND]++;
		if (nwant == 64) P->cnt[K_FULL64]++;
		if (nwant) P->cnt[K_NONEMPTY_LIST]++;
		for (i = 0; i < nwant; i++) if (want[i] == 0) { P->cnt[K_ARFCN0_SEL]++; break; }
		if ((uint64_t)nwant > P->cnt[K_MAXLEN]) P->cnt[K_MAXLEN] = nwant;
		P->cnt[K_LIST_TOTAL] += nwant;
	}

	/* ---- act: the tree's function ---------------------------------------------------------- */
	poison_stack();
	rc = gsm48_decode_mobile_alloc(freq, ma_blk[len], (uint8_t)len, hopping, hopp_len, si4);
	n = *hopp_len;
	P->cur_valid = 0;

	/* ---- assert ---------------------------------------------------------------------------- */
	if (rc != wrc) {
		viol("rc", idx, len, ma, si4, bg, rc, n, hopping, want, nwant, wrc, "");
	} else if (wrc != 0) {
		/* rejected: nothing may have been written */
		int touched = (*hopp_len != 0xEE);
		for (i = 0; i < 64; i++) if (hopping[i] != 0xA5A5) touched = 1;
		if (memcmp(freq, base[bg], 1024)) touched = 1;
		if (touched)
			viol("einval-wrote", idx, len, ma, si4, bg, rc, n, hopping, want, 0, wrc, "output written although rejected");
	} else {
		int bad = 0;
		if (n > 64) {
			viol("list", idx, len, ma, si4, bg, rc, n, hopping, want, nwant, wrc, "more than 64 entries");
			bad = 1;
		} else if (n != nwant) {
			bad = 1;
		} else {
			for (i = 0; i < n; i++) if (hopping[i] != want[i]) bad = 1;
		}
		if (bad && n <= 64)
			viol("list", idx, len, ma, si4, bg, rc, n, hopping, want, nwant, wrc, "");
		if (!bad) {
			/* HOPP flag side effect: si4 -> HOPP exactly on the decoded channels, all other bits
			 * untouched; !si4 -> masks untouched */
			static uint8_t exp[1024];
			memcpy(exp, si4 ? base_nohopp[bg] : base[bg], 1024);
			if (si4)
				for (i = 0; i < nwant; i++) exp[want[i]] |= T_HOPP;
			if (memcmp(freq, exp, 1024)) {
				for (i = 0; i < 1024; i++) if (((uint8_t *)freq)[i] != exp[i]) break;
				snprintf(extra, sizeof(extra), "freq[%d].mask=0x%02x want=0x%02x (before 0x%02x)",
					 i, ((uint8_t *)freq)[i], exp[i], base[bg][i]);
				viol("mask", idx, len, ma, si4, bg, rc, n, hopping, want, nwant, wrc, extra);
			}
		}
	}

	if (dump) {
		char h[40], g[600];
		unsigned hoppsum = 0, othersum = 0;
		int touched = 0;
		for (i = 0; i < 1024; i++) {
			uint8_t m = ((uint8_t *)freq)[i];
			if (m & T_HOPP) hoppsum += i + 1;
			othersum = othersum * 31u + (uint8_t)((m ^ base[bg][i]) & (uint8_t)~T_HOPP);
			if (m != base[bg][i]) touched = 1;
		}
		for (i = 0; i < 64; i++) if (hopping[i] != 0xA5A5) touched = 1;
		hexs(h, ma, len);
		lists(g, hopping, (rc == 0 && n <= 64) ? n : 0);
		P->cnt[K_DUMPED]++;
		/* R idx len ma si4 bg rc *hopp_len list hoppsum othersum touched driver-verdict */
		printf("R %llu %d %s %d %d %d %d %s %u %u %d %d\n", (unsigned long long)idx, len, h, si4, bg, rc,
		       n, g, hoppsum, othersum, touched, case_flagged);
	}
}

static int parse_hex(const char *s, uint8_t *out, int max)
{
	int n = 0;
	if (!strcmp(s, "-")) return 0;
	while (s[0] && s[1] && n < max) {
		unsigned v;
		if (sscanf(s, "%2x", &v) != 1) return -1;
		out[n++] = v;
		s += 2;
	}
	return n;
}

static void print_counters(void)
{
	int i;
	printf("{");
	for (i = 0; i < K_NCOUNT; i++)
		printf("%s\"%s\": %llu", i ? ", " : "", knames[i], (unsigned long long)P->cnt[i]);
	printf("}\n");
}

int main(int argc, char **argv)
{
	setvbuf(stdout, NULL, _IOFBF, 1 << 16);
	setup_blocks();

	if (argc >= 7 && !strcmp(argv[1], "single")) {
		int si4 = atoi(argv[2]), bg = atoi(argv[3]), len = atoi(argv[4]), n = atoi(argv[6]), i;
		uint8_t ma[16] = { 0 };
		static int ar[1024];
		if (len < 0 || len > 15 || parse_hex(argv[5], ma, 16) != len || n < 0 || n > 1024 || argc < 7 + n)
			return 2;
		for (i = 0; i < n; i++) ar[i] = atoi(argv[7 + i]);
		set_ca(ar, n);
		printf("I 0\n");
		fflush(stdout);
		run_case(0, len, ma, si4 & 1, bg & 1, 1, 1);
		print_counters();
		fflush(stdout);
		return P->cnt[K_NVIOL] ? 1 : 0;
	}

	if (argc < 6 || strcmp(argv[1], "enum"))
		return 2;
	FILE *sp = fopen(argv[2], "r");
	int want_ca = atoi(argv[3]);
	uint64_t start = strtoull(argv[4], 0, 0);
	int pfd = open(argv[5], O_RDWR | O_CREAT, 0600);
	if (!sp || pfd < 0 || ftruncate(pfd, sizeof(struct prog)) != 0)
		return 2;
	P = mmap(NULL, sizeof(struct prog), PROT_READ | PROT_WRITE, MAP_SHARED, pfd, 0);
	if (P == MAP_FAILED)
		return 2;
	memset((void *)P, 0, sizeof(struct prog));
	P->magic = 0xC20C20C20ull;

	char *line = NULL;
	size_t cap = 0;
	int ca_seen = -1, have_ca = 0, mask = 0xf;
	uint64_t idx = 0;
	while (getline(&line, &cap, sp) > 0) {
		char *tok = strtok(line, " \n");
		if (!tok) continue;
		if (!strcmp(tok, "C")) {
			static int ar[1024];
			int n, i;
			ca_seen++;
			tok = strtok(NULL, " \n");
			n = tok ? atoi(tok) : 0;
			if (ca_seen != want_ca) continue;
			for (i = 0; i < n; i++) { tok = strtok(NULL, " \n"); if (!tok) return 2; ar[i] = atoi(tok); }
			set_ca(ar, n);
			have_ca = 1;
		}
	}
	if (!have_ca) return 2;
	rewind(sp);
	while (getline(&line, &cap, sp) > 0) {
		char *tok = strtok(line, " \n");
		if (!tok || !strcmp(tok, "C")) continue;
		if (!strcmp(tok, "S")) { tok = strtok(NULL, " \n"); mask = tok ? atoi(tok) : 0xf; continue; }
		int all = !strcmp(tok, "A"), dumpb = !strcmp(tok, "B");
		if (!all && !dumpb && strcmp(tok, "b")) return 2;
		tok = strtok(NULL, " \n");
		if (!tok) return 2;
		int len = atoi(tok), v, first;
		if (len < 0 || len > 15) return 2;
		uint8_t ma[16] = { 0 };
		if (all) {
			if (len > 3) return 2;
			uint64_t total = 1ull << (8 * len), val;
			for (val = 0; val < total; val++) {
				int i;
				for (i = 0; i < len; i++) ma[i] = (val >> (8 * (len - 1 - i))) & 0xff;
				first = 1;
				for (v = 0; v < 4; v++) {
					if (!(mask & (1 << v))) continue;
					if (idx >= start)
						run_case(idx, len, ma, v >> 1, v & 1, (idx % 61) == 0, first);
					first = 0;
					idx++;
				}
			}
		} else {
			tok = strtok(NULL, " \n");
			if (!tok || parse_hex(tok, ma, 16) != len) return 2;
			first = 1;
			for (v = 0; v < 4; v++) {
				if (!(mask & (1 << v))) continue;
				if (idx >= start)
					run_case(idx, len, ma, v >> 1, v & 1, dumpb, first);
				first = 0;
				idx++;
			}
		}
	}
	print_counters();
	fflush(stdout);
	return P->cnt[K_NVIOL] ? 1 : 0;
}

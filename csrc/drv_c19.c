/* C19 driver: GSM time arithmetic as a state machine over all 2715648 frame numbers.
 * Calls the tree's gsm_fn2gsmtime / gsm_gsmtime2fn (libosmocore gsm_utils.c) and
 * l1s_time_inc (firmware layer1/sync.c), compares with independent arithmetic.
 *
 *   drv_c19 walk <fn_lo> <fn_hi> <mode>   mode 0: quick delta set, 1: thorough delta set
 *   drv_c19 dump <file>                   writes (t1:u16, t2:u8, t3:u8, tc:u8, pad) for every fn
 */
#include <stdint.h>
#include <stdio.h>
#include <stdlib.h>
#include <string.h>
#include <osmocom/gsm/gsm_utils.h>

void l1s_time_inc(struct gsm_time *time, uint32_t delta_fn);

#define HYPER 2715648u
static unsigned long nviol;

static void expect(struct gsm_time *w, uint32_t fn)
{
	w->fn = fn;
	w->t1 = fn / 1326u;
	w->t2 = fn - 26u * (fn / 26u);
	w->t3 = fn - 51u * (fn / 51u);
	w->tc = (fn / 51u) & 7u;
}

static int same(const struct gsm_time *a, const struct gsm_time *b)
{
	return a->fn == b->fn && a->t1 == b->t1 && a->t2 == b->t2 && a->t3 == b->t3 && a->tc == b->tc;
}

static void viol(const char *kind, uint32_t fn, uint32_t delta, const struct gsm_time *g, const struct gsm_time *w)
{
	if (nviol++ < 20)
		printf("V %s fn=%u delta=%u got=%u/%u/%u/%u/%u want=%u/%u/%u/%u/%u\n", kind, fn, delta,
		       g->fn, g->t1, g->t2, g->t3, g->tc, w->fn, w->t1, w->t2, w->t3, w->tc);
}

int main(int argc, char **argv)
{
	if (argc >= 3 && !strcmp(argv[1], "dump")) {
		FILE *f = fopen(argv[2], "wb");
		uint32_t fn;
		if (!f) return 2;
		for (fn = 0; fn < HYPER; fn++) {
			struct gsm_time t;
			uint8_t rec[6];
			memset(&t, 0xa5, sizeof(t));
			gsm_fn2gsmtime(&t, fn);
			rec[0] = t.t1 & 0xff; rec[1] = t.t1 >> 8; rec[2] = t.t2; rec[3] = t.t3; rec[4] = t.tc; rec[5] = 0;
			fwrite(rec, 1, 6, f);
		}
		fclose(f);
		return 0;
	}
	if (argc < 5 || strcmp(argv[1], "walk"))
		return 2;
	uint32_t lo = strtoul(argv[2], 0, 0), hi = strtoul(argv[3], 0, 0);
	int mode = atoi(argv[4]);
	static uint32_t deltas[4096];
	int nd = 0, i;
	uint32_t d;
	for (d = 2; d <= (mode ? 2652u : 60u); d++) deltas[nd++] = d;
	deltas[nd++] = 1325; deltas[nd++] = 1326; deltas[nd++] = HYPER - 1;
	if (mode) { deltas[nd++] = 1327; deltas[nd++] = HYPER - 2; deltas[nd++] = HYPER / 2; deltas[nd++] = 0; deltas[nd++] = HYPER; }
	unsigned long steps = 0, states = 0, rt = 0;
	struct gsm_time run, w, t;
	/* the running time enters the slice at `lo` by decomposition and is from then on only
	 * advanced with l1s_time_inc(.., 1): the walk of the whole ring is the union of the slices,
	 * and each slice's first state is checked against the previous slice's last step below */
	memset(&run, 0, sizeof(run));
	gsm_fn2gsmtime(&run, lo);
	expect(&w, lo);
	if (!same(&run, &w)) viol("fn2gsmtime", lo, 0, &run, &w);
	uint32_t fn;
	for (fn = lo; fn < hi; fn++) {
		states++;
		/* decomposition + recomposition */
		memset(&t, 0x5a, sizeof(t));
		gsm_fn2gsmtime(&t, fn);
		expect(&w, fn);
		if (!same(&t, &w)) viol("fn2gsmtime", fn, 0, &t, &w);
		if (gsm_gsmtime2fn(&t) != fn) { w.fn = gsm_gsmtime2fn(&t); viol("gsmtime2fn", fn, 0, &t, &w); }
		rt++;
		/* running state must equal the decomposition of fn */
		if (!same(&run, &w) && nviol < 20) viol("running", fn, 1, &run, &w);
		/* every other delta from this state */
		for (i = 0; i < nd; i++) {
			t = run;
			l1s_time_inc(&t, deltas[i]);
			expect(&w, (uint32_t)(((uint64_t)fn + deltas[i]) % HYPER));
			if (!same(&t, &w)) viol("time_inc", fn, deltas[i], &t, &w);
			steps++;
		}
		/* delta 1: advance the running state */
		l1s_time_inc(&run, 1);
		expect(&w, (fn + 1) % HYPER);
		if (!same(&run, &w)) { viol("time_inc", fn, 1, &run, &w); run = w; }
		steps++;
	}
	printf("{\"states\": %lu, \"transitions\": %lu, \"roundtrips\": %lu, \"deltas\": %d, \"violations\": %lu}\n",
	       states, steps, rt, nd + 1, nviol);
	return nviol ? 1 : 0;
}

/* C08 driver: explicit-state exploration of the firmware TDMA scheduler.
 *
 * Drives the tree's unmodified layer1/tdma_sched.c, which operates on the real
 * `l1s.tdma_sched` (the global `l1s` is defined here; nothing else of sync.c is needed).
 *
 *   drv_c08 bfs K=<n> off=<a,b,..|all> prio=<i,j,..> resched=<N,..|-> rstcb=<v,..|-> rprio=<i> sets=<s,..|-> cap=<maxstates>
 *        breadth-first search over all event sequences with at most K outstanding items.
 *        A state is (ring position, live contents of every bucket in slot order, reference
 *        model: pending items by frame distance).  The ring position is part of the state.
 *        Every transition is: restore state into l1s.tdma_sched, call the real function(s),
 *        judge the observations against the reference, serialise the successor.
 *   drv_c08 replay <tok,tok,...>   one event sequence from the initial (all-zero) state
 *   drv_c08 capacity <pos_lo> <pos_hi>   bucket-capacity sweep for positions in [lo,hi) x all 25 offsets
 *   drv_c08 order <n> <lo> <hi>    all length-n priority sequences over n ranks (n^n), index range
 *
 * Event tokens: s<off>.<pi> schedule a logging item with priority PRIOS[pi]; r<off>.<N>.<pi> schedule an
 * item whose callback schedules a follow-up N frames ahead; z<off>.<v>.<pi> schedule an item whose callback calls
 * tdma_sched_reset() and then schedules nothing (v=0), an item for this frame (1) or for the next frame (2); S<off>.<shape> tdma_schedule_set of one
 * of 5 set shapes; t frame step (execute + advance); x execute without advance; R reset.
 *
 * The reference is written from the property statement: a map (absolute frame -> multiset of
 * (callback, p1, p2, p3, prio)).  What the statement leaves open is accepted either way:
 * order among equal priorities; items of the *current* frame at the time of tdma_sched_reset()
 * (the header says "erase all scheduled items", the implementation leaves the current frame to
 * the execute loop) may run in that frame or not at all; a follow-up that a callback schedules
 * for the frame being executed must run in this frame, after its creator, no priority order is
 * demanded of it.
 *
 * Slots at index >= num_items of a bucket are dead storage; they are filled with an item whose
 * callback reports a violation, so any dependence on dead storage becomes visible, and the live
 * part of the structure is a complete description of the state.
 *
 * Output (on the original stdout; the firmware's own puts/printf go to /dev/null):
 *   V <key> | <message> | <replay token>      at most one per key
 *   {json counters}
 */
#include <stdint.h>
#include <stdio.h>
#include <stdlib.h>
#include <string.h>
#include <stdarg.h>
#include <unistd.h>
#include <sys/types.h>
#include <sys/wait.h>

#include <layer1/tdma_sched.h>
#include <layer1/sync.h>

struct l1s_state l1s;          /* the firmware's L1 state; tdma_sched.c works on l1s.tdma_sched */

#define NB TDMASCHED_NUM_FRAMES
#define NCB TDMASCHED_NUM_CB
#define SCHED (l1s.tdma_sched)

/* bookkeeping of the explorer itself (not the code under test) is exempt from instrumentation: speed */
#define NOSAN __attribute__((no_sanitize("address", "undefined")))
static FILE *res;
static int in_child;            /* verifier child: collect keys, print nothing */
static const int16_t PRIOS[8] = { -32768, -257, -1, 0, 1, 255, 256, 32767 };

/* ------------------------------------------------------------------ observation log */
enum { CB_LOG0, CB_LOG1, CB_LOG2, CB_RESCHED, CB_RST, CB_POISON, CB_OTHER, N_CBID };
struct lent { long frame; uint8_t cb, p1, p2; uint16_t p3; int rrc; };
#define LOGMAX 96
static struct lent lg[LOGMAX];
static int nlog, log_lost;
static long now;               /* absolute frame counter, advanced with tdma_sched_advance() */

static struct lent *logit(uint8_t cb, uint8_t p1, uint8_t p2, uint16_t p3)
{
	static struct lent dummy;
	if (nlog >= LOGMAX) { log_lost++; return &dummy; }
	struct lent *e = &lg[nlog++];
	e->frame = now; e->cb = cb; e->p1 = p1; e->p2 = p2; e->p3 = p3; e->rrc = 0;
	return e;
}
static int cb_log0(uint8_t p1, uint8_t p2, uint16_t p3) { logit(CB_LOG0, p1, p2, p3); return 0; }
static int cb_log1(uint8_t p1, uint8_t p2, uint16_t p3) { logit(CB_LOG1, p1, p2, p3); return 0; }
static int cb_log2(uint8_t p1, uint8_t p2, uint16_t p3) { logit(CB_LOG2, p1, p2, p3); return 0; }
static int cb_poison(uint8_t p1, uint8_t p2, uint16_t p3) { logit(CB_POISON, p1, p2, p3); return 0; }
/* follow-up parameters are a function of the creator's parameters */
#define FU_P1(p1) ((uint8_t)((p1) ^ 0x80))
#define FU_P2 0xEE
#define FU_P3(p3) ((uint16_t)((p3) + 0x0101))
#define FU_PRIO(p1) (PRIOS[((p1) + 3) & 7])
static int cb_resched(uint8_t p1, uint8_t p2, uint16_t p3)
{
	struct lent *e = logit(CB_RESCHED, p1, p2, p3);
	e->rrc = tdma_schedule(p2, &cb_log0, FU_P1(p1), FU_P2, FU_P3(p3), FU_PRIO(p1));
	return 0;
}
/* a callback that resets the scheduler from inside tdma_sched_execute(), as the firmware's own primitives do
 * (prim_fbsb.c), and then, depending on p2, schedules nothing (0), an item for this frame (1) or for the next (2) */
static int cb_rst(uint8_t p1, uint8_t p2, uint16_t p3)
{
	struct lent *e = logit(CB_RST, p1, p2, p3);
	tdma_sched_reset();
	if (p2 == 1 || p2 == 2)
		e->rrc = tdma_schedule(p2 - 1, &cb_log0, FU_P1(p1), FU_P2, FU_P3(p3), FU_PRIO(p1));
	return 0;
}
static tdma_sched_cb *const cbtab[N_CBID] = { cb_log0, cb_log1, cb_log2, cb_resched, cb_rst, cb_poison, NULL };
static const char *const cbname[N_CBID] = { "log0", "log1", "log2", "resched", "reset-cb", "DEAD-SLOT", "unknown-fn" };
NOSAN static uint8_t cbid(tdma_sched_cb *f)
{
	int i;
	for (i = 0; i < CB_OTHER; i++) if (cbtab[i] == f) return i;
	return CB_OTHER;
}

/* ------------------------------------------------------------------ item types (interned) */
struct itype { uint8_t cb, p1, p2; uint16_t p3; int16_t prio; uint16_t flags; };
static struct itype types[256];
static int ntypes;
NOSAN static int intern(uint8_t cb, uint8_t p1, uint8_t p2, uint16_t p3, int16_t prio, uint16_t flags)
{
	int i;
	for (i = 0; i < ntypes; i++)
		if (types[i].cb == cb && types[i].p1 == p1 && types[i].p2 == p2 && types[i].p3 == p3
		    && types[i].prio == prio && types[i].flags == flags)
			return i;
	if (ntypes >= 127) { if (in_child) _exit(3); fprintf(res, "{\"harness_error\": \"type table full\"}\n"); fflush(res); exit(3); }
	types[ntypes].cb = cb; types[ntypes].p1 = p1; types[ntypes].p2 = p2; types[ntypes].p3 = p3;
	types[ntypes].prio = prio; types[ntypes].flags = flags;
	return ntypes++;
}

/* ------------------------------------------------------------------ violations */
/* A violation is only reported (V line) with a trace that reproduces it when executed alone in a process
 * that never ran any other code under test ("pristine"): the exploration runs millions of traces in one
 * process and restores l1s.tdma_sched between them, but state that the code under test keeps elsewhere
 * (file-scope statics) survives, so what a trace shows inside the exploration may be residue of other
 * traces.  A pristine verifier process is forked before anything runs; per request it forks a child that
 * executes one case and answers with the violation keys and a digest of the final state.  Keys seen in the
 * exploration for which no candidate trace reproduces alone are reported as HD lines (history dependent). */
#define MAXV 40
#define MAXATT 400              /* candidate traces re-run alone per key */
struct vrec { char key[96]; int confirmed, attempts; unsigned long count, next_try; char msg[400]; char ex[600]; };
static struct vrec vr[MAXV];
static int nvr;
static unsigned long nviol, n_verify;
static int violated;           /* set by viol(): the transition being executed is bad */
static const char *(*trace_fn)(void);   /* yields the replay token of the current case */
static int verify_enabled, verify_k;
static char child_keys[2400];
static int vrq = -1; static FILE *vrs;

static void run_case_token(const char *tok, int k);
static uint64_t state_digest(void);

static void verifier_start(void)
{
	int rq[2], rs[2];
	pid_t srv;
	if (pipe(rq) || pipe(rs)) exit(3);
	srv = fork();
	if (srv < 0) exit(3);
	if (srv == 0) {
		static char line[16384];
		FILE *in;
		close(rq[1]); close(rs[0]);
		in = fdopen(rq[0], "r");
		while (in && fgets(line, sizeof(line), in)) {
			char *tok = strchr(line, ' ');
			int st = 0;
			pid_t c;
			line[strcspn(line, "\n")] = 0;
			if (!tok) continue;
			*tok++ = 0;
			c = fork();
			if (c == 0) {
				static char out[2600];
				in_child = 1; child_keys[0] = 0;
				run_case_token(tok, atoi(line));
				snprintf(out, sizeof(out), "R %016llx %s\n", (unsigned long long)state_digest(), child_keys);
				if (write(rs[1], out, strlen(out)) < 0) _exit(1);
				_exit(0);
			}
			if (c < 0 || waitpid(c, &st, 0) < 0 || !(WIFEXITED(st) && WEXITSTATUS(st) == 0))
				if (write(rs[1], "DIED\n", 5) < 0) _exit(1);
		}
		_exit(0);
	}
	close(rq[0]); close(rs[1]);
	vrq = rq[1]; vrs = fdopen(rs[0], "r");
}

/* executes `tok` alone in a pristine process.  returns 1 if `key` shows up there (or the case kills the
 * process); *digest / *nkeys describe what the pristine run ended with */
static int verify_case(const char *tok, int k, const char *key, uint64_t *digest, int *nkeys)
{
	static char line[4096], pat[128];
	if (dprintf(vrq, "%d %s\n", k, tok) < 0 || !fgets(line, sizeof(line), vrs)) {
		fprintf(res, "{\"harness_error\": \"verifier process lost\"}\n"); fflush(res); exit(3);
	}
	n_verify++;
	if (!strncmp(line, "DIED", 4)) { if (digest) *digest = 0; if (nkeys) *nkeys = -1; return 1; }
	if (digest) *digest = strtoull(line + 2, NULL, 16);
	if (nkeys) { int n = 0; const char *q; for (q = line + 18; *q; q++) n += *q == ';'; *nkeys = n; }
	snprintf(pat, sizeof(pat), " %s;", key);
	return strstr(line + 18, pat) != NULL;
}

static struct vrec *vrec_for(const char *key)
{
	int i;
	for (i = 0; i < nvr; i++) if (!strcmp(vr[i].key, key)) return &vr[i];
	if (nvr >= MAXV) return NULL;
	memset(&vr[nvr], 0, sizeof(vr[0]));
	snprintf(vr[nvr].key, sizeof(vr[0].key), "%s", key);
	return &vr[nvr++];
}

static void viol(const char *key, const char *fmt, ...)
{
	char msg[600];
	va_list ap;
	struct vrec *r;
	const char *trace;
	violated = 1;
	if (in_child) {
		char pat[128];
		snprintf(pat, sizeof(pat), " %s;", key);
		if (!strstr(child_keys, pat) && strlen(child_keys) + strlen(pat) < sizeof(child_keys)) strcat(child_keys, pat);
		return;
	}
	nviol++;
	if (!(r = vrec_for(key))) return;
	r->count++;
	if (r->confirmed || r->attempts >= MAXATT) return;
	/* candidates: the first 150 occurrences, then a geometrically thinning sample, so that long traces
	 * (which carry their own history) get their turn as well */
	if (r->count > 150 && r->count < r->next_try) return;
	r->next_try = r->count + r->count / 16 + 1;
	trace = trace_fn ? trace_fn() : "-";
	va_start(ap, fmt); vsnprintf(msg, sizeof(msg), fmt, ap); va_end(ap);
	r->attempts++;
	if (!verify_enabled || verify_case(trace, verify_k, key, NULL, NULL)) {
		r->confirmed = 1;
		fprintf(res, "V %s | %s | %s\n", key, msg, trace);
		fflush(res);
	} else if (r->attempts == 1) {
		snprintf(r->msg, sizeof(r->msg), "%s", msg);
		snprintf(r->ex, sizeof(r->ex), "%s", trace);
	}
}

/* keys that were seen but have no trace that reproduces them alone */
static int report_unconfirmed(void)
{
	int i, n = 0;
	for (i = 0; i < nvr; i++)
		if (!vr[i].confirmed) {
			fprintf(res, "HD %s | %s | %s | %lu occurrence(s) in this run; %d of their traces were re-run alone in a fresh process, none shows it there\n",
				vr[i].key, vr[i].msg, vr[i].ex, vr[i].count, vr[i].attempts);
			n++;
		}
	fflush(res);
	return n;
}

/* ------------------------------------------------------------------ reference model */
struct ritem { long due; uint8_t type, opt, pre; };
#define RMAX 240
static struct ritem ref[RMAX];
static int nref;

static void ref_add(long due, int type)
{
	if (nref >= RMAX) { if (in_child) _exit(3); fprintf(res, "{\"harness_error\": \"ref full\"}\n"); fflush(res); exit(3); }
	ref[nref].due = due; ref[nref].type = type; ref[nref].opt = 0; ref[nref].pre = 0; nref++;
}
static void ref_del(int i) { ref[i] = ref[--nref]; }
static int ref_count_due(long due) { int i, n = 0; for (i = 0; i < nref; i++) n += ref[i].due == due; return n; }

/* dead-slot template */
static struct tdma_scheduler tmpl;
static void init_template(void)
{
	int b, s;
	memset(&tmpl, 0, sizeof(tmpl));
	for (b = 0; b < NB; b++)
		for (s = 0; s < NCB; s++) {
			struct tdma_sched_item *it = &tmpl.bucket[b].item[s];
			it->cb = &cb_poison; it->p1 = b; it->p2 = s; it->p3 = 0xDEAD; it->prio = 0; it->flags = 0;
		}
}

/* ------------------------------------------------------------------ set shapes */
struct sdesc { int frame; uint8_t cb; int16_t prio; uint8_t p1, p2; uint16_t flags; };
struct shape { int nframes, nitems, trailing_endframe; uint16_t p3; struct sdesc d[8]; };
#define DT (TDMA_IFLG_TPU | TDMA_IFLG_DSP)
#define NSHAPES 9
static const struct shape shapes[NSHAPES] = {
	/* 0: one frame, one item */
	{ 1, 1, 0, 0xB0A1, { { 0, CB_LOG1, 0, 0x21, 0x01, 0 } } },
	/* 1: one frame, three items, descending then tie */
	{ 1, 3, 0, 0xB1A2, { { 0, CB_LOG1, 5, 0x22, 0x02, DT }, { 0, CB_LOG2, -3, 0x23, 0x03, 0 }, { 0, CB_LOG1, 5, 0x24, 0x04, 0 } } },
	/* 2: two frames (2 + 1), trailing end-of-frame marker as the firmware's own sets have */
	{ 2, 3, 1, 0xB2A3, { { 0, CB_LOG2, 2, 0x25, 0x05, 0 }, { 0, CB_LOG1, 1, 0x26, 0x06, DT }, { 1, CB_LOG1, 0, 0x27, 0x07, 0 } } },
	/* 3: three frames, the middle one empty */
	{ 3, 3, 0, 0xB3A4, { { 0, CB_LOG1, -1, 0x28, 0x08, 0 }, { 2, CB_LOG2, 32767, 0x29, 0x09, 0 }, { 2, CB_LOG1, -32768, 0x2A, 0x0A, DT } } },
	/* 4: three frames 3 + 2 + 1 */
	{ 3, 6, 1, 0xB4A5, { { 0, CB_LOG1, 3, 0x2B, 0x0B, 0 }, { 0, CB_LOG2, 1, 0x2C, 0x0C, 0 }, { 0, CB_LOG1, 2, 0x2D, 0x0D, 0 },
			     { 1, CB_LOG2, 0, 0x2E, 0x0E, DT }, { 1, CB_LOG1, 0, 0x2F, 0x0F, 0 }, { 2, CB_LOG2, -7, 0x30, 0x10, 0 } } },
	/* 5: four frames, one item each (like the firmware's burst sets), trailing end-of-frame marker */
	{ 4, 4, 1, 0xB5A6, { { 0, CB_LOG1, 0, 0x31, 0x11, DT }, { 1, CB_LOG2, 0, 0x32, 0x12, 0 }, { 2, CB_LOG1, 0, 0x33, 0x13, 0 }, { 3, CB_LOG2, 0, 0x34, 0x14, DT } } },
	/* 6: synthetic six-frame set, 2+1+1+1+1+2 items (sets 5 and 6 are used by the set sweep only) */
	{ 6, 8, 0, 0xB6A7, { { 0, CB_LOG1, 1, 0x35, 0x15, 0 }, { 0, CB_LOG2, -1, 0x36, 0x16, 0 }, { 1, CB_LOG1, 0, 0x37, 0x17, 0 }, { 2, CB_LOG2, 0, 0x38, 0x18, DT },
			     { 3, CB_LOG1, 0, 0x39, 0x19, 0 }, { 4, CB_LOG2, 0, 0x3A, 0x1A, 0 }, { 5, CB_LOG1, 9, 0x3B, 0x1B, 0 }, { 5, CB_LOG2, 9, 0x3C, 0x1C, DT } } },
	/* 7: five frames of which the second and third are idle (three end-of-frame markers in a row), as in the
	 * firmware's power-measurement / RACH sets; trailing marker (set sweep only) */
	{ 5, 4, 1, 0xB7A8, { { 0, CB_LOG1, 0, 0x3D, 0x1D, DT }, { 3, CB_LOG2, 4, 0x3E, 0x1E, 0 }, { 3, CB_LOG1, -4, 0x3F, 0x1F, 0 }, { 4, CB_LOG2, 0, 0x20, 0x20, 0 } } },
	/* 8: two frames (2 + 1), scheduled with p3 = 0 while the hand-built template items carry non-zero, pairwise
	 * different p3 values (as every template here does): the callbacks must get 0, the argument */
	{ 2, 3, 0, 0x0000, { { 0, CB_LOG1, 1, 0x4A, 0x2A, 0 }, { 0, CB_LOG2, -1, 0x4B, 0x2B, DT }, { 1, CB_LOG1, 0, 0x4C, 0x2C, 0 } } },
};
/* the array handed to tdma_schedule_set() is generated from the description with the header's macros */
static struct tdma_sched_item setarr[NSHAPES][20];
static int set_j[NSHAPES];           /* number of end-of-frame markers */
static void build_sets(void)
{
	int s, i;
	for (s = 0; s < NSHAPES; s++) {
		const struct shape *sh = &shapes[s];
		int n = 0, f = 0;
		for (i = 0; i < sh->nitems; i++) {
			while (f < sh->d[i].frame) { struct tdma_sched_item e = SCHED_END_FRAME(); setarr[s][n++] = e; f++; }
			struct tdma_sched_item it = SCHED_ITEM(cbtab[sh->d[i].cb], sh->d[i].prio, sh->d[i].p1, sh->d[i].p2);
			it.flags = sh->d[i].flags;
			it.p3 = 0x7701 + 0x0111 * i;   /* the template's own p3 (non-zero, different per item) must never reach a callback */
			setarr[s][n++] = it;
		}
		if (sh->trailing_endframe) { struct tdma_sched_item e = SCHED_END_FRAME(); setarr[s][n++] = e; f++; }
		struct tdma_sched_item e = SCHED_END_SET();
		setarr[s][n++] = e;
		set_j[s] = f;
	}
}

/* ------------------------------------------------------------------ events on the real code + reference */
static void check_no_calls(const char *what)
{
	if (nlog || log_lost)
		viol("C08:callback-outside-execute", "%d callback(s) ran during %s (first: %s p1=0x%02x p2=0x%02x p3=0x%04x)",
		     nlog + log_lost, what, cbname[lg[0].cb], lg[0].p1, lg[0].p2, lg[0].p3);
}

static void ev_schedule(int off, int pi)
{
	uint8_t p1 = 0x40 + pi, p2 = 0x5A ^ pi; uint16_t p3 = 0xC3A5 + 0x0111 * pi;
	int full = ref_count_due(now + off) >= NCB;
	nlog = 0;
	int rc = tdma_schedule(off, &cb_log0, p1, p2, p3, PRIOS[pi]);
	check_no_calls("tdma_schedule");
	if (full) {
		if (rc >= 0) viol("C08:overflow-not-reported", "tdma_schedule(off=%d) into a full frame returned %d, expected an error (-1)", off, rc);
		else if (rc != -1) viol("C08:retval:schedule", "tdma_schedule(off=%d) into a full frame returned %d, expected -1", off, rc);
		return;
	}
	if (rc != 0) viol(rc < 0 ? "C08:schedule-refused" : "C08:retval:schedule", "tdma_schedule(off=%d, prio=%d) returned %d, expected 0", off, PRIOS[pi], rc);
	ref_add(now + off, intern(CB_LOG0, p1, p2, p3, PRIOS[pi], 0));
}

static void ev_resched(int off, int N, int pi)
{
	uint8_t p1 = 0x10 + pi, p2 = N; uint16_t p3 = 0x1234 + 0x0100 * N;
	nlog = 0;
	int rc = tdma_schedule(off, &cb_resched, p1, p2, p3, PRIOS[pi]);
	check_no_calls("tdma_schedule");
	if (rc != 0) viol(rc < 0 ? "C08:schedule-refused" : "C08:retval:schedule", "tdma_schedule(off=%d, prio=%d) returned %d, expected 0", off, PRIOS[pi], rc);
	ref_add(now + off, intern(CB_RESCHED, p1, p2, p3, PRIOS[pi], 0));
}

static void ev_rstcb(int off, int variant, int pi)
{
	uint8_t p1 = 0x50 + pi, p2 = variant; uint16_t p3 = 0x4321 + 0x0100 * variant;
	nlog = 0;
	int rc = tdma_schedule(off, &cb_rst, p1, p2, p3, PRIOS[pi]);
	check_no_calls("tdma_schedule");
	if (rc != 0) viol(rc < 0 ? "C08:schedule-refused" : "C08:retval:schedule", "tdma_schedule(off=%d, prio=%d) returned %d, expected 0", off, PRIOS[pi], rc);
	ref_add(now + off, intern(CB_RST, p1, p2, p3, PRIOS[pi], 0));
}

static unsigned long n_set_nonfirst_slot24, n_set_wrapping;   /* set calls with a non-first frame in ring slot 24 / crossing 24->0 */
static void ev_set(int off, int s)
{
	const struct shape *sh = &shapes[s];
	int i;
	{
		int first = (SCHED.cur_bucket + off) % NB, hit = 0;
		for (i = 1; i < sh->nframes; i++) hit |= (first + i) % NB == NB - 1;
		n_set_nonfirst_slot24 += hit;
		n_set_wrapping += first + sh->nframes - 1 >= NB;
	}
	nlog = 0;
	int rc = tdma_schedule_set(off, setarr[s], sh->p3);
	check_no_calls("tdma_schedule_set");
	if (rc < 0) viol("C08:schedule-refused", "tdma_schedule_set(off=%d, shape %d) returned %d although no frame is full", off, s, rc);
	else if (rc != set_j[s]) viol("C08:retval:schedule_set", "tdma_schedule_set(off=%d, shape %d) returned %d, expected %d (frames advanced)", off, s, rc, set_j[s]);
	for (i = 0; i < sh->nitems; i++)
		ref_add(now + off + sh->d[i].frame, intern(sh->d[i].cb, sh->d[i].p1, sh->d[i].p2, sh->p3, sh->d[i].prio, sh->d[i].flags));
}

static unsigned long n_reset_in_cb;
static unsigned long exec_hist[9];   /* execute calls by number of callbacks they ran (8 = 8 or more) */
static const char *hist_json(void)
{
	static char b[256];
	snprintf(b, sizeof(b), "\"executed_per_call_hist\": [%lu, %lu, %lu, %lu, %lu, %lu, %lu, %lu, %lu]",
		 exec_hist[0], exec_hist[1], exec_hist[2], exec_hist[3], exec_hist[4], exec_hist[5], exec_hist[6], exec_hist[7], exec_hist[8]);
	return b;
}

static void ev_exec(void)
{
	int i, k;
	int load_max = 0, load_min = 0;      /* items this frame has held since it was last emptied (a frame's capacity is 8) */
	for (i = 0; i < nref; i++) { ref[i].pre = 1; if (ref[i].due == now) { load_max++; load_min += !ref[i].opt; } }
	nlog = 0; log_lost = 0;
	int rc = tdma_sched_execute();
	exec_hist[nlog + log_lost < 8 ? nlog + log_lost : 8]++;
	int have_last = 0; int16_t last = 0;
	for (k = 0; k < nlog; k++) {
		struct lent *e = &lg[k];
		int hit = -1, other = -1;
		if (e->cb == CB_POISON) {
			viol("C08:dead-slot-executed", "frame %ld: executed storage beyond num_items (bucket %d slot %d)", now, e->p1, e->p2);
			continue;
		}
		for (i = 0; i < nref; i++) {
			struct itype *t = &types[ref[i].type];
			if (t->cb != e->cb || t->p1 != e->p1 || t->p2 != e->p2 || t->p3 != e->p3) continue;
			if (ref[i].due == now) { if (hit < 0 || (ref[hit].opt && !ref[i].opt)) hit = i; }
			else other = i;
		}
		if (hit < 0) {
			if (other >= 0)
				viol(ref[other].due > now ? "C08:ran-early" : "C08:ran-late",
				     "item %s(p1=0x%02x,p2=0x%02x,p3=0x%04x) ran %ld frame(s) %s its frame",
				     cbname[e->cb], e->p1, e->p2, e->p3, labs(ref[other].due - now), ref[other].due > now ? "before" : "after");
			else {
				/* same callback and p1/p2 pending with a different p3 -> parameter damage */
				int pd = 0;
				for (i = 0; i < nref; i++) {
					struct itype *t = &types[ref[i].type];
					if (ref[i].due == now && t->cb == e->cb && t->p1 == e->p1 && t->p2 == e->p2) pd = 1;
				}
				viol(pd ? "C08:wrong-params" : "C08:ran-unscheduled",
				     "frame step ran %s(p1=0x%02x,p2=0x%02x,p3=0x%04x) which is not scheduled%s",
				     cbname[e->cb], e->p1, e->p2, e->p3, pd ? " with these parameters (p3 differs)" : " for any frame (stale, duplicate or damaged item)");
			}
			continue;
		}
		if (ref[hit].pre) {
			int16_t pr = types[ref[hit].type].prio;
			if (have_last && pr < last)
				viol("C08:priority-order", "frame ran an item of priority %d after one of priority %d", pr, last);
			last = pr; have_last = 1;
		}
		ref_del(hit);
		if (e->cb == CB_RST) {
			/* tdma_sched_reset() from inside the frame: everything scheduled for later frames is gone; what is
			 * still pending in this frame may run in it or not at all (header: "erase all scheduled items";
			 * tdma_sched.c: "current bucket will be reset by iteration code above") */
			n_reset_in_cb++;
			for (i = 0; i < nref; i++) {
				if (ref[i].due > now) { ref_del(i); i--; }
				else ref[i].opt = 1;
			}
			load_min = 0;
		}
		if (e->cb == CB_RESCHED || (e->cb == CB_RST && e->p2 >= 1 && e->p2 <= 2)) {
			/* an item scheduled by the callback: accepted -> it must run exactly once in its frame */
			int off = e->cb == CB_RESCHED ? e->p2 : e->p2 - 1;
			int lmax = off ? ref_count_due(now + off) : load_max, lmin = off ? lmax : load_min;
			if (lmax < NCB && e->rrc != 0) viol("C08:schedule-refused", "tdma_schedule(off=%d) from a callback returned %d, expected 0", off, e->rrc);
			else if (lmin >= NCB && e->rrc >= 0) viol("C08:overflow-not-reported", "tdma_schedule(off=%d) from a callback into a full frame returned %d", off, e->rrc);
			if (e->rrc == 0 && lmin < NCB) {
				ref_add(now + off, intern(CB_LOG0, FU_P1(e->p1), FU_P2, FU_P3(e->p3), FU_PRIO(e->p1), 0));
				if (!off) { load_max++; load_min++; }
			}
		}
	}
	if (log_lost) viol("C08:runaway-execute", "more than %d callbacks in one execute", LOGMAX);
	for (i = 0; i < nref; i++)
		if (ref[i].due == now && ref[i].pre && !ref[i].opt) {
			struct itype *t = &types[ref[i].type];
			viol("C08:not-executed", "item %s(p1=0x%02x,p2=0x%02x,p3=0x%04x,prio=%d) is due in this frame but tdma_sched_execute did not run it",
			     cbname[t->cb], t->p1, t->p2, t->p3, t->prio);
			ref_del(i); i--;
		}
	if (rc != nlog + log_lost)
		viol("C08:retval:execute", "tdma_sched_execute returned %d after running %d item(s)", rc, nlog + log_lost);
	if (SCHED.bucket[SCHED.cur_bucket % NB].num_items != 0) {
		viol("C08:bucket-not-empty", "executed frame still holds %u item(s)", SCHED.bucket[SCHED.cur_bucket % NB].num_items);
		/* the observable side of it (this transition is not continued anyway): executing the frame once more */
		nlog = 0; log_lost = 0;
		tdma_sched_execute();
		if (nlog + log_lost)
			viol("C08:ran-twice", "a second tdma_sched_execute() in the same frame ran %d item(s) again (first: %s p1=0x%02x p2=0x%02x p3=0x%04x)",
			     nlog + log_lost, cbname[lg[0].cb], lg[0].p1, lg[0].p2, lg[0].p3);
	}
	nlog = 0;
}

static void ev_advance(void)
{
	int i;
	nlog = 0;
	tdma_sched_advance();
	check_no_calls("tdma_sched_advance");
	for (i = 0; i < nref; i++)
		if (ref[i].due == now) {
			if (!ref[i].opt) {
				struct itype *t = &types[ref[i].type];
				viol("C08:not-executed", "item %s(p1=0x%02x,p2=0x%02x,p3=0x%04x) was still pending when its frame ended",
				     cbname[t->cb], t->p1, t->p2, t->p3);
			}
			ref_del(i); i--;
		}
	now++;
}

static void ev_reset(void)
{
	int i;
	nlog = 0;
	tdma_sched_reset();
	check_no_calls("tdma_sched_reset");
	for (i = 0; i < nref; i++) {
		if (ref[i].due == now) ref[i].opt = 1;
		else { ref_del(i); i--; }
	}
}

/* ------------------------------------------------------------------ state (de)serialisation */
static int K, MAXREAL, RECSZ;
#define REC_HDR 3

/* serialise the real scheduler + reference; returns 0 if the real state is outside the representable space */
/* plausibility of the real structure, independent of the state encoding (also used by replay):
 * ring position inside the ring, no bucket over-full, not more live items than MAXREAL (= K + 4) */
NOSAN static int scan_real(void)
{
	int b, n = 0;
	if (SCHED.cur_bucket >= NB) { viol("C08:ring-position", "cur_bucket = %u", SCHED.cur_bucket); return 0; }
	for (b = 0; b < NB; b++) {
		if (SCHED.bucket[b].num_items > NCB) { viol("C08:num-items-corrupt", "bucket %d num_items = %u", b, SCHED.bucket[b].num_items); return 0; }
		n += SCHED.bucket[b].num_items;
	}
	if (n > MAXREAL) { viol("C08:items-multiply", "scheduler holds %d live items with %d scheduled (bound: %d outstanding)", n, nref, MAXREAL - 4); return 0; }
	return 1;
}

NOSAN static int serialise(uint8_t *rec)
{
	int b, s, n = 0, i, j;
	if (!scan_real()) return 0;
	memset(rec, 0xFF, RECSZ);
	rec[0] = SCHED.cur_bucket;
	for (b = 0; b < NB; b++) {
		struct tdma_sched_bucket *bk = &SCHED.bucket[b];
		for (s = 0; s < bk->num_items; s++) {
			struct tdma_sched_item *it = &bk->item[s];
			rec[REC_HDR + 2 * n] = b * NCB + s;
			rec[REC_HDR + 2 * n + 1] = intern(cbid(it->cb), it->p1, it->p2, it->p3, it->prio, it->flags);
			n++;
		}
	}
	rec[1] = n;
	if (nref > K + 1) { fprintf(res, "{\"harness_error\": \"nref %d > K+1\"}\n", nref); fflush(res); exit(3); }
	rec[2] = nref;
	/* canonical order of the reference multiset */
	uint16_t keys[RMAX];
	for (i = 0; i < nref; i++)
		keys[i] = (uint16_t)(((ref[i].due - now) << 8) | (ref[i].type << 1) | ref[i].opt);
	for (i = 1; i < nref; i++) { uint16_t k = keys[i]; for (j = i; j > 0 && keys[j - 1] > k; j--) keys[j] = keys[j - 1]; keys[j] = k; }
	uint8_t *r = rec + REC_HDR + 2 * MAXREAL;
	for (i = 0; i < nref; i++) { r[2 * i] = keys[i] >> 8; r[2 * i + 1] = keys[i] & 0xff; }
	return 1;
}

NOSAN static void restore(const uint8_t *rec)
{
	int i;
	memcpy(&SCHED, &tmpl, sizeof(tmpl));
	SCHED.cur_bucket = rec[0];
	for (i = 0; i < rec[1]; i++) {
		int pos = rec[REC_HDR + 2 * i];
		const struct itype *t = &types[rec[REC_HDR + 2 * i + 1]];
		struct tdma_sched_bucket *bk = &SCHED.bucket[pos / NCB];
		struct tdma_sched_item *it = &bk->item[pos % NCB];
		it->cb = cbtab[t->cb]; it->p1 = t->p1; it->p2 = t->p2; it->p3 = t->p3; it->prio = t->prio; it->flags = t->flags;
		if (bk->num_items < pos % NCB + 1) bk->num_items = pos % NCB + 1;
	}
	now = 1000;
	nref = rec[2];
	const uint8_t *r = rec + REC_HDR + 2 * MAXREAL;
	for (i = 0; i < nref; i++) {
		ref[i].due = now + r[2 * i];
		ref[i].type = r[2 * i + 1] >> 1;
		ref[i].opt = r[2 * i + 1] & 1;
		ref[i].pre = 0;
	}
	nlog = 0; log_lost = 0;
}

/* ------------------------------------------------------------------ events as tokens */
struct event { char kind; int a, b, c; };
static int ev_cost(const struct event *e)
{
	switch (e->kind) {
	case 's': case 'r': case 'z': return 1;
	case 'S': return shapes[e->b].nitems;
	}
	return 0;
}
static int ev_enabled(const struct event *e)
{
	if (ev_cost(e) && nref + ev_cost(e) > K) return 0;
	/* the statement covers offsets below the scheduler depth: a set's last frame must be < 25 ahead */
	if (e->kind == 'S' && e->a + shapes[e->b].nframes - 1 >= NB) return 0;
	if (e->kind == 'r' && e->b >= NB) return 0;
	return 1;
}
static void ev_apply(const struct event *e)
{
	switch (e->kind) {
	case 's': ev_schedule(e->a, e->b); break;
	case 'r': ev_resched(e->a, e->b, e->c); break;
	case 'z': ev_rstcb(e->a, e->b, e->c); break;
	case 'S': ev_set(e->a, e->b); break;
	case 't': ev_exec(); ev_advance(); break;
	case 'x': ev_exec(); break;
	case 'R': ev_reset(); break;
	}
}
static int ev_print(char *buf, const struct event *e)
{
	switch (e->kind) {
	case 's': case 'S': return sprintf(buf, "%c%d.%d", e->kind, e->a, e->b);
	case 'r': case 'z': return sprintf(buf, "%c%d.%d.%d", e->kind, e->a, e->b, e->c);
	}
	return sprintf(buf, "%c", e->kind);
}
static int ev_parse(const char *tok, struct event *e)
{
	e->kind = tok[0]; e->a = e->b = e->c = 0;
	switch (tok[0]) {
	case 's': if (sscanf(tok + 1, "%d.%d", &e->a, &e->b) != 2 || e->b < 0 || e->b > 7 || e->a < 0 || e->a > 255) return 0; return 1;
	case 'S': if (sscanf(tok + 1, "%d.%d", &e->a, &e->b) != 2 || e->b < 0 || e->b >= NSHAPES || e->a < 0 || e->a > 255) return 0; return 1;
	case 'r': if (sscanf(tok + 1, "%d.%d.%d", &e->a, &e->b, &e->c) != 3 || e->c < 0 || e->c > 7 || e->b < 0 || e->b > 255) return 0; return 1;
	case 'z': if (sscanf(tok + 1, "%d.%d.%d", &e->a, &e->b, &e->c) != 3 || e->c < 0 || e->c > 7 || e->b < 0 || e->b > 2 || e->a < 0 || e->a > 255) return 0; return 1;
	case 't': case 'x': case 'R': return tok[1] == 0;
	}
	return 0;
}

/* ------------------------------------------------------------------ BFS */
static struct event *alpha; static int nalpha;
static uint8_t *states; static uint32_t *parent; static uint16_t *pev; static uint8_t *sdepth;
static uint32_t nstates, capstates;
static uint32_t *htab; static uint32_t hmask;
static uint32_t cur_state; static int cur_ev;

NOSAN static uint64_t hash_rec(const uint8_t *r)
{
	uint64_t h = 1469598103934665603ull; int i;
	for (i = 0; i < RECSZ; i++) { h ^= r[i]; h *= 1099511628211ull; }
	return h ^ (h >> 29);
}

static char tracebuf[8192];
static const char *bfs_trace(void)
{
	/* path root -> cur_state, then cur_ev */
	static uint32_t chain[4096];
	int n = 0, i; uint32_t s = cur_state;
	while (s != 0 && n < 4096) { chain[n++] = s; s = parent[s]; }
	char *p = tracebuf; *p = 0;
	for (i = n - 1; i >= 0; i--) {
		if (p - tracebuf > (int)sizeof(tracebuf) - 40) break;
		p += ev_print(p, &alpha[pev[chain[i]]]); *p++ = ',';
	}
	if (cur_ev >= 0) p += ev_print(p, &alpha[cur_ev]); else if (p > tracebuf) p--;
	*p = 0;
	return tracebuf;
}

static int parse_list(const char *s, int *out, int max, int all_n)
{
	int n = 0;
	if (!strcmp(s, "-")) return 0;
	if (!strcmp(s, "all")) { for (n = 0; n < all_n; n++) out[n] = n; return n; }
	while (*s && n < max) { out[n++] = strtol(s, (char **)&s, 10); if (*s == ',') s++; }
	return n;
}

/* sanitizer reports end in abort() (ASAN/UBSAN_OPTIONS abort_on_error=1): name the case that was running */
#include <signal.h>
static void on_abort(int sig)
{
	(void)sig;
	if (in_child) _exit(96);
	fprintf(res, "CRASH | %s\n", trace_fn ? trace_fn() : "-");
	fflush(res);
	_exit(96);
}

NOSAN static int do_bfs(int argc, char **argv)
{
	int offs[32], noff = 0, prios[8], nprio = 0, rs[8], nr = 0, sets[5], nset = 0, zs[3], nz = 0, rprio = 3, i, j;
	unsigned long cap = 4000000;
	K = 2;
	for (i = 2; i < argc; i++) {
		if (!strncmp(argv[i], "K=", 2)) K = atoi(argv[i] + 2);
		else if (!strncmp(argv[i], "off=", 4)) noff = parse_list(argv[i] + 4, offs, 32, NB);
		else if (!strncmp(argv[i], "prio=", 5)) nprio = parse_list(argv[i] + 5, prios, 8, 8);
		else if (!strncmp(argv[i], "resched=", 8)) nr = parse_list(argv[i] + 8, rs, 8, 0);
		else if (!strncmp(argv[i], "rstcb=", 6)) nz = parse_list(argv[i] + 6, zs, 3, 3);
		else if (!strncmp(argv[i], "rprio=", 6)) rprio = atoi(argv[i] + 6);
		else if (!strncmp(argv[i], "sets=", 5)) nset = parse_list(argv[i] + 5, sets, 5, 5);
		else if (!strncmp(argv[i], "cap=", 4)) cap = strtoul(argv[i] + 4, 0, 0);
		else return 2;
	}
	if (K < 1 || K > 12) return 2;
	MAXREAL = K + 4;
	verify_k = K;
	RECSZ = REC_HDR + 2 * MAXREAL + 2 * (K + 1);
	alpha = calloc(noff * (nprio + nr + nset + nz) + 3, sizeof(*alpha));
	for (i = 0; i < noff; i++) {
		for (j = 0; j < nprio; j++) alpha[nalpha++] = (struct event){ 's', offs[i], prios[j], 0 };
		for (j = 0; j < nr; j++) alpha[nalpha++] = (struct event){ 'r', offs[i], rs[j], rprio };
		for (j = 0; j < nz; j++) alpha[nalpha++] = (struct event){ 'z', offs[i], zs[j], rprio };
		for (j = 0; j < nset; j++) alpha[nalpha++] = (struct event){ 'S', offs[i], sets[j], 0 };
	}
	alpha[nalpha++] = (struct event){ 't', 0, 0, 0 };
	alpha[nalpha++] = (struct event){ 'x', 0, 0, 0 };
	alpha[nalpha++] = (struct event){ 'R', 0, 0, 0 };

	capstates = cap;
	states = malloc((size_t)RECSZ * (capstates + 1));
	parent = malloc(sizeof(uint32_t) * (capstates + 1));
	pev = malloc(sizeof(uint16_t) * (capstates + 1));
	sdepth = malloc(capstates + 1);
	for (hmask = 1; hmask < 2 * capstates + 16; hmask <<= 1);
	htab = malloc(sizeof(uint32_t) * (size_t)hmask);
	if (!states || !parent || !pev || !sdepth || !htab) return 3;
	memset(htab, 0xFF, sizeof(uint32_t) * (size_t)hmask);
	hmask--;
	trace_fn = bfs_trace;

	/* initial state: the zero-initialised structure the firmware starts with (all positions are
	 * reached from it through frame steps) */
	memset(&SCHED, 0, sizeof(SCHED));
	now = 1000; nref = 0;
	uint8_t rec[128];
	cur_state = 0; cur_ev = -1;
	/* the zeroed structure and the dead-slot-filled empty structure are the same state as far as
	 * live content goes */
	serialise(rec);
	memcpy(states, rec, RECSZ);
	parent[0] = 0; pev[0] = 0; sdepth[0] = 0;
	htab[hash_rec(rec) & hmask] = 0;
	nstates = 1;

	unsigned long ntrans = 0, nbad = 0, nexec_calls = 0, nitems_run = 0, nsched_ok = 0, nsets_ok = 0, nreset = 0, ndup = 0;
	unsigned long per_pos[NB]; memset(per_pos, 0, sizeof(per_pos));
	int maxdepth = 0, hitcap = 0, max_out = 0;
	uint32_t head;
	for (head = 0; head < nstates && !hitcap; head++) {
		const uint8_t *src = states + (size_t)RECSZ * head;
		per_pos[src[0]]++;
		if (src[2] > max_out) max_out = src[2];
		for (i = 0; i < nalpha; i++) {
			nref = src[2];
			if (!ev_enabled(&alpha[i])) continue;
			restore(src);
			cur_state = head; cur_ev = i;
			violated = 0;
			if (alpha[i].kind == 't' || alpha[i].kind == 'x') { nexec_calls++; nitems_run += ref_count_due(now); }
			ev_apply(&alpha[i]);
			ntrans++;
			if (!violated && !serialise(rec)) violated = 1;
			if (violated) { nbad++; continue; }
			if (alpha[i].kind == 's' || alpha[i].kind == 'r') nsched_ok++;
			else if (alpha[i].kind == 'S') nsets_ok++;
			else if (alpha[i].kind == 'R') nreset++;
			uint64_t h = hash_rec(rec) & hmask;
			for (;;) {
				uint32_t v = htab[h];
				if (v == 0xFFFFFFFFu) break;
				if (!memcmp(states + (size_t)RECSZ * v, rec, RECSZ)) break;
				h = (h + 1) & hmask;
			}
			if (htab[h] != 0xFFFFFFFFu) { ndup++; continue; }
			if (nstates >= capstates) { hitcap = 1; break; }
			memcpy(states + (size_t)RECSZ * nstates, rec, RECSZ);
			parent[nstates] = head; pev[nstates] = i;
			sdepth[nstates] = sdepth[head] < 255 ? sdepth[head] + 1 : 255;
			if (sdepth[nstates] > maxdepth) maxdepth = sdepth[nstates];
			htab[h] = nstates++;
			src = states + (size_t)RECSZ * head;
		}
	}
	/* explored traces, re-run alone in a pristine process, must end in the state the search recorded and
	 * show no violation: anything else means the result of a trace depends on what ran before it in the
	 * same process (state outside l1s.tdma_sched) */
	unsigned long nsampled = 0, nsample_bad = 0;
	{
		uint32_t step = nstates / 256 + 1, sidx;
		struct vrec *r = NULL;
		for (sidx = nstates - 1; sidx > 0 && sidx < nstates; sidx = sidx > step ? sidx - step : 0) {
			uint64_t want, got; int nk;
			restore(states + (size_t)RECSZ * sidx);
			want = state_digest();
			cur_state = sidx; cur_ev = -1;
			verify_case(bfs_trace(), K, "-", &got, &nk);
			nsampled++;
			if (nk != 0 || got != want) {
				nsample_bad++; nviol++;
				if (!r && (r = vrec_for("sampled-trace"))) {
					snprintf(r->msg, sizeof(r->msg), "an explored trace, run alone, %s", nk < 0 ? "kills the process" : nk ? "shows a violation" : "ends in a different scheduler state");
					snprintf(r->ex, sizeof(r->ex), "%s", bfs_trace());
				}
				if (r) { r->count++; r->attempts++; }
			}
		}
	}
	int hd = report_unconfirmed();
	int minpos = -1, npos = 0;
	for (i = 0; i < NB; i++) { if (per_pos[i]) npos++; if (minpos < 0 || per_pos[i] < (unsigned long)minpos) minpos = per_pos[i]; }
	fprintf(res, "{\"states\": %u, \"transitions\": %lu, \"bad_transitions\": %lu, \"depth\": %d, \"frontier_exhausted\": %s, "
		"\"alphabet\": %d, \"K\": %d, \"max_outstanding\": %d, \"ring_positions\": %d, \"min_states_per_position\": %d, "
		"\"execute_calls\": %lu, \"items_due_at_execute\": %lu, \"schedule_calls\": %lu, \"set_calls\": %lu, \"resets\": %lu, "
		"\"revisits\": %lu, \"item_types\": %d, \"set_calls_nonfirst_frame_on_slot24\": %lu, \"set_calls_wrapping_ring\": %lu, "
		"\"resets_from_callbacks\": %lu, \"sampled_traces_rerun_alone\": %lu, \"sampled_traces_differing\": %lu, \"history_dependent_keys\": %d, \"verify_requests\": %lu, %s, \"violations\": %lu}\n",
		nstates, ntrans, nbad, maxdepth, hitcap ? "false" : "true", nalpha, K, max_out, npos, minpos,
		nexec_calls, nitems_run, nsched_ok, nsets_ok, nreset, ndup, ntypes, n_set_nonfirst_slot24, n_set_wrapping, n_reset_in_cb, nsampled, nsample_bad, hd, n_verify, hist_json(), nviol);
	fflush(res);
	return nviol ? 1 : 0;
}

/* ------------------------------------------------------------------ one event sequence from the boot state */
static char casebuf[600];
static const char *case_trace(void) { return casebuf; }

/* dead-slot discipline as in the search: refill storage beyond num_items */
static void scrub(void)
{
	int b, sl;
	for (b = 0; b < NB; b++)
		for (sl = SCHED.bucket[b].num_items <= NCB ? SCHED.bucket[b].num_items : NCB; sl < NCB; sl++)
			SCHED.bucket[b].item[sl] = tmpl.bucket[b].item[sl];
}

/* digest of the live scheduler content and the reference, independent of item-type numbering */
static uint64_t state_digest(void)
{
	uint64_t h = 1469598103934665603ull, sum = 0;
	int b, sl, i;
#define DG(x) do { h ^= (uint64_t)(x); h *= 1099511628211ull; } while (0)
	DG(SCHED.cur_bucket);
	for (b = 0; b < NB; b++) {
		int n = SCHED.bucket[b].num_items <= NCB ? SCHED.bucket[b].num_items : NCB;
		DG(SCHED.bucket[b].num_items);
		for (sl = 0; sl < n; sl++) {
			struct tdma_sched_item *it = &SCHED.bucket[b].item[sl];
			DG(cbid(it->cb)); DG(it->p1); DG(it->p2); DG(it->p3); DG((uint16_t)it->prio); DG(it->flags);
		}
	}
	for (i = 0; i < nref; i++) {
		struct itype *t = &types[ref[i].type];
		uint64_t x = 0x9E3779B97F4A7C15ull * (uint64_t)(ref[i].due - now + 1);
		x ^= ((uint64_t)t->cb << 56) ^ ((uint64_t)t->p1 << 48) ^ ((uint64_t)t->p2 << 40) ^ ((uint64_t)t->p3 << 24) ^ ((uint64_t)(uint16_t)t->prio << 8) ^ (t->flags << 1) ^ ref[i].opt;
		x *= 0xD6E8FEB86659FD93ull; x ^= x >> 32;
		sum += x;
	}
	DG(sum); DG(nref);
#undef DG
	return h;
}

/* returns the number of events executed, -1 for a malformed list */
static int replay_events(const char *s, int k)
{
	char *dup = strdup(s), *tok;
	struct event e;
	int n = 0;
	snprintf(casebuf, sizeof(casebuf), "%s", s); trace_fn = case_trace;
	K = 250; MAXREAL = k > 0 ? k + 4 : 250;   /* k: the bound of the search that produced the case */
	memcpy(&SCHED, &tmpl, sizeof(tmpl));   /* live content as after boot: nothing scheduled, position 0 */
	now = 1000; nref = 0; nlog = 0; log_lost = 0;
	for (tok = strtok(dup, ","); tok; tok = strtok(NULL, ",")) {
		if (!ev_parse(tok, &e) || !ev_enabled(&e)) { free(dup); return -1; }
		violated = 0;
		ev_apply(&e);
		n++;
		if (!violated) scan_real();
		if (violated) break;       /* as in the search: a violating transition is not continued */
		scrub();
	}
	free(dup);
	return n;
}

/* ------------------------------------------------------------------ capacity sweep */
static void goto_position(int pos)
{
	int i;
	memcpy(&SCHED, &tmpl, sizeof(tmpl));
	now = 1000; nref = 0; nlog = 0; log_lost = 0;
	for (i = 0; i < pos; i++) ev_advance();   /* real tdma_sched_advance() */
}

/* run 25 frame steps: everything in the reference must come out in its frame, nothing else */
static void drain(void) { int i; for (i = 0; i < NB; i++) { ev_exec(); ev_advance(); scrub(); } }

static unsigned long cap_refused, cap_filled;
static void capacity_case(int pos, int off, int var)
{
	int i;
	struct tdma_scheduler before;
	trace_fn = case_trace;
	K = 250; MAXREAL = 250;
	{
		snprintf(casebuf, sizeof(casebuf), "capacity:%d:%d:%d", pos, off, var);
		violated = 0;
		goto_position(pos);
		if (SCHED.cur_bucket != pos) viol("C08:ring-position", "after %d advances cur_bucket = %u", pos, SCHED.cur_bucket);
		/* sentinels in every other frame so that a stray write has something to damage */
		for (i = 0; i < NB; i++) if (i != off) ev_schedule(i, (i + pos) % 8);
		if (var == 3) for (i = 0; i < NB; i++) if (i != off) { int k; for (k = 1; k < NCB; k++) ev_schedule(i, (i + k) % 8); }
		/* fill the frame at `off`: var 0/3 with tdma_schedule, var 1 with one-item sets, var 2 mixed with 3-item sets */
		if (var == 0 || var == 3) for (i = 0; i < NCB; i++) ev_schedule(off, (i * 3 + off) % 8);
		else if (var == 1) for (i = 0; i < NCB; i++) ev_set(off, 0);
		else { ev_set(off, 1); ev_set(off, 1); ev_schedule(off, 7); ev_schedule(off, 0); }
		cap_filled += NCB;
		if (SCHED.bucket[(pos + off) % NB].num_items != NCB)
			viol("C08:capacity", "frame at offset %d holds %u items after 8 successful schedule calls", off, SCHED.bucket[(pos + off) % NB].num_items);
		/* 9th item: must be refused, nothing may change */
		memcpy(&before, &SCHED, sizeof(before));
		nlog = 0;
		int rc = tdma_schedule(off, &cb_log2, 0x99, 0x98, 0x9796, (int16_t)(off * 100 - 1000));
		check_no_calls("tdma_schedule");
		if (rc >= 0) viol("C08:overflow-not-reported", "9th tdma_schedule at position %d offset %d returned %d, expected -1", pos, off, rc);
		else if (rc != -1) viol("C08:retval:schedule", "9th tdma_schedule returned %d, expected -1", rc);
		if (memcmp(&before, &SCHED, sizeof(before))) viol("C08:overflow-changed-state", "refused 9th tdma_schedule at position %d offset %d modified the scheduler", pos, off);
		memcpy(&SCHED, &before, sizeof(before));
		rc = tdma_schedule_set(off, setarr[0], 0xABCD);
		if (rc >= 0) viol("C08:overflow-not-reported", "tdma_schedule_set into the full frame at position %d offset %d returned %d, expected -1", pos, off, rc);
		else if (rc != -1) viol("C08:retval:schedule_set", "tdma_schedule_set into a full frame returned %d, expected -1", rc);
		if (memcmp(&before, &SCHED, sizeof(before))) viol("C08:overflow-changed-state", "refused tdma_schedule_set at position %d offset %d modified the scheduler", pos, off);
		memcpy(&SCHED, &before, sizeof(before));
		cap_refused += 2;
		/* a multi-frame set whose *second* frame is the full one: error must be reported and no
		 * existing item may be damaged; whether the set's own first-frame items stay is left open */
		if (off >= 1 && var != 3) {
			rc = tdma_schedule_set(off - 1, setarr[2], shapes[2].p3);
			if (rc >= 0) viol("C08:overflow-not-reported", "tdma_schedule_set whose 2nd frame (offset %d) is full returned %d", off, rc);
			for (i = 0; i < shapes[2].nitems; i++)
				if (shapes[2].d[i].frame == 0) {
					ref_add(now + off - 1, intern(shapes[2].d[i].cb, shapes[2].d[i].p1, shapes[2].d[i].p2, shapes[2].p3, shapes[2].d[i].prio, shapes[2].d[i].flags));
					ref[nref - 1].opt = 1;
				}
			cap_refused++;
		}
		drain();
		if (nref) viol("C08:not-executed", "%d item(s) never ran within 25 frames", nref);
		/* and the ring must be empty now: a second round runs nothing */
		drain();
	}
}

static int report_unconfirmed(void);
static int do_capacity(int lo, int hi)
{
	unsigned long ncases = 0;
	int pos, off, var, hd;
	for (pos = lo; pos < hi; pos++) for (off = 0; off < NB; off++) for (var = 0; var < 4; var++) { capacity_case(pos, off, var); ncases++; }
	hd = report_unconfirmed();
	fprintf(res, "{\"capacity_cases\": %lu, \"refusals_checked\": %lu, \"items_filled\": %lu, \"history_dependent_keys\": %d, \"verify_requests\": %lu, %s, \"violations\": %lu}\n",
		ncases, cap_refused, cap_filled, hd, n_verify, hist_json(), nviol);
	return nviol ? 1 : 0;
}

/* ------------------------------------------------------------------ execution-order sweep */
static void order_case(int n, unsigned long c)
{
	int i, var;
	trace_fn = case_trace;
	K = 250; MAXREAL = 250;
	struct tdma_sched_item arr[NCB + 1];
	for (var = 0; var < 2; var++) {
		int rank[NCB]; unsigned long x = c;
		int pos = c % NB, off = (c / NB) % NB;
		snprintf(casebuf, sizeof(casebuf), "order:%d:%lu", n, c);
		for (i = 0; i < n; i++) { rank[i] = x % n; x /= n; }
		violated = 0;
		memcpy(&SCHED, &tmpl, sizeof(tmpl));
		SCHED.cur_bucket = pos;
		now = 1000; nref = 0; nlog = 0; log_lost = 0;
		/* spread the n ranks over the 8 priority values so that extremes and sign changes take part */
		for (i = 0; i < n; i++) {
			int pi = n == 1 ? (int)(c % 8) : rank[i] * 7 / (n - 1);
			if (n > 1 && n < 8 && (c & 1)) pi = rank[i];
			uint8_t p1 = 0x60 + i, p2 = 0xA0 + rank[i]; uint16_t p3 = 0x0F0F + 0x1010 * i;
			if (var == 0) {
				int rc = tdma_schedule(off, &cb_log1, p1, p2, p3, PRIOS[pi]);
				if (rc != 0) viol("C08:schedule-refused", "tdma_schedule returned %d for item %d of %d", rc, i, n);
				ref_add(now + off, intern(CB_LOG1, p1, p2, p3, PRIOS[pi], 0));
			} else {
				struct tdma_sched_item it = SCHED_ITEM(&cb_log2, PRIOS[pi], p1, p2);
				arr[i] = it;
				ref_add(now + off, intern(CB_LOG2, p1, p2, 0x5EED, PRIOS[pi], 0));
			}
		}
		if (var == 1) {
			struct tdma_sched_item e = SCHED_END_SET(); arr[n] = e;
			int rc = tdma_schedule_set(off, arr, 0x5EED);
			if (rc != 0) viol(rc < 0 ? "C08:schedule-refused" : "C08:retval:schedule_set", "tdma_schedule_set (one frame, %d items) returned %d", n, rc);
		}
		for (i = 0; i < off; i++) { if ((c >> 3) & 1) ev_exec(); ev_advance(); }
		ev_exec();        /* judges order, multiset, parameters */
		if (nref) viol("C08:not-executed", "%d of %d items did not run", nref, n);
		ev_advance();
		ntypes = 0;       /* types are per case here */
	}
}

static int do_order(int n, unsigned long lo, unsigned long hi)
{
	unsigned long c, ncases = 0;
	int hd;
	for (c = lo; c < hi; c++) { order_case(n, c); ncases += 2; }
	hd = report_unconfirmed();
	fprintf(res, "{\"order_cases\": %lu, \"n\": %d, \"history_dependent_keys\": %d, \"verify_requests\": %lu, %s, \"violations\": %lu}\n",
		ncases, n, hd, n_verify, hist_json(), nviol);
	return nviol ? 1 : 0;
}



/* ------------------------------------------------------------------ set sweep */
/* every ring position x every offset x every set shape (1..6 frames) on an otherwise empty scheduler,
 * optionally with a single item in every frame as a witness, then 30 frame steps: each item must run
 * exactly in (first frame + k), nothing else may run.  Cases are event sequences (replayable as such). */
static int do_setsweep(int lo, int hi)
{
	unsigned long ncases = 0, nskipped = 0;
	int pos, off, sh, var, i;
	trace_fn = case_trace;
	K = 250; MAXREAL = 250;
	for (pos = lo; pos < hi; pos++) for (off = 0; off < NB; off++) for (sh = 0; sh < NSHAPES; sh++) for (var = 0; var < 2; var++) {
		char *p = casebuf;
		if (off + shapes[sh].nframes - 1 >= NB) { nskipped++; continue; }   /* last frame must be < 25 ahead */
		violated = 0;
		memcpy(&SCHED, &tmpl, sizeof(tmpl));
		now = 1000; nref = 0; nlog = 0; log_lost = 0;
		for (i = 0; i < pos; i++) { ev_exec(); ev_advance(); scrub(); p += sprintf(p, "t,"); }
		if (var) for (i = 0; i < NB; i += 4) { ev_schedule(i, (i + pos) % 8); p += sprintf(p, "s%d.%d,", i, (i + pos) % 8); }
		p += sprintf(p, "S%d.%d", off, sh);
		ev_set(off, sh);
		scrub();
		for (i = 0; i < 30 && !violated; i++) { p += sprintf(p, ",t"); ev_exec(); ev_advance(); scrub(); }
		if (!violated && nref) viol("C08:not-executed", "%d item(s) of the set never ran within 30 frames", nref);
		ncases++;
	}
	/* reset sweep: an item (single / three-item set) at every offset 0..24 from every ring position, and a ring
	 * with an item in every frame; tdma_sched_reset(); 30 frame steps: nothing of a later frame may ever run */
	unsigned long nreset_cases = 0;
	for (pos = lo; pos < hi; pos++) for (off = 0; off <= NB; off++) for (var = 0; var < 2; var++) {
		char *p = casebuf;
		if (off == NB && var) continue;
		violated = 0;
		memcpy(&SCHED, &tmpl, sizeof(tmpl));
		now = 1000; nref = 0; nlog = 0; log_lost = 0;
		for (i = 0; i < pos; i++) { ev_exec(); ev_advance(); scrub(); p += sprintf(p, "t,"); }
		if (off == NB) for (i = 0; i < NB; i++) { ev_schedule(i, (i + pos) % 8); p += sprintf(p, "s%d.%d,", i, (i + pos) % 8); }
		else if (var) { ev_set(off, 1); p += sprintf(p, "S%d.1,", off); }
		else { ev_schedule(off, 3); p += sprintf(p, "s%d.3,", off); }
		ev_reset(); p += sprintf(p, "R");
		scrub();
		for (i = 0; i < 30 && !violated; i++) { p += sprintf(p, ",t"); ev_exec(); ev_advance(); scrub(); }
		nreset_cases++;
	}
	i = report_unconfirmed();
	fprintf(res, "{\"resetsweep_cases\": %lu}\n", nreset_cases);
	fprintf(res, "{\"setsweep_cases\": %lu, \"setsweep_skipped_beyond_depth\": %lu, \"set_calls_nonfirst_frame_on_slot24\": %lu, \"set_calls_wrapping_ring\": %lu, \"history_dependent_keys\": %d, \"verify_requests\": %lu, %s, \"violations\": %lu}\n",
		ncases, nskipped, n_set_nonfirst_slot24, n_set_wrapping, i, n_verify, hist_json(), nviol);
	return nviol ? 1 : 0;
}

/* ------------------------------------------------------------------ one case, alone */
/* executes exactly one case from the boot state in this process: what the pristine verifier does per
 * request and what `drv_c08 case <token> [K]` does for the Python side's replay */
static void run_case_token(const char *tok, int k)
{
	int a, b, c; unsigned long idx;
	if (sscanf(tok, "capacity:%d:%d:%d", &a, &b, &c) == 3) capacity_case(a, b, c);
	else if (sscanf(tok, "order:%d:%lu", &a, &idx) == 2) order_case(a, idx);
	else if (replay_events(tok, k) < 0) { if (in_child) _exit(3); fprintf(res, "{\"harness_error\": \"bad event list %s\"}\n", tok); fflush(res); exit(3); }
}

int main(int argc, char **argv)
{
	int fd = dup(1);
	res = fdopen(fd, "w");
	if (!freopen("/dev/null", "w", stdout)) return 3;
	signal(SIGABRT, on_abort);
	init_template();
	build_sets();
	if (argc < 2) return 2;
	if (!strcmp(argv[1], "case") && argc >= 3) {
		verify_enabled = 0;          /* this process is fresh by construction */
		run_case_token(argv[2], argc >= 4 ? atoi(argv[3]) : 0);
		fprintf(res, "{\"case\": 1, \"violations\": %lu}\n", nviol);
		return nviol ? 1 : 0;
	}
	verify_enabled = 1;
	verifier_start();                /* before any code under test has run in this process */
	if (!strcmp(argv[1], "bfs")) return do_bfs(argc, argv);
	if (!strcmp(argv[1], "setsweep") && argc >= 4) return do_setsweep(atoi(argv[2]), atoi(argv[3]));
	if (!strcmp(argv[1], "capacity") && argc >= 4) return do_capacity(atoi(argv[2]), atoi(argv[3]));
	if (!strcmp(argv[1], "order") && argc >= 5) return do_order(atoi(argv[2]), strtoul(argv[3], 0, 0), strtoul(argv[4], 0, 0));
	return 2;
}

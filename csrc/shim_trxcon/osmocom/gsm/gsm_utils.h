/* Stand-in for the *system* libosmocore <osmocom/gsm/gsm_utils.h> (not installed in the sandbox),
 * as needed by trxcon's l1sched.h / sched_mframe.c.  The copy embedded in the repository for the
 * firmware build predates the CBCH channel combinations, so it cannot serve trxcon.  Only
 * declarations; enumerator values as in libosmocore. */
#pragma once

#include <stdint.h>

#define GSM_MAX_FN	(26 * 51 * 2048)

struct gsm_time {
	uint32_t	fn;	/* FN count */
	uint16_t	t1;	/* FN div (26*51) */
	uint8_t		t2;	/* FN modulo 26 */
	uint8_t		t3;	/* FN modulo 51 */
	uint8_t		tc;
};

enum gsm_phys_chan_config {
	GSM_PCHAN_NONE,
	GSM_PCHAN_CCCH,
	GSM_PCHAN_CCCH_SDCCH4,
	GSM_PCHAN_TCH_F,
	GSM_PCHAN_TCH_H,
	GSM_PCHAN_SDCCH8_SACCH8C,
	GSM_PCHAN_PDCH,		/* GPRS PDCH */
	GSM_PCHAN_TCH_F_PDCH,	/* TCH/F if used, PDCH otherwise */
	GSM_PCHAN_UNKNOWN,
	GSM_PCHAN_CCCH_SDCCH4_CBCH,
	GSM_PCHAN_SDCCH8_SACCH8C_CBCH,
	GSM_PCHAN_OSMO_DYN,
	_GSM_PCHAN_MAX
};
#define GSM_PCHAN_TCH_F_TCH_H_PDCH GSM_PCHAN_OSMO_DYN

enum gsm_chan_t {
	GSM_LCHAN_NONE,
	GSM_LCHAN_SDCCH,
	GSM_LCHAN_TCH_F,
	GSM_LCHAN_TCH_H,
	GSM_LCHAN_UNKNOWN,
	GSM_LCHAN_CCCH,
	GSM_LCHAN_PDTCH,
	GSM_LCHAN_CBCH,
	_GSM_LCHAN_MAX
};

/* Stand-in for the *system* libosmocore <osmocom/gsm/gsm0502.h>: burst geometry constants of
 * 3GPP TS 45.002 used by trxcon's l1sched.h (the embedded copy in the repository predates them). */
#pragma once

#include <stdint.h>

#define GSM_TAIL_BITS			3
#define GSM_GUARD_PERIOD_BITS		8
#define GSM_NBITS_NB_GMSK_TAIL		GSM_TAIL_BITS
#define GSM_NBITS_NB_GMSK_PAYLOAD	(2 * 58)
#define GSM_NBITS_NB_GMSK_TRAIN_SEQ	26
#define GSM_NBITS_NB_GMSK_BURST		148
#define GSM_NBITS_NB_8PSK_TAIL		(GSM_NBITS_NB_GMSK_TAIL * 3)
#define GSM_NBITS_NB_8PSK_PAYLOAD	(GSM_NBITS_NB_GMSK_PAYLOAD * 3)
#define GSM_NBITS_NB_8PSK_TRAIN_SEQ	(GSM_NBITS_NB_GMSK_TRAIN_SEQ * 3)
#define GSM_NBITS_NB_8PSK_BURST		(GSM_NBITS_NB_GMSK_BURST * 3)
#define GSM_NBITS_AB_GMSK_BURST		GSM_NBITS_NB_GMSK_BURST

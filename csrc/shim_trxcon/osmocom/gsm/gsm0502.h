/* Stand-in for the *system* libosmocore <osmocom/gsm/gsm0502.h>: burst geometry constants of
 * 3GPP TS 45.002 used by trxcon's l1sched.h (the embedded copy in the repository predates them). */
#pragma once

#include <stdint.h>

#define GSM_TAIL_BITS			3
#define GSM_GUARD_PERIOD_BITS		8
#define GSM_NBITS_NB_GMSK_TAIL		GSM_TAIL_BITS
#define GSM_NBITS_NB_GMSK_PAYLOAD	(2 * 58)
#define GSM_NBITS_NB_GMSK_TRAIN_SEQ	26
#define GSM_NBITS_NB_GMSK_BURST		148
#define GSM_NBITS_NB_8PSK_TAIL		(GSM_NBITS_NB_GMSK_TAIL * 3)
#define GSM_NBITS_NB_8PSK_PAYLOAD	(GSM_NBITS_NB_GMSK_PAYLOAD * 3)
#define GSM_NBITS_NB_8PSK_TRAIN_SEQ	(GSM_NBITS_NB_GMSK_TRAIN_SEQ * 3)
#define GSM_NBITS_NB_8PSK_BURST		(GSM_NBITS_NB_GMSK_BURST * 3)
#define GSM_NBITS_AB_GMSK_BURST		GSM_NBITS_NB_GMSK_BURST

/* TDMA frame number arithmetic (libosmocore gsm0502.h) */
#define GSM_TDMA_SUPERFRAME	(26 * 51)
#define GSM_TDMA_HYPERFRAME	(2048 * GSM_TDMA_SUPERFRAME)
#define GSM_TDMA_FN_SUM(a, b)	(((a) + (b)) % GSM_TDMA_HYPERFRAME)
#define GSM_TDMA_FN_SUB(a, b)	(((a) + GSM_TDMA_HYPERFRAME - (b)) % GSM_TDMA_HYPERFRAME)
#define GSM_TDMA_FN_INC(fn)	((fn) = GSM_TDMA_FN_SUM((fn), 1))
#define GSM_TDMA_FN_DEC(fn)	((fn) = GSM_TDMA_FN_SUB((fn), 1))

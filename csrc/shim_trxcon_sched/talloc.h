/* Stand-in for the *system* <talloc.h> (libtalloc is not installed in the sandbox): flat
 * malloc/calloc/free, no hierarchy.  sched_trx.c frees every object it allocates explicitly
 * (lchan states, burst buffers, timeslots); the log prefix string of a scheduler is the only
 * allocation that relies on the parent being freed and is leaked by this stand-in. */
#pragma once
#include <stdarg.h>
#include <stdio.h>
#include <stdlib.h>
#include <string.h>

#define talloc(ctx, type)		((type *)malloc(sizeof(type)))
#define talloc_zero(ctx, type)		((type *)calloc(1, sizeof(type)))
#define talloc_size(ctx, size)		malloc(size)
#define talloc_zero_size(ctx, size)	calloc(1, size)
#define talloc_free(ptr)		free((void *)(ptr))

static inline char *talloc_strdup(const void *ctx, const char *s)
{
	return s ? strdup(s) : NULL;
}

static inline char *talloc_asprintf(const void *ctx, const char *fmt, ...)
{
	char buf[256];
	va_list ap;
	va_start(ap, fmt);
	vsnprintf(buf, sizeof(buf), fmt, ap);
	va_end(ap);
	return strdup(buf);
}

/* Stand-in for the *system* libosmocore <osmocom/core/utils.h>: the declarations of the (older)
 * copy embedded in the repository, plus OSMO_ASSERT which trxcon expects from this header. */
#pragma once
#include_next <osmocom/core/utils.h>
#include <stdio.h>
#include <stdlib.h>
#ifndef OSMO_ASSERT
#define OSMO_ASSERT(exp) \
	do { if (!(exp)) { fprintf(stderr, "Assert failed %s %s:%d\n", #exp, __FILE__, __LINE__); abort(); } } while (0)
#endif

/* Stand-in for the *system* libosmocore <osmocom/core/msgb.h>: the embedded copy plus
 * msgb_hexdump_l2(), which libosmocore gained later (implemented by the driver). */
#pragma once
#include_next <osmocom/core/msgb.h>
const char *msgb_hexdump_l2(const struct msgb *msg);

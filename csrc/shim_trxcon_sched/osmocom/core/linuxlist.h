/* Stand-in for the *system* libosmocore <osmocom/core/linuxlist.h>: the embedded copy plus the
 * helpers added to libosmocore later and used by trxcon. */
#pragma once
#include_next <osmocom/core/linuxlist.h>
#ifndef llist_first_entry
#define llist_first_entry(ptr, type, member) llist_entry((ptr)->next, type, member)
#endif
#ifndef llist_first_entry_or_null
#define llist_first_entry_or_null(ptr, type, member) \
	(!llist_empty(ptr) ? llist_first_entry(ptr, type, member) : NULL)
#endif

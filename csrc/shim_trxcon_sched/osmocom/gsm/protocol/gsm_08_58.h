/* Stand-in for the *system* libosmocore <osmocom/gsm/protocol/gsm_08_58.h>: the embedded copy plus
 * the C-bits of the RSL channel number (3GPP TS 48.058 9.3.1 and the Osmocom extensions) that
 * libosmocore defines today and trxcon uses. */
#pragma once
#include_next <osmocom/gsm/protocol/gsm_08_58.h>
#ifndef ABIS_RSL_CHAN_NR_CBITS_Bm_ACCHs
#define ABIS_RSL_CHAN_NR_CBITS_Bm_ACCHs		0x01
#define ABIS_RSL_CHAN_NR_CBITS_Lm_ACCHs(ss)	(0x02 + (ss))
#define ABIS_RSL_CHAN_NR_CBITS_SDCCH4_ACCH(ss)	(0x04 + (ss))
#define ABIS_RSL_CHAN_NR_CBITS_SDCCH8_ACCH(ss)	(0x08 + (ss))
#define ABIS_RSL_CHAN_NR_CBITS_BCCH		0x10
#define ABIS_RSL_CHAN_NR_CBITS_RACH		0x11
#define ABIS_RSL_CHAN_NR_CBITS_PCH_AGCH		0x12
#define ABIS_RSL_CHAN_NR_CBITS_OSMO_PDCH	0x18
#define ABIS_RSL_CHAN_NR_CBITS_OSMO_CBCH4	0x19
#define ABIS_RSL_CHAN_NR_CBITS_OSMO_CBCH8	0x1a
#endif
#ifndef RSL_CHAN_OSMO_PDCH
#define RSL_CHAN_OSMO_PDCH	0xc0
#define RSL_CHAN_OSMO_CBCH4	0xc8
#define RSL_CHAN_OSMO_CBCH8	0xd0
#endif

/* C07 driver: hopping sequence generation of the firmware (layer1/rfch.c, reached through
 * rfch_get_params() with a hopping dedicated channel configured in the global l1s, GSM time from
 * the tree's gsm_fn2gsmtime) compared with a transcription of 3GPP TS 45.002 6.2.3.
 *
 *   drv_c07 full <hsn_lo> <hsn_hi>   HSN lo..hi-1 x N 1..64 x MAIO {0,1,N-1,63} x FN {one complete
 *                                    T1R cycle 0..84863, last superframe of the hyperframe}
 *   drv_c07 hsn0                     HSN 0: all MAIO 0..63 x N 1..64 x boundary FN set
 *   drv_c07 red <N>                  binary on stdout: firmware ARFCN (u16 LE) for the reduced space
 *                                    x 0..63 (= HSN xor T1R), r 0..1325 (= FN mod 1326), k 0..3 (MAIO set)
 *   drv_c07 vec                      stdin lines "hsn maio n fn" -> "fw=<arfcn> fwidx=<i> spec=<mai>"
 *   drv_c07 hist <lo> <hi>           order independence: FN fixed in the OUTER loop (entries lo..hi-1 of the
 *                                    history FN list), ALL (hsn, N, maio, MA contents) configurations in the
 *                                    inner loops, interleaved with non-hopping and no-dedicated-channel calls
 *                                    for the same FN: the result must be a function of (HSN, MAIO, MA, FN) only
 *
 * The mobile allocation is N *distinct* 16-bit channel numbers in a shuffled order (see ma_val():
 * six "flavours" incl. entries with the ARFCN_PCS / ARFCN_UPLINK flag bits and 0xffff/0x8000/0x7fff),
 * so the index chosen is observable in the ARFCN returned and the full 16-bit value is compared.
 * `full` and `hist` rotate through the flavours; `red`, `hsn0` and `vec` (default) use flavour 0, which
 * is the MA the Python side uses.
 */
#include <stdint.h>
#include <stdio.h>
#include <stdlib.h>
#include <string.h>
#include <osmocom/gsm/gsm_utils.h>
#include <layer1/sync.h>
#include <layer1/rfch.h>

struct l1s_state l1s;

#define HYPER 2715648u
#define SUPER 1326u

/* --- specification transcription (TS 45.002 6.2.3, table 6); divisions and explicit powers only */
static const uint8_t SPEC_RNTABLE[114] = {
	48, 98, 63, 1, 36, 95, 78, 102, 94, 73,
	0, 64, 25, 81, 76, 59, 124, 23, 104, 100,
	101, 47, 118, 85, 18, 56, 96, 86, 54, 2,
	80, 34, 127, 13, 6, 89, 57, 103, 12, 74,
	55, 111, 75, 38, 109, 71, 112, 29, 11, 88,
	87, 19, 3, 68, 110, 26, 33, 31, 8, 45,
	82, 58, 40, 107, 32, 5, 106, 92, 62, 67,
	77, 108, 122, 37, 60, 66, 121, 42, 51, 126,
	117, 114, 4, 90, 43, 52, 53, 113, 120, 72,
	16, 49, 7, 79, 119, 61, 22, 84, 9, 97,
	91, 15, 21, 24, 46, 39, 93, 105, 65, 70,
	125, 99, 17, 123,
};

static int wrapped;	/* set by spec_mai when the M' >= N branch was taken */

/* 2 ^ NBIN, NBIN = number of bits needed to represent N */
static unsigned spec_pow_nbin(unsigned n)
{
	unsigned nbin, v, p;
	for (nbin = 0, v = n; v; v /= 2)
		nbin++;
	for (p = 1, v = 0; v < nbin; v++)
		p *= 2;
	return p;
}

static unsigned spec_mai_t(unsigned hsn, unsigned maio, unsigned n, unsigned p, uint32_t fn,
			   unsigned t1r, unsigned t2, unsigned t3)
{
	unsigned m, mp, tp, s;

	wrapped = 0;
	if (hsn == 0)
		return (unsigned)(((uint64_t)fn + maio) % n);
	m = t2 + SPEC_RNTABLE[(hsn ^ t1r) + t3];
	mp = m % p;
	tp = t3 % p;
	if (mp < n)
		s = mp;
	else {
		s = (mp + tp) % n;
		wrapped = 1;
	}
	return (s + maio) % n;
}

static unsigned spec_mai(unsigned hsn, unsigned maio, unsigned n, uint32_t fn)
{
	return spec_mai_t(hsn, maio, n, spec_pow_nbin(n), fn, (fn / SUPER) % 64u, fn % 26u, fn % 51u);
}

/* --- the firmware under test ----------------------------------------------------------------- */
/* MA contents ("flavour"): N distinct 16-bit channel numbers in a shuffled order.  The firmware's
 * ARFCNs carry flag bits (ARFCN_PCS 0x8000, ARFCN_UPLINK 0x4000, ARFCN_FLAG_MASK 0xf000), so the
 * selected entry must come back with all 16 bits intact:
 *   0: 512+p   1: 700+p   2: ARFCN_PCS|(512+p)   3: ARFCN_UPLINK|(512+p)   4: both flags|(512+p)
 *   5: boundary values 0xffff 0x8000 0x7fff 0x4000 0xc000 0x0000 0x8001 0xfffe, then 0xf100+p
 * (p = 29 i + 7 mod 64).  No flavour contains 0xdead (poison beyond N), 0xbeef (serving cell set by
 * configure()) or 900..999 (serving cell of the history pass), so a fallback is always visible. */
#define NFLAVOUR 6
static unsigned ma_flavour;
static uint16_t ma_val(unsigned i)
{
	static const uint16_t special[8] = { 0xffff, 0x8000, 0x7fff, 0x4000, 0xc000, 0x0000, 0x8001, 0xfffe };
	unsigned p = (i * 29u + 7u) % 64u;
	switch (ma_flavour) {
	case 0: return 512 + p;
	case 1: return 700 + p;
	case 2: return ARFCN_PCS | (512 + p);
	case 3: return ARFCN_UPLINK | (512 + p);
	case 4: return ARFCN_PCS | ARFCN_UPLINK | (512 + p);
	default: return i < 8 ? special[i] : 0xf100 + p;
	}
}

static void configure(unsigned hsn, unsigned maio, unsigned n)
{
	unsigned i;
	memset(&l1s.dedicated, 0, sizeof(l1s.dedicated));
	l1s.dedicated.type = GSM_DCHAN_SDCCH_8;
	l1s.dedicated.tsc = 5;
	l1s.dedicated.tn = 3;
	l1s.dedicated.h = 1;
	l1s.dedicated.h1.hsn = hsn;
	l1s.dedicated.h1.maio = maio;
	l1s.dedicated.h1.n = n;
	for (i = 0; i < 64; i++)	/* entries beyond n are poison: selecting one is visible */
		l1s.dedicated.h1.ma[i] = i < n ? ma_val(i) : 0xdead;
	l1s.serving_cell.arfcn = 0xbeef;
}

static uint16_t fw_arfcn_t(const struct gsm_time *t)
{
	uint16_t arfcn = 0xffff;
	uint8_t tsc = 0xff, tn = 0xff;
	rfch_get_params(t, &arfcn, &tsc, &tn);
	return arfcn;
}

static uint16_t fw_arfcn(uint32_t fn)
{
	struct gsm_time t;
	memset(&t, 0xa5, sizeof(t));
	gsm_fn2gsmtime(&t, fn);
	return fw_arfcn_t(&t);
}

static int fw_index(uint16_t arfcn, unsigned n)
{
	unsigned i;
	for (i = 0; i < n; i++)
		if (ma_val(i) == arfcn)
			return (int)i;
	return -1;
}

static unsigned long nviol, nev, nwrap, ndirect, nnontriv, ncyc, nflav[NFLAVOUR];
static uint64_t seenf[NFLAVOUR][65];	/* the same per MA contents */
static uint64_t seen[65];	/* seen[N] bit MAI: distinct (N, MAI) outcomes produced by the firmware */

static void tally(unsigned hsn, unsigned maio, unsigned n, uint32_t fn, unsigned want, uint16_t got)
{
	nev++;
	if (n > 1)
		nnontriv++;
	if (hsn == 0)
		ncyc++;
	else if (wrapped)
		nwrap++;
	else
		ndirect++;
	if (got == ma_val(want)) {
		seen[n] |= 1ull << want;
		seenf[ma_flavour][n] |= 1ull << want;
		return;
	}
	if (nviol++ < 20)
		printf("V hsn=%u maio=%u n=%u fn=%u fw=%u fwidx=%d spec=%u wrapped=%d flavour=%u want=%u\n",
		       hsn, maio, n, fn, got, fw_index(got, n), want, wrapped, ma_flavour, ma_val(want));
}

static void check(unsigned hsn, unsigned maio, unsigned n, uint32_t fn)
{
	unsigned want = spec_mai(hsn, maio, n, fn);
	tally(hsn, maio, n, fn, want, fw_arfcn(fn));
}

/* the FN set of `full`: GSM times produced once by the tree's gsm_fn2gsmtime, and - separately,
 * with the harness's own arithmetic - the (T1R, T2, T3) the specification works on */
#define NFULL (65 * SUPER)
static struct gsm_time full_time[NFULL];
static uint32_t full_fn[NFULL];
static uint8_t full_t1r[NFULL], full_t2[NFULL], full_t3[NFULL];

static void full_init(void)
{
	unsigned i;
	for (i = 0; i < NFULL; i++) {
		uint32_t fn = i < 64 * SUPER ? i : HYPER - SUPER + (i - 64 * SUPER);
		full_fn[i] = fn;
		memset(&full_time[i], 0xa5, sizeof(full_time[i]));
		gsm_fn2gsmtime(&full_time[i], fn);
		full_t1r[i] = (fn / SUPER) % 64u;
		full_t2[i] = fn % 26u;
		full_t3[i] = fn % 51u;
	}
}

static int maio_set(unsigned n, unsigned out[4])
{
	unsigned c[4] = { 0, 1, n - 1, 63 }, k = 0, i, j;
	for (i = 0; i < 4; i++) {
		for (j = 0; j < k; j++)
			if (out[j] == c[i])
				break;
		if (j == k)
			out[k++] = c[i];
	}
	return (int)k;
}

static void summary(void)
{
	unsigned n, distinct = 0;
	for (n = 1; n <= 64; n++)
		distinct += (unsigned)__builtin_popcountll(seen[n]);
	printf("{\"evaluations\": %lu, \"nontrivial\": %lu, \"direct\": %lu, \"wrapped\": %lu, \"cyclic\": %lu, "
	       "\"violations\": %lu, \"distinct_n_mai\": %u, \"flavours\": [%lu, %lu, %lu, %lu, %lu, %lu], \"seen\": [",
	       nev, nnontriv, ndirect, nwrap, ncyc, nviol, distinct, nflav[0], nflav[1], nflav[2], nflav[3], nflav[4], nflav[5]);
	for (n = 1; n <= 64; n++)
		printf("%s\"%llx\"", n > 1 ? ", " : "", (unsigned long long)seen[n]);
	printf("], \"seen_by_flavour\": [");
	for (n = 0; n < NFLAVOUR * 64; n++)
		printf("%s\"%llx\"", n ? ", " : "", (unsigned long long)seenf[n / 64][n % 64 + 1]);
	printf("]}\n");
}

int main(int argc, char **argv)
{
	unsigned hsn, n, k, nm, maio[4];
	uint32_t fn;

	if (argc >= 4 && !strcmp(argv[1], "full")) {
		unsigned lo = atoi(argv[2]), hi = atoi(argv[3]);
		full_init();
		for (hsn = lo; hsn < hi; hsn++)
			for (n = 1; n <= 64; n++) {
				nm = maio_set(n, maio);
				for (k = 0; k < nm; k++) {
					unsigned i, p = spec_pow_nbin(n);
					/* progress marker: a sanitizer death is attributable to this configuration */
					ma_flavour = (hsn + n + k) % NFLAVOUR;
					printf("P hsn=%u n=%u maio=%u flavour=%u\n", hsn, n, maio[k], ma_flavour);
					fflush(stdout);
					nflav[ma_flavour] += NFULL;
					configure(hsn, maio[k], n);
					for (i = 0; i < NFULL; i++) {
						unsigned want = spec_mai_t(hsn, maio[k], n, p, full_fn[i],
									   full_t1r[i], full_t2[i], full_t3[i]);
						tally(hsn, maio[k], n, full_fn[i], want, fw_arfcn_t(&full_time[i]));
					}
				}
			}
		summary();
		return nviol ? 1 : 0;
	}
	if (argc >= 2 && !strcmp(argv[1], "hsn0")) {
		static uint32_t fns[1024];
		unsigned nf, i, j, m;
		for (n = 1; n <= 64; n++) {
			static const uint32_t fix[] = { 1325, 1326, 1327, 84863, 84864, 65535, 65536, 65537,
				1048575, 1048576, 2097151, 2097152, HYPER / 2, 2715647 - 1326, 2715647 };
			nf = 0;
			for (i = 0; i <= 2 * n + 1; i++) fns[nf++] = i;			/* every residue mod N, twice */
			for (i = 0; i <= 2 * n + 1; i++) fns[nf++] = HYPER - 1 - i;	/* ... below the wrap */
			for (i = 0; i < sizeof(fix) / sizeof(fix[0]); i++) fns[nf++] = fix[i];
			for (m = 0; m < 64; m++) {
				configure(0, m, n);
				for (j = 0; j < nf; j++)
					check(0, m, n, fns[j]);
			}
		}
		summary();
		return nviol ? 1 : 0;
	}
	if (argc >= 3 && !strcmp(argv[1], "red")) {
		/* representative of x = HSN xor T1R: hsn = 1 + (5x+3) mod 63, T1 = (hsn xor x) + 64 (7x mod 32) */
		static uint8_t buf[64 * 1326 * 4 * 2];
		size_t o = 0;
		unsigned x, r;
		n = atoi(argv[2]);
		if (n < 1 || n > 64) return 2;
		unsigned ms[4] = { 0, 1, n - 1, 63 };
		for (k = 0; k < 4; k++)
			for (x = 0; x < 64; x++) {
				unsigned h = 1 + (5 * x + 3) % 63, t1 = (h ^ x) + 64 * ((7 * x) % 32);
				configure(h, ms[k], n);
				for (r = 0; r < SUPER; r++) {
					uint16_t a = fw_arfcn(t1 * SUPER + r);
					o = (((size_t)x * SUPER + r) * 4 + k) * 2;
					buf[o] = a & 0xff;
					buf[o + 1] = a >> 8;
				}
			}
		fwrite(buf, 1, sizeof(buf), stdout);
		return 0;
	}
	if (argc >= 4 && !strcmp(argv[1], "hist")) {
		/* history FN list (the same formula in c07.py): boundaries + 300 FN spread over the T1R cycle */
		static const uint32_t fix[] = { 0, 1, 2, 25, 26, 50, 51, 52, 1325, 1326, 1327, 84863, 84864, 84865,
			65535, 65536, 65537, 1048575, 1048576, HYPER / 2, HYPER - 1327, HYPER - 1326, HYPER - 2, HYPER - 1,
			/* T1 beyond the T1R cycle, each bit of T1 above bit 5 on its own: T1 = 64, 65, 127, 128, 192, 256, 512, 1024, 1536 */
			64 * SUPER, 64 * SUPER + 700, 64 * SUPER + 1325, 65 * SUPER, 65 * SUPER + 700, 65 * SUPER + 1325,
			127 * SUPER, 127 * SUPER + 700, 127 * SUPER + 1325, 128 * SUPER, 128 * SUPER + 700, 128 * SUPER + 1325,
			192 * SUPER, 192 * SUPER + 700, 192 * SUPER + 1325, 256 * SUPER, 256 * SUPER + 700, 256 * SUPER + 1325,
			512 * SUPER, 512 * SUPER + 700, 512 * SUPER + 1325, 1024 * SUPER, 1024 * SUPER + 700, 1024 * SUPER + 1325,
			1536 * SUPER, 1536 * SUPER + 700, 1536 * SUPER + 1325 };
		enum { NFIX = sizeof(fix) / sizeof(fix[0]), NSPREAD = 300 };
		unsigned long hflav[NFLAVOUR] = { 0 };
		unsigned lo = atoi(argv[2]), hi = atoi(argv[3]), idx, b;
		unsigned long nhop = 0, nagain = 0, nnonhop = 0, nnone = 0, step = 0;
		if (hi > NFIX + NSPREAD) hi = NFIX + NSPREAD;
		for (idx = lo; idx < hi; idx++) {
			struct gsm_time t;
			fn = idx < NFIX ? fix[idx] : ((idx - NFIX) * 283u + 17u) % (64 * SUPER);
			memset(&t, 0xa5, sizeof(t));
			gsm_fn2gsmtime(&t, fn);
			printf("P idx=%u fn=%u\n", idx, fn);
			fflush(stdout);
			for (hsn = 0; hsn < 64; hsn++)
				for (n = 1; n <= 64; n++) {
					nm = maio_set(n, maio);
					for (k = 0; k < nm; k++)
						for (b = 0; b < 2; b++) {
							unsigned want;
							uint16_t got;
							/* consecutive calls: same FN, parameters differ (MA contents change
							 * fastest: the same MAI must give a different ARFCN) */
							/* two MA contents per configuration, pairs (0,1) (2,3) (4,5) in rotation */
							ma_flavour = 2 * ((hsn + n + k) % 3) + b;
							hflav[ma_flavour]++;
							configure(hsn, maio[k], n);
							want = spec_mai(hsn, maio[k], n, fn);
							got = fw_arfcn_t(&t);
							nhop++;
							if (got != ma_val(want) && nviol++ < 20)
								printf("H kind=hop idx=%u fn=%u hsn=%u maio=%u n=%u flavour=%u fw=%u fwidx=%d spec=%u want=%u\n",
								       idx, fn, hsn, maio[k], n, ma_flavour, got, fw_index(got, n), want, ma_val(want));
							if (step++ % 5)
								continue;
							/* same FN, non-hopping dedicated channel (h0 shares storage with h1) */
							l1s.dedicated.h = 0;
							l1s.dedicated.h0.arfcn = 100 + step % 800;
							got = fw_arfcn_t(&t);
							nnonhop++;
							if (got != 100 + step % 800 && nviol++ < 20)
								printf("H kind=nonhop idx=%u fn=%u hsn=%u maio=%u n=%u flavour=%u fw=%u fwidx=-1 spec=0 want=%lu\n",
								       idx, fn, hsn, maio[k], n, ma_flavour, got, 100 + step % 800);
							/* same FN, no dedicated channel: serving cell */
							l1s.dedicated.type = GSM_DCHAN_NONE;
							l1s.serving_cell.arfcn = 900 + step % 100;
							got = fw_arfcn_t(&t);
							nnone++;
							if (got != 900 + step % 100 && nviol++ < 20)
								printf("H kind=none idx=%u fn=%u hsn=%u maio=%u n=%u flavour=%u fw=%u fwidx=-1 spec=0 want=%lu\n",
								       idx, fn, hsn, maio[k], n, ma_flavour, got, 900 + step % 100);
							/* and back to the hopping channel, same FN: same answer as before */
							configure(hsn, maio[k], n);
							got = fw_arfcn_t(&t);
							nagain++;
							if (got != ma_val(want) && nviol++ < 20)
								printf("H kind=again idx=%u fn=%u hsn=%u maio=%u n=%u flavour=%u fw=%u fwidx=%d spec=%u want=%u\n",
								       idx, fn, hsn, maio[k], n, ma_flavour, got, fw_index(got, n), want, ma_val(want));
						}
				}
		}
		printf("{\"hist_fns\": %u, \"hist_hopping\": %lu, \"hist_hopping_repeat\": %lu, \"hist_nonhopping\": %lu, "
		       "\"hist_serving_cell\": %lu, \"hist_flavours\": [%lu, %lu, %lu, %lu, %lu, %lu], \"violations\": %lu}\n",
		       hi > lo ? hi - lo : 0, nhop, nagain, nnonhop, nnone,
		       hflav[0], hflav[1], hflav[2], hflav[3], hflav[4], hflav[5], nviol);
		return nviol ? 1 : 0;
	}
	if (argc >= 2 && !strcmp(argv[1], "vec")) {
		unsigned m;
		unsigned long f;
		char line[128];
		while (fgets(line, sizeof(line), stdin)) {
			uint16_t a;
			unsigned fl = 0, sp;
			if (sscanf(line, "%u %u %u %lu %u", &hsn, &m, &n, &f, &fl) < 4)
				break;
			if (n < 1 || n > 64 || f >= HYPER || fl >= NFLAVOUR) return 2;
			printf("case hsn=%u maio=%u n=%u fn=%lu flavour=%u\n", hsn, m, n, f, fl);
			fflush(stdout);
			ma_flavour = fl;
			configure(hsn, m, n);
			a = fw_arfcn((uint32_t)f);
			sp = spec_mai(hsn, m, n, (uint32_t)f);
			printf("fw=%u fwidx=%d spec=%u want=%u\n", a, fw_index(a, n), sp, ma_val(sp));
		}
		return 0;
	}
	return 2;
}

/* C06 driver: sercomm/HDLC framing - transmitter, wire format and receiver of the tree's
 * unmodified firmware/comm/sercomm.c (HOST_BUILD), linked with the tree's msgb.c and talloc.c.
 * sercomm.c is #included so that its file-static state can be reset, serialised and hashed.
 *
 *   drv_c06 bfs depth=<n> dlci=<a,b,..> pay=<i,j,..> noise=<hex,..|-> ol=<len,..|-> maxq=<n> cap=<states>
 *        Space A: breadth-first search with replay-from-reset.  Events: send(dlci, payload),
 *        pull one octet and feed it to the receiver, noise octet / over-long frame fed to the
 *        receiver while the transmitter is between frames.  A state is identified by a 128-bit
 *        fingerprint of the complete static state of sercomm.c (all transmit queues with message
 *        contents, message in transmission with position and escape state, receive buffer
 *        contents, receive state, dlci, ctrl) plus the reference model.
 *   drv_c06 sweep <dlci_lo> <dlci_hi> <maxlen>   Space B: transparency, one frame at a time
 *   drv_c06 resync <part> <nparts>               over-long frame / noise scenarios with following frames
 *   drv_c06 echo                                 DLCI 128 (built-in echo) scenario
 *   drv_c06 regsweep <dlci_lo> <dlci_hi>         handlers registered on subsets of the DLCIs
 *   drv_c06 backlog                              255/256/257/512 messages queued, then drained
 *   drv_c06 replay <tok,tok,...>                 one event sequence from reset
 *
 * Tokens: s<dlci>.<hex payload|-> send; S<dlci>.<len>.<first>.<last>.<fill> send a long payload;
 * p pull+feed; P pull until the frame in transmission is complete; q pull one octet without
 * feeding the receiver; n<hex> noise octet; o<len> over-long frame fed directly.
 *
 * Reference (written from the property statement): pending messages in send order; when a frame
 * starts it must be the oldest message of the lowest DLCI; the octets on the wire, un-stuffed the
 * HDLC way (0x7D, then octet xor 0x20), must be address, one control octet, payload; no 0x00 and
 * no 0x7E inside a frame; 0x7D only before 0x5E/0x5D/0x20; the handler of exactly that DLCI must
 * be called exactly once with exactly that payload at the closing flag and never otherwise.  An
 * over-long frame (payload >= 2048) must not be delivered; from its start until the end of the next
 * regular frame deliveries are not judged ("costing at most the one frame that follows"),
 * everything after that is judged strictly again.
 */
#include <stdint.h>
#include <stdio.h>
#include <stdlib.h>
#include <string.h>
#include <stdarg.h>
#include <unistd.h>
#include <stddef.h>
#include <sys/types.h>
#include <sys/wait.h>

#include "comm/sercomm.c"       /* the tree's file, unmodified */

#define RXBUF 2048              /* receive buffer of the host build (property text) */
#define NDLCI 128               /* DLCIs 0..127 get the recording handler; 128 is the built-in echo */

static FILE *res;

/* ------------------------------------------------------------------ observations */
struct deliv { int dlci; int len; uint8_t data[RXBUF + 64]; };
static struct deliv dv[4];
static int ndv;
static unsigned long total_deliveries;
static int oversize_len = -1, oversize_dlci;   /* a handler was given >= 2048 payload octets */

static void on_rx(uint8_t dlci, struct msgb *msg)
{
	if (ndv < 4) {
		int len = msg->tail - msg->data;
		dv[ndv].dlci = dlci;
		dv[ndv].len = len;
		if (len > (int)sizeof(dv[ndv].data)) len = sizeof(dv[ndv].data);
		if (len > 0) memcpy(dv[ndv].data, msg->data, len);
	}
	if (msg->tail - msg->data >= 2048 && oversize_len < 0) { oversize_len = msg->tail - msg->data; oversize_dlci = dlci; }
	ndv++;
	total_deliveries++;
	msgb_free(msg);
}

/* ------------------------------------------------------------------ violations */
/* A violation is only reported (V line) with an event list that reproduces it when executed alone in a
 * process that never ran any other code under test ("pristine"): the exploration runs millions of cases in
 * one process and resets the `sercomm` structure between them, but state the code under test keeps
 * elsewhere (other statics, allocator) survives, so what a case shows inside the exploration may be residue
 * of other cases.  A pristine verifier process is forked before anything runs; per request it forks a child
 * that executes one event list and answers with the violation keys and a digest of the final state.  Keys
 * seen in the exploration for which no candidate reproduces alone are reported as HD lines. */
#define MAXV 60
#define MAXATT 400
struct vrec { char key[80]; int confirmed, attempts; unsigned long count, next_try; char msg[500]; char ex[600]; };
static struct vrec vr[MAXV];
static int nvr;
static unsigned long nviol, n_verify;
static int bad, quiet;
static const char *(*trace_fn)(void);
static int verify_enabled;
static int in_child;            /* verifier child: collect keys, print nothing */
static char child_keys[2400];
static int vrq = -1; static FILE *vrs;

static int run_tokens(const char *s);
static uint64_t state_digest(void);
#define HDIE(...) do { if (in_child) _exit(3); fprintf(res, __VA_ARGS__); fflush(res); exit(3); } while (0)

static void verifier_start(void)
{
	int rq[2], rs[2];
	pid_t srv;
	if (pipe(rq) || pipe(rs)) exit(3);
	srv = fork();
	if (srv < 0) exit(3);
	if (srv == 0) {
		static char line[16384];
		FILE *in;
		close(rq[1]); close(rs[0]);
		in = fdopen(rq[0], "r");
		while (in && fgets(line, sizeof(line), in)) {
			int st = 0;
			pid_t c;
			line[strcspn(line, "\n")] = 0;
			c = fork();
			if (c == 0) {
				static char out[2600];
				in_child = 1; child_keys[0] = 0;
				run_tokens(line);
				snprintf(out, sizeof(out), "R %016llx %s\n", (unsigned long long)state_digest(), child_keys);
				if (write(rs[1], out, strlen(out)) < 0) _exit(1);
				_exit(0);
			}
			if (c < 0 || waitpid(c, &st, 0) < 0 || !(WIFEXITED(st) && WEXITSTATUS(st) == 0))
				if (write(rs[1], "DIED\n", 5) < 0) _exit(1);
		}
		_exit(0);
	}
	close(rq[0]); close(rs[1]);
	vrq = rq[1]; vrs = fdopen(rs[0], "r");
}

/* executes the event list alone in a pristine process.  returns 1 if `key` shows up there (or the case
 * kills the process) */
static int verify_case(const char *tok, const char *key, uint64_t *digest, int *nkeys)
{
	static char line[4096], pat[128];
	if (dprintf(vrq, "%s\n", tok) < 0 || !fgets(line, sizeof(line), vrs)) {
		fprintf(res, "{\"harness_error\": \"verifier process lost\"}\n"); fflush(res); exit(3);
	}
	n_verify++;
	if (!strncmp(line, "DIED", 4)) { if (digest) *digest = 0; if (nkeys) *nkeys = -1; return 1; }
	if (digest) *digest = strtoull(line + 2, NULL, 16);
	if (nkeys) { int n = 0; const char *q; for (q = line + 18; *q; q++) n += *q == ';'; *nkeys = n; }
	snprintf(pat, sizeof(pat), " %s;", key);
	return strstr(line + 18, pat) != NULL;
}

static struct vrec *vrec_for(const char *key)
{
	int i;
	for (i = 0; i < nvr; i++) if (!strcmp(vr[i].key, key)) return &vr[i];
	if (nvr >= MAXV) return NULL;
	memset(&vr[nvr], 0, sizeof(vr[0]));
	snprintf(vr[nvr].key, sizeof(vr[0].key), "%s", key);
	return &vr[nvr++];
}

static void viol(const char *key, const char *fmt, ...)
{
	char msg[700];
	va_list ap;
	struct vrec *r;
	const char *trace;
	bad = 1;
	if (quiet) return;
	if (in_child) {
		char pat[128];
		snprintf(pat, sizeof(pat), " %s;", key);
		if (!strstr(child_keys, pat) && strlen(child_keys) + strlen(pat) < sizeof(child_keys)) strcat(child_keys, pat);
		return;
	}
	nviol++;
	if (!(r = vrec_for(key))) return;
	r->count++;
	if (r->confirmed || r->attempts >= MAXATT) return;
	/* candidates: the first 150 occurrences, then a geometrically thinning sample */
	if (r->count > 150 && r->count < r->next_try) return;
	r->next_try = r->count + r->count / 16 + 1;
	trace = trace_fn ? trace_fn() : "-";
	va_start(ap, fmt); vsnprintf(msg, sizeof(msg), fmt, ap); va_end(ap);
	r->attempts++;
	if (!verify_enabled || verify_case(trace, key, NULL, NULL)) {
		r->confirmed = 1;
		fprintf(res, "V %s | %s | %s\n", key, msg, trace);
		fflush(res);
	} else if (r->attempts == 1) {
		snprintf(r->msg, sizeof(r->msg), "%s", msg);
		snprintf(r->ex, sizeof(r->ex), "%s", trace);
	}
}

static int report_unconfirmed(void)
{
	int i, n = 0;
	for (i = 0; i < nvr; i++)
		if (!vr[i].confirmed) {
			fprintf(res, "HD %s | %s | %s | %lu occurrence(s) in this run; %d of their event lists were re-run alone in a fresh process, none shows it there\n",
				vr[i].key, vr[i].msg, vr[i].ex, vr[i].count, vr[i].attempts);
			n++;
		}
	fflush(res);
	return n;
}

static const char *hex(const uint8_t *p, int n)
{
	static char b[4][100]; static int k;
	char *o = b[k = (k + 1) & 3]; int i, m = n > 24 ? 24 : n;
	if (n <= 0) { strcpy(o, "(empty)"); return o; }
	for (i = 0; i < m; i++) sprintf(o + 2 * i, "%02x", p[i]);
	if (n > m) sprintf(o + 2 * m, "..(%d)", n);
	return o;
}

/* ------------------------------------------------------------------ reference model */
struct rmsg { int dlci; int len; const uint8_t *p; };
#define MAXPEND 1100            /* the backlog scenarios queue up to 513 messages */
static struct rmsg pend[MAXPEND];
static int npend;
static struct rmsg cur;
static int have_cur;            /* a frame is on the wire */
static int cur_idx, cur_esc;    /* un-stuffed octets seen so far, escape pending */
static int cur_overlong, cur_wirebad;
static int cur_wirelen;
static int desync;              /* 1: an over-long frame was seen, the next regular frame is not judged */
static int taint;               /* for the violation key: 0 none, 1 over-long frame since the last exact delivery,
				   2 additionally noise inside the tolerance window */
static uint8_t dec_head[8]; static int ndec_head;
static unsigned long n_frames, n_exact, n_octets, n_escapes, n_tolerated, n_noise, n_overlong, n_idle_pulls;

static int abandon;             /* scenario left the judged domain inside the tolerance window (not a violation) */

static void ref_reset(void)
{
	npend = 0; have_cur = 0; cur_idx = cur_esc = cur_overlong = cur_wirebad = 0; desync = 0; taint = 0; ndv = 0; abandon = 0; oversize_len = -1;
}

/* which DLCIs 0..127 get the recording handler at reset (default: all); DLCI 128 always keeps the echo */
static uint8_t regmask[NDLCI];
static int reg_all = 1;
static int is_reg(int d) { return d == 128 || (d >= 0 && d < NDLCI && (reg_all || regmask[d])); }
static unsigned long n_unreg_frames;

static void do_reset(void)
{
	unsigned int i;
	struct msgb *m;
	if (sercomm.initialized)
		for (i = 0; i < ARRAY_SIZE(sercomm.tx.dlci_queues); i++)
			while ((m = msgb_dequeue(&sercomm.tx.dlci_queues[i]))) msgb_free(m);
	if (sercomm.tx.msg) msgb_free(sercomm.tx.msg);
	if (sercomm.rx.msg) msgb_free(sercomm.rx.msg);
	memset(&sercomm, 0, sizeof(sercomm));
	sercomm_init();
	for (i = 0; i < NDLCI; i++)
		if (is_reg(i) && sercomm_register_rx_cb(i, on_rx) != 0) HDIE("{\"harness_error\": \"register %u\"}\n", i);
	ref_reset();
}

static const char *kindkey(const char *kind, int dlci)
{
	static char k[80];
	const char *t = taint == 2 ? "after-overlong+noise:" : taint == 1 ? "after-overlong:" : "";
	if (dlci < 0) snprintf(k, sizeof(k), "C06:idle:%sspurious-delivery", t);
	else snprintf(k, sizeof(k), "C06:dlci=0x%02x:%s%s", dlci, t, kind);
	return k;
}

static unsigned long n_abandoned, n_echo_queued;

/* a payload as long as the receive buffer or longer must never reach a handler, in sync or not:
 * over-long frames are discarded, and what an out-of-sync receiver hands out is at most one buffer */
static void check_oversize(void)
{
	if (oversize_len >= 0)
		viol("C06:overlong:delivered", "handler of dlci 0x%02x was given %d payload octets (receive buffer: %d)", oversize_dlci, oversize_len, RXBUF);
	oversize_len = -1;
}

/* the newest message queued for transmission on the echo DLCI is exactly the frame `m` */
static int echo_is(const struct rmsg *m)
{
	struct llist_head *q = &sercomm.tx.dlci_queues[128];
	struct msgb *e;
	if (llist_empty(q)) return 0;
	e = llist_entry(q->prev, struct msgb, list);
	return e->tail - e->data == m->len + 2 && e->data[0] == 128 && (!m->len || !memcmp(e->data + 2, m->p, m->len));
}

/* judge the handler calls made while one octet (or one injected burst) was fed to the receiver.
 * echo_before: depth of the echo DLCI's transmit queue before the octet was fed (-1: not recorded) */
static void judge(int frame_end, int echo_before)
{
	check_oversize();
	if (frame_end && have_cur && cur.dlci == 128 && echo_before >= 0) {
		/* echo DLCI: the handler is sercomm_sendmsg itself -> "delivered" means the identical frame is
		 * queued for transmission once more */
		int grown = (int)sercomm_tx_queue_depth(128) - echo_before;
		if (desync) {
			/* tolerance window: the frame may be lost; if it was echoed it must be the right echo,
			 * which is then judged on the wire like any other frame; anything else ends the scenario */
			n_tolerated += ndv; ndv = 0;
			if (grown == 1 && echo_is(&cur) && npend < MAXPEND) { pend[npend++] = cur; n_echo_queued++; }
			else if (grown != 0) abandon = 1;
			return;
		}
		if (ndv) viol(kindkey("misdelivered", 128), "frame for the echo DLCI reached the handler of DLCI 0x%02x", dv[0].dlci);
		else if (grown == 0) viol(kindkey("lost", 128), "echo DLCI: frame with payload %s complete, nothing queued for transmission", hex(cur.p, cur.len));
		else if (grown > 1) viol(kindkey("duplicate", 128), "echo DLCI: %d messages queued for one frame", grown);
		else if (!echo_is(&cur)) viol(kindkey("payload", 128), "echo DLCI: queued echo differs from the frame received (payload %s)", hex(cur.p, cur.len));
		else { n_exact++; n_echo_queued++; taint = 0; }
		if (npend < MAXPEND) pend[npend++] = cur;
		ndv = 0;
		return;
	}
	if (desync) {
		if (ndv) n_tolerated += ndv;
		ndv = 0;
		return;
	}
	if (!frame_end) {
		if (ndv)
			viol(kindkey("spurious", have_cur ? cur.dlci : -1),
			     "handler of DLCI 0x%02x called with %s although no frame was complete", dv[0].dlci, hex(dv[0].data, dv[0].len));
		ndv = 0;
		return;
	}
	if (!is_reg(cur.dlci)) {
		/* nobody registered for this DLCI: the frame goes nowhere (the implementation frees the buffer) and
		 * costs no other frame */
		if (ndv) viol(kindkey("misdelivered", cur.dlci), "frame for dlci 0x%02x, which has no handler, reached the handler of dlci 0x%02x (payload %s)",
			      cur.dlci, dv[0].dlci, hex(dv[0].data, dv[0].len));
		else n_unreg_frames++;
		ndv = 0;
		return;
	}
	if (ndv == 0)
		viol(kindkey("lost", cur.dlci), "frame (dlci 0x%02x, payload %s) complete, no handler called", cur.dlci, hex(cur.p, cur.len));
	else if (ndv > 1)
		viol(kindkey("duplicate", cur.dlci), "frame (dlci 0x%02x, payload %s): %d handler calls", cur.dlci, hex(cur.p, cur.len), ndv);
	else if (dv[0].dlci != cur.dlci)
		viol(kindkey("misdelivered", cur.dlci), "sent dlci 0x%02x payload %s; delivered to dlci 0x%02x payload %s",
		     cur.dlci, hex(cur.p, cur.len), dv[0].dlci, hex(dv[0].data, dv[0].len));
	else if (dv[0].len != cur.len || (cur.len && memcmp(dv[0].data, cur.p, cur.len)))
		viol(kindkey("payload", cur.dlci), "sent dlci 0x%02x payload %s; delivered payload %s", cur.dlci, hex(cur.p, cur.len), hex(dv[0].data, dv[0].len));
	else { n_exact++; taint = 0; }
	ndv = 0;
}

static void do_send(int dlci, const uint8_t *p, int len)
{
	/* sercomm_alloc_msgb(0) is outside the API's domain (msgb_alloc_headroom asserts size > headroom) */
	struct msgb *msg = sercomm_alloc_msgb(len ? len : 1);
	if (!msg) HDIE("{\"harness_error\": \"alloc\"}\n");
	if (len) memcpy(msgb_put(msg, len), p, len);
	ndv = 0;
	sercomm_sendmsg(dlci, msg);
	if (ndv) { viol("C06:idle:spurious-delivery", "handler called from sercomm_sendmsg"); ndv = 0; }
	if (npend >= MAXPEND) HDIE("{\"harness_error\": \"pend full\"}\n");
	pend[npend].dlci = dlci; pend[npend].len = len; pend[npend].p = p; npend++;
}

/* one pulled octet against the reference's wire rules; returns 1 at the closing flag */
static int wire_octet(uint8_t ch)
{
	cur_wirelen++;
	if (ch == HDLC_FLAG) {
		int want = cur.len + 2;
		if (cur_esc) { viol("C06:wire:flag-after-escape", "closing flag directly after an escape octet (dlci 0x%02x payload %s)", cur.dlci, hex(cur.p, cur.len)); cur_wirebad = 1; }
		if (cur_idx != want && !cur_wirebad) {
			viol(cur_idx < want ? "C06:wire:flag-in-frame" : "C06:wire:decode",
			     "frame for dlci 0x%02x payload %s: flag octet after %d of %d un-stuffed octets", cur.dlci, hex(cur.p, cur.len), cur_idx, want);
			cur_wirebad = 1;
		}
		return 1;
	}
	if (ch == 0x00) { viol("C06:wire:zero-octet", "0x00 on the wire inside the frame for dlci 0x%02x payload %s", cur.dlci, hex(cur.p, cur.len)); cur_wirebad = 1; }
	if (cur_esc) {
		uint8_t u = ch ^ 0x20;
		cur_esc = 0;
		if (u != 0x7E && u != 0x7D && u != 0x00) { viol("C06:wire:bad-escape", "0x7D followed by 0x%02x (un-escapes to 0x%02x)", ch, u); cur_wirebad = 1; }
		ch = u;
	} else if (ch == HDLC_ESCAPE) {
		cur_esc = 1; n_escapes++;
		return 0;
	}
	/* un-stuffed octet number cur_idx */
	if (ndec_head < 8) dec_head[ndec_head++] = ch;
	if (!cur_wirebad) {
		if (cur_idx == 0 && ch != cur.dlci) {
			int i, other = 0;
			for (i = 0; i < npend; i++) other |= pend[i].dlci == ch;
			viol(other ? "C06:tx:priority-order" : "C06:wire:address",
			     "frame started for dlci 0x%02x although dlci 0x%02x (payload %s) is the lowest pending", ch, cur.dlci, hex(cur.p, cur.len));
			cur_wirebad = 1;
		} else if (cur_idx >= 2 && (cur_idx - 2 >= cur.len || cur.p[cur_idx - 2] != ch)) {
			int i, other = 0;
			for (i = 0; i < npend; i++) other |= pend[i].dlci == cur.dlci;
			viol(other && cur_idx == 2 ? "C06:tx:fifo-order" : "C06:wire:decode",
			     "dlci 0x%02x payload %s: un-stuffed wire octet %d is 0x%02x", cur.dlci, hex(cur.p, cur.len), cur_idx - 2, ch);
			cur_wirebad = 1;
		}
	}
	cur_idx++;
	return 0;
}

/* pull one octet from the transmitter; feed it to the receiver unless feed == 0.
 * returns 0 nothing to send, 1 octet inside/at start of a frame, 2 frame complete */
static int do_pull(int feed)
{
	uint8_t ch = 0xAA;
	int r, i, end = 0;
	ndv = 0;
	r = sercomm_drv_pull(&ch);
	if (ndv) { viol("C06:idle:spurious-delivery", "handler called from sercomm_drv_pull"); ndv = 0; }
	if (!have_cur) {
		int best = -1;
		for (i = 0; i < npend; i++) if (best < 0 || pend[i].dlci < pend[best].dlci) best = i;
		if (best < 0) {
			n_idle_pulls++;
			if (r != 0) viol("C06:tx:octet-without-message", "sercomm_drv_pull returned %d (octet 0x%02x) with nothing queued", r, ch);
			return 0;
		}
		if (r != 1) { viol("C06:tx:stalled", "sercomm_drv_pull returned %d with %d message(s) queued", r, npend); return 0; }
		cur = pend[best];
		for (i = best; i < npend - 1; i++) pend[i] = pend[i + 1];
		npend--;
		have_cur = 1; cur_idx = 0; cur_esc = 0; cur_wirebad = 0; cur_wirelen = 1; ndec_head = 0;
		cur_overlong = cur.len >= RXBUF;
		n_frames++;
		if (ch != HDLC_FLAG) { viol("C06:wire:no-opening-flag", "frame for dlci 0x%02x starts with 0x%02x", cur.dlci, ch); cur_wirebad = 1; }
	} else {
		if (r != 1) { viol("C06:tx:stalled", "sercomm_drv_pull returned %d inside a frame", r); have_cur = 0; return 0; }
		end = wire_octet(ch);
		if (!end && cur_wirelen > 2 * (cur.len + 2) + 2) {
			viol("C06:wire:frame-too-long", "frame for dlci 0x%02x payload %s: %d octets on the wire and no closing flag", cur.dlci, hex(cur.p, cur.len), cur_wirelen);
			end = 1;
		}
	}
	n_octets++;
	if (feed) {
		int echo_before = (end && cur.dlci == 128) ? (int)sercomm_tx_queue_depth(128) : -1;
		sercomm_drv_rx_char(ch);
		if (cur_overlong) {
			/* an over-long frame must be discarded; deliveries while it passes are only excused if
			 * reception was already out of sync */
			check_oversize();
			if (ndv && !desync) viol("C06:overlong:delivered", "handler of dlci 0x%02x called while an over-long frame (%d payload octets) was received", dv[0].dlci, cur.len);
			if (echo_before >= 0 && (int)sercomm_tx_queue_depth(128) != echo_before) {
				if (!desync) viol("C06:overlong:delivered", "over-long frame (%d payload octets) for the echo DLCI was echoed", cur.len);
				else abandon = 1;
			}
			ndv = 0;
			if (end) { desync = 1; if (taint < 1) taint = 1; n_overlong++; }
		} else {
			int was = desync;
			judge(end, echo_before);
			if (end && was) desync = 0;
		}
	}
	if (end) { have_cur = 0; return 2; }
	return 1;
}

static void do_noise(uint8_t o)
{
	ndv = 0;
	sercomm_drv_rx_char(o);
	n_noise++;
	if (desync && taint < 2) taint = 2;
	judge(0, -1);
}

/* an over-long frame fed to the receiver directly: flag, address, control, len payload octets, flag */
static void do_overlong(long len)
{
	long i;
	int insync = !desync;
	ndv = 0;
	sercomm_drv_rx_char(HDLC_FLAG);
	sercomm_drv_rx_char(0x05);
	sercomm_drv_rx_char(HDLC_C_UI);
	for (i = 0; i < len; i++) sercomm_drv_rx_char(0x30 + (i & 0x3f));   /* 0x30..0x6f: no flag, escape or zero */
	sercomm_drv_rx_char(HDLC_FLAG);
	n_overlong++; n_octets += len + 4;
	check_oversize();
	if (ndv && insync) viol("C06:overlong:delivered", "handler of dlci 0x%02x called while an over-long frame (%ld payload octets) was received", dv[0].dlci, len);
	ndv = 0;
	desync = 1;
	if (taint < 1) taint = 1;
}

/* pull (and feed) until the frame in transmission - or the next one - is complete */
static void run_frame(int feed)
{
	int r, guard = 0;
	do { r = do_pull(feed); } while (r == 1 && !bad && !abandon && ++guard < 400000);
}

/* ------------------------------------------------------------------ fingerprint of real + reference state */
static uint64_t f1, f2;
static inline void fp_byte(uint8_t b) { f1 = (f1 ^ b) * 1099511628211ull; f2 = (f2 + b + 1) * 0x9E3779B97F4A7C15ull; f2 ^= f2 >> 31; }
static void fp_bytes(const uint8_t *p, long n) { long i; for (i = 0; i < n; i++) fp_byte(p[i]); }
static void fp_u32(uint32_t v) { fp_byte(v); fp_byte(v >> 8); fp_byte(v >> 16); fp_byte(v >> 24); }
static void fp_msg(const struct msgb *m) { fp_u32(m->tail - m->data); fp_bytes(m->data, m->tail - m->data); fp_u32(m->data - m->head); fp_u32(m->data_len); }

static void fingerprint(void)
{
	unsigned int i;
	struct msgb *m;
	f1 = 1469598103934665603ull; f2 = 0x243F6A8885A308D3ull;
	for (i = 0; i < ARRAY_SIZE(sercomm.tx.dlci_queues); i++)
		llist_for_each_entry(m, &sercomm.tx.dlci_queues[i], list) { fp_byte(0xA1); fp_u32(i); fp_msg(m); }
	fp_byte(0xA2);
	if (sercomm.tx.msg) { fp_msg(sercomm.tx.msg); fp_u32(sercomm.tx.next_char - sercomm.tx.msg->data); }
	fp_byte(0xA3); fp_u32(sercomm.tx.state);
	fp_byte(0xA4);
	if (sercomm.rx.msg) fp_msg(sercomm.rx.msg);
	fp_byte(0xA5); fp_u32(sercomm.rx.state); fp_byte(sercomm.rx.dlci); fp_byte(sercomm.rx.ctrl);
	for (i = 0; i < ARRAY_SIZE(sercomm.rx.dlci_handler); i++) fp_byte(sercomm.rx.dlci_handler[i] != NULL);
	/* every other byte of the structure, so that members this driver does not know are part of the state too
	 * (the structure is zeroed at reset; the known pointer-bearing members are blanked out) */
	{
		static unsigned char tmp[sizeof(sercomm)];
		size_t o;
		memcpy(tmp, &sercomm, sizeof(sercomm));
#define BLANK(m) memset(tmp + ((char *)&sercomm.m - (char *)&sercomm), 0, sizeof(sercomm.m))
		BLANK(tx.msg); BLANK(tx.next_char); BLANK(rx.msg);
#undef BLANK
		for (o = 0; o < sizeof(sercomm); o++) {
			size_t q0 = (char *)&sercomm.tx.dlci_queues - (char *)&sercomm, h0 = (char *)&sercomm.rx.dlci_handler - (char *)&sercomm;
			if (o == q0) { o += sizeof(sercomm.tx.dlci_queues) - 1; continue; }
			if (o == h0) { o += sizeof(sercomm.rx.dlci_handler) - 1; continue; }
			fp_byte(tmp[o]);
		}
	}
	/* reference */
	fp_byte(0xB1);
	for (i = 0; i < (unsigned)npend; i++) { fp_byte(pend[i].dlci); fp_u32(pend[i].len); fp_bytes(pend[i].p, pend[i].len); }
	fp_byte(0xB2);
	if (have_cur) { fp_byte(cur.dlci); fp_u32(cur.len); fp_bytes(cur.p, cur.len); fp_u32(cur_idx); fp_byte(cur_esc); fp_byte(cur_overlong); fp_u32(cur_wirelen); }
	fp_byte(0xB3); fp_byte(desync); fp_byte(taint);
}

static uint64_t state_digest(void) { fingerprint(); return f1 ^ ((f2 << 1) | (f2 >> 63)); }

/* ------------------------------------------------------------------ payload alphabet of space A */
static const uint8_t PA[][4] = { {0}, {0x7E}, {0x7D}, {0x00}, {0x41}, {0x7E, 0x7D}, {0x7D, 0x5E}, {0x41, 0x00, 0x42}, {0x5E} };
static const int PALEN[] = { 0, 1, 1, 1, 1, 2, 2, 3, 1 };
#define NPA 9

/* ------------------------------------------------------------------ events */
struct event { char kind; long a; int len; uint8_t pay[8]; };

static uint8_t longbuf[4][70000];
static uint8_t blstore[1100][2];   /* payloads of the backlog tokens: a running 16-bit counter */
static int nbl;
static int nlong;

static int ev_print(char *b, const struct event *e)
{
	int n, i;
	switch (e->kind) {
	case 's':
		n = sprintf(b, "s%ld.", e->a);
		if (!e->len) n += sprintf(b + n, "-");
		for (i = 0; i < e->len; i++) n += sprintf(b + n, "%02x", e->pay[i]);
		return n;
	case 'n': return sprintf(b, "n%02lx", e->a);
	case 'o': return sprintf(b, "o%ld", e->a);
	}
	return sprintf(b, "%c", e->kind);
}

static int maxq = 3;
static int ev_enabled(const struct event *e)
{
	switch (e->kind) {
	case 's': return npend + have_cur < maxq;
	case 'n': return !have_cur && !desync;   /* noise inside the tolerance window is enumerated by the resync scenarios */
	case 'o': return !have_cur;
	}
	return 1;
}

/* payload storage for applied send events must outlive the event: events own it */
static void ev_apply(const struct event *e)
{
	switch (e->kind) {
	case 's': do_send(e->a, e->pay, e->len); break;
	case 'p': do_pull(1); break;
	case 'q': do_pull(0); break;
	case 'P': run_frame(1); break;
	case 'Q': run_frame(0); break;
	case 'I':      /* the transmitter must be idle now */
		if (have_cur || npend) viol("C06:tx:stalled", "%d message(s) still not transmitted", npend + have_cur);
		else do_pull(0);
		break;
	case 'n': do_noise(e->a); break;
	case 'o': do_overlong(e->a); break;
	}
}

/* ------------------------------------------------------------------ BFS (space A) */
struct st { uint64_t h1, h2; uint32_t parent; uint8_t ev, depth, cnt, flags; };
static struct st *sts; static uint32_t nst, capst; static uint32_t *htab; static uint32_t hmask;
static struct event *alpha; static int nalpha;
static uint32_t cur_state; static int cur_ev;
static char tracebuf[4096];

static int path_of(uint32_t s, uint8_t *out)
{
	int n = sts[s].depth, i;
	for (i = n - 1; i >= 0; i--) { out[i] = sts[s].ev; s = sts[s].parent; }
	return n;
}
static const char *bfs_trace(void)
{
	uint8_t path[256]; int n = path_of(cur_state, path), i; char *p = tracebuf;
	for (i = 0; i < n; i++) { p += ev_print(p, &alpha[path[i]]); *p++ = ','; }
	if (cur_ev >= 0) p += ev_print(p, &alpha[cur_ev]); else if (p > tracebuf) p--;
	*p = 0;
	return tracebuf;
}

static int parse_ints(const char *s, long *out, int max, int base)
{
	int n = 0;
	if (!strcmp(s, "-")) return 0;
	while (*s && n < max) { out[n++] = strtol(s, (char **)&s, base); if (*s == ',') s++; }
	return n;
}

static int do_bfs(int argc, char **argv)
{
	long dl[16], pi[16], no[16], ol[8]; int ndl = 0, npi = 0, nno = 0, nol = 0, depth = 9, i, j;
	unsigned long cap = 3000000;
	for (i = 2; i < argc; i++) {
		if (!strncmp(argv[i], "depth=", 6)) depth = atoi(argv[i] + 6);
		else if (!strncmp(argv[i], "dlci=", 5)) ndl = parse_ints(argv[i] + 5, dl, 16, 10);
		else if (!strncmp(argv[i], "pay=", 4)) npi = parse_ints(argv[i] + 4, pi, 16, 10);
		else if (!strncmp(argv[i], "noise=", 6)) nno = parse_ints(argv[i] + 6, no, 16, 16);
		else if (!strncmp(argv[i], "ol=", 3)) nol = parse_ints(argv[i] + 3, ol, 8, 10);
		else if (!strncmp(argv[i], "maxq=", 5)) maxq = atoi(argv[i] + 5);
		else if (!strncmp(argv[i], "cap=", 4)) cap = strtoul(argv[i] + 4, 0, 0);
		else return 2;
	}
	if (depth > 250) depth = 250;
	alpha = calloc(ndl * npi + nno + nol + 1, sizeof(*alpha));
	alpha[nalpha++].kind = 'p';
	for (i = 0; i < ndl; i++) for (j = 0; j < npi; j++) {
		struct event *e = &alpha[nalpha++];
		if (pi[j] < 0 || pi[j] >= NPA || dl[i] < 0 || dl[i] >= NDLCI) return 2;
		e->kind = 's'; e->a = dl[i]; e->len = PALEN[pi[j]]; memcpy(e->pay, PA[pi[j]], 4);
	}
	for (i = 0; i < nno; i++) { alpha[nalpha].kind = 'n'; alpha[nalpha++].a = no[i] & 0xff; }
	for (i = 0; i < nol; i++) { alpha[nalpha].kind = 'o'; alpha[nalpha++].a = ol[i]; }
	if (nalpha > 255) return 2;
	capst = cap;
	sts = malloc(sizeof(*sts) * (size_t)(capst + 1));
	for (hmask = 1; hmask < 2 * capst + 16; hmask <<= 1);
	htab = malloc(sizeof(uint32_t) * (size_t)hmask);
	if (!sts || !htab) return 3;
	memset(htab, 0xFF, sizeof(uint32_t) * (size_t)hmask);
	hmask--;
	trace_fn = bfs_trace;

	do_reset();
	fingerprint();
	sts[0].h1 = f1; sts[0].h2 = f2; sts[0].parent = 0; sts[0].ev = 0; sts[0].depth = 0; sts[0].cnt = 0; sts[0].flags = 0;
	htab[f1 & hmask] = 0; nst = 1;
	unsigned long ntrans = 0, nbad = 0, ndup = 0, nreplayed = 0, at_bound = 0, per_kind[4] = { 0, 0, 0, 0 };
	unsigned long states_desync = 0, states_inframe = 0;
	int maxdepth = 0, hitcap = 0;
	uint32_t head;
	uint8_t path[256];
	for (head = 0; head < nst && !hitcap; head++) {
		int n, k;
		if (sts[head].flags & 2) states_desync++;
		if (sts[head].flags & 1) states_inframe++;
		if (sts[head].depth >= depth) { at_bound++; continue; }
		n = path_of(head, path);
		for (i = 0; i < nalpha; i++) {
			/* enabledness from the stored summary of the state */
			if (alpha[i].kind == 's' && sts[head].cnt >= maxq) continue;
			if ((alpha[i].kind == 'n' || alpha[i].kind == 'o') && (sts[head].flags & 1)) continue;
			if (alpha[i].kind == 'n' && (sts[head].flags & 2)) continue;
			do_reset();
			quiet = 1; bad = 0;
			for (k = 0; k < n; k++) ev_apply(&alpha[path[k]]);
			quiet = 0;
			nreplayed += n;
			if (bad) {
				/* the stored path was clean when it was first executed and is not now: the outcome of an
				 * event list depends on what ran before it in this process */
				struct vrec *r = vrec_for("path-replay");
				cur_state = head; cur_ev = -1;
				if (r) { if (!r->count) { snprintf(r->msg, sizeof(r->msg), "an explored event list shows a violation when it is executed again later in the same process"); snprintf(r->ex, sizeof(r->ex), "%s", bfs_trace()); } r->count++; r->attempts++; }
				nviol++; nbad++;
				continue;
			}
			cur_state = head; cur_ev = i;
			ev_apply(&alpha[i]);
			ntrans++;
			per_kind[alpha[i].kind == 'p' ? 0 : alpha[i].kind == 's' ? 1 : alpha[i].kind == 'n' ? 2 : 3]++;
			if (bad) { nbad++; continue; }
			fingerprint();
			uint64_t h = f1 & hmask;
			for (;;) {
				uint32_t v = htab[h];
				if (v == 0xFFFFFFFFu) break;
				if (sts[v].h1 == f1 && sts[v].h2 == f2) break;
				h = (h + 1) & hmask;
			}
			if (htab[h] != 0xFFFFFFFFu) { ndup++; continue; }
			if (nst >= capst) { hitcap = 1; break; }
			sts[nst].h1 = f1; sts[nst].h2 = f2; sts[nst].parent = head; sts[nst].ev = i; sts[nst].depth = sts[head].depth + 1;
			sts[nst].cnt = npend + have_cur; sts[nst].flags = (have_cur ? 1 : 0) | (desync ? 2 : 0);
			if (sts[nst].depth > maxdepth) maxdepth = sts[nst].depth;
			htab[h] = nst++;
		}
	}
	/* explored event lists, re-run alone in a pristine process, must end in the state the search recorded
	 * (same fingerprint) without a violation */
	unsigned long nsampled = 0, nsample_bad = 0;
	{
		uint32_t step = nst / 256 + 1, sidx;
		struct vrec *r = NULL;
		for (sidx = nst - 1; sidx > 0 && sidx < nst; sidx = sidx > step ? sidx - step : 0) {
			uint64_t want = sts[sidx].h1 ^ ((sts[sidx].h2 << 1) | (sts[sidx].h2 >> 63)), got; int nk;
			cur_state = sidx; cur_ev = -1;
			verify_case(bfs_trace(), "-", &got, &nk);
			nsampled++;
			if (nk != 0 || got != want) {
				nsample_bad++; nviol++;
				if (!r && (r = vrec_for("sampled-trace"))) {
					snprintf(r->msg, sizeof(r->msg), "an explored event list, run alone, %s", nk < 0 ? "kills the process" : nk ? "shows a violation" : "ends in a different state");
					snprintf(r->ex, sizeof(r->ex), "%s", bfs_trace());
				}
				if (r) { r->count++; r->attempts++; }
			}
		}
	}
	int hd = report_unconfirmed();
	fprintf(res, "{\"sampled_traces_rerun_alone\": %lu, \"sampled_traces_differing\": %lu}\n", nsampled, nsample_bad);
	fprintf(res, "{\"states\": %u, \"transitions\": %lu, \"bad_transitions\": %lu, \"depth\": %d, \"depth_bound\": %d, \"states_at_bound_unexpanded\": %lu, "
		"\"frontier_exhausted\": %s, \"cap_hit\": %s, \"alphabet\": %d, \"revisits\": %lu, \"events_replayed\": %lu, "
		"\"pull_transitions\": %lu, \"send_transitions\": %lu, \"noise_transitions\": %lu, \"overlong_transitions\": %lu, "
		"\"states_out_of_sync\": %lu, \"states_mid_frame\": %lu, "
		"\"frames\": %lu, \"exact_deliveries\": %lu, \"tolerated_deliveries\": %lu, \"history_dependent_keys\": %d, \"verify_requests\": %lu, \"violations\": %lu}\n",
		nst, ntrans, nbad, maxdepth, depth, at_bound, (at_bound == 0 && !hitcap) ? "true" : "false", hitcap ? "true" : "false", nalpha, ndup, nreplayed,
		per_kind[0], per_kind[1], per_kind[2], per_kind[3], states_desync, states_inframe, n_frames, n_exact, n_tolerated, hd, n_verify, nviol);
	fflush(res);
	return nviol ? 1 : 0;
}

/* ------------------------------------------------------------------ replay of a token list */
static char casebuf[256];
static const char *case_trace(void) { return casebuf; }

static int unhex(const char *s, uint8_t *out, int max)
{
	int n = 0; unsigned v;
	if (!strcmp(s, "-")) return 0;
	while (s[0] && s[1] && n < max) { if (sscanf(s, "%2x", &v) != 1) return -1; out[n++] = v; s += 2; }
	return *s ? -1 : n;
}

static uint8_t tokstore[64][8];
static int ntokstore;
static const char *tok_src; static size_t tok_done;   /* token list being executed and how far it got */
static const char *tokens_trace(void)
{
	static char b[512];
	size_t n = tok_done < sizeof(b) - 1 ? tok_done : sizeof(b) - 1;
	memcpy(b, tok_src, n); b[n] = 0;
	return b;
}

/* executes a token list from reset; violations and crashes are attributed to the prefix executed so far */
static int run_tokens(const char *s)
{
	char tok[64];
	const char *q = s;
	int n = 0;
	nlong = 0; ntokstore = 0; nbl = 0; reg_all = 1;
	tok_src = s; tok_done = 0; trace_fn = tokens_trace;
	do_reset();
	bad = 0;
	while (*q) {
		struct event e; memset(&e, 0, sizeof(e));
		size_t l = strcspn(q, ",");
		if (l >= sizeof(tok)) { strcpy(tok, "(too long)"); goto bad_tok; }
		memcpy(tok, q, l); tok[l] = 0;
		q += l; tok_done = q - s;
		if (*q == ',') q++;
		if (!l) continue;
		e.kind = tok[0];
		if (tok[0] == 's') {
			char *dot = strchr(tok, '.');
			if (!dot || ntokstore >= 64) goto bad_tok;
			e.a = strtol(tok + 1, NULL, 10);
			e.len = unhex(dot + 1, tokstore[ntokstore], 8);
			if (e.len < 0 || e.a < 0 || e.a > 128) goto bad_tok;
			do_send(e.a, tokstore[ntokstore], e.len); ntokstore++;
		} else if (tok[0] == 'S') {
			int d, len; unsigned first, last, fill;
			if (sscanf(tok + 1, "%d.%d.%x.%x.%x", &d, &len, &first, &last, &fill) != 5 || len < 2 || len > 65000 || nlong >= 4 || d < 0 || d > 128) goto bad_tok;
			memset(longbuf[nlong], fill, len); longbuf[nlong][0] = first; longbuf[nlong][len - 1] = last;
			do_send(d, longbuf[nlong], len); nlong++;
		} else if (tok[0] == 'G') {
			/* G<d>.<d>...: handlers only on these DLCIs; must be the first event (registration happens at reset) */
			const char *q2 = tok + 1;
			if (n != 0) goto bad_tok;
			memset(regmask, 0, sizeof(regmask)); reg_all = 0;
			while (*q2) {
				char *end; long d = strtol(q2, &end, 10);
				if (end == q2 || d < 0 || d >= NDLCI) goto bad_tok;
				regmask[d] = 1; q2 = *end == '.' ? end + 1 : end;
				if (*end && *end != '.') goto bad_tok;
			}
			do_reset();
		} else if (tok[0] == 'b' || tok[0] == 'c') {
			/* backlog: b<dlci>.<n> queues n messages on one DLCI, c<dlciA>.<dlciB>.<n> n messages alternating */
			int da, db, cnt, i;
			if (tok[0] == 'b') { if (sscanf(tok + 1, "%d.%d", &da, &cnt) != 2) goto bad_tok; db = da; }
			else if (sscanf(tok + 1, "%d.%d.%d", &da, &db, &cnt) != 3) goto bad_tok;
			if (da < 0 || da > 127 || db < 0 || db > 127 || cnt < 1 || nbl + cnt > 1100 || npend + cnt > MAXPEND - 2) goto bad_tok;
			for (i = 0; i < cnt && !bad; i++) {
				blstore[nbl][0] = nbl >> 8; blstore[nbl][1] = nbl & 0xff;
				do_send((i & 1) ? db : da, blstore[nbl], 2); nbl++;
			}
		} else if (tok[0] == 'D' && !tok[1]) {
			/* drain: pull and feed until everything queued has been transmitted, then the transmitter must be idle */
			long guard = 0;
			while ((npend || have_cur) && !bad && !abandon && ++guard < 5000) run_frame(1);
			if (!bad && !abandon) { struct event ie = { 'I' }; ev_apply(&ie); }
		} else if (tok[0] == 'n') { e.a = strtol(tok + 1, NULL, 16) & 0xff; if (have_cur) goto bad_tok; do_noise(e.a); }
		else if (tok[0] == 'o') { e.a = strtol(tok + 1, NULL, 10); if (have_cur || e.a < RXBUF) goto bad_tok; do_overlong(e.a); }
		else if (strchr("pqPQI", tok[0]) && !tok[1]) ev_apply(&e);
		else goto bad_tok;
		n++;
		if (bad || abandon) break;      /* the first violation ends the case, as in the search */
	}
	if (abandon) n_abandoned++;
	return n;
bad_tok:
	HDIE("{\"harness_error\": \"bad token %s\"}\n", tok);
}

static int do_replay(const char *s)
{
	int n = run_tokens(s);
	fprintf(res, "{\"events\": %d, \"deliveries\": %lu, \"violations\": %lu}\n", n, total_deliveries, nviol);
	return nviol ? 1 : 0;
}

/* ------------------------------------------------------------------ space B: transparency sweep */
static unsigned long n_transfers;
static void transfer(int dlci, const uint8_t *p, int len, const char *label)
{
	bad = 0;
	if (label) snprintf(casebuf, sizeof(casebuf), "%s", label);
	else { char *o = casebuf; int i; o += sprintf(o, "s%d.", dlci); if (!len) o += sprintf(o, "-"); for (i = 0; i < len; i++) o += sprintf(o, "%02x", p[i]); sprintf(o, ",P,I"); }
	do_send(dlci, p, len);
	run_frame(1);
	n_transfers++;
	if (!bad) { struct event e = { 'I' }; ev_apply(&e); }
	if (bad) do_reset();
}

static const uint8_t SPECIAL[7] = { 0x7E, 0x7D, 0x00, 0x5E, 0x5D, 0x20, 0x41 };

static int do_sweep(int lo, int hi, int maxlen)
{
	int d, a, b, len;
	static uint8_t buf[70000];
	trace_fn = case_trace;
	do_reset();
	unsigned long long tuples = 0;
	unsigned long boundary = 0;
	for (d = lo; d < hi; d++) {
		transfer(d, buf, 0, NULL);
		for (a = 0; a < 256; a++) { buf[0] = a; transfer(d, buf, 1, NULL); }
		for (a = 0; a < 256; a++) for (b = 0; b < 256; b++) { buf[0] = a; buf[1] = b; transfer(d, buf, 2, NULL); }
		for (len = 3; len <= maxlen; len++) {
			unsigned long n = 1, c; int i;
			for (i = 0; i < len; i++) n *= 7;
			for (c = 0; c < n; c++) {
				unsigned long x = c;
				for (i = 0; i < len; i++) { buf[i] = SPECIAL[x % 7]; x /= 7; }
				transfer(d, buf, len, NULL);
				tuples++;
			}
		}
		/* boundary lengths: longest deliverable payloads, special octets first / last, worst-case stuffing */
		static const uint8_t EDGE[4] = { 0x7E, 0x7D, 0x00, 0x41 };
		for (len = RXBUF - 3; len <= RXBUF - 1; len++) for (a = 0; a < 4; a++) for (b = 0; b < 4; b++) {
			static char lab[96];
			int fill = (a + b) & 1 ? 0x55 : 0x7E;
			memset(buf, fill, len); buf[0] = EDGE[a]; buf[len - 1] = EDGE[b];
			snprintf(lab, sizeof(lab), "S%d.%d.%02x.%02x.%02x,P,I", d, len, EDGE[a], EDGE[b], fill);
			transfer(d, buf, len, lab);
			boundary++;
		}
		/* the first rejected length: an over-long frame - must not be delivered, and the frame after the
		 * one that follows it must be exact again */
		for (a = 0; a < 4; a++) {
			static char lab[96];
			static const uint8_t f1p[2] = { 0x7D, 0x42 }, f2p[3] = { 0x00, 0x7E, 0x43 };
			memset(buf, 0x55, RXBUF); buf[0] = EDGE[a]; buf[RXBUF - 1] = EDGE[3 - a];
			snprintf(lab, sizeof(lab), "S%d.%d.%02x.%02x.55,P,s%d.7d42,P,s%d.007e43,P", d, RXBUF, EDGE[a], EDGE[3 - a], d, d);
			bad = 0; snprintf(casebuf, sizeof(casebuf), "%s", lab);
			do_send(d, buf, RXBUF); run_frame(1);
			if (!bad) { do_send(d, f1p, 2); run_frame(1); }
			if (!bad) { do_send(d, f2p, 3); run_frame(1); }
			if (!bad && desync) HDIE("{\"harness_error\": \"reference still out of sync\"}\n");
			n_transfers += 3; boundary++;
			if (bad) do_reset();
		}
	}
	int hd = report_unconfirmed();
	fprintf(res, "{\"transfers\": %lu, \"frames\": %lu, \"exact_deliveries\": %lu, \"tolerated_deliveries\": %lu, \"wire_octets\": %lu, \"escapes\": %lu, "
		"\"special_tuples\": %llu, \"boundary_cases\": %lu, \"dlcis\": %d, \"history_dependent_keys\": %d, \"verify_requests\": %lu, \"violations\": %lu}\n",
		n_transfers, n_frames, n_exact, n_tolerated, n_octets, n_escapes, tuples, boundary, hi - lo, hd, n_verify, nviol);
	return nviol ? 1 : 0;
}

/* ------------------------------------------------------------------ resync scenarios */
static int do_resync(int part, int nparts)
{
	/* [noise a][over-long frame][noise b][F1][noise c][F2][F3] ; F2 and F3 (and F1 if no over-long frame) must be exact.
	 * over-long frames: fed directly (o) or through the real transmitter (S). */
	static const char *OL[] = { "", "o2048", "o2049", "o2050", "o4100", "o70000", "S9.2048.41.42.55,P", "S9.2049.7e.00.55,P", "S4.4100.7d.7e.7e,P", "S10.65000.00.7d.33,P" };
	static const char *NOISE[] = { "00", "7d", "05", "41", "03" };
	static const char *FR[][3] = {
		{ "s5.-,P", "s5.7e,P", "s9.410042,P" },
		{ "s127.7d5e,P", "s4.00,P", "s5.7e7d,P" },
		{ "s10.41,P", "s10.7d,P", "s10.5e,P" },
		/* echo DLCI right after the over-long frame: the receive buffer must be as good as a fresh one
		 * (the echo handler pushes a header in front of what it is given); Q pulls the echo, not fed back */
		{ "s128.41,P,Q", "s128.7e00,P,Q", "s5.41,P" },
		/* longest deliverable payload right after the over-long frame, then echo of an empty and of a longest frame */
		{ "S5.2047.7e.00.55,P", "s128.-,P,Q", "S128.2047.41.7d.7e,P,Q" },
		/* DLCIs whose address octet is escaped on the wire */
		{ "s0.41,P", "s125.00,P", "s126.7e,P" },
		/* an over-long frame of 2050 octets as the frame that follows, echo DLCI after it */
		{ "S5.2050.41.42.55,P", "s128.7d,P,Q", "s4.7d,P" },
	};
#define NFR 7
	unsigned long ncase = 0, nrun = 0;
	/* the two longest frames (65000 through the transmitter, 70000 injected) take 0..1 noise octets after them, the others 0..3 */
	const unsigned long total = 8 * 2 * NFR * (1 + 5 + 25 + 125) * 6 + 2 * 2 * NFR * (1 + 5) * 6;   /* contiguous blocks: the earliest failing scenario is reported */
	int o, fa, f, nb, bidx, nc, cidx;
	trace_fn = case_trace;
	for (o = 0; o < 10; o++) for (fa = 0; fa < 2; fa++) for (f = 0; f < NFR; f++)
	for (nb = 0; nb <= ((o == 5 || o == 9) ? 1 : 3); nb++) { int nbmax = 1, i; for (i = 0; i < nb; i++) nbmax *= 5;
	for (bidx = 0; bidx < nbmax; bidx++)
	for (nc = 0; nc <= 1; nc++) for (cidx = 0; cidx < (nc ? 5 : 1); cidx++) {
		char *p = casebuf; int x = bidx, i;
		{ unsigned long id = ncase++; if (id < total * part / nparts || id >= total * (part + 1) / nparts) continue; }
		if (fa) p += sprintf(p, "n41,n00,");
		if (*OL[o]) p += sprintf(p, "%s,", OL[o]);
		for (i = 0; i < nb; i++) { p += sprintf(p, "n%s,", NOISE[x % 5]); x /= 5; }
		p += sprintf(p, "%s,", FR[f][0]);
		if (nc) p += sprintf(p, "n%s,", NOISE[cidx]);
		p += sprintf(p, "%s,%s", FR[f][1], FR[f][2]);
		run_tokens(casebuf);
		if (!bad && !abandon && (desync || have_cur || npend)) HDIE("{\"harness_error\": \"scenario %s did not end in sync\"}\n", casebuf);
		nrun++;
	} }
	int hd = report_unconfirmed();
	fprintf(res, "{\"resync_scenarios\": %lu, \"frames\": %lu, \"exact_deliveries\": %lu, \"tolerated_deliveries\": %lu, \"wire_octets\": %lu, "
		"\"noise_octets\": %lu, \"overlong_frames\": %lu, \"echoes_queued\": %lu, \"scenarios_abandoned_in_window\": %lu, \"history_dependent_keys\": %d, \"verify_requests\": %lu, \"violations\": %lu}\n", nrun, n_frames, n_exact, n_tolerated, n_octets, n_noise, n_overlong, n_echo_queued, n_abandoned, hd, n_verify, nviol);
	return nviol ? 1 : 0;
}

/* ------------------------------------------------------------------ handlers on a subset of the DLCIs */
/* For every DLCI d: handlers on {d} plus every subset of {0x7d, 0x7e, d^0x20} (the octets that show up on the
 * wire when an address is escaped); frames to d and to those DLCIs, to DLCI 0 and to a neighbour, registered and
 * unregistered interleaved, once one at a time and once all queued before the first octet is pulled.  Frames to a
 * registered DLCI: exactly once, intact, in order; frames to an unregistered DLCI: no handler call, no other
 * frame affected. */
static int do_regsweep(int lo, int hi)
{
	unsigned long ncase = 0;
	int d, m, form, i;
	for (d = lo; d < hi; d++) {
		int extra[3] = { 0x7d, 0x7e, d ^ 0x20 };
		for (m = 0; m < 8; m++) for (form = 0; form < 2; form++) {
			int tg[7] = { d, 0x7d, 0x7e, d ^ 0x20, 0x00, (d + 1) & 0x7f, d };
			static const char *PAY[7] = { "41", "7d5e", "7e", "00", "7d", "4243", "-" };
			char *p = casebuf;
			p += sprintf(p, "G%d", d);
			for (i = 0; i < 3; i++) if ((m >> i) & 1) p += sprintf(p, ".%d", extra[i]);
			for (i = 0; i < 7; i++) p += sprintf(p, form ? ",s%d.%s" : ",s%d.%s,P", tg[i], PAY[i]);
			p += sprintf(p, form ? ",D" : ",I");
			run_tokens(casebuf);
			ncase++;
		}
	}
	/* capacity after frames nobody listens for: 1..3 frames of 2 / 600 / 1500 / 2047 octets to a DLCI without a handler,
	 * then one frame of 2 / 1000 / 2047 octets to a registered DLCI - it must arrive whatever was discarded before */
	if (lo == 0) {
		static const int N1[4] = { 2, 600, 1500, 2047 }, N2[3] = { 2, 1000, 2047 };
		int a, r, b, k;
		for (a = 0; a < 4; a++) for (r = 1; r <= 3; r++) for (b = 0; b < 3; b++) {
			char *p = casebuf;
			p += sprintf(p, "G5");
			for (k = 0; k < r; k++) p += sprintf(p, ",S4.%d.41.42.43,P", N1[a]);
			p += sprintf(p, ",S5.%d.44.45.46,P,I", N2[b]);
			run_tokens(casebuf);
			ncase++;
		}
	}
	reg_all = 1;
	int hd = report_unconfirmed();
	fprintf(res, "{\"regsweep_cases\": %lu, \"frames\": %lu, \"exact_deliveries\": %lu, \"frames_to_unregistered_dlci\": %lu, \"wire_octets\": %lu, \"history_dependent_keys\": %d, \"verify_requests\": %lu, \"violations\": %lu}\n",
		ncase, n_frames, n_exact, n_unreg_frames, n_octets, hd, n_verify, nviol);
	return nviol ? 1 : 0;
}

/* ------------------------------------------------------------------ transmit backlog */
/* 255 / 256 / 257 / 512 messages queued (on one DLCI, on two DLCIs alternating, behind one message of a lower
 * priority DLCI, and while a frame is already on the wire), then drained: every message exactly once, per DLCI in
 * order, lower DLCI first, and the transmitter idle afterwards */
static int do_backlog(void)
{
	static const int N[] = { 255, 256, 257, 512 };
	unsigned long ncase = 0;
	int i, l;
	for (i = 0; i < 4; i++) for (l = 0; l < 4; l++) {
		switch (l) {
		case 0: snprintf(casebuf, sizeof(casebuf), "b5.%d,D", N[i]); break;
		case 1: snprintf(casebuf, sizeof(casebuf), "c9.5.%d,D", N[i]); break;
		case 2: snprintf(casebuf, sizeof(casebuf), "b9.%d,s5.7e00,D", N[i]); break;
		case 3: snprintf(casebuf, sizeof(casebuf), "s10.41,p,p,b4.%d,D", N[i]); break;
		}
		run_tokens(casebuf);
		ncase++;
	}
	int hd = report_unconfirmed();
	fprintf(res, "{\"backlog_cases\": %lu, \"backlog_frames\": %lu, \"exact_deliveries\": %lu, \"wire_octets\": %lu, \"history_dependent_keys\": %d, \"verify_requests\": %lu, \"violations\": %lu}\n",
		ncase, n_frames, n_exact, n_octets, hd, n_verify, nviol);
	return nviol ? 1 : 0;
}

/* ------------------------------------------------------------------ echo DLCI */
static int do_echo(void)
{
	static uint8_t buf[4];
	int a, b, i;
	unsigned long n = 0;
	trace_fn = case_trace;
	do_reset();
	for (i = -1; i < 256 + 65536 + NPA; i++) {
		const uint8_t *p = buf; int len;
		if (i < 0) len = 0;
		else if (i < 256) { buf[0] = i; len = 1; }
		else if (i < 256 + 65536) { a = (i - 256) >> 8; b = (i - 256) & 0xff; buf[0] = a; buf[1] = b; len = 2; }
		else { p = PA[i - 256 - 65536]; len = PALEN[i - 256 - 65536]; }
		{ char *o = casebuf; int k; o += sprintf(o, "s128."); if (!len) o += sprintf(o, "-"); for (k = 0; k < len; k++) o += sprintf(o, "%02x", p[k]); sprintf(o, ",P,Q,I"); }
		bad = 0;
		do_send(128, p, len);
		run_frame(1);                 /* received, handed to sercomm_sendmsg by the receiver (judged there) */
		if (!bad) run_frame(0);       /* the echo on the wire, judged by the wire rules, not fed back */
		if (!bad) { struct event e = { 'I' }; ev_apply(&e); }   /* exactly one echo */
		n++;
		if (bad) do_reset();
	}
	int hd = report_unconfirmed();
	fprintf(res, "{\"echo_cases\": %lu, \"frames\": %lu, \"wire_octets\": %lu, \"history_dependent_keys\": %d, \"verify_requests\": %lu, \"violations\": %lu}\n", n, n_frames, n_octets, hd, n_verify, nviol);
	return nviol ? 1 : 0;
}

/* msgb.h is built with MSGB_DEBUG: running out of head/tailroom calls osmo_panic() */
static void on_panic(const char *fmt, va_list args)
{
	char msg[300];
	if (in_child) _exit(97);
	vsnprintf(msg, sizeof(msg), fmt, args);
	char *nl = strchr(msg, '\n'); if (nl) *nl = 0;
	char *par = strchr(msg, ')'); /* drop the msgb address: "msgb(0x...): text" */
	fprintf(res, "CRASH | %s\nPANIC | %s\n", trace_fn ? trace_fn() : "-", par ? par + 1 : msg);
	fflush(res);
	_exit(97);
}

/* sanitizer reports end in abort() (ASAN/UBSAN_OPTIONS abort_on_error=1): name the case that was running */
#include <signal.h>
static void on_abort(int sig)
{
	(void)sig;
	if (in_child) _exit(96);
	fprintf(res, "CRASH | %s\n", trace_fn ? trace_fn() : "-");
	fflush(res);
	_exit(96);
}

int main(int argc, char **argv)
{
	int fd = dup(1);
	res = fdopen(fd, "w");
	if (!freopen("/dev/null", "w", stdout)) return 3;
	signal(SIGABRT, on_abort);
	osmo_set_panic_handler(on_panic);
	if (argc < 2) return 2;
	if ((!strcmp(argv[1], "replay") || !strcmp(argv[1], "case")) && argc >= 3) return do_replay(argv[2]);   /* fresh by construction */
	verify_enabled = 1;
	verifier_start();                /* before any code under test has run in this process */
	if (!strcmp(argv[1], "bfs")) return do_bfs(argc, argv);
	if (!strcmp(argv[1], "sweep") && argc >= 5) return do_sweep(atoi(argv[2]), atoi(argv[3]), atoi(argv[4]));
	if (!strcmp(argv[1], "resync") && argc >= 4) return do_resync(atoi(argv[2]), atoi(argv[3]));
	if (!strcmp(argv[1], "echo")) return do_echo();
	if (!strcmp(argv[1], "backlog")) return do_backlog();
	if (!strcmp(argv[1], "regsweep") && argc >= 4) return do_regsweep(atoi(argv[2]), atoi(argv[3]));
	return 2;
}

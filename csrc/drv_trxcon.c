/* Driver for trxcon's transceiver interface: /repo/src/host/trxcon/src/trx_if.c compiled UNMODIFIED
 * against the repo's own trxcon headers and the stand-ins in csrc/shim_trxcon_if/ (system libosmocore
 * only).  The TRXC/TRXD sockets are socketpair(AF_UNIX, SOCK_DGRAM) ends, so read()/send() keep kernel
 * datagram semantics (truncation to the read buffer included); the socket callbacks are invoked through
 * the osmo_fd registry, exactly the function pointers trx_if.c registered.
 *
 * Protocol: one request per stdin line, one reply line per request on stdout:
 *      "@<index> " is printed and flushed BEFORE the request is executed, then the JSON reply and '\n'
 *      (flushed) - so when the process dies the last "@<index>" names the request being executed.
 *
 *   rxdata <hex|->                           datagram -> DATA peer, then the registered DATA read callback
 *   txdata <fn> <tn> <pwr> <nbits> <hex|->   trx_if_handle_phyif_burst_req(); <hex> = nbits octets (0/1 each)
 *   cmd RESET | POWERON | POWEROFF | MEASURE <band_arfcn> | SETFREQ_H0 <band_arfcn>
 *       | SETFREQ_H1 <hsn> <maio> <n> <arfcn>*n | SETSLOT <tn> <pchan> | SETTA <ta> | TYPE <number>
 *                                            trx_if_handle_phyif_cmd()
 *   rsp <hex|->                              datagram -> CTRL peer, then the registered CTRL read callback
 *   poll ctrl|data                           invoke the read callback without writing a datagram
 *   timeout                                  fire the TRXC retransmission timer if pending
 *   fresh [fn_advance] [failopen=<n>]        close (if open) and re-create the trx instance
 *   close                                    trx_if_close()
 *   state                                    report only
 *   selfcrash asan|ubsan|abort|segv               the driver kills itself on purpose (self-test of death attribution)
 * Default mode for lines that do not start with a keyword: argv[1] = rxdata | txdata | cmd | rsp.
 * Numbers accept 0x.. ; band_arfcn may carry the ARFCN_PCS flag (0x8000).
 */
#include <ctype.h>
#include <errno.h>
#include <stdint.h>
#include <stdio.h>
#include <stdlib.h>
#include <string.h>
#include <unistd.h>
#include <sys/socket.h>

#include <osmocom/core/talloc.h>
#include <osmocom/gsm/gsm_utils.h>

#include <osmocom/bb/trxcon/trx_if.h>
#include <osmocom/bb/trxcon/phyif.h>
#include <osmocom/bb/trxcon/logging.h>

#include "shim_trxcon_if.h"

#define BASE_PORT	6700
#define PORT_CTRL	(BASE_PORT + 1)
#define PORT_DATA	(BASE_PORT + 2)
#define EV_PHYIF_FAIL	3

/* ---- recorders for the upcalls trx_if.c makes ------------------------------------------------- */
static int priv_token;
static struct {
	unsigned int n_ind, n_rts, n_rsp, bad_priv;
	struct trxcon_phyif_burst_ind ind;
	int8_t *soft;			/* exact-size copy of the last indicated burst */
	struct trxcon_phyif_rts_ind rts;
	struct trxcon_phyif_rsp rsp;
} rec;

int trxcon_phyif_handle_burst_ind(void *priv, const struct trxcon_phyif_burst_ind *bi)
{
	if (priv != &priv_token) rec.bad_priv++;
	rec.n_ind++;
	rec.ind = *bi;
	free(rec.soft);
	rec.soft = malloc(bi->burst_len ? bi->burst_len : 1);
	memcpy(rec.soft, bi->burst, bi->burst_len);	/* reads exactly burst_len soft bits */
	rec.ind.burst = NULL;
	return 0;
}

int trxcon_phyif_handle_rts_ind(void *priv, const struct trxcon_phyif_rts_ind *rts)
{
	if (priv != &priv_token) rec.bad_priv++;
	rec.n_rts++;
	rec.rts = *rts;
	return 0;
}

int trxcon_phyif_handle_rsp(void *priv, const struct trxcon_phyif_rsp *rsp)
{
	if (priv != &priv_token) rec.bad_priv++;
	rec.n_rsp++;
	rec.rsp = *rsp;
	return 0;
}

static void rec_reset(void)
{
	free(rec.soft);
	memset(&rec, 0, sizeof(rec));
}

/* ---- parent FSM (trx_if_open() needs one) ------------------------------------------------------- */
static unsigned int parent_events, parent_events0;	/* total / at the start of the current request */
static void parent_action(struct osmo_fsm_inst *fi, uint32_t event, void *data)
{
	(void)fi; (void)data;
	if (event == EV_PHYIF_FAIL)
		parent_events++;
}
static const struct value_string parent_ev_names[] = { { EV_PHYIF_FAIL, "PHYIF_FAILURE" }, { 0, NULL } };
static struct osmo_fsm_state parent_states[] = {
	[0] = { .name = "DRIVER", .out_state_mask = 1 },
};
static struct osmo_fsm parent_fsm = {
	.name = "drv_parent",
	.states = parent_states,
	.num_states = 1,
	.allstate_event_mask = 1u << EV_PHYIF_FAIL,
	.allstate_action = parent_action,
	.event_names = parent_ev_names,
	.log_subsys = DAPP,
};
static struct osmo_fsm_inst *parent_fi;

/* ---- instance ------------------------------------------------------------------------------------- */
static struct trx_instance *trx;
static int fd_ctrl = -1, fd_data = -1;		/* trx_if.c's ends */
static unsigned int terms_seen;
static unsigned int n_fresh;

static int open_instance(uint32_t fn_advance, int failopen)
{
	struct trx_if_params params = {
		.local_host = "127.0.0.1",
		.remote_host = "127.0.0.1",
		.base_port = BASE_PORT,
		.fn_advance = fn_advance,
		.instance = 0,
		.parent_fi = parent_fi,
		.parent_term_event = EV_PHYIF_FAIL,
		.priv = &priv_token,
	};
	shim_sock_fail_countdown = failopen;
	trx = trx_if_open(&params);
	shim_sock_fail_countdown = -1;
	terms_seen = shim_fsm_terms;
	if (!trx)
		return -1;
	fd_ctrl = trx->trx_ofd_ctrl.fd;
	fd_data = trx->trx_ofd_data.fd;
	n_fresh++;
	return 0;
}

/* the instance is gone as soon as its FSM terminated (the cleanup callback freed it) */
static int check_terminated(void)
{
	if (shim_fsm_terms != terms_seen) {
		terms_seen = shim_fsm_terms;
		trx = NULL;
		fd_ctrl = fd_data = -1;
		return 1;
	}
	return 0;
}

static unsigned int queue_len(void)
{
	struct llist_head *p;
	unsigned int n = 0;
	if (!trx) return 0;
	llist_for_each(p, &trx->trx_ctrl_list)
		n++;
	return n;
}

/* ---- helpers ---------------------------------------------------------------------------------------- */
static int unhex(const char *s, uint8_t **out)
{
	size_t l = strlen(s), i;
	uint8_t *b;
	*out = NULL;
	if (!strcmp(s, "-"))
		l = 0;
	if (l % 2)
		return -1;
	b = malloc(l / 2 ? l / 2 : 1);	/* exact size (1 for empty: never read) */
	for (i = 0; i < l / 2; i++) {
		unsigned int v;
		if (!isxdigit((unsigned char)s[2 * i]) || !isxdigit((unsigned char)s[2 * i + 1]) ||
		    sscanf(s + 2 * i, "%2x", &v) != 1) {
			free(b);
			return -1;
		}
		b[i] = v;
	}
	*out = b;
	return l / 2;
}

static void put_hex(const uint8_t *b, size_t n)
{
	size_t i;
	putchar('"');
	for (i = 0; i < n; i++)
		printf("%02x", b[i]);
	putchar('"');
}

/* all datagrams waiting on one of the driver's socket ends, as a JSON list of hex strings */
static void put_drain(uint16_t port)
{
	static uint8_t buf[65536];
	int fd = shim_sock_peer(port), first = 1;
	putchar('[');
	while (fd >= 0) {
		ssize_t n = recv(fd, buf, sizeof(buf), MSG_DONTWAIT);
		if (n < 0)
			break;
		if (!first) putchar(',');
		first = 0;
		put_hex(buf, n);
	}
	putchar(']');
}

static void put_status(void)
{
	if (trx)
		printf(",\"state\":\"%s\",\"queued\":%u,\"timer\":%s,\"powered_up\":%s", osmo_fsm_inst_state_name(trx->fi),
		       queue_len(), osmo_timer_pending(&trx->trx_ctrl_timer) ? "true" : "false",
		       trx->powered_up ? "true" : "false");
	else
		printf(",\"state\":null,\"queued\":0,\"timer\":false,\"powered_up\":false");
}

static void put_term(int terminated)
{
	printf(",\"terminated\":%s", terminated ? "true" : "false");
	if (terminated)
		printf(",\"term_cause\":%d,\"parent_events\":%u,\"fds_registered\":%u,\"timers_pending\":%u",
		       shim_fsm_last_term_cause, parent_events - parent_events0, shim_fd_count(), shim_timers_pending());
}

static long num(const char *s)
{
	return s ? strtol(s, NULL, 0) : 0;
}

static const char *pchan_names[] = { "NONE", "CCCH", "CCCH_SDCCH4", "TCH_F", "TCH_H", "SDCCH8_SACCH8C", "PDCH",
	"TCH_F_PDCH", "UNKNOWN", "CCCH_SDCCH4_CBCH", "SDCCH8_SACCH8C_CBCH", "OSMO_DYN" };

static const char *cmdt_name(int t)
{
	static const char *n[] = { "RESET", "POWERON", "POWEROFF", "MEASURE", "SETFREQ_H0", "SETFREQ_H1", "SETSLOT", "SETTA" };
	return (t >= 0 && t < 8) ? n[t] : "?";
}

/* ---- requests ----------------------------------------------------------------------------------------- */
static void do_rx(int ctrl, const char *hex, int with_dgram)
{
	uint8_t *b = NULL;
	int n = 0, rc, fd = ctrl ? fd_ctrl : fd_data, term;
	unsigned int q0 = queue_len(), err0 = shim_log_errors;
	const char *op = with_dgram ? (ctrl ? "rsp" : "rxdata") : "poll";

	if (!trx) { printf("{\"op\":\"%s\",\"error\":\"no-instance\"}", op); return; }
	if (with_dgram) {
		n = unhex(hex ? hex : "", &b);
		if (n < 0) { printf("{\"op\":\"%s\",\"error\":\"bad-hex\"}", op); return; }
		if (send(shim_sock_peer(ctrl ? PORT_CTRL : PORT_DATA), b, n, 0) != n) {
			printf("{\"op\":\"%s\",\"error\":\"send: %s\"}", op, strerror(errno));
			free(b);
			return;
		}
		free(b);
	}
	rec_reset();
	rc = shim_fd_dispatch(fd, BSC_FD_READ);		/* trx_ctrl_read_cb / trx_data_rx_cb as registered */
	term = check_terminated();

	printf("{\"op\":\"%s\",\"rc\":%d", op, rc);
	if (rc == SHIM_NO_FD)
		printf(",\"error\":\"fd-not-registered\"");
	if (!ctrl) {
		if (rec.n_ind) {
			printf(",\"ind\":{\"fn\":%u,\"tn\":%u,\"rssi\":%d,\"toa256\":%d,\"len\":%u,\"soft\":",
			       rec.ind.fn, rec.ind.tn, rec.ind.rssi, rec.ind.toa256, rec.ind.burst_len);
			put_hex((uint8_t *)rec.soft, rec.ind.burst_len);
			printf("}");
		} else
			printf(",\"ind\":null");
		if (rec.n_rts)
			printf(",\"rts\":{\"fn\":%u,\"tn\":%u}", rec.rts.fn, rec.rts.tn);
		else
			printf(",\"rts\":null");
		printf(",\"n_ind\":%u,\"n_rts\":%u", rec.n_ind, rec.n_rts);
	} else {
		unsigned int q1 = queue_len();
		printf(",\"dequeued\":%s", (!term && q1 < q0) ? "true" : "false");
		printf(",\"sent\":");
		put_drain(PORT_CTRL);
		if (rec.n_rsp) {
			printf(",\"upcall\":{\"type\":\"%s\"", cmdt_name(rec.rsp.type));
			if (rec.rsp.type == TRXCON_PHYIF_CMDT_MEASURE)
				printf(",\"band_arfcn\":%u,\"dbm\":%d", rec.rsp.param.measure.band_arfcn, rec.rsp.param.measure.dbm);
			printf(",\"n\":%u}", rec.n_rsp);
		} else
			printf(",\"upcall\":null");
	}
	put_status();
	put_term(term);
	printf(",\"bad_priv\":%u,\"log_err\":%u}", rec.bad_priv, shim_log_errors - err0);
}

static void do_txdata(char **tok, int ntok)
{
	struct trxcon_phyif_burst_req br;
	uint8_t *bits = NULL;
	int n, rc;
	unsigned int err0 = shim_log_errors;
	if (!trx) { printf("{\"op\":\"txdata\",\"error\":\"no-instance\"}"); return; }
	if (ntok < 5) { printf("{\"op\":\"txdata\",\"error\":\"usage\"}"); return; }
	n = unhex(tok[4], &bits);
	if (n < 0 || n != num(tok[3])) { printf("{\"op\":\"txdata\",\"error\":\"bad-bits\"}"); free(bits); return; }
	br = (struct trxcon_phyif_burst_req) {
		.fn = (uint32_t)strtoul(tok[0], NULL, 0),
		.tn = (uint8_t)num(tok[1]),
		.pwr = (uint8_t)num(tok[2]),
		.burst = n ? bits : NULL,
		.burst_len = n,
	};
	rc = trx_if_handle_phyif_burst_req(trx, &br);
	free(bits);
	printf("{\"op\":\"txdata\",\"rc\":%d,\"dgrams\":", rc);
	put_drain(PORT_DATA);
	printf(",\"log_err\":%u}", shim_log_errors - err0);
}

static void do_cmd(char **tok, int ntok)
{
	struct trxcon_phyif_cmd cmd;
	uint16_t *ma = NULL;
	int rc, term;
	unsigned int err0 = shim_log_errors;
	if (!trx) { printf("{\"op\":\"cmd\",\"error\":\"no-instance\"}"); return; }
	if (ntok < 1) { printf("{\"op\":\"cmd\",\"error\":\"usage\"}"); return; }
	memset(&cmd, 0, sizeof(cmd));
	if (!strcmp(tok[0], "RESET")) cmd.type = TRXCON_PHYIF_CMDT_RESET;
	else if (!strcmp(tok[0], "POWERON")) cmd.type = TRXCON_PHYIF_CMDT_POWERON;
	else if (!strcmp(tok[0], "POWEROFF")) cmd.type = TRXCON_PHYIF_CMDT_POWEROFF;
	else if (!strcmp(tok[0], "MEASURE") && ntok >= 2) {
		cmd.type = TRXCON_PHYIF_CMDT_MEASURE;
		cmd.param.measure.band_arfcn = (uint16_t)num(tok[1]);
	} else if (!strcmp(tok[0], "SETFREQ_H0") && ntok >= 2) {
		cmd.type = TRXCON_PHYIF_CMDT_SETFREQ_H0;
		cmd.param.setfreq_h0.band_arfcn = (uint16_t)num(tok[1]);
	} else if (!strcmp(tok[0], "SETFREQ_H1") && ntok >= 4) {
		int n = num(tok[3]), i;
		if (n < 0 || ntok < 4 + n) { printf("{\"op\":\"cmd\",\"error\":\"usage\"}"); return; }
		cmd.type = TRXCON_PHYIF_CMDT_SETFREQ_H1;
		cmd.param.setfreq_h1.hsn = (uint8_t)num(tok[1]);
		cmd.param.setfreq_h1.maio = (uint8_t)num(tok[2]);
		if (n > 0) {
			ma = malloc(n * sizeof(uint16_t));	/* exact size */
			for (i = 0; i < n; i++)
				ma[i] = (uint16_t)num(tok[4 + i]);
		}
		cmd.param.setfreq_h1.ma = ma;
		cmd.param.setfreq_h1.ma_len = n;
	} else if (!strcmp(tok[0], "SETSLOT") && ntok >= 3) {
		unsigned int i;
		cmd.type = TRXCON_PHYIF_CMDT_SETSLOT;
		cmd.param.setslot.tn = (uint8_t)num(tok[1]);
		cmd.param.setslot.pchan = (uint8_t)num(tok[2]);
		for (i = 0; i < sizeof(pchan_names) / sizeof(pchan_names[0]); i++)
			if (!strcmp(tok[2], pchan_names[i]))
				cmd.param.setslot.pchan = i;
	} else if (!strcmp(tok[0], "SETTA") && ntok >= 2) {
		cmd.type = TRXCON_PHYIF_CMDT_SETTA;
		cmd.param.setta.ta = (int8_t)num(tok[1]);
	} else if (!strcmp(tok[0], "TYPE") && ntok >= 2) {
		cmd.type = (enum trxcon_phyif_cmd_type)num(tok[1]);
	} else { printf("{\"op\":\"cmd\",\"error\":\"usage\"}"); return; }

	rc = trx_if_handle_phyif_cmd(trx, &cmd);
	free(ma);
	term = check_terminated();
	printf("{\"op\":\"cmd\",\"rc\":%d,\"sent\":", rc);
	put_drain(PORT_CTRL);
	put_status();
	put_term(term);
	printf(",\"log_err\":%u}", shim_log_errors - err0);
}

static void do_timeout(void)
{
	int fired, term;
	unsigned int err0 = shim_log_errors, q0 = queue_len();
	if (!trx) { printf("{\"op\":\"timeout\",\"error\":\"no-instance\"}"); return; }
	fired = shim_timer_fire(&trx->trx_ctrl_timer);
	term = check_terminated();
	printf("{\"op\":\"timeout\",\"fired\":%s,\"dequeued\":%s,\"sent\":", fired ? "true" : "false",
	       (!term && queue_len() < q0) ? "true" : "false");
	put_drain(PORT_CTRL);
	put_status();
	put_term(term);
	printf(",\"log_err\":%u}", shim_log_errors - err0);
}

static void do_close(const char *op)
{
	printf("{\"op\":\"%s\",\"was_open\":%s", op, trx ? "true" : "false");
	if (trx) {
		trx_if_close(trx);
		check_terminated();
	}
	printf(",\"closed_sent\":");
	put_drain(PORT_CTRL);
	printf(",\"fds_registered\":%u,\"timers_pending\":%u", shim_fd_count(), shim_timers_pending());
}

static void do_fresh(char **tok, int ntok)
{
	uint32_t fn_advance = 2;	/* trxcon's default (trxcon_main.c) */
	int failopen = -1, i, rc;
	for (i = 0; i < ntok; i++) {
		if (!strncmp(tok[i], "failopen=", 9)) failopen = atoi(tok[i] + 9);
		else fn_advance = strtoul(tok[i], NULL, 0);
	}
	do_close("fresh");
	shim_sock_close_peers();
	rec_reset();
	rc = open_instance(fn_advance, failopen);
	printf(",\"ok\":%s", rc == 0 ? "true" : "false");
	put_status();
	printf("}");
}

int main(int argc, char **argv)
{
	const char *defmode = argc > 1 ? argv[1] : "";
	char *line = NULL;
	size_t cap = 0;
	ssize_t len;
	unsigned long idx = 0;

	if (getenv("TRXDRV_LOGLEVEL"))
		shim_log_min_level = atoi(getenv("TRXDRV_LOGLEVEL"));
	if (getenv("TRXDRV_FIRST_INDEX"))
		idx = strtoul(getenv("TRXDRV_FIRST_INDEX"), NULL, 0);
	OSMO_ASSERT(osmo_fsm_register(&parent_fsm) == 0);
	parent_fi = osmo_fsm_inst_alloc(&parent_fsm, NULL, NULL, LOGL_DEBUG, "drv");
	OSMO_ASSERT(parent_fi);
	if (open_instance(2, -1) != 0) {
		fprintf(stderr, "trx_if_open() failed\n");
		return 3;
	}

	while ((len = getline(&line, &cap, stdin)) > 0) {
		char *tok[1100], *kw, *save = NULL, *t;
		int ntok = 0;
		while (len > 0 && (line[len - 1] == '\n' || line[len - 1] == '\r'))
			line[--len] = 0;
		for (t = strtok_r(line, " \t", &save); t && ntok < 1100; t = strtok_r(NULL, " \t", &save))
			tok[ntok++] = t;
		if (ntok == 0 || tok[0][0] == '#')
			continue;
		printf("@%lu ", idx++);
		fflush(stdout);
		parent_events0 = parent_events;

		kw = tok[0];
		if (!strcmp(kw, "rxdata")) do_rx(0, ntok > 1 ? tok[1] : "-", 1);
		else if (!strcmp(kw, "rsp")) do_rx(1, ntok > 1 ? tok[1] : "-", 1);
		else if (!strcmp(kw, "poll")) do_rx(ntok > 1 && !strcmp(tok[1], "ctrl"), NULL, 0);
		else if (!strcmp(kw, "txdata")) do_txdata(tok + 1, ntok - 1);
		else if (!strcmp(kw, "cmd")) do_cmd(tok + 1, ntok - 1);
		else if (!strcmp(kw, "timeout")) do_timeout();
		else if (!strcmp(kw, "fresh")) do_fresh(tok + 1, ntok - 1);
		else if (!strcmp(kw, "close")) { do_close("close"); printf("}"); }
		else if (!strcmp(kw, "selfcrash")) {
			volatile char *h = malloc(4);
			if (ntok > 1 && !strcmp(tok[1], "asan")) memset((void *)h, 1, 5);	/* heap-buffer-overflow */
			else if (ntok > 1 && !strcmp(tok[1], "ubsan")) h[4] = 1;		/* object-size */
			else if (ntok > 1 && !strcmp(tok[1], "segv")) *(volatile int *)8 = 1;
			else abort();
			printf("{\"op\":\"selfcrash\",\"survived\":true}");
		}
		else if (!strcmp(kw, "state")) { printf("{\"op\":\"state\",\"open\":%s", trx ? "true" : "false"); put_status(); printf("}"); }
		else if (!strcmp(defmode, "rxdata")) do_rx(0, tok[0], 1);
		else if (!strcmp(defmode, "rsp")) do_rx(1, tok[0], 1);
		else if (!strcmp(defmode, "txdata")) do_txdata(tok, ntok);
		else if (!strcmp(defmode, "cmd")) do_cmd(tok, ntok);
		else printf("{\"error\":\"unknown-request\"}");
		printf("\n");
		fflush(stdout);
	}
	return 0;
}

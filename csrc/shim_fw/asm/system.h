/* Host stand-in for the ARM asm/system.h of the firmware (interrupt masking via
 * mrs/msr inline assembly).  Only the *system* side is replaced; every firmware
 * header and source file is used unmodified. */
#ifndef __ASM_SYSTEM_H
#define __ASM_SYSTEM_H
#define local_irq_save(x)      do { (x) = 0; } while (0)
#define local_irq_restore(x)   do { (void)(x); } while (0)
#define local_firq_save(x)     do { (x) = 0; } while (0)
#define local_irq_enable()     do { } while (0)
#define local_irq_disable()    do { } while (0)
#define local_fiq_enable()     do { } while (0)
#define local_fiq_disable()    do { } while (0)
#define __sti()                do { } while (0)
#define __cli()                do { } while (0)
#endif

/* C11 driver, sched_trx leg: every frame lookup trxcon's scheduler core really performs.
 *
 * Linked unmodified: src/host/trxcon/src/sched_trx.c, sched_mframe.c, sched_lchan_desc.c (ASan+UBSan).
 * Provided here: the ten lchan handlers sched_lchan_desc.c refers to (rx_data_fn, tx_data_fn, rx_sch_fn,
 * tx_rach_fn, rx/tx_tchf_fn, rx/tx_tchh_fn, rx/tx_pdtch_fn) as *recording stubs* - the real ones need
 * libosmocoding, which is not available - and stand-ins for the libosmocore / sched_prim.c entry points
 * sched_trx.c calls (logp2, msgb_dequeue/free/hexdump, osmo_a5, l1sched_prim_alloc/_to_user).
 *
 *   drv_c11_sched <config> <tn> [maxlen]              everything for one (channel combination, timeslot);
 *                                                     loss lengths 1..maxlen (default 3)
 *   drv_c11_sched <config> <tn> <mode> <base> <phase> <len>   one stream: mode free | loss | tx
 *
 * For one (config, tn): l1sched_alloc() + l1sched_configure_ts() + l1sched_activate_lchan() for every
 * lchan of the layout (all real), then
 *   free  l1sched_handle_rx_burst() with a burst for every FN of a 51*26*8 cycle (base 0) and for a
 *         stream across the hyperframe wrap;
 *   loss  for every start phase 0..period-1 and every loss length 1..3: a stream of 3 multiframes
 *         (+ a few frames) in which the frames with (fn - phase) mod period < len are lost, once from
 *         FN 0 and once across the hyperframe wrap;
 *   tx    l1sched_pull_burst() and l1sched_handle_rx_probe() for every FN likewise.
 * Every handler callback is compared with what the layout says: the (chan, bid) of frames[fn % period]
 * for the callback's own fn; real bursts exactly once and in order; a lost frame of an lchan is
 * substituted by exactly one dummy burst carrying the lost frame's fn and bid before the next burst
 * of that lchan is delivered.
 *
 * Output: "Q <mode> <base> <phase> <len>" before each stream (a sanitizer death is attributable),
 *         "V kind=.. ..." per violation (capped), one JSON line of counters.
 */
#include <errno.h>
#include <stdarg.h>
#include <stdint.h>
#include <stdio.h>
#include <stdlib.h>
#include <string.h>

#include <osmocom/core/msgb.h>
#include <osmocom/core/logging.h>
#include <osmocom/gsm/gsm_utils.h>
#include <osmocom/bb/l1sched/l1sched.h>

#define CYCLE (51 * 26 * 8)
#define HYPER (2048u * 26u * 51u)

/* ---- stand-ins for what sched_trx.c calls outside the three linked files ------------------------ */
void logp2(int subsys, unsigned int level, const char *file, int line, int cont, const char *format, ...)
{
}

struct msgb *msgb_dequeue(struct llist_head *queue)
{
	struct llist_head *lh;
	if (llist_empty(queue))
		return NULL;
	lh = queue->next;
	llist_del(lh);
	return llist_entry(lh, struct msgb, list);
}

void msgb_free(struct msgb *m)
{
	free(m);
}

const char *msgb_hexdump_l2(const struct msgb *msg)
{
	return "";
}

void osmo_a5(int n, const uint8_t *key, uint32_t fn, ubit_t *dl, ubit_t *ul)
{
	fprintf(stderr, "osmo_a5 called although no ciphering was configured\n");
	abort();
}

static unsigned long n_prims;
static int last_ind_tn = -1, last_ind_pchan = -1;

struct msgb *l1sched_prim_alloc(enum l1sched_prim_type type, enum osmo_prim_operation op)
{
	struct msgb *msg = calloc(1, sizeof(*msg) + sizeof(struct l1sched_prim));
	struct l1sched_prim *prim;
	if (!msg)
		return NULL;
	msg->l1h = (unsigned char *)(msg + 1);
	prim = l1sched_prim_from_msgb(msg);
	prim->oph.primitive = type;
	prim->oph.operation = op;
	return msg;
}

int l1sched_prim_to_user(struct l1sched_state *sched, struct msgb *msg)
{
	struct l1sched_prim *prim = l1sched_prim_from_msgb(msg);
	n_prims++;
	if (prim->oph.primitive == L1SCHED_PRIM_T_PCHAN_COMB) {
		last_ind_tn = prim->pchan_comb_ind.tn;
		last_ind_pchan = prim->pchan_comb_ind.pchan;
	}
	free(msg);
	return 0;
}

/* ---- recording lchan handlers ------------------------------------------------------------------ */
struct cb {
	int chan, bid, dummy, tx;
	uint32_t fn;
};
static struct cb cbs[512];
static int ncb;
static int cur_tn;

static int rec_rx(struct l1sched_lchan_state *lchan, const struct l1sched_burst_ind *bi)
{
	if (ncb < 512) {
		struct cb *c = &cbs[ncb];
		c->chan = lchan->type;
		c->fn = bi->fn;
		c->bid = bi->bid;
		c->tx = 0;
		/* bursts fed by this driver carry rssi -60 and a marker bit; substituted ones are all-zero */
		c->dummy = !(bi->rssi == -60 && bi->burst[0] == 1);
		if (bi->tn != cur_tn)
			c->chan = -1000 - bi->tn;
	}
	ncb++;
	return 0;
}

static int rec_tx(struct l1sched_lchan_state *lchan, struct l1sched_burst_req *br)
{
	if (ncb < 512) {
		struct cb *c = &cbs[ncb];
		c->chan = lchan->type;
		c->fn = br->fn;
		c->bid = br->bid;
		c->tx = 1;
		c->dummy = 0;
	}
	ncb++;
	return 0;
}

int rx_data_fn(struct l1sched_lchan_state *l, const struct l1sched_burst_ind *bi) { return rec_rx(l, bi); }
int rx_sch_fn(struct l1sched_lchan_state *l, const struct l1sched_burst_ind *bi) { return rec_rx(l, bi); }
int rx_tchf_fn(struct l1sched_lchan_state *l, const struct l1sched_burst_ind *bi) { return rec_rx(l, bi); }
int rx_tchh_fn(struct l1sched_lchan_state *l, const struct l1sched_burst_ind *bi) { return rec_rx(l, bi); }
int rx_pdtch_fn(struct l1sched_lchan_state *l, const struct l1sched_burst_ind *bi) { return rec_rx(l, bi); }
int tx_data_fn(struct l1sched_lchan_state *l, struct l1sched_burst_req *br) { return rec_tx(l, br); }
int tx_rach_fn(struct l1sched_lchan_state *l, struct l1sched_burst_req *br) { return rec_tx(l, br); }
int tx_tchf_fn(struct l1sched_lchan_state *l, struct l1sched_burst_req *br) { return rec_tx(l, br); }
int tx_tchh_fn(struct l1sched_lchan_state *l, struct l1sched_burst_req *br) { return rec_tx(l, br); }
int tx_pdtch_fn(struct l1sched_lchan_state *l, struct l1sched_burst_req *br) { return rec_tx(l, br); }

/* ---- harness ---------------------------------------------------------------------------------- */
static unsigned long nviol, n_rx_fed, n_rx_real, n_rx_dummy, n_lost, n_streams, n_tx_pull, n_tx_cb, n_probe,
	n_probe_active, n_lookups_expected, n_reconf;
static int cfg_config, cfg_tn;
static const char *cur_mode = "";
static uint32_t cur_base;
static int cur_phase, cur_len;

static uint32_t cur_fn;

/* called by the ASan runtime before it prints a report: say which burst was being handled */
void __asan_on_error(void)
{
	printf("A mode=%s base=%u phase=%d len=%d fn=%u\n", cur_mode, cur_base, cur_phase, cur_len, cur_fn);
	fflush(stdout);
}

static void viol(const char *kind, uint32_t fn, const char *fmt, ...)
{
	va_list ap;
	if (nviol++ >= 12)
		return;
	printf("V kind=%s mode=%s base=%u phase=%d len=%d fn=%u ", kind, cur_mode, cur_base, cur_phase, cur_len, fn);
	va_start(ap, fmt);
	vprintf(fmt, ap);
	va_end(ap);
	printf("\n");
}

static struct l1sched_state *sched;
static const struct l1sched_tdma_multiframe *mf;
static uint8_t active[_L1SCHED_CHAN_MAX];

/* the layout's word for a frame number (the harness stays inside [0, period) by construction) */
static const struct l1sched_tdma_frame *lay(uint32_t fn)
{
	n_lookups_expected++;
	return &mf->frames[fn % mf->period];
}

static int setup(void)
{
	struct l1sched_lchan_state *lchan;
	struct l1sched_ts *ts;
	int rc;

	n_reconf++;
	rc = l1sched_configure_ts(sched, cfg_tn, (enum gsm_phys_chan_config)cfg_config);
	if (rc) {
		viol("configure", 0, "l1sched_configure_ts(tn=%d, config=%d) = %d", cfg_tn, cfg_config, rc);
		return rc;
	}
	ts = sched->ts[cfg_tn];
	if (last_ind_tn != cfg_tn || last_ind_pchan != cfg_config)
		viol("configure", 0, "PCHAN_COMB.ind after configure carries tn=%d pchan=%d", last_ind_tn, last_ind_pchan);
	if (ts->mf_layout != l1sched_mframe_layout((enum gsm_phys_chan_config)cfg_config, cfg_tn))
		viol("configure", 0, "timeslot got another layout than l1sched_mframe_layout() returns");
	mf = ts->mf_layout;
	memset(active, 0, sizeof(active));
	llist_for_each_entry(lchan, &ts->lchans, list) {
		if (!lchan->active) {
			rc = l1sched_activate_lchan(ts, lchan->type);
			if (rc)
				viol("configure", 0, "l1sched_activate_lchan(%d) = %d", (int)lchan->type, rc);
		}
		if (lchan->active && (unsigned)lchan->type < _L1SCHED_CHAN_MAX)
			active[lchan->type] = 1;
	}
	/* every channel used by a frame of the layout got a channel state */
	{
		uint8_t has_state[_L1SCHED_CHAN_MAX], reported[_L1SCHED_CHAN_MAX];
		unsigned f;
		memset(has_state, 0, sizeof(has_state));
		memset(reported, 0, sizeof(reported));
		llist_for_each_entry(lchan, &ts->lchans, list)
			if ((unsigned)lchan->type < _L1SCHED_CHAN_MAX)
				has_state[lchan->type] = 1;
		for (f = 0; mf && mf->frames && f < mf->period; f++) {
			int k, x[2] = { mf->frames[f].dl_chan, mf->frames[f].ul_chan };
			for (k = 0; k < 2; k++) {
				if (x[k] == L1SCHED_IDLE || (unsigned)x[k] >= _L1SCHED_CHAN_MAX)
					continue;
				if (!has_state[x[k]] && !reported[x[k]]) {
					reported[x[k]] = 1;
					viol("no-lchan-state", f, "l1sched_configure_ts(tn=%d, config=%d) created no channel state for lchan %d, "
					     "which owns the %s frame %u of the layout", cfg_tn, cfg_config, x[k], k ? "UL" : "DL", f);
				}
			}
		}
	}
	return 0;
}

/* Rx stream: frames base+0 .. base+count-1 (mod hyperframe); frame i is lost iff len > 0 and
 * ((base + i - phase) mod period) < len */
static void rx_stream(const char *mode, uint32_t base, uint32_t count, int phase, int len)
{
	static uint32_t last[_L1SCHED_CHAN_MAX];
	static unsigned long nproc[_L1SCHED_CHAN_MAX];
	uint32_t i;

	cur_mode = mode; cur_base = base; cur_phase = phase; cur_len = len;
	printf("Q %s %u %d %d\n", mode, base, phase, len);
	fflush(stdout);
	n_streams++;
	if (setup())
		return;
	memset(last, 0, sizeof(last));
	memset(nproc, 0, sizeof(nproc));
	cur_tn = cfg_tn;
	for (i = 0; i < count; i++) {
		uint32_t fn = (uint32_t)(((uint64_t)base + i) % HYPER);
		struct cb exp[24];
		int nexp = 0, j, rc, x;
		const struct l1sched_tdma_frame *fr;
		struct l1sched_burst_ind bi;

		if (len > 0 && (fn + mf->period - (uint32_t)phase % mf->period) % mf->period < (uint32_t)len) {
			n_lost++;
			continue;
		}
		fr = lay(fn);
		x = fr->dl_chan;
		if ((unsigned)x < _L1SCHED_CHAN_MAX && l1sched_lchan_desc[x].rx_fn && active[x]) {
			if (nproc[x] > 0) {
				uint32_t elapsed = (fn + HYPER - last[x]) % HYPER, g;
				if (elapsed > 0 && elapsed <= mf->period)
					for (g = 1; g < elapsed && nexp < 23; g++) {
						uint32_t lf = (last[x] + g) % HYPER;
						const struct l1sched_tdma_frame *lfr = lay(lf);
						if ((int)lfr->dl_chan != x)
							continue;
						exp[nexp].chan = x; exp[nexp].fn = lf; exp[nexp].bid = lfr->dl_bid;
						exp[nexp].dummy = 1; nexp++;
					}
			}
			exp[nexp].chan = x; exp[nexp].fn = fn; exp[nexp].bid = fr->dl_bid; exp[nexp].dummy = 0; nexp++;
			last[x] = fn;
			nproc[x]++;
		}
		memset(&bi, 0, sizeof(bi));
		bi.fn = fn;
		bi.tn = cfg_tn;
		bi.rssi = -60;
		bi.bid = 0xee;
		bi.burst[0] = 1;
		bi.burst_len = GSM_NBITS_NB_GMSK_BURST;
		ncb = 0;
		cur_fn = fn;
		rc = l1sched_handle_rx_burst(sched, &bi);
		n_rx_fed++;
		if (bi.bid != fr->dl_bid)
			viol("rx-bid", fn, "l1sched_handle_rx_burst left bid=%u in the indication, layout frames[%u] says %u",
			     bi.bid, fn % mf->period, fr->dl_bid);
		if (ncb != nexp) {
			viol(nexp > 1 || ncb > 1 ? "rx-substitution" : "rx-callback", fn,
			     "burst fn=%u (frames[%u]: dl_chan=%d bid=%u, rc=%d): %d handler callback(s), layout demands %d; "
			     "first got chan=%d fn=%u bid=%d dummy=%d, first expected chan=%d fn=%u bid=%d dummy=%d",
			     fn, fn % mf->period, x, fr->dl_bid, rc, ncb, nexp,
			     ncb ? cbs[0].chan : -1, ncb ? cbs[0].fn : 0, ncb ? cbs[0].bid : -1, ncb ? cbs[0].dummy : -1,
			     nexp ? exp[0].chan : -1, nexp ? exp[0].fn : 0, nexp ? exp[0].bid : -1, nexp ? exp[0].dummy : -1);
			continue;
		}
		for (j = 0; j < nexp; j++) {
			if (cbs[j].dummy)
				n_rx_dummy++;
			else
				n_rx_real++;
			if (cbs[j].chan == exp[j].chan && cbs[j].fn == exp[j].fn && cbs[j].bid == exp[j].bid
			    && cbs[j].dummy == exp[j].dummy && !cbs[j].tx)
				continue;
			viol(exp[j].dummy || cbs[j].dummy ? "rx-substitution" : "rx-callback", fn,
			     "while handling burst fn=%u, callback %d/%d: handler of lchan %d got fn=%u bid=%d (%s); the layout gives "
			     "frames[%u] = (lchan %d, bid %d) and demands lchan %d fn=%u bid=%d (%s)",
			     fn, j + 1, nexp, cbs[j].chan, cbs[j].fn, cbs[j].bid, cbs[j].dummy ? "substituted dummy" : "received burst",
			     cbs[j].fn % mf->period, (int)lay(cbs[j].fn)->dl_chan, lay(cbs[j].fn)->dl_bid,
			     exp[j].chan, exp[j].fn, exp[j].bid, exp[j].dummy ? "substituted dummy" : "received burst");
			break;
		}
	}
}

static void tx_stream(uint32_t base, uint32_t count)
{
	uint32_t i;

	cur_mode = "tx"; cur_base = base; cur_phase = 0; cur_len = 0;
	printf("Q tx %u 0 0\n", base);
	fflush(stdout);
	n_streams++;
	if (setup())
		return;
	for (i = 0; i < count; i++) {
		uint32_t fn = (uint32_t)(((uint64_t)base + i) % HYPER);
		const struct l1sched_tdma_frame *fr = lay(fn);
		struct l1sched_burst_req br;
		struct l1sched_probe probe;
		int x = fr->ul_chan, want, rc, d = fr->dl_chan;

		memset(&br, 0, sizeof(br));
		br.fn = fn;
		br.tn = cfg_tn;
		br.bid = 0xee;
		ncb = 0;
		cur_fn = fn;
		l1sched_pull_burst(sched, &br);
		n_tx_pull++;
		want = (unsigned)x < _L1SCHED_CHAN_MAX && l1sched_lchan_desc[x].tx_fn && active[x];
		if (br.bid != fr->ul_bid)
			viol("tx-bid", fn, "l1sched_pull_burst left bid=%u in the request, layout frames[%u] says ul_bid %u",
			     br.bid, fn % mf->period, fr->ul_bid);
		if (ncb != want || (want && (cbs[0].chan != x || cbs[0].fn != fn || cbs[0].bid != fr->ul_bid || !cbs[0].tx)))
			viol("tx-callback", fn, "l1sched_pull_burst(fn=%u): %d callback(s) (first: lchan %d fn=%u bid=%d); layout frames[%u] "
			     "= (ul_chan %d, ul_bid %u) demands %d", fn, ncb, ncb ? cbs[0].chan : -1, ncb ? cbs[0].fn : 0,
			     ncb ? cbs[0].bid : -1, fn % mf->period, x, fr->ul_bid, want);
		n_tx_cb += ncb;

		memset(&probe, 0, sizeof(probe));
		probe.fn = fn;
		probe.tn = cfg_tn;
		rc = l1sched_handle_rx_probe(sched, &probe);
		n_probe++;
		want = (unsigned)d < _L1SCHED_CHAN_MAX && l1sched_lchan_desc[d].rx_fn && active[d];
		if (((probe.flags & L1SCHED_PROBE_F_ACTIVE) != 0) != want || (rc == 0) != want)
			viol("probe", fn, "l1sched_handle_rx_probe(fn=%u) = %d flags=0x%x; layout frames[%u].dl_chan=%d %s an active lchan with a handler",
			     fn, rc, probe.flags, fn % mf->period, d, want ? "is" : "is not");
		n_probe_active += want;
	}
}

int main(int argc, char **argv)
{
	struct l1sched_cfg cfg = { .log_prefix = "c11: " };
	const struct l1sched_tdma_multiframe *l;
	uint32_t P;
	int phase, len, maxlen = 3;

	if (argc < 3)
		return 2;
	cfg_config = atoi(argv[1]);
	cfg_tn = atoi(argv[2]);
	l = l1sched_mframe_layout((enum gsm_phys_chan_config)cfg_config, cfg_tn);
	if (!l || !l->frames || !l->period) {
		printf("N no layout with a frame table for config=%d tn=%d\n", cfg_config, cfg_tn);
		return 0;
	}
	P = l->period;
	sched = l1sched_alloc(NULL, &cfg, NULL);
	if (!sched)
		return 3;
	if (argc >= 7) {
		uint32_t base = strtoul(argv[4], 0, 0);
		phase = atoi(argv[5]);
		len = atoi(argv[6]);
		if (!strcmp(argv[3], "tx"))
			tx_stream(base, base ? 4 * P : CYCLE);
		else if (!strcmp(argv[3], "free"))
			rx_stream("free", base, base ? 4 * P : CYCLE, 0, 0);
		else
			rx_stream("loss", base, 3 * P + 8, phase, len);
	} else {
		if (argc == 4)
			maxlen = atoi(argv[3]);
		/* loss-free: the whole cycle, and across the hyperframe wrap */
		rx_stream("free", 0, CYCLE, 0, 0);
		rx_stream("free", HYPER - 2 * P, 4 * P, 0, 0);
		/* every start phase x loss length 1..3, from FN 0 and across the wrap */
		for (phase = 0; phase < (int)P; phase++)
			for (len = 1; len <= maxlen; len++) {
				rx_stream("loss", 0, 3 * P + 8, phase, len);
				rx_stream("loss", HYPER - P - P / 2, 3 * P + 8, phase, len);
			}
		tx_stream(0, CYCLE);
		tx_stream(HYPER - 2 * P, 4 * P);
	}
	l1sched_free(sched);
	printf("{\"period\": %u, \"streams\": %lu, \"reconfigurations\": %lu, \"rx_bursts_fed\": %lu, \"rx_frames_lost\": %lu, "
	       "\"rx_callbacks_real\": %lu, \"rx_callbacks_dummy\": %lu, \"tx_pulls\": %lu, \"tx_callbacks\": %lu, "
	       "\"probes\": %lu, \"probes_active\": %lu, \"layout_lookups_by_harness\": %lu, \"prims\": %lu, \"violations\": %lu}\n",
	       P, n_streams, n_reconf, n_rx_fed, n_lost, n_rx_real, n_rx_dummy, n_tx_pull, n_tx_cb, n_probe, n_probe_active,
	       n_lookups_expected, n_prims, nviol);
	return nviol ? 1 : 0;
}

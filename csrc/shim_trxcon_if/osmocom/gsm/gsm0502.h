/* Stand-in for the *system* libosmocore <osmocom/gsm/gsm0502.h>: TDMA constants and frame-number
 * arithmetic (the embedded copy has none of them). */
#pragma once
#include <stdint.h>

#define GSM_TDMA_FN_DURATION_uS		4615
#define GSM_TDMA_FN_DURATION_nS		4615384
#define GSM_TDMA_SUPERFRAME		(26 * 51)
#define GSM_TDMA_HYPERFRAME		(2048 * GSM_TDMA_SUPERFRAME)

#define GSM_TDMA_FN_SUM(a, b)		(((a) + (b)) % GSM_TDMA_HYPERFRAME)
#define GSM_TDMA_FN_SUB(a, b)		(((a) + GSM_TDMA_HYPERFRAME - (b)) % GSM_TDMA_HYPERFRAME)
#define GSM_TDMA_FN_INC(fn)		((fn) = GSM_TDMA_FN_SUM((fn), 1))
#define GSM_TDMA_FN_DEC(fn)		((fn) = GSM_TDMA_FN_SUB((fn), 1))
#define GSM_TDMA_FN_MIN(a, b)		(GSM_TDMA_FN_SUB((a), (b)) < GSM_TDMA_FN_SUB((b), (a)) ? (a) : (b))
#define GSM_TDMA_FN_DIFF(a, b)		GSM_TDMA_FN_MIN(GSM_TDMA_FN_SUB((a), (b)), GSM_TDMA_FN_SUB((b), (a)))

#define GSM_NBITS_NB_GMSK_TAIL		3
#define GSM_NBITS_NB_GMSK_PAYLOAD	(2 * 58)
#define GSM_NBITS_NB_GMSK_TRAIN_SEQ	26
#define GSM_NBITS_NB_GMSK_BURST		148
#define GSM_NBITS_AB_GMSK_BURST		GSM_NBITS_NB_GMSK_BURST
#define GSM_NBITS_NB_8PSK_BURST		(GSM_NBITS_NB_GMSK_BURST * 3)

/* Stand-in for the *system* libosmocore <osmocom/gsm/gsm_utils.h>: the embedded copy predates the
 * CBCH channel combinations and gsm_freq102arfcn() that trxcon uses.  Enumerator values follow the
 * system library (they are what `pchan` numbers in struct trxcon_phyif_cmdp_setslot mean). */
#pragma once
#include <stdint.h>
#include <osmocom/core/utils.h>

struct gsm_time {
	uint32_t fn;
	uint16_t t1;
	uint8_t t2;
	uint8_t t3;
	uint8_t tc;
};

enum gsm_band {
	GSM_BAND_850 = 1,
	GSM_BAND_900 = 2,
	GSM_BAND_1800 = 4,
	GSM_BAND_1900 = 8,
	GSM_BAND_450 = 0x10,
	GSM_BAND_480 = 0x20,
	GSM_BAND_750 = 0x40,
	GSM_BAND_810 = 0x80,
};

#define ARFCN_PCS	0x8000
#define ARFCN_UPLINK	0x4000
#define ARFCN_FLAG_MASK	0xf000

enum gsm_phys_chan_config {
	GSM_PCHAN_NONE,
	GSM_PCHAN_CCCH,
	GSM_PCHAN_CCCH_SDCCH4,
	GSM_PCHAN_TCH_F,
	GSM_PCHAN_TCH_H,
	GSM_PCHAN_SDCCH8_SACCH8C,
	GSM_PCHAN_PDCH,
	GSM_PCHAN_TCH_F_PDCH,
	GSM_PCHAN_UNKNOWN,
	GSM_PCHAN_CCCH_SDCCH4_CBCH,
	GSM_PCHAN_SDCCH8_SACCH8C_CBCH,
	GSM_PCHAN_OSMO_DYN,
	_GSM_PCHAN_MAX
};
#define GSM_PCHAN_TCH_F_TCH_H_PDCH GSM_PCHAN_OSMO_DYN

/* implemented by the tree's src/gsm/gsm_utils.c (compiled unmodified, separately) */
uint16_t gsm_arfcn2freq10(uint16_t arfcn, int uplink);
/* newer than the embedded copy: implemented in shim_trxcon_if.c by inverting the tree's gsm_arfcn2freq10() */
uint16_t gsm_freq102arfcn(uint16_t freq10, int uplink);

/* The tree's embedded <osmocom/core/socket.h> plus osmo_sock_init2_ofd() of the system libosmocore.
 * The implementation hands out one end of a driver-visible socketpair(AF_UNIX, SOCK_DGRAM). */
#pragma once
#include_next <osmocom/core/socket.h>
#include <stdint.h>
#include <sys/socket.h>

struct osmo_fd;
int osmo_sock_init2_ofd(struct osmo_fd *ofd, int family, int type, int proto,
			const char *local_host, uint16_t local_port,
			const char *remote_host, uint16_t remote_port, unsigned int flags);

/* Stand-in for the *system* libosmocore <osmocom/core/fsm.h> (not installed in the sandbox, and
 * absent from the tree's embedded libosmocore copy).  Declarations follow libosmocore's public API;
 * the implementation (shim_trxcon_if.c) is a small real FSM core: state changes honour
 * out_state_mask, termination calls the FSM's cleanup callback and frees the instance, the parent is
 * told with parent_term_event.  Timers are recorded, never run. */
#pragma once

#include <stdint.h>
#include <stdbool.h>
#include <stdarg.h>

#include <osmocom/core/linuxlist.h>
#include <osmocom/core/timer.h>
#include <osmocom/core/utils.h>
#include <osmocom/core/logging.h>

#ifndef OSMO_ASSERT
void shim_assert_failed(const char *exp, const char *file, int line) __attribute__((noreturn));
#define OSMO_ASSERT(exp) do { if (!(exp)) shim_assert_failed(#exp, __FILE__, __LINE__); } while (0)
#endif

struct osmo_fsm_inst;

enum osmo_fsm_term_cause {
	OSMO_FSM_TERM_PARENT,
	OSMO_FSM_TERM_REQUEST,
	OSMO_FSM_TERM_REGULAR,
	OSMO_FSM_TERM_ERROR,
	OSMO_FSM_TERM_TIMEOUT,
};

struct osmo_fsm_state {
	uint32_t in_event_mask;
	uint32_t out_state_mask;
	const char *name;
	void (*action)(struct osmo_fsm_inst *fi, uint32_t event, void *data);
	void (*onenter)(struct osmo_fsm_inst *fi, uint32_t prev_state);
	void (*onleave)(struct osmo_fsm_inst *fi, uint32_t next_state);
};

struct osmo_fsm {
	struct llist_head list;
	struct llist_head instances;
	const char *name;
	const struct osmo_fsm_state *states;
	unsigned int num_states;
	uint32_t allstate_event_mask;
	void (*allstate_action)(struct osmo_fsm_inst *fi, uint32_t event, void *data);
	void (*cleanup)(struct osmo_fsm_inst *fi, enum osmo_fsm_term_cause cause);
	int (*timer_cb)(struct osmo_fsm_inst *fi);
	const struct value_string *event_names;
	int log_subsys;
	void (*pre_term)(struct osmo_fsm_inst *fi, enum osmo_fsm_term_cause cause);
};

struct osmo_fsm_inst {
	struct llist_head list;
	const char *id;
	const char *name;
	struct osmo_fsm *fsm;
	int log_level;
	void *priv;
	uint32_t state;
	int T;
	struct osmo_timer_list timer;
	struct {
		struct osmo_fsm_inst *parent;
		uint32_t parent_term_event;
		struct llist_head children;
		struct llist_head child;
		bool terminating;
	} proc;
};

/* logging through an FSM instance: arguments are really formatted (so that a bad %s argument is seen
 * by the sanitizers), the text goes to a recorder */
void shim_logf(int subsys, int level, const char *file, int line, const char *fmt, ...)
	__attribute__((format(printf, 5, 6)));

#define LOGPFSMSLSRC(fi, subsys, level, caller_file, caller_line, fmt, args...) \
	shim_logf(subsys, level, caller_file, caller_line, "%s{%s}: " fmt, \
		  osmo_fsm_inst_name(fi), \
		  (fi) ? osmo_fsm_state_name((fi)->fsm, (fi)->state) : "fi=NULL", ## args)
#define LOGPFSMSL(fi, subsys, level, fmt, args...) \
	LOGPFSMSLSRC(fi, subsys, level, __FILE__, __LINE__, fmt, ## args)
#define LOGPFSMLSRC(fi, level, caller_file, caller_line, fmt, args...) \
	LOGPFSMSLSRC(fi, (fi) ? (fi)->fsm->log_subsys : DLGLOBAL, level, caller_file, caller_line, fmt, ## args)
#define LOGPFSML(fi, level, fmt, args...) \
	LOGPFSMLSRC(fi, level, __FILE__, __LINE__, fmt, ## args)
#define LOGPFSM(fi, fmt, args...) \
	LOGPFSML(fi, (fi) ? (fi)->log_level : LOGL_ERROR, fmt, ## args)

int osmo_fsm_register(struct osmo_fsm *fsm);
void osmo_fsm_unregister(struct osmo_fsm *fsm);
struct osmo_fsm_inst *osmo_fsm_inst_alloc(struct osmo_fsm *fsm, void *ctx, void *priv,
					  int log_level, const char *id);
struct osmo_fsm_inst *osmo_fsm_inst_alloc_child(struct osmo_fsm *fsm, struct osmo_fsm_inst *parent,
						uint32_t parent_term_event);
void osmo_fsm_inst_free(struct osmo_fsm_inst *fi);

const char *osmo_fsm_event_name(struct osmo_fsm *fsm, uint32_t event);
const char *osmo_fsm_inst_name(struct osmo_fsm_inst *fi);
const char *osmo_fsm_state_name(struct osmo_fsm *fsm, uint32_t state);
static inline const char *osmo_fsm_inst_state_name(struct osmo_fsm_inst *fi)
{
	return fi ? osmo_fsm_state_name(fi->fsm, fi->state) : "NULL";
}

#define osmo_fsm_inst_state_chg(fi, new_state, timeout_secs, T) \
	_osmo_fsm_inst_state_chg(fi, new_state, timeout_secs, T, __FILE__, __LINE__)
int _osmo_fsm_inst_state_chg(struct osmo_fsm_inst *fi, uint32_t new_state,
			     unsigned long timeout_secs, int T, const char *file, int line);

#define osmo_fsm_inst_dispatch(fi, event, data) \
	_osmo_fsm_inst_dispatch(fi, event, data, __FILE__, __LINE__)
int _osmo_fsm_inst_dispatch(struct osmo_fsm_inst *fi, uint32_t event, void *data,
			    const char *file, int line);

#define osmo_fsm_inst_term(fi, cause, data) \
	_osmo_fsm_inst_term(fi, cause, data, __FILE__, __LINE__)
void _osmo_fsm_inst_term(struct osmo_fsm_inst *fi, enum osmo_fsm_term_cause cause, void *data,
			 const char *file, int line);

/* The tree's embedded <osmocom/core/bits.h> (sbit_t/ubit_t/pbit_t ...) plus the big-endian load/store
 * helpers that the system libosmocore provides through <osmocom/core/bit32gen.h>. */
#pragma once
#include_next <osmocom/core/bits.h>
#include <stdint.h>

#ifndef OSMO_SHIM_BITGEN
#define OSMO_SHIM_BITGEN
static inline uint32_t osmo_load32be(const void *p)
{
	const uint8_t *q = (const uint8_t *)p;
	return ((uint32_t)q[0] << 24) | ((uint32_t)q[1] << 16) | ((uint32_t)q[2] << 8) | (uint32_t)q[3];
}
static inline void osmo_store32be(uint32_t x, void *p)
{
	uint8_t *q = (uint8_t *)p;
	q[0] = (x >> 24) & 0xff; q[1] = (x >> 16) & 0xff; q[2] = (x >> 8) & 0xff; q[3] = x & 0xff;
}
static inline uint16_t osmo_load16be(const void *p)
{
	const uint8_t *q = (const uint8_t *)p;
	return ((uint16_t)q[0] << 8) | (uint16_t)q[1];
}
static inline void osmo_store16be(uint16_t x, void *p)
{
	uint8_t *q = (uint8_t *)p;
	q[0] = (x >> 8) & 0xff; q[1] = x & 0xff;
}
#endif

/* Driver-facing side of the libosmocore stand-ins in this directory. */
#pragma once
#include <stdint.h>
#include <osmocom/core/fsm.h>
#include <osmocom/core/select.h>

#define SHIM_NO_FD	(-9999)

/* --- osmo_fd registry (select.h): registered callbacks, invoked by the driver ---------------- */
int shim_fd_dispatch(int fd, unsigned int what);	/* -> cb's return value, SHIM_NO_FD if fd is not registered */
int shim_fd_registered(int fd);
unsigned int shim_fd_count(void);

/* --- sockets: osmo_sock_init2_ofd() hands out one end of socketpair(AF_UNIX, SOCK_DGRAM) ------ */
int shim_sock_peer(uint16_t remote_port);		/* the driver's end for the socket "connected" to remote_port, or -1 */
void shim_sock_close_peers(void);
extern int shim_sock_fail_countdown;			/* 0: the next open fails with -ENODEV; <0: never */

/* --- timers (timer.h): recorded, never run --------------------------------------------------- */
unsigned int shim_timers_pending(void);
int shim_timer_fire(struct osmo_timer_list *t);		/* if pending: deactivate, call cb(data), return 1; else 0 */

/* --- FSM bookkeeping --------------------------------------------------------------------------- */
extern unsigned int shim_fsm_eperm;			/* state changes rejected by out_state_mask */
extern unsigned int shim_fsm_allocs, shim_fsm_frees, shim_fsm_terms;
extern int shim_fsm_last_term_cause;

/* --- log recorder ------------------------------------------------------------------------------ */
extern unsigned int shim_log_lines;			/* all levels */
extern unsigned int shim_log_errors;			/* LOGL_ERROR and above */
extern int shim_log_min_level;				/* 0 (default): every message is formatted */
const char *shim_log_last(void);

/* Minimal implementations of the *system* libosmocore entry points used by trxcon's trx_if.c.
 * Not a copy of libosmocore: just enough real behaviour for the transceiver interface to run
 * unmodified under a driver.  See shim_trxcon_if.h. */
#include <errno.h>
#include <fcntl.h>
#include <stdarg.h>
#include <stdio.h>
#include <stdlib.h>
#include <string.h>
#include <unistd.h>
#include <sys/socket.h>

#include <osmocom/core/talloc.h>
#include <osmocom/core/socket.h>
#include <osmocom/gsm/gsm_utils.h>
#include "shim_trxcon_if.h"

/* ------------------------------------------------------------------------------------------------ */
/* logging recorder                                                                                 */
/* ------------------------------------------------------------------------------------------------ */
unsigned int shim_log_lines, shim_log_errors;
int shim_log_min_level;		/* messages below this level are counted but not formatted (0: format everything) */
static char log_last[4096];

void shim_logf(int subsys, int level, const char *file, int line, const char *fmt, ...)
{
	va_list ap;
	int n;
	const char *base = strrchr(file, '/');
	shim_log_lines++;
	if (level >= LOGL_ERROR)
		shim_log_errors++;
	if (level < shim_log_min_level)
		return;
	n = snprintf(log_last, sizeof(log_last), "<%d:%d> %s:%d ", subsys, level, base ? base + 1 : file, line);
	va_start(ap, fmt);
	vsnprintf(log_last + n, sizeof(log_last) - n, fmt, ap);	/* really formats the arguments */
	va_end(ap);
	if (getenv("TRXDRV_LOG"))
		fputs(log_last, stderr);
}

const char *shim_log_last(void)
{
	return log_last;
}

void shim_assert_failed(const char *exp, const char *file, int line)
{
	fprintf(stderr, "Assert failed %s %s:%d\n", exp, file, line);
	abort();
}

/* ------------------------------------------------------------------------------------------------ */
/* timers: recorded, never run                                                                      */
/* ------------------------------------------------------------------------------------------------ */
static LLIST_HEAD(timers);

void osmo_timer_add(struct osmo_timer_list *timer)
{
	osmo_timer_del(timer);
	timer->active = 1;
	INIT_LLIST_HEAD(&timer->list);
	llist_add_tail(&timer->list, &timers);
}

void osmo_timer_schedule(struct osmo_timer_list *timer, int seconds, int microseconds)
{
	timer->timeout.tv_sec = seconds;	/* relative: nothing ever expires by itself */
	timer->timeout.tv_usec = microseconds;
	osmo_timer_add(timer);
}

void osmo_timer_del(struct osmo_timer_list *timer)
{
	if (timer->active) {
		timer->active = 0;
		llist_del(&timer->list);
	}
}

int osmo_timer_pending(struct osmo_timer_list *timer)
{
	return timer->active;
}

unsigned int shim_timers_pending(void)
{
	struct llist_head *p;
	unsigned int n = 0;
	llist_for_each(p, &timers)
		n++;
	return n;
}

int shim_timer_fire(struct osmo_timer_list *t)
{
	if (!t->active)
		return 0;
	osmo_timer_del(t);		/* libosmocore removes an expired timer before calling it */
	if (t->cb)
		t->cb(t->data);
	return 1;
}

/* ------------------------------------------------------------------------------------------------ */
/* osmo_fd registry                                                                                 */
/* ------------------------------------------------------------------------------------------------ */
static LLIST_HEAD(fds);

int osmo_fd_register(struct osmo_fd *fd)
{
	int flags;
	if (fd->fd < 0)
		return -EBADF;
	/* like libosmocore: registered descriptors are non-blocking and close-on-exec */
	flags = fcntl(fd->fd, F_GETFL);
	if (flags < 0)
		return flags;
	if (fcntl(fd->fd, F_SETFL, flags | O_NONBLOCK) < 0)
		return -errno;
	flags = fcntl(fd->fd, F_GETFD);
	if (flags >= 0)
		fcntl(fd->fd, F_SETFD, flags | FD_CLOEXEC);
	llist_add_tail(&fd->list, &fds);
	return 0;
}

void osmo_fd_unregister(struct osmo_fd *fd)
{
	struct osmo_fd *cur;
	llist_for_each_entry(cur, &fds, list) {
		if (cur == fd) {
			llist_del(&fd->list);
			return;
		}
	}
}

static struct osmo_fd *fd_find(int fd)
{
	struct osmo_fd *cur;
	llist_for_each_entry(cur, &fds, list)
		if (cur->fd == fd)
			return cur;
	return NULL;
}

int shim_fd_registered(int fd)
{
	return fd_find(fd) != NULL;
}

unsigned int shim_fd_count(void)
{
	struct llist_head *p;
	unsigned int n = 0;
	llist_for_each(p, &fds)
		n++;
	return n;
}

int shim_fd_dispatch(int fd, unsigned int what)
{
	struct osmo_fd *ofd = fd_find(fd);
	if (!ofd || !ofd->cb)
		return SHIM_NO_FD;
	return ofd->cb(ofd, what);
}

/* ------------------------------------------------------------------------------------------------ */
/* sockets                                                                                          */
/* ------------------------------------------------------------------------------------------------ */
#define MAX_PEERS 16
static struct { uint16_t remote_port; int peer_fd; } peers[MAX_PEERS];
static unsigned int npeers;
int shim_sock_fail_countdown = -1;

int osmo_sock_init2_ofd(struct osmo_fd *ofd, int family, int type, int proto,
			const char *local_host, uint16_t local_port,
			const char *remote_host, uint16_t remote_port, unsigned int flags)
{
	int sv[2], rc;
	(void)family; (void)proto; (void)local_host; (void)local_port; (void)remote_host; (void)flags;
	if (shim_sock_fail_countdown == 0) {
		shim_sock_fail_countdown = -1;
		return -ENODEV;
	}
	if (shim_sock_fail_countdown > 0)
		shim_sock_fail_countdown--;
	if (type != SOCK_DGRAM || npeers >= MAX_PEERS)
		return -EINVAL;
	if (socketpair(AF_UNIX, SOCK_DGRAM, 0, sv) < 0)
		return -errno;
	/* the driver's end never blocks either */
	fcntl(sv[1], F_SETFL, fcntl(sv[1], F_GETFL) | O_NONBLOCK);
	ofd->fd = sv[0];
	ofd->when = BSC_FD_READ;
	rc = osmo_fd_register(ofd);
	if (rc < 0) {
		close(sv[0]);
		close(sv[1]);
		ofd->fd = -1;
		return rc;
	}
	peers[npeers].remote_port = remote_port;
	peers[npeers].peer_fd = sv[1];
	npeers++;
	return sv[0];
}

int shim_sock_peer(uint16_t remote_port)
{
	unsigned int i;
	for (i = npeers; i > 0; i--)
		if (peers[i - 1].remote_port == remote_port)
			return peers[i - 1].peer_fd;
	return -1;
}

void shim_sock_close_peers(void)
{
	unsigned int i;
	for (i = 0; i < npeers; i++)
		close(peers[i].peer_fd);
	npeers = 0;
}

/* ------------------------------------------------------------------------------------------------ */
/* FSM core                                                                                         */
/* ------------------------------------------------------------------------------------------------ */
static LLIST_HEAD(fsms);
unsigned int shim_fsm_eperm, shim_fsm_allocs, shim_fsm_frees, shim_fsm_terms;
int shim_fsm_last_term_cause = -1;

int osmo_fsm_register(struct osmo_fsm *fsm)
{
	struct osmo_fsm *cur;
	llist_for_each_entry(cur, &fsms, list)
		if (!strcmp(cur->name, fsm->name))
			return -EEXIST;
	/* libosmocore only warns about a missing event_names table */
	llist_add_tail(&fsm->list, &fsms);
	INIT_LLIST_HEAD(&fsm->instances);
	return 0;
}

void osmo_fsm_unregister(struct osmo_fsm *fsm)
{
	llist_del(&fsm->list);
}

const char *osmo_fsm_state_name(struct osmo_fsm *fsm, uint32_t state)
{
	static char buf[32];
	if (fsm && state < fsm->num_states && fsm->states[state].name)
		return fsm->states[state].name;
	snprintf(buf, sizeof(buf), "unknown %u", state);
	return buf;
}

const char *osmo_fsm_event_name(struct osmo_fsm *fsm, uint32_t event)
{
	static char buf[32];
	const char *s = (fsm && fsm->event_names) ? get_value_string(fsm->event_names, event) : NULL;
	if (s && strncmp(s, "unknown", 7))
		return s;
	snprintf(buf, sizeof(buf), "%u", event);
	return buf;
}

const char *osmo_fsm_inst_name(struct osmo_fsm_inst *fi)
{
	if (!fi)
		return "NULL";
	return fi->name ? fi->name : fi->fsm->name;
}

struct osmo_fsm_inst *osmo_fsm_inst_alloc(struct osmo_fsm *fsm, void *ctx, void *priv,
					  int log_level, const char *id)
{
	struct osmo_fsm_inst *fi = talloc_zero(ctx, struct osmo_fsm_inst);
	if (!fi)
		return NULL;
	fi->fsm = fsm;
	fi->priv = priv;
	fi->log_level = log_level;
	if (id) {
		fi->id = talloc_strdup(fi, id);
		fi->name = talloc_asprintf(fi, "%s(%s)", fsm->name, id);
	} else {
		fi->name = talloc_asprintf(fi, "%s(%p)", fsm->name, (void *)fi);
	}
	INIT_LLIST_HEAD(&fi->proc.children);
	INIT_LLIST_HEAD(&fi->proc.child);
	llist_add(&fi->list, &fsm->instances);
	shim_fsm_allocs++;
	LOGPFSM(fi, "Allocated\n");
	return fi;
}

struct osmo_fsm_inst *osmo_fsm_inst_alloc_child(struct osmo_fsm *fsm, struct osmo_fsm_inst *parent,
						uint32_t parent_term_event)
{
	struct osmo_fsm_inst *fi;
	/* like libosmocore: the parent is dereferenced unconditionally */
	fi = osmo_fsm_inst_alloc(fsm, parent, NULL, parent->log_level, parent->id);
	if (!fi)
		return NULL;
	fi->proc.parent = parent;
	fi->proc.parent_term_event = parent_term_event;
	llist_add(&fi->proc.child, &parent->proc.children);
	return fi;
}

void osmo_fsm_inst_free(struct osmo_fsm_inst *fi)
{
	/* like libosmocore: no NULL check */
	osmo_timer_del(&fi->timer);
	llist_del(&fi->list);
	shim_fsm_frees++;
	talloc_free(fi);
}

static void fsm_tmr_cb(void *data)
{
	struct osmo_fsm_inst *fi = data;
	if (fi->fsm->timer_cb && fi->fsm->timer_cb(fi) != 1)
		return;
	_osmo_fsm_inst_term(fi, OSMO_FSM_TERM_TIMEOUT, &fi->T, __FILE__, __LINE__);
}

int _osmo_fsm_inst_state_chg(struct osmo_fsm_inst *fi, uint32_t new_state,
			     unsigned long timeout_secs, int T, const char *file, int line)
{
	struct osmo_fsm *fsm = fi->fsm;
	uint32_t old_state = fi->state;
	const struct osmo_fsm_state *st = &fsm->states[fi->state];

	if (new_state >= fsm->num_states || !((1u << new_state) & st->out_state_mask)) {
		LOGPFSMLSRC(fi, LOGL_ERROR, file, line, "transition to state %s not permitted!\n",
			    osmo_fsm_state_name(fsm, new_state));
		shim_fsm_eperm++;
		return -EPERM;
	}
	osmo_timer_del(&fi->timer);
	if (st->onleave)
		st->onleave(fi, new_state);
	LOGPFSMLSRC(fi, fi->log_level, file, line, "state_chg to %s\n", osmo_fsm_state_name(fsm, new_state));
	fi->state = new_state;
	st = &fsm->states[new_state];
	if (timeout_secs) {
		fi->T = T;
		fi->timer.cb = fsm_tmr_cb;
		fi->timer.data = fi;
		osmo_timer_schedule(&fi->timer, timeout_secs, 0);
	}
	if (st->onenter)
		st->onenter(fi, old_state);
	return 0;
}

int _osmo_fsm_inst_dispatch(struct osmo_fsm_inst *fi, uint32_t event, void *data,
			    const char *file, int line)
{
	struct osmo_fsm *fsm;
	const struct osmo_fsm_state *fs;
	if (!fi) {
		shim_logf(DLGLOBAL, LOGL_ERROR, file, line, "Trying to dispatch event %u to non-existent FSM instance!\n", event);
		return -ENODEV;
	}
	fsm = fi->fsm;
	fs = &fsm->states[fi->state];
	LOGPFSMLSRC(fi, fi->log_level, file, line, "Received Event %s\n", osmo_fsm_event_name(fsm, event));
	if (event < 32 && ((1u << event) & fsm->allstate_event_mask) && fsm->allstate_action) {
		fsm->allstate_action(fi, event, data);
		return 0;
	}
	if (event >= 32 || !((1u << event) & fs->in_event_mask)) {
		LOGPFSMLSRC(fi, LOGL_ERROR, file, line, "Event %s not permitted\n", osmo_fsm_event_name(fsm, event));
		return -1;
	}
	if (fs->action)
		fs->action(fi, event, data);
	return 0;
}

void _osmo_fsm_inst_term(struct osmo_fsm_inst *fi, enum osmo_fsm_term_cause cause, void *data,
			 const char *file, int line)
{
	struct osmo_fsm_inst *parent, *child, *tmp;
	uint32_t parent_term_event;

	if (fi->proc.terminating)
		return;
	fi->proc.terminating = true;
	shim_fsm_terms++;
	shim_fsm_last_term_cause = cause;
	LOGPFSMLSRC(fi, fi->log_level, file, line, "Terminating (cause = %d)\n", cause);

	if (fi->fsm->pre_term)
		fi->fsm->pre_term(fi, cause);

	/* children first */
	llist_for_each_entry_safe(child, tmp, &fi->proc.children, proc.child)
		_osmo_fsm_inst_term(child, OSMO_FSM_TERM_PARENT, NULL, file, line);

	parent = fi->proc.parent;
	parent_term_event = fi->proc.parent_term_event;
	if (parent) {
		llist_del(&fi->proc.child);
		fi->proc.parent = NULL;
	}

	if (fi->fsm->cleanup)
		fi->fsm->cleanup(fi, cause);

	LOGPFSMLSRC(fi, fi->log_level, file, line, "Freeing instance\n");
	osmo_fsm_inst_free(fi);

	if (parent)
		_osmo_fsm_inst_dispatch(parent, parent_term_event, data, file, line);
}

/* ------------------------------------------------------------------------------------------------ */
/* gsm_utils: inverse of the tree's gsm_arfcn2freq10()                                              */
/* ------------------------------------------------------------------------------------------------ */
uint16_t gsm_freq102arfcn(uint16_t freq10, int uplink)
{
	unsigned int a;
	for (a = 0; a < 1024; a++)
		if (gsm_arfcn2freq10(a, uplink) == freq10)
			return a;
	for (a = 512; a <= 810; a++)
		if (gsm_arfcn2freq10(a | ARFCN_PCS, uplink) == freq10)
			return a | ARFCN_PCS;
	return 0xffff;
}

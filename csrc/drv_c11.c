/* C11 driver: multiframe mapping, firmware (layer1/mframe_sched.c) and trxcon (sched_mframe.c).
 *
 * One source, two programs (the two stacks use different generations of libosmocore headers, so
 * they cannot share a translation unit):
 *
 *   -DC11_FW   firmware side: the tree's mframe_sched.c is linked unmodified; this file provides
 *              `l1s`, the six TDMA item sets it refers to (identity only) and a recording stub of
 *              tdma_schedule_set().  For every multiframe task, the real mframe_schedule() is
 *              stepped through l1s.current_time = 0 .. 51*26*8-1 with exactly that task enabled.
 *              Output:  "T <name> <id>"            task about to be walked (printed before, so a
 *                                                  crash is attributable)
 *                       "C <fn> <frame_offset> <set> <p3>"   one line per tdma_schedule_set() call
 *                       "E <name> <frames> <calls>"
 *   (default)  trxcon side: the tree's sched_mframe.c is linked unmodified.  For every channel
 *              combination value (all enumerators, plus out-of-range values) and tn 0..7 the real
 *              l1sched_mframe_layout() is called and, if a layout with a frame table comes back,
 *              frames[fn % period] is read for every fn of the 10608-frame cycle (ASan watches the
 *              table bounds).
 *              Output:  "L <lchan name> <value>", "P <pchan name> <value>"
 *                       "Q <config> <tn>"          query about to be made
 *                       "R null" | "R <layout index> <chan_config> <period> <slotmask> <lchan_mask> <has frames> <name>"
 *                       "F <hex: dl_chan dl_bid ul_chan ul_bid per fn>"
 *
 * All comparisons are done by vlib/props/c11.py.
 */
#include <stdint.h>
#include <stdio.h>
#include <stdlib.h>
#include <string.h>

#define CYCLE (51 * 26 * 8)

#ifdef C11_FW
/* ---------------------------------------------------------------------------------------------- */
#include <osmocom/gsm/gsm_utils.h>
#include <layer1/sync.h>
#include <layer1/prim.h>
#include <layer1/tdma_sched.h>
#include <layer1/mframe_sched.h>

struct l1s_state l1s;

/* the item sets are only identities here: mframe_sched.c passes their addresses on */
const struct tdma_sched_item nb_sched_set[1];
const struct tdma_sched_item nb_sched_set_ul[1];
const struct tdma_sched_item tch_sched_set[1];
const struct tdma_sched_item tch_a_sched_set[1];
const struct tdma_sched_item tch_d_sched_set[1];
const struct tdma_sched_item neigh_pm_sched_set[1];

static unsigned long ncalls;

static const char *set_name(const struct tdma_sched_item *s)
{
	if (s == nb_sched_set) return "NB_DL";
	if (s == nb_sched_set_ul) return "NB_UL";
	if (s == tch_sched_set) return "TCH";
	if (s == tch_a_sched_set) return "TCH_A";
	if (s == tch_d_sched_set) return "TCH_D";
	if (s == neigh_pm_sched_set) return "NEIGH_PM";
	return "UNKNOWN";
}

int tdma_schedule_set(uint8_t frame_offset, const struct tdma_sched_item *item_set, uint16_t p3)
{
	ncalls++;
	printf("C %u %u %s %u\n", l1s.current_time.fn, frame_offset, set_name(item_set), p3);
	/* the real function returns the number of frames the set occupies from now on; the value
	 * only feeds mframe_sched's safe_fn bookkeeping */
	return frame_offset + 4;
}

#define TASKS(X) \
	X(MF_TASK_BCCH_NORM) X(MF_TASK_BCCH_EXT) X(MF_TASK_CCCH) X(MF_TASK_CCCH_COMB) \
	X(MF_TASK_SDCCH4_0) X(MF_TASK_SDCCH4_1) X(MF_TASK_SDCCH4_2) X(MF_TASK_SDCCH4_3) \
	X(MF_TASK_SDCCH8_0) X(MF_TASK_SDCCH8_1) X(MF_TASK_SDCCH8_2) X(MF_TASK_SDCCH8_3) \
	X(MF_TASK_SDCCH8_4) X(MF_TASK_SDCCH8_5) X(MF_TASK_SDCCH8_6) X(MF_TASK_SDCCH8_7) \
	X(MF_TASK_SDCCH4_CBCH) X(MF_TASK_SDCCH8_CBCH) \
	X(MF_TASK_TCH_F_EVEN) X(MF_TASK_TCH_F_ODD) X(MF_TASK_TCH_H_0) X(MF_TASK_TCH_H_1) \
	X(MF_TASK_GPRS_PDTCH) X(MF_TASK_GPRS_PTCCH) \
	X(MF_TASK_NEIGH_PM51_C0T0) X(MF_TASK_NEIGH_PM51) X(MF_TASK_NEIGH_PM26E) X(MF_TASK_NEIGH_PM26O) \
	X(MF_TASK_UL_ALL_NB)

static void walk(const char *name, enum mframe_task id, uint32_t base)
{
	uint32_t k;
	unsigned long before = ncalls;

	printf("T %s %d %u\n", name, (int)id, base);
	fflush(stdout);
	memset(&l1s, 0, sizeof(l1s));
	mframe_reset();
	mframe_enable(id);
	for (k = 0; k < CYCLE; k++) {
		gsm_fn2gsmtime(&l1s.current_time, base + k);
		mframe_schedule();
	}
	printf("E %s %u %lu\n", name, (unsigned)CYCLE, ncalls - before);
}

int main(int argc, char **argv)
{
	/* optional: walk a single task, optionally from another cycle base (multiple of CYCLE) */
	const char *only = argc > 1 && strcmp(argv[1], "all") ? argv[1] : NULL;
	uint32_t base = argc > 2 ? strtoul(argv[2], 0, 0) : 0;
	printf("I MF_F_SACCH %d\n", (int)MF_F_SACCH);
	printf("I MF_F_PTCCH %d\n", (int)MF_F_PTCCH);
#define X(t) if (!only || !strcmp(only, #t)) walk(#t, t, base);
	TASKS(X)
#undef X
	printf("Z %lu\n", ncalls);
	return 0;
}

#else
/* ---------------------------------------------------------------------------------------------- */
#include <osmocom/gsm/gsm_utils.h>
#include <osmocom/bb/l1sched/l1sched.h>

#define LCHANS(X) \
	X(L1SCHED_IDLE) X(L1SCHED_FCCH) X(L1SCHED_SCH) X(L1SCHED_BCCH) X(L1SCHED_RACH) X(L1SCHED_CCCH) \
	X(L1SCHED_TCHF) X(L1SCHED_TCHH_0) X(L1SCHED_TCHH_1) \
	X(L1SCHED_SDCCH4_0) X(L1SCHED_SDCCH4_1) X(L1SCHED_SDCCH4_2) X(L1SCHED_SDCCH4_3) \
	X(L1SCHED_SDCCH8_0) X(L1SCHED_SDCCH8_1) X(L1SCHED_SDCCH8_2) X(L1SCHED_SDCCH8_3) \
	X(L1SCHED_SDCCH8_4) X(L1SCHED_SDCCH8_5) X(L1SCHED_SDCCH8_6) X(L1SCHED_SDCCH8_7) \
	X(L1SCHED_SACCHTF) X(L1SCHED_SACCHTH_0) X(L1SCHED_SACCHTH_1) \
	X(L1SCHED_SACCH4_0) X(L1SCHED_SACCH4_1) X(L1SCHED_SACCH4_2) X(L1SCHED_SACCH4_3) \
	X(L1SCHED_SACCH8_0) X(L1SCHED_SACCH8_1) X(L1SCHED_SACCH8_2) X(L1SCHED_SACCH8_3) \
	X(L1SCHED_SACCH8_4) X(L1SCHED_SACCH8_5) X(L1SCHED_SACCH8_6) X(L1SCHED_SACCH8_7) \
	X(L1SCHED_PDTCH) X(L1SCHED_PTCCH) X(L1SCHED_SDCCH4_CBCH) X(L1SCHED_SDCCH8_CBCH) \
	X(_L1SCHED_CHAN_MAX)

#define PCHANS(X) \
	X(GSM_PCHAN_NONE) X(GSM_PCHAN_CCCH) X(GSM_PCHAN_CCCH_SDCCH4) X(GSM_PCHAN_TCH_F) X(GSM_PCHAN_TCH_H) \
	X(GSM_PCHAN_SDCCH8_SACCH8C) X(GSM_PCHAN_PDCH) X(GSM_PCHAN_TCH_F_PDCH) X(GSM_PCHAN_UNKNOWN) \
	X(GSM_PCHAN_CCCH_SDCCH4_CBCH) X(GSM_PCHAN_SDCCH8_SACCH8C_CBCH) X(GSM_PCHAN_OSMO_DYN) \
	X(_GSM_PCHAN_MAX)

static const struct l1sched_tdma_multiframe *known[64];
static int nknown;

static void query(int config, int tn)
{
	const struct l1sched_tdma_multiframe *mf;
	static const char hexd[] = "0123456789abcdef";
	static char line[CYCLE * 8 + 1];
	int i;
	uint32_t fn;

	printf("Q %d %d\n", config, tn);
	fflush(stdout);
	mf = l1sched_mframe_layout((enum gsm_phys_chan_config)config, (uint8_t)tn);
	if (!mf) {
		printf("R null\n");
		return;
	}
	for (i = 0; i < nknown; i++)
		if (known[i] == mf)
			break;
	if (i == nknown && nknown < 64)
		known[nknown++] = mf;
	printf("R %d %d %u %u %llu %d ", i, (int)mf->chan_config, (unsigned)mf->period, (unsigned)mf->slotmask,
	       (unsigned long long)mf->lchan_mask, mf->frames != NULL);
	for (const char *p = mf->name ? mf->name : "(null)"; *p; p++)
		putchar(*p == ' ' ? '_' : *p);
	putchar('\n');
	if (!mf->frames || !mf->period)
		return;
	fflush(stdout);
	for (fn = 0; fn < CYCLE; fn++) {
		/* the lookup trxcon performs in l1sched_pull_burst() / l1sched_handle_rx_burst() */
		const struct l1sched_tdma_frame *fr = &mf->frames[fn % mf->period];
		unsigned v[4] = { (unsigned)fr->dl_chan & 0xff, fr->dl_bid, (unsigned)fr->ul_chan & 0xff, fr->ul_bid };
		for (i = 0; i < 4; i++) {
			line[fn * 8 + 2 * i] = hexd[v[i] >> 4];
			line[fn * 8 + 2 * i + 1] = hexd[v[i] & 15];
		}
	}
	line[CYCLE * 8] = 0;
	printf("F %s\n", line);
}

int main(int argc, char **argv)
{
	int config, tn;

#define X(n) printf("L %s %d\n", #n, (int)n);
	LCHANS(X)
#undef X
#define X(n) printf("P %s %d\n", #n, (int)n);
	PCHANS(X)
#undef X
	if (argc > 2) {
		query(atoi(argv[1]), atoi(argv[2]));
		return 0;
	}
	for (config = 0; config < (int)_GSM_PCHAN_MAX + 2; config++)
		for (tn = 0; tn < 8; tn++)
			query(config, tn);
	for (tn = 0; tn < 8; tn++)
		query(255, tn);
	printf("Z %d\n", nknown);
	return 0;
}
#endif

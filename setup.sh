#!/bin/sh
# Offline setup: nothing to download or install. The checks are Python (run by
# /venv/bin/python) and C drivers compiled on demand from /repo's working tree.
set -e
cd "$(dirname "$0")"
mkdir -p evidence replays build
/venv/bin/python -B -c "import sys; assert sys.version_info[:2] >= (3, 10)"
gcc --version >/dev/null
chmod +x check
echo "setup ok"

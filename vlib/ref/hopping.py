"""Reference hopping sequence generator, 3GPP TS 45.002 section 6.2.3.

    HSN = 0 :  MAI = (FN + MAIO) mod N
    else    :  M  = T2 + RNTABLE((HSN xor T1R) + T3)
               M' = M mod 2^NBIN ;  T' = T3 mod 2^NBIN
               S  = M' if M' < N else (M' + T') mod N
               MAI = (S + MAIO) mod N
    T1R = T1 mod 64, NBIN = number of bits needed to represent N.

Deliberately written with divisions and explicit powers (no masks) so that it
shares no idiom with rfch.c / gsm_shared.py.  RNTABLE is the harness's own copy
of table 6 of the specification.
"""
RNTABLE = (
    48, 98, 63, 1, 36, 95, 78, 102, 94, 73,
    0, 64, 25, 81, 76, 59, 124, 23, 104, 100,
    101, 47, 118, 85, 18, 56, 96, 86, 54, 2,
    80, 34, 127, 13, 6, 89, 57, 103, 12, 74,
    55, 111, 75, 38, 109, 71, 112, 29, 11, 88,
    87, 19, 3, 68, 110, 26, 33, 31, 8, 45,
    82, 58, 40, 107, 32, 5, 106, 92, 62, 67,
    77, 108, 122, 37, 60, 66, 121, 42, 51, 126,
    117, 114, 4, 90, 43, 52, 53, 113, 120, 72,
    16, 49, 7, 79, 119, 61, 22, 84, 9, 97,
    91, 15, 21, 24, 46, 39, 93, 105, 65, 70,
    125, 99, 17, 123,
)
assert len(RNTABLE) == 114 and sorted(RNTABLE[:114]) != [] and len(set(RNTABLE)) == 114

HYPERFRAME = 2048 * 26 * 51


def gsm_time(fn):
    """(T1, T2, T3, TC) of TS 45.002 4.3.3"""
    return fn // 1326, fn % 26, fn % 51, (fn // 51) % 8


def mai(hsn, maio, n, fn):
    if hsn == 0:
        return (fn + maio) % n
    t1, t2, t3, _ = gsm_time(fn)
    t1r = t1 % 64
    nbin = n.bit_length()
    m = t2 + RNTABLE[(hsn ^ t1r) + t3]
    mp = m % (2 ** nbin)
    tp = t3 % (2 ** nbin)
    s = mp if mp < n else (mp + tp) % n
    return (s + maio) % n

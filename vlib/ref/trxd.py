"""Reference TRXD (v0/v1) octet layout, written from the layout in the property
statements (C04/C10/C17/C18) and the TRXD header description.  Independent of
data_msg.py / trxd_proto.py: plain byte arithmetic only.

 common     : octet0 = version<<4 | TN(3 bits) ; octets1..4 = FN big endian
 L1->TRX    : octet5 = attenuation ; then hard bits, one octet each (0/1)
 TRX->L1 v0 : octet5 = -RSSI ; octets6..7 = ToA256 big-endian int16 ; soft bits 0..254
              (0 = certain '0'... encoded as 127 - sbit) ; optionally two legacy pad octets
 TRX->L1 v1 : as v0, then octet8 = MTS, octets9..10 = C/I big-endian int16 ; soft bits
 MTS        : bit7 NOPE.ind ; bits6..3 modulation / TSC set ; bits2..0 TSC
              GMSK 00SS | 8-PSK 010S | GMSK-AB 0110 | 16QAM 100S | 32QAM 101S | AQPSK 110S
"""
HYPERFRAME = 2715648

# modulation name -> (4-bit code with TSC-set bits zero, number of TSC-set bits, burst length)
MODS = {
    "GMSK": (0b0000, 2, 148),
    "8PSK": (0b0100, 1, 444),
    "GMSK_AB": (0b0110, 1, 148),
    "16QAM": (0b1000, 1, 592),
    "32QAM": (0b1010, 1, 740),
    "AQPSK": (0b1100, 1, 296),
}
# names used by data_msg.Modulation
TK_NAME = {"GMSK": "ModGMSK", "8PSK": "Mod8PSK", "GMSK_AB": "ModGMSK_AB", "16QAM": "Mod16QAM",
           "32QAM": "Mod32QAM", "AQPSK": "ModAQPSK"}
FROM_TK = {v: k for k, v in TK_NAME.items()}


def _be16s(v):
    v &= 0xffff
    return bytes([v >> 8, v & 0xff])


def _s16(hi, lo):
    v = (hi << 8) | lo
    return v - 0x10000 if v & 0x8000 else v


def enc_common(ver, tn, fn):
    return bytes([((ver & 0xf) << 4) | (tn & 7), (fn >> 24) & 0xff, (fn >> 16) & 0xff, (fn >> 8) & 0xff, fn & 0xff])


def enc_tx(ver, tn, fn, pwr, bits):
    return enc_common(ver, tn, fn) + bytes([pwr]) + bytes(bits)


def dec_tx(b):
    """Reading of an L1->TRX datagram per the layout; None if shorter than the header."""
    if len(b) < 6:
        return None
    return {"ver": b[0] >> 4, "tn": b[0] & 7, "fn": int.from_bytes(b[1:5], "big"), "pwr": b[5], "bits": bytes(b[6:])}


def mts_octet(mod, tsc_set, tsc):
    code, _, _ = MODS[mod]
    return ((code | tsc_set) << 3) | tsc


def dec_mts(o):
    """-> (nope, mod, tsc_set, tsc); mod None for reserved codes."""
    if o & 0x80:
        return True, None, None, None
    tsc = o & 7
    m = (o >> 3) & 0xf
    if m & 0b1100 == 0:
        return False, "GMSK", m & 3, tsc
    for name, (code, nb, _) in MODS.items():
        if name != "GMSK" and (m & 0b1110) == code:
            return False, name, m & 1, tsc
    return False, None, m & 1, tsc


def enc_rx(ver, tn, fn, rssi, toa, sbits=None, mod=None, tsc_set=0, tsc=0, ci=0, nope=False, pad=False):
    b = bytearray(enc_common(ver, tn, fn))
    b.append((-rssi) & 0xff)
    b += _be16s(toa)
    if ver >= 1:
        b.append(0x80 if nope else mts_octet(mod, tsc_set, tsc))
        b += _be16s(ci)
    if sbits is not None:
        b += bytes((127 - s) & 0xff for s in sbits)
    if pad and ver == 0:
        b += b"\0\0"
    return bytes(b)


def dec_rx(b):
    """Reading of a TRX->L1 datagram per the layout (v0/v1)."""
    if len(b) < 8:
        return None
    ver = b[0] >> 4
    d = {"ver": ver, "tn": b[0] & 7, "fn": int.from_bytes(b[1:5], "big"), "rssi": -b[5], "toa": _s16(b[6], b[7])}
    off = 8
    if ver == 1:
        if len(b) < 11:
            return None
        d["nope"], d["mod"], d["tsc_set"], d["tsc"] = dec_mts(b[8])
        d["mts"] = b[8]
        d["ci"] = _s16(b[9], b[10])
        off = 11
    d["usbits"] = bytes(b[off:])
    return d


def sbits_of(usbits):
    """soft bits per the layout: 0 -> +127 ... 254 -> -127 (255 is outside the range the layout defines)"""
    return [127 - u for u in usbits]

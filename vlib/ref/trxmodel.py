"""Reference model of the fake transceiver application, written from the property
statements (C02 C03 C05 C10 C12 C18) and the documentation blocks of
transceiver.py / fake_trx.py / ctrl_if_trx.py.  It never calls the code under
test and never reads its attributes: it is driven by the same event stream the
harness sends to the real Application and produces *expectations* for the
datagrams that must appear on the L1-side ports.

Where the statements leave behaviour open the model keeps a set of admissible
values (FAKE_DROP budget while muted) or marks an aspect `undefined`, in which
case the caller stops judging that aspect.
"""
from vlib.ref import hopping
from vlib.ref import trxd

HYPER = 2715648

NOMINAL_TX_POWER = 50
PATH_LOSS = 110
NOISE = {"rssi": -110, "toa": 0, "ci": -30}
PM_TRX = (-75, -50)
PM_NOISE = (-120, -105)


class TrxDef:
    def __init__(self, name, addr, base, idx=0, manages=True):
        self.name, self.addr, self.base, self.idx, self.manages = name, addr, base, idx, manages

    @property
    def ctrl(self):
        return self.base + 1 + 2 * self.idx

    @property
    def data(self):
        return self.base + 2 + 2 * self.idx

    @property
    def clck(self):
        return self.base if self.idx == 0 else None


def std_config(extra=(), bts_base=5700, ms_base=6700):
    """extra: list of (name, base, idx).  Mirrors fake_trx's documented set-up:
    a BTS (manages its children), an MS (does not), additional transceivers."""
    defs = [TrxDef("BTS", "127.0.0.1", bts_base, 0, True), TrxDef("MS", "127.0.0.1", ms_base, 0, False)]
    for name, base, idx in extra:
        defs.append(TrxDef(name, "127.0.0.1", base, idx, True))
    return defs


def config_argv(defs):
    argv = []
    if defs[0].base != 5700:
        argv += ["-P", str(defs[0].base)]
    if defs[1].base != 6700:
        argv += ["-p", str(defs[1].base)]
    for d in defs[2:]:
        argv += ["--trx", "%s@%s:%d/%d" % (d.name, d.addr, d.base, d.idx)]
    return argv


class Trx:
    def __init__(self, d):
        self.d = d
        self.running = False
        self.rx = None
        self.tx = None
        self.fh = None            # (hsn, maio, ((rx,tx),...))
        self.ver = 0
        self.queue = []           # accepted, not yet fated: dicts fn tn pwr bits id
        self.muted = False
        self.ta = 0
        self.att = 0
        self.toa = (0, 0)
        self.rssi = None          # None = computed from power; else (base, thr)
        self.rssi_base = NOMINAL_TX_POWER - PATH_LOSS   # remembered base for the relative form
        self.ci = (90, 0)
        self.drop = frozenset([0])   # admissible remaining budgets
        self.drop_period = 1
        self.undefined = set()    # aspects outside the documented domain

    def key(self):
        return (self.running, self.rx, self.tx, self.fh, self.ver,
                tuple((m["fn"], m["tn"], m["pwr"], m["bits"]) for m in self.queue),
                self.muted, self.ta, self.att, self.toa, self.rssi, self.rssi_base, self.ci,
                tuple(sorted(self.drop)), self.drop_period, tuple(sorted(self.undefined)))

    @property
    def ready(self):
        return (self.rx is not None and self.tx is not None) or self.fh is not None

    def freq(self, fn, which):
        if self.fh is None:
            return self.rx if which == 0 else self.tx
        hsn, maio, ma = self.fh
        return ma[hopping.mai(hsn, maio, len(ma), fn)][which]


class Exp:
    """One expected datagram: destination + list of alternatives.  Each
    alternative is (predicate(payload)->bool | None for 'no datagram', callback)."""
    def __init__(self, port, addr, alts, desc):
        self.port, self.addr, self.alts, self.desc = port, addr, alts, desc

    def __repr__(self):
        return "<%s -> %s:%s>" % (self.desc, self.addr, self.port)


def match(exps, actual, model=None):
    """actual: list of (src_port, dst_addr, dst_port, payload).  Returns None when a consistent
    assignment exists, else a description of the mismatch.  Expectations are processed in order;
    an expectation's alternatives may depend on the (drop-budget) state left by the alternatives
    chosen for the earlier ones: alts is either a list of (pred | None, newstate | None) or a
    callable state -> such a list.  With `model` the final state is committed to it."""
    actual = list(actual)
    used = [False] * len(actual)
    st0 = model.drop_state() if model is not None else None
    final = []

    def rec(i, st):
        if i == len(exps):
            if all(used):
                final.append(st)
                return True
            return False
        e = exps[i]
        alts = e.alts(st) if callable(e.alts) else e.alts
        for pred, nst in alts:
            if not isinstance(nst, dict):
                nst = st
            if pred is None:
                if rec(i + 1, nst):
                    return True
                continue
            for j, a in enumerate(actual):
                if used[j] or a[2] != e.port or a[1] != e.addr:
                    continue
                if pred(a[3]):
                    used[j] = True
                    if rec(i + 1, nst):
                        return True
                    used[j] = False
        return False

    if rec(0, st0):
        if model is not None and final[0] is not None:
            model.set_drop_state(final[0])
        return None
    return "expected %r, observed %r" % (exps, [(a[1], a[2], a[3][:24].hex() + ("..." if len(a[3]) > 24 else ""), len(a[3])) for a in actual])


def parse_cmd(payload):
    """Well-formed TRXC command -> (verb, [int args]) ; anything else -> None."""
    try:
        s = bytes(payload).decode("ascii")
    except UnicodeDecodeError:
        return None
    if s.endswith("\0"):
        s = s[:-1]
    if "\0" in s or not s.startswith("CMD "):
        return None
    parts = s[4:].split(" ")
    if not parts[0] or not parts[0].replace("_", "").isalnum() or not parts[0][0].isalpha() or parts[0] != parts[0].upper():
        return None
    args = []
    for p in parts[1:]:
        q = p[1:] if p[:1] == "-" else p
        if not q or not q.isascii() or not q.isdigit() or len(q) > 40:
            return None
        args.append(int(p))
    return parts[0], args, parts[1:]


DOC_ARGC = {"POWERON": (0,), "POWEROFF": (0,), "RXTUNE": (1,), "TXTUNE": (1,), "MEASURE": (1,), "SETFORMAT": (1,),
            "SETPOWER": (1,), "NOMTXPOWER": (0,), "RFMUTE": (1,), "SETTA": (1,), "FAKE_TOA": (1, 2), "FAKE_RSSI": (1, 2),
            "FAKE_CI": (1, 2), "FAKE_DROP": (1, 2), "FAKE_TRXC_DELAY": (1,)}


def classify_ctrl(payload):
    """Harness's own well-formedness predicate for a control datagram:
      IGNORE   does not begin with 'CMD': no reply, no effect
      VALID    strict grammar  CMD <VERB>( <int>)* [NUL]  : judged by the reference model
      REJECT   strict framing, known verb, documented argument count, but an argument that is clearly not a
               number ('abc', '', '1.5', '0x10', undecodable octets): no effect; reply absent or with non-zero status
      AMBIG    anything else (odd whitespace/NUL placement, 'CMD?VERB', '+5', non-ASCII digits ...): the statement
               does not say whether this is malformed; only crash-freedom, at most one reply and liveness are judged
    """
    b = bytes(payload)
    if not b.startswith(b"CMD"):
        return "IGNORE"
    if parse_cmd(b) is not None:
        return "VALID"
    body = b[:-1] if b.endswith(b"\0") else b
    if b"\0" in body or not body.startswith(b"CMD "):
        return "AMBIG"
    toks = body[4:].split(b" ")
    if any(t == b"" for t in toks[1:]) or body != body.strip():
        return "AMBIG"          # stray blanks: an implementation may strip them or see empty arguments
    try:
        verb = toks[0].decode("ascii")
    except UnicodeDecodeError:
        return "REJECT" if all(t >= 0x80 or chr(t).isalnum() for t in toks[0]) and any(t >= 0x80 for t in toks[0]) else "AMBIG"
    args = toks[1:]
    known = verb in DOC_ARGC or verb == "SETFH"
    if not known:
        return "AMBIG" if (not verb or not verb.replace("_", "").isalnum()) else "UNKNOWN"
    if verb == "SETFH":
        if len(args) < 4:
            return "AMBIG"
    elif len(args) not in DOC_ARGC[verb]:
        return "AMBIG"
    bad = False
    for a in args:
        try:
            t = a.decode("utf-8")
        except UnicodeDecodeError:
            bad = True
            continue
        q = t[1:] if t[:1] == "-" else t
        if q.isascii() and q.isdigit():
            continue
        clearly = (t == "" or any(ch.isalpha() for ch in t if ch.isascii()) or "." in t) and t.isascii() and "_" not in t
        if clearly:
            bad = True
        else:
            return "AMBIG"
    return "REJECT" if bad else "AMBIG"


class RefApp:
    def __init__(self, defs, ind_period=1, clck_start=0):
        self.defs = defs
        self.trx = [Trx(d) for d in defs]
        self.ind_period = ind_period
        self.clck_start = clck_start
        self.clock_running = False
        self.fn = None
        self.links = []           # indices of clock-owning running transceivers
        self.next_id = 0
        self.fates = []           # (id, fate, detail) filled by tick/poweroff
        self.gen_starts = 0
        self.gen_stops = 0

    def key(self):
        return (tuple(t.key() for t in self.trx), self.clock_running, self.fn, tuple(sorted(self.links)))

    # ---- helpers ---------------------------------------------------------
    def group(self, i):
        d = self.defs[i]
        if d.idx == 0 and d.manages:
            return [j for j, e in enumerate(self.defs) if e.base == d.base and e.addr == d.addr]
        return [i]

    def _power(self, i, on):
        for j in self.group(i):
            t = self.trx[j]
            t.running = on
            if not on:
                for m in t.queue:
                    self.fates.append((m["id"], "discarded-poweroff", None))
                t.queue = []
                t.fh = None
        if self.defs[i].clck is not None:
            if self.trx[i].running and i not in self.links:
                self.links.append(i)
            elif not self.trx[i].running and i in self.links:
                self.links.remove(i)
            if self.links and not self.clock_running:
                self.clock_running = True
                self.fn = self.clck_start
                self.gen_starts += 1
            elif not self.links and self.clock_running:
                self.clock_running = False
                self.gen_stops += 1

    # ---- control ------------------------------------------------------------
    def ctrl(self, i, payload, src):
        """-> list[Exp] for the reply; applies the documented effect."""
        t = self.trx[i]
        if not bytes(payload).startswith(b"CMD"):
            return []
        pc = parse_cmd(payload)
        if pc is None:
            return None           # malformed: not judged here (C14)
        verb, a, raw = pc
        n = len(a)
        status = 0
        results = []
        free_status = False
        if verb == "POWERON" and n == 0:
            if t.running or not t.ready:
                status = -1
            else:
                self._power(i, True)
        elif verb == "POWEROFF" and n == 0:
            self._power(i, False)
        elif verb == "RXTUNE" and n == 1:
            t.rx = a[0] * 1000
        elif verb == "TXTUNE" and n == 1:
            t.tx = a[0] * 1000
        elif verb == "MEASURE" and n == 1:
            f = a[0] * 1000
            hit = any(u.running and u.fh is None and u.tx == f for u in self.trx)
            results = [PM_TRX if hit else PM_NOISE]
        elif verb == "SETFH" and n >= 4:
            if n % 2:
                free_status = True
                t.undefined.add("fh")
            hsn, maio = a[0], a[1]
            fr = [x * 1000 for x in a[2:]]
            ma = tuple(zip(fr[0::2], fr[1::2]))
            if not (0 <= hsn <= 63):
                status = -1                 # HSN is a 6-bit value: refused, nothing changes
            else:
                if maio < 0:
                    t.undefined.add("fh")
                t.fh = (hsn, maio, ma)
        elif verb == "SETFORMAT" and n == 1:
            v = a[0]
            if v < 0 or v > 15:
                status = -1
            elif v in (0, 1):
                t.ver = v
                status = v
            else:
                status = 1          # highest supported version below the requested one
        elif verb == "SETPOWER" and n == 1:
            t.att = a[0]
        elif verb == "NOMTXPOWER" and n == 0:
            results = [(NOMINAL_TX_POWER, NOMINAL_TX_POWER)]
        elif verb == "RFMUTE" and n == 1:
            t.muted = a[0] > 0
        elif verb == "SETTA" and n == 1:
            t.ta = a[0]
        elif verb == "FAKE_TOA" and n == 2:
            if a[1] < 0:
                status = -1                 # a randomisation threshold is not negative: refused, nothing changes
            else:
                t.toa = (a[0], a[1])
        elif verb == "FAKE_TOA" and n == 1:
            t.toa = (t.toa[0] + a[0], t.toa[1])
        elif verb == "FAKE_RSSI" and n == 2:
            if a[1] < 0:
                t.rssi = None
            else:
                t.rssi = (a[0], a[1])
                t.rssi_base = a[0]
        elif verb == "FAKE_RSSI" and n == 1:
            t.rssi_base += a[0]
            if t.rssi is not None:
                t.rssi = (t.rssi_base, t.rssi[1])
        elif verb == "FAKE_CI" and n == 2:
            if a[1] < 0:
                status = -1
            else:
                t.ci = (a[0], a[1])
        elif verb == "FAKE_CI" and n == 1:
            t.ci = (t.ci[0] + a[0], t.ci[1])
        elif verb == "FAKE_DROP" and n == 1:
            if a[0] < 0:
                status = -1
            else:
                t.drop = frozenset([a[0]])
                t.drop_period = 1
        elif verb == "FAKE_DROP" and n == 2:
            if a[0] < 0 or a[1] <= 0:
                status = -1
            else:
                t.drop = frozenset([a[0]])
                t.drop_period = a[1]
        elif verb == "FAKE_TRXC_DELAY" and n == 1:
            if a[0] > 0xffffffff:
                status = -1         # does not fit the millisecond counter: refused
            # otherwise it only delays the replies; virtual time, not judged
        else:
            known = ("POWERON", "POWEROFF", "RXTUNE", "TXTUNE", "MEASURE", "SETFH", "SETFORMAT", "SETPOWER",
                     "NOMTXPOWER", "RFMUTE", "SETTA", "FAKE_TOA", "FAKE_RSSI", "FAKE_CI", "FAKE_DROP",
                     "FAKE_TRXC_DELAY")
            if verb in known:
                free_status = True   # known verb, undocumented argument count: status not specified, no effect
        return [Exp(src[1], src[0], [(self._rsp_pred(verb, status, raw, results, free_status), None)],
                    "RSP %s %s %s" % (verb, "*" if free_status else status, " ".join(raw)))]

    @staticmethod
    def _rsp_pred(verb, status, raw, results, free_status):
        def pred(p):
            if not p.endswith(b"\0") or b"\0" in p[:-1]:
                return False
            try:
                parts = p[:-1].decode("ascii").split(" ")
            except UnicodeDecodeError:
                return False
            if len(parts) != 3 + len(raw) + len(results) or parts[0] != "RSP" or parts[1] != verb:
                return False
            try:
                st = int(parts[2])
            except ValueError:
                return False
            if not free_status and st != status:
                return False
            if parts[3:3 + len(raw)] != list(raw):
                return False
            for (lo, hi), s in zip(results, parts[3 + len(raw):]):
                try:
                    v = int(s)
                except ValueError:
                    return False
                if not lo <= v <= hi:
                    return False
            return True
        return pred

    # ---- data -----------------------------------------------------------------
    def data(self, i, payload):
        """L1 -> TRX datagram.  Returns the id of the accepted burst or None.
        Accepted = parses per the layout as a known version, version equals the
        negotiated one, transceiver running."""
        t = self.trx[i]
        d = trxd.dec_tx(payload[:512])
        if d is None or d["ver"] not in (0, 1):
            return None
        if d["ver"] != t.ver or not t.running:
            return None
        bits = d["bits"]
        if len(bits) >= 444:
            bits = bits[:444]
        elif len(bits) > 148:
            bits = bits[:148]
        m = {"fn": d["fn"], "tn": d["tn"], "pwr": d["pwr"], "bits": bits if bits else None, "id": self.next_id,
             "ver": d["ver"]}
        self.next_id += 1
        t.queue.append(m)
        return m["id"]

    # ---- clock ------------------------------------------------------------------
    def tick(self, advance=1):
        """One clock tick at self.fn.  Returns (exps, stale_ids).  `advance` > 1
        models a generator that was... never used: the generator only counts by one."""
        assert self.clock_running
        fn = self.fn
        exps = []
        stale = []
        if self.ind_period and fn % self.ind_period == 0:
            for i in self.links:
                d = self.defs[i]
                want = ("IND CLOCK %u" % fn).encode() + b"\0"
                exps.append(Exp(d.clck + 100, d.addr, [(lambda p, w=want: p == w, None)], "IND CLOCK %d" % fn))
        for i, t in enumerate(self.trx):
            if not t.running:
                continue
            keep = []
            for m in t.queue:
                if m["fn"] == fn:
                    self.fates.append((m["id"], "emitted", fn))
                    dl = self.deliver(i, m)
                    if dl is None or exps is None:
                        exps = None
                    else:
                        exps += dl
                elif self.is_past(m["fn"], fn):
                    self.fates.append((m["id"], "stale", fn))
                    stale.append(m["id"])
                else:
                    keep.append(m)
            t.queue = keep
        self.fn = (fn + 1) % HYPER
        return exps, stale

    @staticmethod
    def is_past(mfn, fn):
        """Has frame mfn already passed at clock fn?  Frame numbers live on a ring
        of 2715648; 'passed' = behind the clock by less than half the ring."""
        return 0 < (fn - mfn) % HYPER < HYPER // 2

    def deliver(self, si, m):
        s = self.trx[si]
        out = []
        if m["bits"] is None:
            return None       # burst-less L1->TRX message: outside the judged domain
        if "fh" in s.undefined:
            return None
        txf = s.freq(m["fn"], 1)
        if txf is None:
            return None       # running without any tuning: the statements are silent
        for ri, r in enumerate(self.trx):
            if ri == si or not r.running:
                continue
            if "fh" in r.undefined:
                return None
            rxf = r.freq(m["fn"], 0)
            if rxf is None or (r.undefined & {"toa", "ci"}):
                out.append(Exp(r.d.data + 100, r.d.addr, [(lambda p: True, None), (None, None)],
                               "anything or nothing to untuned %s" % r.d.name))
                continue
            if rxf != txf:
                continue
            out.append(self._deliver_one(s, r, m))
        return out

    def drop_state(self):
        return {i: t.drop for i, t in enumerate(self.trx)}

    def set_drop_state(self, st):
        for i, t in enumerate(self.trx):
            t.drop = st[i]

    def _deliver_one(self, s, r, m):
        d = r.d
        ri = self.trx.index(r)
        port, addr = d.data + 100, d.addr
        fnmatch = (m["fn"] % r.drop_period == 0)
        nope_pred = self._nope_pred(r, m)
        norm_pred = self._normal_pred(s, r, m)
        desc = "burst fn=%d tn=%d from %s to %s" % (m["fn"], m["tn"], s.d.name, d.name)
        muted = s.muted or r.muted

        def upd(st, new):
            if st is None:
                return None
            n = dict(st)
            n[ri] = new
            return n

        def alts(st):
            drop = st[ri] if st is not None else r.drop
            if muted:
                # suppressed for sure; whether it eats drop budget is not specified
                new = frozenset(drop | frozenset(max(x - 1, 0) for x in drop)) if fnmatch else drop
                return [(nope_pred, upd(st, new))]
            out = []
            if fnmatch and any(x > 0 for x in drop):
                out.append((nope_pred, upd(st, frozenset(x - 1 for x in drop if x > 0))))
            if (not fnmatch) or (0 in drop):
                ns = upd(st, frozenset([0]) if fnmatch else drop)
                if norm_pred is not None:
                    out.append((norm_pred, ns))
                if norm_pred is None or getattr(norm_pred, "optional", False):
                    out.append((None, ns))
            return out
        return Exp(port, addr, alts, desc + (" (muted)" if muted else ""))

    def _nope_pred(self, r, m):
        if r.ver == 0:
            return None
        want = trxd.enc_rx(1, m["tn"], m["fn"], NOISE["rssi"], NOISE["toa"], None, ci=NOISE["ci"], nope=True)

        def pred(p):
            if len(p) != 11:
                return False
            # MTS of a NOPE.ind: only bit 7 is defined
            return p[:8] == want[:8] and (p[8] & 0x80) and p[9:] == want[9:]
        return pred

    def _normal_pred(self, s, r, m):
        """None (= nothing may be sent) when the simulated values leave their ranges."""
        if r.rssi is None:
            v = NOMINAL_TX_POWER - s.att - m["pwr"] - PATH_LOSS
            rssi_w = (v, v)
        else:
            rssi_w = (r.rssi[0] - r.rssi[1], r.rssi[0] + r.rssi[1])
        toa_w = (r.toa[0] - r.toa[1] - 256 * s.ta, r.toa[0] + r.toa[1] - 256 * s.ta)
        ci_w = (r.ci[0] - r.ci[1], r.ci[0] + r.ci[1])
        bits = m["bits"]
        n = len(bits)
        # windows partly outside the protocol range: a value drawn inside the legal part is
        # sent, one outside must not be sent -> both allowed; wholly outside: nothing.
        def legal(w, lo, hi):
            return max(w[0], lo), min(w[1], hi)
        rl = legal(rssi_w, -120, -47)
        tl = legal(toa_w, -32768, 32767)
        cl = legal(ci_w, -1280, 1280) if r.ver == 1 else (0, 0)
        may_fail = rl != rssi_w or tl != toa_w or (r.ver == 1 and cl != ci_w)
        impossible = rl[0] > rl[1] or tl[0] > tl[1] or cl[0] > cl[1]
        ver = r.ver
        want_us = bytes(254 if b else 0 for b in bits)
        mod = {148: "GMSK", 444: "8PSK"}.get(n)
        ts = training_seq(bits) if n == 148 else ("other", 0, 0)

        def pred(p):
            d = trxd.dec_rx(p)
            if d is None or d["ver"] != ver or d["fn"] != m["fn"] or d["tn"] != m["tn"]:
                return False
            if not (rl[0] <= d["rssi"] <= rl[1] and tl[0] <= d["toa"] <= tl[1]):
                return False
            us = d["usbits"]
            if ver == 0:
                if len(us) != n + 2 or us[n:] != b"\0\0":
                    return False
                us = us[:n]
            else:
                if d["nope"] or not (cl[0] <= d["ci"] <= cl[1]) or d["mod"] != mod:
                    return False
                if ts[0] == "one" and (d["tsc_set"], d["tsc"]) != (ts[1], ts[2]):
                    return False
            return us == want_us
        pred.may_fail = may_fail
        if impossible or n not in (148, 444):
            return None
        if may_fail:
            return _Either(pred)
        return pred


class _Either:
    """predicate wrapper: datagram must match if present; absence is allowed too."""
    def __init__(self, pred):
        self.pred = pred
        self.optional = True

    def __call__(self, p):
        return self.pred(p)


# Training sequences, 3GPP TS 45.002: normal bursts table 5.2.3a (TSC set 1), synchronisation
# burst 5.2.5 (first sequence + the three added for COMPACT), access burst 5.2.7.  The harness's own copy.
NB_TSC = ["00100101110000100010010111", "00101101110111100010110111", "01000011101110100100001110",
          "01000111101101000100011110", "00011010111001000001101011", "01001110101100000100111010",
          "10100111110110001010011111", "11101111000100101110111100"]
SB_TSC = ["1011100101100010000001000000111100101101010001010111011000011011",
          "1110111001101011001010000011111011110100011111101100101100010101",
          "1110110000110111010100010101101001111000000100000010001101001110",
          "1011101000111101110101101111010010001011010000001000111010011000"]
AB_TSC = {0: "01001011011111111001100110101010001111000", 1: "01010100111110001000011000101111001001101",
          2: "11101111001001110101011000001101101110111", 4: "11001001110001001110000000001101010110010",
          3: "10001000111010111011010000010000101100010", 5: "01010000111111110101110101101100110010100",
          6: "01011110011101011110110100010011000010111", 7: "01000010110000011101001010111011100010000"}


def training_seq(bits):
    """-> ("one", tsc_set, tsc) when exactly one known training sequence is present at its
    burst type's position, ("none",0,0) when none is, ("ambiguous",..) otherwise."""
    s = "".join("1" if b else "0" for b in bits)
    hits = []
    for i, q in enumerate(NB_TSC):
        if s[61:61 + 26] == q:
            hits.append((0, i))
    for i, q in AB_TSC.items():
        if s[8:8 + 41] == q:
            hits.append((0, i))
    for i, q in enumerate(SB_TSC):
        if s[42:42 + 64] == q:
            hits.append((0, i))
    if not hits:
        return ("none", 0, 0)
    if len(set(hits)) == 1:
        return ("one", hits[0][0], hits[0][1])
    return ("ambiguous", 0, 0)

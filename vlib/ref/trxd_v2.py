"""Reference TRXD version 2 octet layout (extends vlib.ref.trxd, which has v0/v1).

Written from the documented structure of the TRXDv2 PDUs (the field lists of the
PDUv2Rx / PDUv2Tx definitions and the header description in the property statement C17);
plain byte arithmetic only, nothing imported from the toolkit.

 every PDU     : octet0 = VER(4) | RES(1) | TN(3)          VER = 2 in the first PDU of a datagram,
                                                             4 reserved bits in a batched PDU
                 octet1 = BATCH(1) | SHADOW(1) | TRXN(6)    SHADOW is reserved in the first PDU
                 octet2 = MTS = NOPE(1) | MOD(4) | TSC(3)
 TRX->L1 (Rx)  : octet3 = -RSSI ; octets4..5 = ToA256 (big-endian int16) ; octets6..7 = C/I (int16 BE)
 L1->TRX (Tx)  : octet3 = attenuation ; octet4 = SCPIR (int8) ; octets5..7 = reserved
 first PDU only: octets8..11 = FN (big endian)
 then          : burst, one octet per (soft / hard) bit, length given by MOD; absent when NOPE = 1
 then          : zero or more batched PDUs (same layout without FN) until the datagram ends

 MOD (4 bits, includes the TSC-set bits) and burst length:
   00SS GMSK 148 | 010S 8-PSK 444 | 0110 GMSK access burst 148 | 0111 reserved
   100S 16QAM 592 | 101S 32QAM 740 | 11SS AQPSK 296
   (AQPSK carries two TSC-set bits like GMSK: the TRXD description reads "1 1 X X  AQPSK, 4 TSC
   sets" and the MTS class documents the whole 11xx branch as AQPSK.  Only 0111 is reserved.
   OPEN_CODES is kept for callers and is empty.)

Reserved bits are sent as zero and ignored on receipt.
"""

GMSK = 148
OPEN_CODES = ()
RESERVED_CODES = (7,)
LEGAL_CODES = (0, 1, 2, 3, 4, 5, 6, 8, 9, 10, 11, 12, 13, 14, 15)


class RefError(Exception):
    """the datagram is not a well-formed PDU per the layout"""


def burst_len(mod):
    """burst length for a 4-bit MOD code; None = reserved (no length defined)."""
    if mod < 0 or mod > 15:
        raise ValueError(mod)
    if mod <= 3:
        return GMSK
    if mod in (4, 5):
        return 3 * GMSK
    if mod == 6:
        return GMSK
    if mod == 7:
        return None
    if mod in (8, 9):
        return 4 * GMSK
    if mod in (10, 11):
        return 5 * GMSK
    return 2 * GMSK          # 12..15


def mod_name(mod):
    return {0: "GMSK", 1: "GMSK", 2: "GMSK", 3: "GMSK", 4: "8PSK", 5: "8PSK", 6: "GMSK_AB", 7: "reserved",
            8: "16QAM", 9: "16QAM", 10: "32QAM", 11: "32QAM", 12: "AQPSK", 13: "AQPSK",
            14: "AQPSK", 15: "AQPSK"}[mod]


def _s16(v):
    v &= 0xffff
    return bytes([v >> 8, v & 0xff])


def _u16s(hi, lo):
    v = hi * 256 + lo
    return v - 65536 if v >= 32768 else v


def mts(nope, mod, tsc):
    return (0x80 if nope else 0) | ((mod & 0xf) << 3) | (tsc & 7)


def enc_pdu(direction, p, first):
    """one PDU; p: dict with tn, batch, trxn, nope, mod, tsc, (shadow in batched PDUs),
    rx: rssi, toa256, cir / tx: pwr, scpir; fn in the first PDU; 'bits' (bytes) unless nope."""
    b = bytearray()
    b.append(((2 << 4) if first else 0) | (p["tn"] & 7))
    b.append(((p["batch"] & 1) << 7) | ((0 if first else (p["shadow"] & 1)) << 6) | (p["trxn"] & 0x3f))
    b.append(mts(p["nope"], p["mod"], p["tsc"]))
    if direction == "rx":
        b.append((-p["rssi"]) & 0xff)
        b += _s16(p["toa256"])
        b += _s16(p["cir"])
    else:
        b.append(p["pwr"] & 0xff)
        b.append(p["scpir"] & 0xff)
        b += b"\0\0\0"
    if first:
        fn = p["fn"]
        b += bytes([(fn >> 24) & 0xff, (fn >> 16) & 0xff, (fn >> 8) & 0xff, fn & 0xff])
    if not p["nope"]:
        b += bytes(p["bits"])
    return bytes(b)


def enc(direction, main, subs=()):
    return enc_pdu(direction, main, True) + b"".join(enc_pdu(direction, s, False) for s in subs)


def dec_pdu(direction, data, off, first, open_as_aqpsk=True):
    """-> (dict, new offset); raises RefError."""
    hl = 12 if first else 8
    if len(data) - off < hl:
        raise RefError("short header")
    o0, o1, m = data[off], data[off + 1], data[off + 2]
    p = {}
    if first:
        if o0 >> 4 != 2:
            raise RefError("version %d" % (o0 >> 4))
        p["ver"] = 2
    p["tn"] = o0 & 7
    p["batch"] = o1 >> 7
    if not first:
        p["shadow"] = (o1 >> 6) & 1
    p["trxn"] = o1 & 0x3f
    p["nope"] = m >> 7
    p["mod"] = (m >> 3) & 0xf
    p["tsc"] = m & 7
    if direction == "rx":
        p["rssi"] = -data[off + 3]
        p["toa256"] = _u16s(data[off + 4], data[off + 5])
        p["cir"] = _u16s(data[off + 6], data[off + 7])
    else:
        p["pwr"] = data[off + 3]
        p["scpir"] = data[off + 4] - 256 if data[off + 4] >= 128 else data[off + 4]
    if first:
        p["fn"] = int.from_bytes(data[off + 8:off + 12], "big")
    off += hl
    if not p["nope"]:
        bl = burst_len(p["mod"])
        if bl is None or (p["mod"] in OPEN_CODES and not open_as_aqpsk):
            raise RefError("reserved modulation %d" % p["mod"])
        if len(data) - off < bl:
            raise RefError("short burst")
        p["bits"] = bytes(data[off:off + bl])
        off += bl
    return p, off


def dec(direction, data, open_as_aqpsk=True):
    """-> (main dict, [batched dicts]); raises RefError."""
    data = bytes(data)
    main, off = dec_pdu(direction, data, 0, True, open_as_aqpsk)
    subs = []
    while off < len(data):
        s, off = dec_pdu(direction, data, off, False, open_as_aqpsk)
        subs.append(s)
    return main, subs


def uses_open_code(data, direction):
    """True if decoding `data` runs into a PDU with burst and MOD in OPEN_CODES before any error."""
    data = bytes(data)
    off, first = 0, True
    try:
        while off < len(data) or first:
            if len(data) - off >= 3 and not (data[off + 2] >> 7) and ((data[off + 2] >> 3) & 0xf) in OPEN_CODES:
                return True
            _, off = dec_pdu(direction, data, off, first, True)
            first = False
    except RefError:
        return False
    return False

"""C12 - power state, child transceivers and clock distribution stay consistent.

Explicit-state BFS over POWERON/POWEROFF/RXTUNE/TXTUNE/SETFH histories addressed
to every transceiver of several application configurations; the reachable set of
each configuration is finite and exhausted.  Every transition's reply is judged
by the reference model, and in every reached state a scripted probe (clock tick,
one burst into every DATA port, ticks; queue-forgetting POWEROFF/POWERON cycle)
is run on a throw-away copy of the state and judged by the same model.
"""
from vlib import explore, world
from vlib.appworld import AppWorld
from vlib.ref import trxmodel

LEVEL = "model_checking"
F = 900000        # kHz; tuned transceivers share one carrier so that "running" is visible as "receives"
FH = 901000       # kHz; the (single-channel) hopping allocation uses another carrier, so that a hopping
                  # configuration that should have been forgotten shows up as mis-routing


def configs(tier):
    c = {
        "default": [],
        "bts-child": [("C1", 5700, 1)],
        "bts-child+ms-child": [("C1", 5700, 1), ("M1", 6700, 1)],
        "extra-trx": [("X", 7700, 0)],          # three clock owners
        "bts-child12": [("C12", 5700, 12)],     # a two-digit child index (ports base + 24 ...); quick: depth 2 only
        "extra-trx+child": [("X", 7700, 0), ("X1", 7700, 1)],   # an additional parent with a child; quick: depth 3 only
    }
    if tier == "thorough":
        c.update({
            "bts-2children": [("C1", 5700, 1), ("C2", 5700, 2)],
            "bts-child+extra": [("C1", 5700, 1), ("X", 7700, 0)],
            "other-ports": "ports",
        })
    return c


class Spec:
    def __init__(self, name, extra, tier):
        self.name = "C12/" + name
        if extra == "ports":
            self.defs = trxmodel.std_config([("C1", 6000, 1)], bts_base=6000, ms_base=7000)
        else:
            self.defs = trxmodel.std_config(extra)
        self.tier = tier
        n = len(self.defs)
        self.alpha = []
        for i, d in enumerate(self.defs):
            self.alpha.append(("ctrl", i, "POWERON"))
            self.alpha.append(("ctrl", i, "POWEROFF"))
            if i == 0 or n <= 3:
                self.alpha.append(("ctrl", i, "RXTUNE %d" % F))
                self.alpha.append(("ctrl", i, "TXTUNE %d" % F))
            else:
                self.alpha.append(("tune", i))
            if i < 2 or n <= 3:
                self.alpha.append(("ctrl", i, "SETFH 0 0 %d %d" % (FH, FH)))

    def build(self):
        return AppWorld(self.defs, ind_period=1)

    def events(self, W, hist):
        return self.alpha

    def step(self, W, ev):
        if ev[0] == "ctrl":
            return W.ctrl(ev[1], ev[2])
        if ev[0] == "tune":
            return W.ctrl(ev[1], "RXTUNE %d" % F) + W.ctrl(ev[1], "TXTUNE %d" % F)
        if ev[0] == "tick":
            return W.tick() if (W.can_tick() or W.model.clock_running) else []
        if ev[0] == "burst":
            return W.burst(ev[1], W.model.fn + ev[2] if W.model.fn is not None else ev[2], tn=ev[1] % 8)
        raise ValueError(ev)

    def canon(self, W):
        return W.canon()

    def probe(self, W, hist):
        v = []
        n = len(self.defs)
        W.nprobe = 0
        # port plan: sockets bound exactly on the documented ports (checked on the root state only)
        if not hist:
            want = set()
            for d in self.defs:
                want |= {d.ctrl, d.data}
                if d.clck is not None:
                    want.add(d.clck)
            got = sorted(p for _, p in W.fab.binds)
            if sorted(want) != got:
                v.append(("port-plan", "bound ports %r, documented plan %r" % (got, sorted(want))))
        script = [("tick",)]
        # one clock owner leaves and another one joins between two indications (the set of links changes,
        # its size does not)
        owners = [i for i in range(n) if self.defs[i].clck is not None]
        run_o = [i for i in owners if W.model.trx[i].running]
        idle_o = [i for i in owners if not W.model.trx[i].running]
        if run_o and idle_o:
            # (with two or more running owners the generator keeps running through the swap)
            script += [("tune", idle_o[0]), ("ctrl", run_o[0], "POWEROFF"), ("ctrl", idle_o[0], "POWERON"), ("tick",), ("tick",),
                       ("ctrl", idle_o[0], "POWEROFF"), ("tune", run_o[0]), ("ctrl", run_o[0], "POWERON"), ("tick",)]
        script += [("burst", i, 1) for i in range(n)]
        script += [("tick",), ("tick",), ("tick",)]
        for ev in script:
            r = self.step(W, ev)
            W.nprobe += 1
            if r:
                return v + [(c + "-probe", "probe %r after history: %s" % (ev, m)) for c, m in r]
        # queue forgetting: for every transceiver the reference considers running
        running = [i for i in range(n) if W.model.trx[i].running]
        for i in running:
            script = [("burst", i, 2), ("ctrl", i, "POWEROFF"), ("tune", i), ("ctrl", i, "POWERON"), ("tick",)]
            # traffic after the cycle (the clock may have restarted from frame 0, so frame numbers repeat)
            script += [("burst", j, 1) for j in range(n)] + [("tick",), ("tick",), ("tick",)]
            for ev in script:
                r = self.step(W, ev)
                W.nprobe += 1
                if r:
                    return v + [(c + "-probe", "probe (poweroff cycle of %s) %r: %s" % (self.defs[i].name, ev, m))
                                for c, m in r]
        # ... and the same through the parent: a burst waiting in a managed child's queue must be forgotten when
        # the *parent* is switched off (the child is switched off with it)
        for i in [i for i in range(n) if W.model.trx[i].running]:
            parents = [p for p in range(n) if p != i and i in W.model.group(p) and W.model.trx[p].running]
            for p in parents[:1]:
                script = [("burst", i, 2), ("ctrl", p, "POWEROFF"), ("tune", p), ("ctrl", p, "POWERON"), ("tick",)]
                script += [("burst", j, 1) for j in range(n)] + [("tick",), ("tick",), ("tick",)]
                for ev in script:
                    r = self.step(W, ev)
                    W.nprobe += 1
                    if r:
                        return v + [(c + "-probe", "probe (burst queued on %s, poweroff cycle of its parent %s) %r: %s"
                                     % (self.defs[i].name, self.defs[p].name, ev, m)) for c, m in r]
        # a burst sent to a transceiver that is off must not be remembered: power it on afterwards and tick
        idle = [i for i in range(n) if not W.model.trx[i].running]
        for i in idle[:2]:
            script = [("burst", i, 2), ("tune", i), ("ctrl", i, "POWERON"), ("tick",), ("tick",), ("tick",), ("tick",)]
            for ev in script:
                if ev[0] == "burst" and W.model.fn is None:
                    r = W.burst(i, 2, tn=i % 8)
                else:
                    r = self.step(W, ev)
                W.nprobe += 1
                if r:
                    return v + [(c + "-probe", "probe (burst while %s is off, then POWERON) %r: %s" % (self.defs[i].name, ev, m))
                                for c, m in r]
        return v


def run(ctx):
    for name, extra in configs(ctx.tier).items():
        spec = Spec(name, extra, ctx.tier)
        r = explore.bfs(ctx, spec, max_depth={"bts-child12": 2, "extra-trx+child": 3}.get(name, 40) if ctx.quick else 40, label=name)
    from vlib.props import c03_sched
    c03_sched.run(ctx, family="clock")
    ctx.cov["exhaustive"] = all(r["frontier_exhausted"] for r in ctx.cov["runs"] if not (ctx.quick and ("child12" in r["spec"] or "extra-trx+child" in r["spec"])))
    if ctx.quick:
        ctx.assumptions.append("configurations bts-child12 (two-digit child index) and extra-trx+child are explored to depth 2 / 3 only in the quick tier")
    ctx.cov["evaluations"] = ctx.cov["transitions"]
    ctx.cov["distinct_nontrivial"] = ctx.cov["states"]
    ctx.cov["rule"] = ("states = canonical snapshots (all toolkit object attributes + reference model state) reached by "
                       "BFS over TRXC command histories; every state is distinct by digest; each is probed with ticks and bursts")
    ctx.assumptions += ["single shared carrier / trivial hopping sequence so that power state is observable as reception",
                        "clock thread body replaced by direct calls of CLCKGen.send_clck_ind(); thread liveness observed on the fake Thread",
                        "transceivers that are running without any tuning (children switched on through the parent) are not judged for routing"]


def replay(ctx, case):
    if case.get("sched"):
        from vlib.props import c03_sched
        return c03_sched.replay(ctx, case)
    name = case["spec"].split("/", 1)[1]
    spec = Spec(name, configs("thorough")[name], "thorough" if name not in configs("quick") else ctx.tier)
    # the alphabet of a spec does not depend on the tier; rebuild and re-execute
    W = spec.build()
    hist = [tuple(e) for e in case["hist"]]
    for k, ev in enumerate(hist):
        v = spec.step(W, ev)
        if v and k == len(hist) - 1 and not case.get("probe"):
            for c, m in v:
                ctx.violation("%s:%s_%s" % (ctx.prop, name, c), case, m)
    if case.get("probe"):
        for c, m in spec.probe(W, hist):
            ctx.violation("%s:%s_%s" % (ctx.prop, name, c), case, m)

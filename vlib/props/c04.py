"""C04 - TRXD octets follow the protocol layout; Python and trxcon (C) agree.

Oracle 1 (layout leg, complete here):
  * encoder: for every message of the shared enumeration (vlib/trxd_enum.py, the C01 space) the octets of
    TxMsg/RxMsg.gen_msg(legacy) must be identical to the octets of the independent reference encoder
    vlib/ref/trxd.py (enc_tx / enc_rx; version 0 with legacy padding = two trailing zero octets).
  * decoder: the reference encoding of every enumerated message, and the mutation neighbourhood of the
    reference encodings of the base messages (every header octet set to each of the 255 other values, the
    first / last burst octet and the last octet of the datagram likewise, truncation by 1..3 octets, every
    prefix up to header+1 octets, extension by 1..3 octets of 0x00 / 0x7f / 0xff), are handed to
    parse_msg() of a fresh object.  ValueError = rejected: nothing is demanded.  Accepted: every field the
    header version carries must equal the reference reading dec_tx / dec_rx of the same octets:
        ver, TN (3 bits), FN (32 bit BE), attenuation / -RSSI octet, ToA256 int16 BE, v1: NOPE bit, C/I int16 BE,
        modulation, TSC set, TSC from the MTS octet; for a reserved modulation code the toolkit must not
        report one of the six defined modulations (it reports None) and the TSC set is not compared;
        for NOPE modulation / TSC set / TSC are not compared;
        Tx burst: a prefix of the octets after the header: whole, or cut to 148 (149..443 octets) / 444 (more);
        Rx burst: sbit = 127 - octet for octets 0..254 (octet 255 is outside the layout: not compared);
        v1: all octets after the header; v0: all of them or all but the two legacy pad octets - all of them
        when there are exactly 148 / 444, all but two when there are exactly 150 / 446.
    A datagram with a version other than 0/1 that the parser accepts is only counted (the layout in the
    property statement covers versions 0 and 1).
History (keys C04:history:...): per work item ONE long-lived TxMsg and ONE long-lived RxMsg additionally parse every
  datagram of the decoder legs, in sequence: the reference encoding of each enumerated case, followed (every case of a
  base chunk, every 8th case of a burst-pattern chunk, every 32nd case of a sweep, every base of the mutation leg; of the same-shape case datagrams of a sweep
  every 8th - of an all-FN sweep every 32nd - goes to the long-lived object) by its header-only truncation, a
  NOPE.ind (rx; after a NOPE.ind a v1 datagram with burst instead) / the header with the other version (tx) and a
  datagram of the same kind with another burst length; in the mutation leg also the whole neighbourhood with the
  header-only truncation between the groups.  Whenever the long-lived object accepts a datagram it must read exactly
  what the layout says about THAT datagram (same comparison as for a fresh object - in particular no burst when the
  datagram has none).  After a ValueError nothing is demanded until the next successful parse.
  In-place edits (every case of a base chunk, every 64th of a burst-pattern chunk, every 256th of a sweep): ONE message
  object encodes the case, is then edited in place - burst element flipped at first / middle / last position, whole
  burst content slice-assigned, fn, tn, pwr / rssi, toa256, ci, tsc, tsc_set reassigned, never replacing the burst
  container - and encodes again after every edit: octets == reference octets of what the object now holds
  (C04:history:*:enc-after-inplace-change:<edit>).  A decoder object used before parses the reference encoding, must
  re-encode to the same octets (…:reencode-after-parse) and, after its PARSED burst and its fn were edited in place, to
  the reference octets of the edited message (…:reencode-after-inplace-change:<edit>).
Oracle 2 (interop leg, `interop_leg`): through vlib/trxcon_drv.py (subprocess driver around trxcon's
  real trx_if.c, built from $VERIF_REPO).  Skipped with coverage["interop_leg"] = "driver not available" when
  it cannot be imported.
  * rx: every version-0 Rx message of the enumeration at the points without junk fields (148 / 444 soft bits,
    legacy on/off, TN, all sweeps and burst patterns of the tier) is encoded by the TOOLKIT, handed to trxcon's
    TRXD receive callback; the recorded burst indication must carry the fn, tn, rssi, toa256, burst length and
    soft bits of the case.
  * tx: every version-0 Tx message of the enumeration without legacy padding is given to trxcon as a burst
    request (fn, tn, pwr, 148 / 444 hard bits; the base messages also with 0 bits); the datagram trxcon sends,
    if any, is parsed by TxMsg.parse_msg() and must read back ver 0 and the same fn, tn, pwr and bits.
  * trxcon dying (ASan / UBSan / signal) on one of these vectors is a violation of its own key.
"""
from array import array

from vlib import world
from vlib import trxd_enum as E
from vlib.ref import trxd

LEVEL = "exploration"

_env = {}

# reference soft-bit reading as a translate table (255 -> -128 is never compared)
_REF_SB = trxd.sbits_of(bytes(range(256)))
_REF_TAB = bytes(v & 0xff for v in _REF_SB)
HDR = {("tx", 0): 6, ("tx", 1): 6, ("rx", 0): 8, ("rx", 1): 11}


def env():
    if not _env:
        world.install()
        import data_msg
        _env["dm"] = data_msg
        _env["mods"] = {k: data_msg.Modulation[v] for k, v in E.TK_NAME.items()}
        _env["tails"] = {}
    return _env


# ---------------------------------------------------------------------------------------------
# reference octets of a case

def ref_octets(e, c):
    """Octets the layout prescribes for case c, from the reference encoder.  The burst part (incl. the
    reference's legacy padding) is cached per burst because sweeps re-use one burst thousands of times;
    the composition header + cached tail is checked against one full reference call when the cache is filled."""
    ver, pad = c["ver"], bool(c["legacy"])
    if c["cls"] == "tx":
        b = trxd.enc_tx(ver, c["tn"], c["fn"], c["pwr"], E.burst_values(c))
        # enc_tx has no pad parameter; the layout's legacy padding is two zero octets on version 0
        return b + b"\0\0" if (pad and ver == 0) else b
    vals = E.burst_values(c)
    args = (ver, c["tn"], c["fn"], c["rssi"], c["toa"])
    kw = dict(mod=c["mod"], tsc_set=c["tsc_set"], tsc=c["tsc"], ci=c["ci"], nope=c["nope"])
    if vals is None:
        return trxd.enc_rx(*args, None, pad=pad, **kw)
    hdr = trxd.enc_rx(*args, None, pad=False, **kw)
    k = (id(vals), pad, ver)
    t = e["tails"].get(k)
    if t is None or t[0] is not vals:
        full = trxd.enc_rx(*args, vals, pad=pad, **kw)
        if len(e["tails"]) > 64:
            e["tails"].clear()
        t = e["tails"][k] = (vals, full[len(hdr):])
        assert full == hdr + t[1]
    return hdr + t[1]


# ---------------------------------------------------------------------------------------------
# encoder side

def check_enc(e, c):
    """-> (ref octets, [(key, msg)])"""
    cls, ver = c["cls"], c["ver"]
    pre = "C04:layout:%s:v%d:enc" % (cls, ver)
    ref = ref_octets(e, c)
    e["last_buf"] = None
    try:
        buf = E.build_tk(e["dm"], c).gen_msg(c["legacy"])
        got = bytes(buf)
        e["last_buf"] = buf         # the object gen_msg() returned, for the aliasing check of the encoder leg
    except Exception as ex:
        return ref, [("%s:raises-%s" % (pre, type(ex).__name__),
                      "gen_msg(legacy=%s) raised %s(%s) on a valid message" % (c["legacy"], type(ex).__name__, ex))]
    if got == ref:
        return ref, []
    hl = HDR[(cls, ver)]
    n = min(len(got), len(ref))
    i = next((j for j in range(n) if got[j] != ref[j]), None)
    if i is None:
        what = "length"
        msg = "toolkit emits %d octets, the layout prescribes %d (common prefix equal)" % (len(got), len(ref))
    else:
        bl = c["bl"] or 0
        what = ("octet%d" % i) if i < hl else ("burst" if i < hl + bl else "pad")
        msg = ("octet %d: toolkit 0x%02x, layout 0x%02x; header toolkit %s layout %s; lengths %d/%d"
               % (i, got[i], ref[i], got[:hl].hex(), ref[:hl].hex(), len(got), len(ref)))
    return ref, [("%s:%s" % (pre, what), msg)]


# ---------------------------------------------------------------------------------------------
# decoder side

def check_reading(e, cls, data):
    """Hand `data` to the toolkit parser (FRESH object) and compare with the reference reading.
    -> (status, [(key, msg)]); status: 'accepted' | 'rejected' | 'raised:<Exc>' | 'accepted-other-version'"""
    dm = e["dm"]
    p = dm.TxMsg() if cls == "tx" else dm.RxMsg()
    try:
        p.parse_msg(bytes(data) if cls == "tx" else bytearray(data))
    except ValueError:
        return "rejected", []
    except Exception as ex:
        return "raised:" + type(ex).__name__, []
    return compare_ref(e, cls, data, p, "layout")


def compare_ref(e, cls, data, p, fam):
    """Compare what object p holds after it ACCEPTED `data` with the reference reading of `data`.
    fam = "layout" (fresh object) or "history" (long-lived object that parsed other datagrams before)."""
    v = (data[0] >> 4) if len(data) else None
    if v not in (0, 1):
        if len(data) == 0:
            return "accepted", [("C04:%s:%s:dec:accepts-empty" % (fam, cls), "parser accepted an empty datagram")]
        return "accepted-other-version", []
    pre = "C04:%s:%s:v%d%s" % (fam, cls, v, ":dec" if fam == "layout" else "")
    d = trxd.dec_tx(data) if cls == "tx" else trxd.dec_rx(data)
    if d is None:
        return "accepted", [(pre + ":accepts-short", "parser accepted %d octets (%s), shorter than the version-%d header"
                             % (len(data), bytes(data).hex(), v))]
    out = []

    def cmp(field, got, exp):
        if got != exp:
            out.append(("%s:%s" % (pre, field), "%s: toolkit reads %r, the layout reads %r (first octets %s)"
                        % (field, got, exp, bytes(data[:11]).hex())))

    cmp("ver", p.ver, d["ver"])
    cmp("tn", p.tn, d["tn"])
    cmp("fn", p.fn, d["fn"])
    pb = p.burst
    n = 0 if pb is None else len(pb)
    if cls == "tx":
        cmp("pwr", p.pwr, d["pwr"])
        L = len(d["bits"])
        # whole, or cut to the GSM / EDGE burst length it exceeds; exactly 148 / 444 octets are never cut
        allowed = {L}
        if 148 < L < 444:
            allowed.add(148)
        elif L > 444:
            allowed.add(444)
        if n not in allowed:
            out.append((pre + ":burst-length", "burst: toolkit keeps %d of %d octets after the header (allowed %s)"
                        % (n, L, sorted(allowed))))
        elif n and bytes(pb) != d["bits"][:n]:
            out.append((pre + ":burst", "burst: toolkit bits differ from the octets after the header: %s"
                        % _first_diff(bytes(pb), d["bits"][:n])))
        return "accepted", out
    cmp("rssi", p.rssi, d["rssi"])
    cmp("toa256", p.toa256, d["toa"])
    if v == 1:
        cmp("nope_ind", p.nope_ind, d["nope"])
        cmp("ci", p.ci, d["ci"])
        if not d["nope"]:
            cmp("tsc", p.tsc, d["tsc"])
            if d["mod"] is None:
                if p.mod_type is not None:
                    out.append((pre + ":mts-reserved", "MTS octet 0x%02x carries a reserved modulation code, toolkit reports %r"
                                % (d["mts"], p.mod_type)))
            else:
                if p.mod_type is not e["mods"][d["mod"]]:
                    out.append((pre + ":mod_type", "MTS octet 0x%02x: toolkit reads %r, the layout reads %s"
                                % (d["mts"], p.mod_type, d["mod"])))
                cmp("tsc_set", p.tsc_set, d["tsc_set"])
    us = d["usbits"]
    L = len(us)
    if v == 1:
        allowed = (L,)
    elif L in (148, 444):
        allowed = (L,)
    elif L - 2 in (148, 444):
        allowed = (L - 2,)
    else:
        allowed = (L, L - 2) if L >= 2 else (L,)
    if n not in allowed:
        out.append((pre + ":burst-length", "burst: toolkit reads %d soft bits from %d octets after the header (allowed %s)"
                    % (n, L, list(allowed))))
    elif n:
        exp = us[:n].translate(_REF_TAB)
        got = pb.tobytes() if type(pb) is array and pb.typecode == 'b' else bytes(x & 0xff for x in pb)
        if got != exp:
            bad = [(i, us[i], pb[i]) for i in range(n) if us[i] != 255 and pb[i] != _REF_SB[us[i]]]
            if bad:
                out.append((pre + ":burst", "soft bits: %d differ from 127 - octet; first (position, octet, toolkit sbit) %r"
                            % (len(bad), bad[0])))
    return "accepted", out


def _first_diff(a, b):
    for i, (x, y) in enumerate(zip(a, b)):
        if x != y:
            return "position %d: %r vs %r" % (i, x, y)
    return "lengths %d vs %d" % (len(a), len(b))


def check_case(e, c, stat=None):
    """encoder + decoder check of one enumerated case -> [(key, msg)]"""
    ref, out = check_enc(e, c)
    st, r = check_reading(e, c["cls"], ref)
    if st != "accepted":
        # a valid message's encoding is not accepted: C01 reports that (own encoding); here only counted
        if stat is not None:
            stat["valid_encoding_not_accepted"] = stat.get("valid_encoding_not_accepted", 0) + 1
    return out + r


# ---------------------------------------------------------------------------------------------
# history: ONE long-lived TxMsg and ONE long-lived RxMsg per work item parse every datagram as well

class History:
    """The long-lived decoder objects of one work item (scoped per work item, not per worker process, so that
    the result does not depend on how items are handed out).  feed() parses one more datagram into the object
    of its class; when the parse succeeds, the object must read exactly what the layout says about THIS datagram
    (no burst left over from an earlier datagram, ...).  Nothing is demanded after a ValueError."""

    def __init__(self, e):
        self.e = e
        dm = e["dm"]
        self.obj = {"tx": dm.TxMsg(), "rx": dm.RxMsg()}
        self.ring = {"tx": [], "rx": []}          # the two datagrams fed before the current one
        self.prev = {"tx": None, "rx": None}      # (version, octets after the header) of the last accepted datagram
        self.cov = {"hist_parses": 0, "hist_accepted": 0, "hist_rejected": 0, "hist_other_exception": 0,
                    "hist_burst_to_noburst": 0, "hist_noburst_to_burst": 0, "hist_length_changes": 0,
                    "hist_version_changes": 0, "hist_minimised": 0, "hist_not_minimised": 0}

    def feed(self, cls, data):
        """-> (status, [(key, msg)], history as list of bytes)"""
        p = self.obj[cls]
        ring = self.ring[cls]
        hist = ring + [data]
        self.ring[cls] = hist[-2:]
        cov = self.cov
        cov["hist_parses"] += 1
        try:
            p.parse_msg(bytes(data) if cls == "tx" else bytearray(data))
        except ValueError:
            cov["hist_rejected"] += 1
            return "rejected", [], hist
        except Exception:
            cov["hist_other_exception"] += 1
            return "raised", [], hist
        cov["hist_accepted"] += 1
        st, r = compare_ref(self.e, cls, data, p, "history")
        v = data[0] >> 4
        if v in (0, 1):
            cur = (v, len(data) - HDR[(cls, v)])
            prev = self.prev[cls]
            if prev is not None:
                if prev[1] > 0 and cur[1] <= 0:
                    cov["hist_burst_to_noburst"] += 1
                elif prev[1] <= 0 and cur[1] > 0:
                    cov["hist_noburst_to_burst"] += 1
                elif prev[1] != cur[1]:
                    cov["hist_length_changes"] += 1
                if prev[0] != cur[0]:
                    cov["hist_version_changes"] += 1
            self.prev[cls] = cur
        return st, r, hist


def replay_history(e, cls, hist):
    """parse the datagrams of `hist` one after the other into ONE new object; -> problems of the last one"""
    H = History(e)
    r = []
    for d in hist:
        _, r, _ = H.feed(cls, d)
    return r


def history_viol(e, H, cls, key, msg, hist, seq_ref):
    """violation record for a history finding: the shortest history that reproduces it (the datagram and the
    one or two before it), else the position in the work item's datagram sequence"""
    for h in (hist[-2:], hist):
        if any(k == key for k, _ in replay_history(e, cls, h)):
            H.cov["hist_minimised"] += 1
            hist = h
            case = {"leg": "history", "cls": cls, "history": [d.hex() for d in h]}
            break
    else:
        H.cov["hist_not_minimised"] += 1
        case = {"leg": "history-seq", "cls": cls, "seq": seq_ref[0], "n": seq_ref[1]}
    return (key, case, msg + " [object had parsed %s before]" % ", ".join("%d octets (v%d)" % (len(d), d[0] >> 4 if d else -1)
                                                                          for d in hist[:-1]))


def extras(c, D):
    """burst-less / other-shape datagrams visited after the datagram D of case c, so that the long-lived object
    alternates between datagrams with and without burst, versions and lengths"""
    cls = c["cls"]
    hl = HDR[(cls, c["ver"])]
    if len(D) > hl:
        yield "hdr-only", D[:hl]
    if cls == "tx":
        yield "hdr-only-other-version", bytes([D[0] ^ 0x10]) + D[1:6]
    elif c["ver"] == 1 and c["nope"]:
        # after a NOPE.ind: a version-1 datagram WITH burst, so that the next NOPE.ind follows a burst
        yield "v1-burst", trxd.enc_rx(1, c["tn"], c["fn"], c["rssi"], c["toa"], _RAMP148, mod="GMSK", tsc_set=0, tsc=0, ci=c["ci"])
    else:
        yield "nope", trxd.enc_rx(1, c["tn"], c["fn"], c["rssi"], c["toa"], None, ci=c["ci"] if c["ci"] is not None else 0, nope=True)
    # a datagram of the same kind with ANOTHER burst length, so that the next datagram follows a burst of different length
    if cls == "tx":
        yield "other-length", trxd.enc_tx(c["ver"], c["tn"], c["fn"], c["pwr"], _ALT[444 if c["bl"] == 148 else 148])
    elif c["ver"] == 0:
        yield "other-length", trxd.enc_rx(0, c["tn"], c["fn"], c["rssi"], c["toa"], _RAMP[444 if c["bl"] == 148 else 148])
    elif not c["nope"]:
        m2 = _OTHER_MOD[c["mod"]]
        yield "other-length", trxd.enc_rx(1, c["tn"], c["fn"], c["rssi"], c["toa"], _RAMP[E.MOD_BL[m2]], mod=m2, tsc_set=0,
                                          tsc=c["tsc"], ci=c["ci"])


def unexpected(leg, ex):
    """violation for an exception that escaped a leg: the code under test (or a consequence of its misbehaviour) must never
    turn into a harness error"""
    return ("C04:unexpected-exception:%s:%s" % (leg, type(ex).__name__),
            "%s(%s) escaped the %s leg" % (type(ex).__name__, str(ex)[:200], leg))


def companion(c):
    """a valid message of the OTHER class and another burst length, encoded right after c at the visit points so that
    the buffers kept for the aliasing check come from different classes / versions / lengths"""
    if c["cls"] == "rx":
        return {"cls": "tx", "ver": c["ver"], "legacy": c["legacy"], "tn": c["tn"], "fn": c["fn"], "pwr": (c["tn"] * 37 + 1) % 256,
                "bl": 444 if c["bl"] == 148 else 148, "burst": ["alt"], "grp": "companion"}
    return {"cls": "rx", "ver": 0, "legacy": c["legacy"], "tn": c["tn"], "fn": c["fn"], "rssi": -60 - c["tn"], "toa": c["pwr"] - 128,
            "ci": None, "nope": False, "mod": None, "tsc_set": None, "tsc": None, "bl": 444 if c["bl"] == 148 else 148,
            "burst": ["ramp"], "grp": "companion"}


class EncRing:
    """encoder leg: the objects gen_msg() returned for the previous three messages are kept and compared again with their
    reference octets after every later gen_msg() (C04:history:<cls>:v<ver>:enc-aliasing)"""

    def __init__(self):
        self.ring = []              # (returned object, reference octets, case)
        self.checks = 0

    def after_encode(self, buf, ref, c):
        """call after case c was encoded (buf = object returned, None when it raised or differed from ref) -> problems"""
        out = []
        for ob, oref, oc in self.ring:
            self.checks += 1
            if ob != oref:
                out.append(("C04:history:%s:v%d:enc-aliasing" % (oc["cls"], oc["ver"]),
                            "the object gen_msg() returned for an earlier message held the layout's octets (%s..., %d octets) and holds "
                            "%s... (%d octets) after a later gen_msg()" % (oref[:12].hex(), len(oref), bytes(ob[:12]).hex(), len(ob)),
                            [x[2] for x in self.ring] + [c]))
        if out:
            self.ring = []          # report once, start over
        if buf is not None:
            self.ring = (self.ring + [(buf, ref, c)])[-3:]
        return out


def replay_aliasing(e, msgs):
    R = EncRing()
    r = []
    for c in msgs:
        ref, pr = check_enc(e, c)
        r = R.after_encode(e["last_buf"] if not pr else None, ref, c)
    return r


def inplace_visit(e, c):
    """One message object encodes case c, is then edited IN PLACE step by step (burst elements, whole burst content by
    slice assignment, header fields - E.inplace_plan) and encodes again after every edit: the octets must be the
    reference octets of what the object holds now.  Then a decoder object that was used before parses the reference
    encoding of c, must re-encode to the same octets, has its parsed burst and its fn edited in place and must
    re-encode to the reference octets of the edited message.  -> (number of encodes compared, [(key, msg)])"""
    dm = e["dm"]
    cls, ver, legacy = c["cls"], c["ver"], c["legacy"]
    fam = "C04:history:%s:v%d" % (cls, ver)
    out = []
    n = 0
    steps = list(E.inplace_plan(c))

    def enc(obj, what, nc, label):
        try:
            got = bytes(obj.gen_msg(legacy))
        except Exception as ex:
            out.append(("%s:%s:raises-%s" % (fam, what, type(ex).__name__), "gen_msg() after in-place edit %s raised %s(%s)"
                        % (label, type(ex).__name__, ex)))
            return
        ref = ref_octets(e, nc)
        if got != ref:
            i = next((j for j in range(min(len(got), len(ref))) if got[j] != ref[j]), min(len(got), len(ref)))
            out.append(("%s:%s:%s" % (fam, what, label), "after the in-place edit '%s' of the same object gen_msg() emits octets that "
                        "are not the layout's encoding of the object's content: first difference at octet %d (toolkit %s, layout %s), "
                        "lengths %d/%d" % (label, i, got[i:i + 1].hex() or "-", ref[i:i + 1].hex() or "-", len(got), len(ref))))

    try:
        m = E.build_tk(dm, c)
        m.gen_msg(legacy)
    except Exception:
        return 0, []                # reported by the encoder leg
    for label, op, nc in steps:
        E.apply_inplace(m, op)
        n += 1
        enc(m, "enc-after-inplace-change", nc, label)
        if out:                     # later edits build on this one: report the first edit that breaks, not its echoes
            break
    # decoder object used before -> parse -> re-encode -> edit the parsed burst in place -> re-encode
    D = ref_octets(e, c)
    p = dm.TxMsg() if cls == "tx" else dm.RxMsg()
    try:
        p.parse_msg(bytes(D[:HDR[(cls, ver)]]) if cls == "tx" else bytearray(D[:HDR[(cls, ver)]]))
        p.parse_msg(bytes(D) if cls == "tx" else bytearray(D))
    except Exception:
        return n, out               # acceptance of valid encodings is C01's business
    n += 1
    enc(p, "reencode-after-parse", c, "none")
    cur = c
    if c["bl"] is not None:
        label, op, cur = steps[0]                       # flip the first element of the PARSED burst, in place
        E.apply_inplace(p, op)
        n += 1
        enc(p, "reencode-after-inplace-change", cur, label)
    if out:
        return (n[0] if isinstance(n, list) else n), out
    cur = dict(cur, fn=(c["fn"] + 1) % E.HYPER)
    p.fn = cur["fn"]
    n += 1
    enc(p, "reencode-after-inplace-change", cur, "fn")
    return n, out


_RAMP = {bl: tuple(E.soft_bits(bl, ("ramp",))) for bl in (148, 296, 444, 592, 740)}
_ALT = {bl: E.hard_bits(bl, ("alt",)) for bl in (148, 444)}
_RAMP148 = _RAMP[148]
# modulation -> the next one in the list whose burst length differs
_OTHER_MOD = {"GMSK": "8PSK", "8PSK": "GMSK_AB", "GMSK_AB": "16QAM", "16QAM": "32QAM", "32QAM": "AQPSK", "AQPSK": "GMSK"}
SWEEP_EXTRAS_EVERY = 32
BURST_EVERY = 8             # burst-pattern chunks keep one shape per burst length: every 8th case
SWEEP_REUSE_EVERY = 8       # in sweeps (same shape throughout) every 8th case also goes through the long-lived object(s)


def seq_chunk(e, chunk):
    """datagram sequence of an enumeration chunk: (kind, cls, datagram, case); kind 'case' = the reference encoding
    of an enumerated case; the extras follow every case of a base chunk, every 8th case of a burst-pattern chunk and every 32nd case of a sweep"""
    every = SWEEP_EXTRAS_EVERY if chunk[0] == "sweep" else (BURST_EVERY if chunk[0] == "burst" else 1)
    allfn = chunk[0] == "sweep" and chunk[4] == "all"
    for i, c in enumerate(E.cases(chunk)):
        D = ref_octets(e, c)
        # "case" datagrams go to the fresh AND the long-lived object: every case of a base / burst chunk, every 8th of a
        # sweep (all datagrams of a sweep have the same shape), every 32nd of an all-FN sweep; "case-fresh-only" otherwise
        yield ("case" if i % (every if allfn else (SWEEP_REUSE_EVERY if chunk[0] == "sweep" else 1)) == 0 else "case-fresh-only"), c["cls"], D, c
        if i % every == 0:
            for kind, X in extras(c, D):
                yield kind, c["cls"], X, c


def seq_mut(e, cases):
    """datagram sequence of a mutation work item: per base message its reference encoding, the extras, the
    encoding again, then the mutation neighbourhood with the header-only truncation between the groups"""
    for c in cases:
        cls = c["cls"]
        D = ref_octets(e, c)
        hl = HDR[(cls, c["ver"])]
        yield "base", cls, D, c
        for kind, X in extras(c, D):
            yield kind, cls, X, c
        yield "base", cls, D, c
        seen = set()
        last = None
        for lab, data in neighbourhood(cls, c["ver"], D, c["bl"] or 0):
            if data in seen:        # e.g. prefix == truncation
                continue
            seen.add(data)
            if last is not None and lab != last and len(D) > hl:
                yield "hdr-only", cls, D[:hl], c
            last = lab
            yield lab, cls, data, c


MUT_LABELS = ("octet", "burst-first", "burst-last", "last-octet", "trunc", "prefix", "ext")


# ---------------------------------------------------------------------------------------------
# mutation neighbourhood

def neighbourhood(cls, ver, D, bl):
    """yield (label, datagram) for the mutation neighbourhood of datagram D (header length by cls/ver)"""
    hl = HDR[(cls, ver)]
    pos = list(range(hl))
    for x in (hl, hl + bl - 1, len(D) - 1):
        if bl and x >= hl and x not in pos:
            pos.append(x)
    for i in pos:
        orig = D[i]
        m = bytearray(D)
        lab = ("octet%d" % i) if i < hl else ("burst-first" if i == hl else ("burst-last" if i == hl + bl - 1 else "last-octet"))
        for v in range(256):
            if v != orig:
                m[i] = v
                yield lab, bytes(m)
    for k in (1, 2, 3):
        if len(D) - k > hl + 1:
            yield "trunc%d" % k, D[:len(D) - k]
    for n in range(0, min(len(D), hl + 2)):
        yield "prefix", D[:n]
    for k in (1, 2, 3):
        for fill in (0x00, 0x7f, 0xff):
            yield "ext%d" % k, D + bytes([fill]) * k


def work_mut(cases):
    e = env()
    H = History(e)
    cov = {"mut_evaluations": 0, "mut_accepted": 0, "mut_rejected": 0, "mut_other_exception": {}, "mut_bases": len(cases),
           "mut_accepted_other_version": 0, "mut_by_kind": {}, "mut_accepted_by_kind": {}, "hist_extra_datagrams": 0}
    viol, vkeys, nviol = [], set(), 0
    for n, (lab, cls, data, c) in enumerate(seq_mut(e, cases)):
        try:
            st, r = check_reading(e, cls, data)
        except Exception as ex:
            st, r = "raised:harness-guard", [unexpected("mut", ex)]
        if lab.startswith(MUT_LABELS):
            cov["mut_evaluations"] += 1
            cov["mut_by_kind"][lab] = cov["mut_by_kind"].get(lab, 0) + 1
            if st == "accepted":
                cov["mut_accepted"] += 1
                cov["mut_accepted_by_kind"][lab] = cov["mut_accepted_by_kind"].get(lab, 0) + 1
            elif st == "rejected":
                cov["mut_rejected"] += 1
            elif st == "accepted-other-version":
                cov["mut_accepted_other_version"] += 1
            else:
                cov["mut_other_exception"][st] = cov["mut_other_exception"].get(st, 0) + 1
        else:
            cov["hist_extra_datagrams"] += 1
        for key, msg in r:
            nviol += 1
            if key not in vkeys:
                vkeys.add(key)
                viol.append((key, {"leg": "mut", "cls": cls, "data": data.hex(), "mutation": lab, "of": c}, msg))
        try:
            _, hr, hist = H.feed(cls, data)
        except Exception as ex:
            hr, hist = [unexpected("history", ex)], None
        for key, msg in hr:
            nviol += 1
            if key in vkeys:
                continue
            vkeys.add(key)
            try:
                if hist is None:
                    raise ValueError
                viol.append(history_viol(e, H, cls, key, msg, hist, (["mut", cases], n)))
            except Exception:
                viol.append((key, {"leg": "history-seq", "cls": cls, "seq": ["mut", cases], "n": n}, msg))
    cov.update(H.cov)
    return {"cov": cov, "viol": viol, "nviol_extra": nviol - len(viol)}


# ---------------------------------------------------------------------------------------------
# enumeration worker

def work(chunk):
    e = env()
    H = History(e)
    stat = {}
    by_class, by_group = {}, {}
    viol, vkeys, nviol = [], set(), 0
    keys = set()
    good = 0
    sample = None
    n = 0
    nextra = 0
    ninpl = [0, 0]
    sweep = chunk[3] if chunk[0] == "sweep" else None
    R = EncRing()
    ncomp = 0
    for i, (kind, cls, data, c) in enumerate(seq_chunk(e, chunk)):
        enc_done = None
        if kind.startswith("case"):
            n += 1
            try:
                r = check_case(e, c, stat)
                enc_done = (c, data, not any(":enc:" in x[0] for x in r))
            except Exception as ex:
                r = [unexpected("case", ex)]
            k = c[sweep] if sweep else E.case_key(c)
            if k not in keys:
                keys.add(k)
                if not any(":raises-" in x[0] for x in r):
                    good += 1
            kl = E.class_of(c)
            by_class[kl] = by_class.get(kl, 0) + 1
            by_group[c["grp"]] = by_group.get(c["grp"], 0) + 1
            if sample is None:
                sample = c
            for key, msg in r:
                nviol += 1
                if key not in vkeys:
                    vkeys.add(key)
                    viol.append((key, c, msg))
            if enc_done is not None:
                for key, msg, msgs in R.after_encode(e["last_buf"] if enc_done[2] else None, enc_done[1], c):
                    nviol += 1
                    if key not in vkeys:
                        vkeys.add(key)
                        try:
                            ok = any(k == key for k, _, _ in replay_aliasing(e, msgs))
                        except Exception:
                            ok = False
                        viol.append((key, {"leg": "enc-aliasing", "msgs": msgs} if ok else
                                     {"leg": "enc-aliasing-seq", "chunk": chunk, "n": i}, msg))
            if E.inplace_here(chunk, n - 1):
                try:
                    ne, ir = inplace_visit(e, c)
                except Exception as ex:
                    ne, ir = 0, [unexpected("inplace", ex)]
                ninpl[0] += 1
                ninpl[1] += ne
                for key, msg in ir:
                    nviol += 1
                    if key not in vkeys:
                        vkeys.add(key)
                        viol.append((key, {"leg": "inplace", "case": c}, msg))
            if kind == "case-fresh-only":
                continue
        else:
            nextra += 1         # extras go to the long-lived object only (their shapes are covered by the mutation leg's prefixes)
            if kind in ("hdr-only", "v1-burst"):
                # first extra of a visit: also ENCODE a companion message of the other class / another length, so that the
                # objects kept for the aliasing check alternate between classes, versions and lengths
                ncomp += 1
                m2 = companion(c)
                try:
                    ref2, pr = check_enc(e, m2)
                    al = R.after_encode(e["last_buf"] if not pr else None, ref2, m2)
                except Exception as ex:
                    pr, al = [unexpected("companion", ex)], []
                for key, msg in pr:
                    nviol += 1
                    if key not in vkeys:
                        vkeys.add(key)
                        viol.append((key, m2, msg))
                for key, msg, msgs in al:
                    nviol += 1
                    if key not in vkeys:
                        vkeys.add(key)
                        try:
                            ok = any(k == key for k, _, _ in replay_aliasing(e, msgs))
                        except Exception:
                            ok = False
                        viol.append((key, {"leg": "enc-aliasing", "msgs": msgs} if ok else
                                     {"leg": "enc-aliasing-seq", "chunk": chunk, "n": i}, msg))
        try:
            _, hr, hist = H.feed(cls, data)
        except Exception as ex:
            hr, hist = [unexpected("history", ex)], None
        for key, msg in hr:
            nviol += 1
            if key in vkeys:
                continue
            vkeys.add(key)
            try:
                if hist is None:
                    raise ValueError
                viol.append(history_viol(e, H, cls, key, msg, hist, (["chunk", chunk], i)))
            except Exception:
                viol.append((key, {"leg": "history-seq", "cls": cls, "seq": ["chunk", chunk], "n": i}, msg))
    cov = dict(stat, evaluations=n, distinct_cases=len(keys), distinct_nontrivial=good, octet_comparisons=n,
               reading_comparisons=n, by_class=by_class, by_group=by_group, chunks=1, hist_extra_datagrams=nextra,
               hist_inplace_visits=ninpl[0], hist_inplace_encodes=ninpl[1], hist_enc_aliasing_checks=R.checks,
               hist_companion_encodes=ncomp)
    cov.update(H.cov)
    return {"cov": cov, "viol": viol, "nviol_extra": nviol - len(viol),
            "samples": [dict(sample, ref_octets_head=ref_octets(e, sample)[:12].hex())] if sample else []}


def _merge_with_diverse_samples(ctx, results):
    """merge worker results; keep one sample per (class, group) instead of the first six"""
    seen = set()
    for r in results:
        sm = r.pop("samples", [])
        ctx.merge(r)
        for x in sm:
            k = (E.class_of(x), x["grp"])
            if k not in seen:
                seen.add(k)
                ctx.sample(x)


def layout_leg(ctx):
    ch = E.chunks(ctx.tier)
    if len(set(map(tuple, ch))) != len(ch):
        from vlib.errors import HarnessError
        raise HarnessError("duplicate chunk descriptors")
    order = sorted(range(len(ch)), key=lambda i: -E.chunk_cost(ch[i]))
    _merge_with_diverse_samples(ctx, ctx.pmap(work, [ch[i] for i in order]))
    mb = E.mutation_bases(ctx.tier)
    for r in ctx.pmap(work_mut, [mb[i:i + 8] for i in range(0, len(mb), 8)]):
        ctx.merge(r)


# ---------------------------------------------------------------------------------------------
# Oracle 2: interop with trxcon (C) through vlib/trxcon_drv.py

def _interop_chunks(tier):
    """rx: every chunk of the enumeration restricted to the v0 Rx points without junk fields (K2: GMSK/EDGE length,
    legacy on/off, TN 0..7);  tx: every chunk at the v0 Tx points without legacy padding (what trxcon itself emits)."""
    P = E.points()
    rx, tx = [], []
    for ch in E.chunks(tier):
        if ch[0] == "base":
            continue
        p = P[ch[1]]
        if p["kind"] == "K2":
            if tier != "thorough" and ch[0] == "sweep" and ch[3] == "toa" and (p["tn"] != 0 or (p["legacy"] and ch[2] != 1)):
                continue            # quick: the 65536-value ToA sweep through trxcon at TN 0 only (legacy on: mid base point only)
            if ch[0] == "sweep" and ch[4] == "all" and p["legacy"]:
                continue            # thorough: all 2715648 FN through trxcon's receive path once (legacy off)
            rx.append(ch)
        elif p["kind"] == "K1" and p["ver"] == 0 and not p["legacy"]:
            if ch[0] == "sweep" and ch[4] == "all":
                continue            # burst requests: FN over the boundary set (trx_if.c stores the FN without looking at it)
            tx.append(ch)
    return rx, tx


def _interop_cases(ch):
    P = E.points()
    if ch[0] == "basepts":
        for i in ch[1]:
            for b in range(3):
                yield E.base_case(P[i], b)
    elif ch[0] == "basepts0":       # burst requests without bits (trxcon then sends the 6-octet header only)
        for i in ch[1]:
            for b in range(3):
                yield dict(E.base_case(P[i], b), bl=0, burst=["zeros"], grp="base0")
    else:
        for c in E.cases(ch):
            yield c


def rx_interop_verdict(c, r):
    """c: case (what the toolkit was given), r: trxcon's burst indication -> [(key, msg)]"""
    out = []
    if not r.get("ind"):
        return [("C04:interop:rx:v0:no-indication", "trxcon produced no burst indication for a valid v0 datagram "
                 "(fn=%d tn=%d rssi=%d toa256=%d bl=%d legacy=%s)" % (c["fn"], c["tn"], c["rssi"], c["toa"], c["bl"], c["legacy"]))]
    for f, exp in (("fn", c["fn"]), ("tn", c["tn"]), ("rssi", c["rssi"]), ("toa256", c["toa"]), ("nbits", c["bl"])):
        if r.get(f) != exp:
            out.append(("C04:interop:rx:v0:" + f, "%s: toolkit sent %r, trxcon indicates %r" % (f, exp, r.get(f))))
    sb = array('b', bytes.fromhex(r.get("sbits") or ""))
    exp = E.burst_array(c)
    if sb != exp:
        out.append(("C04:interop:rx:v0:sbits", "soft bits differ: %s" % _first_diff(list(sb), list(exp))))
    return out


def tx_interop_verdict(e, c, r):
    """c: what trxcon was given (fn, tn, pwr, bits), r: {"dgram": hex|None, "rc": int} -> (emitted?, [(key, msg)])"""
    if not r.get("dgram"):
        return False, []
    data = bytes.fromhex(r["dgram"])
    p = e["dm"].TxMsg()
    try:
        p.parse_msg(data)
    except Exception as ex:
        return True, [("C04:interop:tx:parse-raises-" + type(ex).__name__,
                       "TxMsg.parse_msg() raised %s(%s) on trxcon's datagram %s..." % (type(ex).__name__, ex, data[:8].hex()))]
    out = []
    for f, got, exp in (("ver", p.ver, 0), ("fn", p.fn, c["fn"]), ("tn", p.tn, c["tn"]), ("pwr", p.pwr, c["pwr"])):
        if got != exp:
            out.append(("C04:interop:tx:" + f, "%s: trxcon was given %r, toolkit parses %r (datagram %s...)"
                        % (f, exp, got, data[:8].hex())))
    bits = E.burst_values(c)
    got = b"" if p.burst is None else bytes(p.burst)
    if got != bits:
        out.append(("C04:interop:tx:burst", "burst: trxcon was given %d bits, toolkit parses %s"
                    % (len(bits), "None" if p.burst is None else _first_diff(got, bits))))
    return True, out


def _drv_batch(d, mode, vec):
    """Run `vec` through the driver in batch mode `mode` and normalise the replies to
         rxdata: {"ind": bool, "fn", "tn", "rssi", "toa256", "nbits", "sbits": hex of int8, "rc"}
         txdata: {"dgram": hex or None, "ndgrams": int, "rc"}
       or {"died": True, "how", "report"} when trxcon died on that vector (ASan / UBSan / signal).
    Two driver interfaces are understood: batch(lines) with "rxdata <hex>" / "txdata <fn> <tn> <pwr> <nbits> <hex>"
    lines answering {"rc", "ind": {...}|None} / {"rc", "dgrams": [...]} (vlib/trxcon_drv.py as it exists), and
    batch(mode, vectors) answering the normalised form directly."""
    import inspect
    try:
        params = list(inspect.signature(d.batch).parameters)
    except (TypeError, ValueError):
        params = []
    if params and params[0] == "lines":
        raw = d.batch(["%s %s" % (mode, v) for v in vec])
    else:
        raw = d.batch(mode, vec)
    out = []
    for r in raw:
        if r.get("skipped"):
            out.append({"skipped": True})     # the driver gave up after too many deaths in this batch: no verdict
        elif r.get("died"):
            out.append({"died": True, "how": r.get("how"), "report": r.get("report")})
        elif mode == "rxdata":
            i = r.get("ind")
            if isinstance(i, dict):
                out.append({"ind": True, "fn": i.get("fn"), "tn": i.get("tn"), "rssi": i.get("rssi"), "toa256": i.get("toa256"),
                            "nbits": i.get("len"), "sbits": i.get("soft"), "rc": r.get("rc")})
            elif not i:
                out.append({"ind": False, "rc": r.get("rc")})
            else:
                out.append(r)
        elif "dgrams" in r:
            dg = r.get("dgrams") or []
            out.append({"dgram": dg[0] if len(dg) == 1 else None, "ndgrams": len(dg), "rc": r.get("rc")})
        else:
            out.append(dict(r, ndgrams=1 if r.get("dgram") else 0))
    return out


def _rx_vector(e, c):
    return bytes(E.build_tk(e["dm"], c).gen_msg(c["legacy"])).hex()


def _tx_vector(c):
    return "%d %d %d %d %s" % (c["fn"], c["tn"], c["pwr"], c["bl"], E.burst_values(c).hex() or "-")


def interop_verdict(e, direction, c, r):
    """-> (trxcon produced an indication / a datagram?, [(key, msg)])"""
    if r.get("skipped"):
        return False, []
    if r.get("died"):
        return False, [("C04:interop:%s:trxcon-died-%s" % (direction, r.get("how")),
                        "trxcon died (%s) on a valid %s: %s" % (r.get("how"), "v0 datagram" if direction == "rx" else "burst request",
                                                                r.get("report")))]
    if direction == "rx":
        return bool(r.get("ind")), rx_interop_verdict(c, r)
    if r.get("ndgrams", 0) > 1:
        return True, [("C04:interop:tx:datagram-count", "trxcon emitted %d datagrams for one burst request" % r["ndgrams"])]
    return tx_interop_verdict(e, c, r)


def work_interop(arg):
    direction, exe, ch = arg
    from vlib import trxcon_drv
    e = env()
    d = trxcon_drv.Driver(exe)
    cases = list(_interop_cases(ch))
    cov = {"interop_%s_vectors" % direction: len(cases)}
    viol, vkeys, nviol = [], set(), 0
    try:
        if direction == "rx":
            vec = [_rx_vector(e, c) for c in cases]
            res = _drv_batch(d, "rxdata", vec)
        else:
            vec = [_tx_vector(c) for c in cases]
            res = _drv_batch(d, "txdata", vec)
    finally:
        close = getattr(d, "close", None)
        if close:
            close()
    if len(res) != len(cases):
        from vlib.errors import HarnessError
        raise HarnessError("trxcon driver returned %d results for %d vectors" % (len(res), len(cases)))
    emitted = 0
    for c, v, r in zip(cases, vec, res):
        em, out = interop_verdict(e, direction, c, r)
        emitted += 1 if em else 0
        for key, msg in out:
            nviol += 1
            if key not in vkeys:
                vkeys.add(key)
                viol.append((key, {"leg": "interop-" + direction, "case": c, "vector": v}, msg))
    cov["interop_%s_%s" % (direction, "indications" if direction == "rx" else "datagrams")] = emitted
    cov["interop_driver_processes"] = getattr(d, "processes", 1)
    cov["interop_vectors_not_run_after_repeated_deaths"] = sum(1 for r in res if r.get("skipped"))
    return {"cov": cov, "viol": viol, "nviol_extra": nviol - len(viol)}


def interop_leg(ctx):
    try:
        from vlib import trxcon_drv
    except Exception as ex:          # not there yet (or not importable): the leg is skipped, the layout leg stands alone
        ctx.cov["interop_leg"] = "driver not available"
        ctx.cov["interop_leg_reason"] = "%s: %s" % (type(ex).__name__, ex)
        return
    from vlib import cbuild
    bdir = cbuild.builddir("c04")
    try:
        exe = trxcon_drv.build(bdir)
        rx, tx = _interop_chunks(ctx.tier)
        P = E.points()
        rx.insert(0, ["basepts", [p["idx"] for p in P if p["kind"] == "K2"]])
        tx.insert(0, ["basepts", [p["idx"] for p in P if p["kind"] == "K1" and p["ver"] == 0 and not p["legacy"]]])
        tx.insert(1, ["basepts0", [p["idx"] for p in P if p["kind"] == "K1" and p["ver"] == 0 and not p["legacy"]]])
        items = [("rx", exe, ch) for ch in rx] + [("tx", exe, ch) for ch in tx]
        for r in ctx.pmap(work_interop, items):
            ctx.merge(r)
        ctx.cov["interop_leg"] = "run"
    finally:
        cbuild.cleanup(bdir)


# ---------------------------------------------------------------------------------------------

def run(ctx):
    layout_leg(ctx)
    interop_leg(ctx)
    c = ctx.cov
    c["points"] = len(E.points())
    c["distinct_nontrivial"] = c.get("distinct_nontrivial", 0)
    c["evaluations"] = c.get("evaluations", 0) + c.get("mut_evaluations", 0) + c.get("interop_rx_vectors", 0) + c.get("interop_tx_vectors", 0)
    c["rule"] = (E.rule(ctx.tier) + " Layout leg: one evaluation per enumerated case = toolkit octets compared with the reference "
                 "encoder's octets AND the toolkit's parse of the reference octets compared with the reference reading; plus one "
                 "evaluation per datagram of the mutation neighbourhood (every header octet, first/last burst octet and last octet "
                 "to each of the 255 other values, truncation by 1..3, every prefix up to header+1, extension by 1..3 octets of "
                 "00/7f/ff) of the reference encodings of the base messages at %s: parse result compared with the reference reading "
                 "when accepted (mut_* counters). distinct_nontrivial counts only the distinct enumerated cases whose octets were "
                 "produced and compared (case key = all message fields + burst pattern + legacy flag); mutated datagrams differ from "
                 "their base by construction and are counted separately, duplicates across bases not removed. History (hist_* counters): "
                 "every datagram of both decoder legs, plus per visited case/base its header-only truncation, a NOPE.ind or "
                 "other-version header and a same-kind datagram of another burst length (after every case of base chunks, every 8th case "
                 "of burst-pattern chunks, every 32nd case of sweeps, every mutation base and between mutation groups; of the same-shape datagrams of a sweep every "
                 "8th, of an all-FN sweep every 32nd), is also parsed into ONE long-lived TxMsg / "
                 "RxMsg per work item and compared with the reference reading whenever accepted. In-place edits (hist_inplace_*): at "
                 "every case of a base chunk, every 64th of a burst-pattern chunk and every 256th of a sweep one message object encodes, "
                 "is edited in place (burst element first/middle/last, burst slice-assigned, fn, tn, pwr/rssi, toa256, ci, tsc, tsc_set) "
                 "and re-encodes after each edit: octets must equal the reference octets of the edited content; a used decoder object "
                 "parses, re-encodes, gets its parsed burst and fn edited in place and re-encodes likewise. Interop leg: %s; "
                 "rx = the base / sweep / burst-pattern cases of the rx v0 points with not-carried fields None (legacy off/on, TN; "
                 "in quick the ToA sweep at TN 0 only - with legacy on at the mid base point only -, in thorough the all-FN sweep with legacy off only) encoded by the toolkit and decoded by trxcon's trx_data_rx_cb, tx = the cases "
                 "of the tx v0 points without legacy padding (FN over the boundary set) given to trx_if_handle_phyif_burst_req and parsed back by TxMsg "
                 "(interop_* counters)."
                 % ("every tx / rx v0 / rx v1 NOPE point and every rx v1 burst point (3 base points each; version-1 points with "
                    "legacy on have the same octets as with legacy off and are left out)" if not ctx.quick else
                    "every tx / rx v0 / rx v1 NOPE point (3 base points) and the rx v1 burst points with TSC == TN (base point = "
                    "point index mod 3); version-1 points with legacy on have the same octets as with legacy off and are left out",
                    c.get("interop_leg")))
    c["exhaustive"] = not c.get("interop_vectors_not_run_after_repeated_deaths")
    ctx.assumptions += ["vlib/ref/trxd.py is the layout (written from the property statement / TRXD header description)",
                        "legacy padding of a version-0 datagram = two trailing zero octets, for Tx as well as Rx",
                        "joint products of wide fields are not enumerated (one wide field at a time at 3 base points)",
                        "decoder direction: single-octet mutation neighbourhood + length changes, not all byte strings"]


def _replay(ctx, case):
    e = env()
    leg = case.get("leg")
    if leg == "mut":
        st, r = check_reading(e, case["cls"], bytes.fromhex(case["data"]))
        for k, m in r:
            ctx.violation(k, case, m)
    elif leg == "inplace":
        for k, m in inplace_visit(e, case["case"])[1]:
            ctx.violation(k, case, m)
    elif leg == "enc-aliasing":
        for k, m, _ in replay_aliasing(e, case["msgs"]):
            ctx.violation(k, case, m)
    elif leg == "enc-aliasing-seq":
        R = EncRing()
        for i, (kind, cls, data, c) in enumerate(seq_chunk(e, case["chunk"])):
            r = []
            if kind.startswith("case"):
                ref, pr = check_enc(e, c)
                r = R.after_encode(e["last_buf"] if not pr else None, ref, c)
            elif kind in ("hdr-only", "v1-burst"):
                m2 = companion(c)
                ref2, pr = check_enc(e, m2)
                r = R.after_encode(e["last_buf"] if not pr else None, ref2, m2)
            if i == case["n"]:
                for k, m, _ in r:
                    ctx.violation(k, case, m)
                break
    elif leg == "history":
        hist = [bytes.fromhex(h) for h in case["history"]]
        for k, m in replay_history(e, case["cls"], hist):
            ctx.violation(k, case, m + " [object had parsed %s before]" % ", ".join(
                "%d octets (v%d)" % (len(d), d[0] >> 4 if d else -1) for d in hist[:-1]))
    elif leg == "history-seq":
        kind, spec = case["seq"]
        seq = seq_chunk(e, spec) if kind == "chunk" else seq_mut(e, spec)
        H = History(e)
        for i, (lab, cls, data, c) in enumerate(seq):
            if lab == "case-fresh-only":
                continue
            try:
                _, hr, hist = H.feed(cls, data)
            except Exception as ex:
                hr, hist = [unexpected("history", ex)], []
            if i == case["n"]:
                for k, m in hr:
                    ctx.violation(k, case, m + " [object had parsed %s before]" % ", ".join(
                        "%d octets (v%d)" % (len(d), d[0] >> 4 if d else -1) for d in hist[:-1]))
                break
    elif leg in ("interop-rx", "interop-tx"):
        from vlib import trxcon_drv, cbuild
        bdir = cbuild.builddir("c04r")
        try:
            d = trxcon_drv.Driver(trxcon_drv.build(bdir))
            c = case["case"]
            direction = leg[8:]
            if direction == "rx":
                r = _drv_batch(d, "rxdata", [_rx_vector(e, c)])[0]
            else:
                r = _drv_batch(d, "txdata", [_tx_vector(c)])[0]
            out = interop_verdict(e, direction, c, r)[1]
            close = getattr(d, "close", None)
            if close:
                close()
        finally:
            cbuild.cleanup(bdir)
        for k, m in out:
            ctx.violation(k, case, m)
    else:
        for k, m in check_case(e, case):
            ctx.violation(k, case, m)


def replay(ctx, case):
    leg = case.get("leg", "case")
    try:
        _replay(ctx, case)
    except Exception as ex:
        k, m = unexpected({"history-seq": "history", "enc-aliasing-seq": "enc-aliasing"}.get(leg, leg), ex)
        ctx.violation(k, case, m)

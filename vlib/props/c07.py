"""C07 - frequency hopping follows 3GPP TS 45.002 6.2.3 in simulator and firmware.

Complete enumeration of a finite domain, three implementations side by side:

  spec      vlib.ref.hopping (Python) and an independent transcription inside the C driver
  firmware  rfch_get_params() of the tree's layer1/rfch.c with a hopping dedicated channel in `l1s`
            (static rfch_hop_seq_gen / pow_nbin_mask / rn_table are reached through it), GSM time
            from the tree's gsm_fn2gsmtime
  python    HoppingParams(hsn, maio, ma).resolve(fn) of trx_toolkit/gsm_shared.py, and the
            transceiver's per-frame use of it (SETFH handler -> enable_fh -> get_rx_freq/get_tx_freq)

The mobile allocation always consists of N *distinct* channel numbers, so the index that was
selected is observable.

Spaces (see DESIGN.md C07):
  firmware, both tiers   all HSN 0..63 x N 1..64 x MAIO {0,1,N-1,63} x FN {0..84863 (complete T1R
                         cycle), last superframe of the hyperframe}; HSN 0 additionally with all
                         MAIO 0..63 x boundary FN set
  python, both tiers     reduced space (x = HSN xor T1R, T2, T3, N, MAIO set): 64 x 1326 x 64 x |MAIO|;
                         here python, spec and the firmware's real output are compared three ways
  python, quick          full space for N in {1,2,3,5,8,37,63,64}, all HSN 1..63, MAIO {0,63}, compared with
                         the spec directly and with the real code's own result at the reduced representative
  python, thorough       the same for all N 1..64 and the whole MAIO set (= the full unreduced space)
  python HSN 0           all MAIO x N x boundary FN set (three ways)
  transceiver            N 1..64 x HSN {0,1,5,37,63} x MAIO {0,N-1} x one superframe + boundaries,
                         rx and tx of the selected pair; SETFH repeated on an already hopping transceiver
                         (every change of the bit length of N, both directions, HSN 0 / != 0) and
                         SETFH / POWEROFF / SETFH, then a complete T2 x T3 cycle + every T1R
"""
import array
import importlib
import json
import os
import re
import sys

from vlib import cbuild
from vlib.errors import HarnessError
from vlib.ref import hopping

LEVEL = "exploration"
HYPER = 2715648
SUPER = 1326
RED_N = (1, 2, 3, 5, 8, 37, 63, 64)
FULL_FNS = list(range(64 * SUPER)) + list(range(HYPER - SUPER, HYPER))
TRX_HSN = (0, 1, 5, 37, 63)
# order-independence ("history") pass: FN fixed in the outer loop, every configuration in the inner loops
HIST_FIX = [0, 1, 2, 25, 26, 50, 51, 52, 1325, 1326, 1327, 84863, 84864, 84865, 65535, 65536, 65537, 1048575, 1048576,
            HYPER // 2, HYPER - 1327, HYPER - 1326, HYPER - 2, HYPER - 1] \
    + [t1 * SUPER + r for t1 in (64, 65, 127, 128, 192, 256, 512, 1024, 1536) for r in (0, 700, 1325)]   # T1 beyond the T1R cycle
HIST_FNS = HIST_FIX + [(i * 283 + 17) % (64 * SUPER) for i in range(300)]      # the driver's list (`hist`)
HIST_FNS_PY = HIST_FIX + [(i * 283 + 17) % (64 * SUPER) for i in range(0, 300, 3)]
HIST_BASES = (512, 700)
FLAVOURS = ("512+p", "700+p", "ARFCN_PCS|(512+p)", "ARFCN_UPLINK|(512+p)", "ARFCN_PCS|ARFCN_UPLINK|(512+p)",
            "0xffff,0x8000,0x7fff,0x4000,0xc000,0x0000,0x8001,0xfffe,0xf100+p")     # MA contents in drv_c07.c ma_val()
_exe = None


def ma_val(i, base=512):
    return base + (29 * i + 7) % 64


def make_ma(n, base=512):
    return [ma_val(i, base) for i in range(n)]


def maio_set(n):
    out = []
    for m in (0, 1, n - 1, 63):
        if m not in out:
            out.append(m)
    return out


def rep(x):
    """Representative (hsn, T1) of x = HSN xor T1R (the same formula as in drv_c07.c `red`)."""
    h = 1 + (5 * x + 3) % 63
    return h, (h ^ x) + 64 * ((7 * x) % 32)


def hsn0_fns(n):
    s = list(range(0, 2 * n + 2)) + [HYPER - 1 - i for i in range(0, 2 * n + 2)]
    s += [1325, 1326, 1327, 84863, 84864, 65535, 65536, 65537, 1048575, 1048576, 2097151, 2097152,
          HYPER // 2, 2715647 - 1326, 2715647]
    return s


def _toolkit(fresh=False):
    """gsm_shared of the tree.  fresh=True (every worker task): the module is re-executed, so that
    class-/module-level state left behind by earlier tasks of the same worker process is gone and a
    task's outcome is a function of its own call sequence only (deterministic for every VERIF_SEED,
    reproducible in a fresh replay process)."""
    from vlib import world
    if world.TOOLKIT not in sys.path:
        sys.path.insert(0, world.TOOLKIT)
    import gsm_shared
    if fresh:
        importlib.reload(gsm_shared)
    return gsm_shared


def _with_task(res, task):
    for v in res.get("viol", []):
        if isinstance(v[1], dict) and str(v[1].get("impl", "")).startswith(("python", "transceiver")):
            v[1].setdefault("task", task)
    return res


# ---------------------------------------------------------------------------------------------
# order independence, leg 1: a fixed call sequence, run first in the parent process

SEQ_OBJECTS = ((0, 3, 37), (5, 1, 37), (63, 0, 37), (17, 4, 5))        # (hsn, maio, N)


def _seq_fns():
    """Frame numbers of the fixed call sequence: hyperframe wrap, steps back over superframe boundaries,
    two interleaved streams a few frames apart crossing a boundary, descending runs, LCG jumps."""
    seq = [HYPER - 2, HYPER - 1, 0, 1, HYPER - 1, 0, 2, HYPER - 3]
    for k in (1, 2, 63, 64, 1024, 2047):
        b = k * SUPER
        seq += [b + 1, b, b - 1, b - 2, b, b + SUPER - 1, b - 1, b + SUPER, b, b - SUPER, b + 1]
        for i in range(-5, 6):
            seq += [b + i, b + i - 4]
    seq += list(range(2 * SUPER + 4, SUPER - 4, -1))
    seq += list(range(HYPER - 1, HYPER - SUPER - 9, -5))
    seq += list(range(65 * SUPER, 0, -SUPER + 1))
    x = 20261003
    for _ in range(2500):
        x = (x * 1103515245 + 12345) % (1 << 31)
        seq.append(x % HYPER)
    return [fn % HYPER for fn in seq]


def _seq_calls():
    """[(object index, fn)]: every object is asked for every fn, the starting object rotates"""
    calls = []
    for i, fn in enumerate(_seq_fns()):
        for j in range(len(SEQ_OBJECTS)):
            calls.append(((i + j) % len(SEQ_OBJECTS), fn))
    return calls


def _seq_leg(upto=None):
    """Runs the sequence from process start (nothing has called the toolkit before).
    -> (number of calls, [(index, hsn, maio, n, fn, previous call, got, want MAI)])"""
    gs = _toolkit()
    objs = [(h, m, n, make_ma(n), gs.HoppingParams(h, m, make_ma(n))) for h, m, n in SEQ_OBJECTS]
    calls = _seq_calls()
    if upto is not None:
        calls = calls[:upto + 1]
    bad = []
    for i, (k, fn) in enumerate(calls):
        h, m, n, ma, hp = objs[k]
        want = hopping.mai(h, m, n, fn)
        try:
            got = hp.resolve(fn)
        except Exception as e:
            got = repr(e)
        if got != ma[want]:
            bad.append((i, h, m, n, fn, calls[i - 1] if i else None, got, want))
    return len(calls), bad


def _seq_key(h, n):
    return "C07:python:history:sequence:hsn%s:N=%d" % ("=0" if h == 0 else "!=0", n)


def _seq_msg(b):
    i, h, m, n, fn, prev, got, want = b
    ma = make_ma(n)
    return ("call %d of the fixed sequence: HoppingParams(hsn=%d, maio=%d, ma=<%d distinct channels>).resolve(%d) = %r (MA index %r) "
            "after %s; TS 45.002 6.2.3 gives MAI=%d -> channel %d whatever was asked before"
            % (i, h, m, n, fn, got, _idx(ma, got),
               "the call for (hsn, maio, N)=%r fn=%d" % (SEQ_OBJECTS[prev[0]], prev[1]) if prev else "no other call", want, ma[want]))


def _build(name):
    b = cbuild.builddir(name)
    exe = cbuild.compile(b, "drv_c07", [os.path.join(cbuild.CSRC, "drv_c07.c"),
                                        os.path.join(cbuild.FW, "layer1/rfch.c"),
                                        os.path.join(cbuild.LIBOSMO, "src/gsm/gsm_utils.c")],
                         cbuild.firmware_flags(b), opt="-O2")
    return b, exe


def _san(err):
    """Deterministic digest of a sanitizer report (addresses, pids and shadow dumps vary per run)."""
    keep = [l.strip() for l in err.splitlines()
            if re.search(r"ERROR: AddressSanitizer|runtime error|is located|SUMMARY|^\s*#[0-3] ", l)]
    txt = " | ".join(keep[:8]) if keep else err.strip()[-300:]
    txt = re.sub(r"0x[0-9a-fA-F]+", "0x..", txt)
    txt = re.sub(r"==\d+==", "", txt)
    txt = re.sub(r"/build/[A-Za-z0-9_]+\.\d+/", "/build/../", txt)
    return re.sub(r"\(BuildId: [0-9a-f]+\)", "", txt)


def _idx(ma, v):
    try:
        return ma.index(v)
    except ValueError:
        return None


def _pykey(hsn, n):
    return "C07:python:hsn%s:N=%d" % ("=0" if hsn == 0 else "!=0", n)


def _fwkey(hsn, n):
    return "C07:firmware:hsn%s:N=%d" % ("=0" if hsn == 0 else "!=0", n)


def _pymsg(hsn, maio, n, fn, got, want, fw=None):
    ma = make_ma(n)
    t1, t2, t3, _ = hopping.gsm_time(fn)
    s = "HoppingParams(hsn=%d, maio=%d, ma=<%d distinct channels>).resolve(fn=%d [T1=%d T2=%d T3=%d]) = %r (MA index %r); " \
        "TS 45.002 6.2.3 gives MAI=%d -> channel %d" % (hsn, maio, n, fn, t1, t2, t3, got, _idx(ma, got), want, ma[want])
    if fw is not None:
        s += "; firmware rfch_get_params gives channel %d (MA index %r)" % (fw, _idx(ma, fw))
    return s


# ---------------------------------------------------------------------------------------------
# workers

def _fw_run(args):
    rc, out, err = cbuild.run(_exe, args)
    return rc, out.decode(), (_san(err.decode()) if rc not in (0, 1) else "")


def _py_red(n):
    """Reduced space for one N: python vs spec vs firmware output."""
    return _with_task(_py_red_(n), ["red", n])


def _py_red_(n):
    gs = _toolkit(fresh=True)
    rc, out, err = cbuild.run(_exe, ["red", n])
    if rc != 0 or len(out) != 64 * SUPER * 4 * 2:
        return {"crash": (["red", n], rc, _san(err.decode()))}
    ma = make_ma(n)
    fwall = array.array("H")
    fwall.frombytes(out)
    if sys.byteorder != "little":
        fwall.byteswap()
    res = {"cov": {"python_reduced": 0, "python_vs_firmware_compared": 0, "python_wrap_branch": 0,
                   "python_direct_branch": 0, "py_mismatch_by_N": {}}, "viol": [], "nviol_extra": 0, "seen": set()}
    cov = res["cov"]
    p = 2 ** n.bit_length()
    slots = [0, 1, n - 1, 63]
    for maio in maio_set(n):
        k = slots.index(maio)
        for x in range(64):
            h, t1 = rep(x)
            hp = gs.HoppingParams(h, maio, ma)
            fns = range(t1 * SUPER, (t1 + 1) * SUPER)
            try:
                got = list(map(hp.resolve, fns))
            except Exception as e:
                res["viol"].append(("C07:python:exception:N=%d" % n, {"impl": "python", "hsn": h, "maio": maio, "n": n, "fn": fns[0], "scan": SUPER},
                                    "resolve raised %r for hsn=%d maio=%d N=%d fn in %d..%d" % (e, h, maio, n, fns[0], fns[-1])))
                continue
            want = [hopping.mai(h, maio, n, fn) for fn in fns]
            exp = [ma[w] for w in want]
            base = x * SUPER * 4 + k
            fw = fwall[base:base + 4 * SUPER:4].tolist()
            cov["python_reduced"] += SUPER
            cov["python_vs_firmware_compared"] += SUPER
            if maio == 0:
                nw = sum(1 for fn in fns if (fn % 26 + hopping.RNTABLE[x + fn % 51]) % p >= n)
                cov["python_wrap_branch"] += nw
                cov["python_direct_branch"] += SUPER - nw
            res["seen"].update((n, w) for w in set(want))
            if got != exp:
                bad = [i for i in range(SUPER) if got[i] != exp[i]]
                d = cov["py_mismatch_by_N"]
                d[str(n)] = d.get(str(n), 0) + len(bad)
                i = bad[0]
                res["viol"].append((_pykey(h, n), {"impl": "python", "hsn": h, "maio": maio, "n": n, "fn": fns[i]},
                                    _pymsg(h, maio, n, fns[i], got[i], want[i], fw[i])))
                res["nviol_extra"] += len(bad) - 1
            if fw != exp:
                bad = [i for i in range(SUPER) if fw[i] != exp[i]]
                i = bad[0]
                res["viol"].append((_fwkey(h, n), {"impl": "firmware", "hsn": h, "maio": maio, "n": n, "fn": fns[i]},
                                    "rfch_get_params(hsn=%d maio=%d N=%d fn=%d) = channel %d (MA index %r); vlib.ref.hopping gives MAI=%d -> channel %d"
                                    % (h, maio, n, fns[i], fw[i], _idx(ma, fw[i]), want[i], exp[i])))
                res["nviol_extra"] += len(bad) - 1
    return res


def _py_full(arg):
    """Full (unreduced) space for one N and a block of HSN: python vs spec, and python vs python at
    the reduced representative (the reduction the quick tier relies on, checked on the real code)."""
    return _with_task(_py_full_(arg), ["full"] + list(arg))


def _py_full_(arg):
    n, hlo, hhi, maios = arg
    gs = _toolkit(fresh=True)
    ma = make_ma(n)
    res = {"cov": {"python_full": 0, "python_reduction_compared": 0, "py_mismatch_by_N": {}}, "viol": [], "nviol_extra": 0}
    cov = res["cov"]
    t1s = list(range(64)) + [HYPER // SUPER - 1]
    red = {}
    for maio in maios:
        for x in range(64):
            h, t1 = rep(x)
            hp = gs.HoppingParams(h, maio, ma)
            try:
                red[maio, x] = list(map(hp.resolve, range(t1 * SUPER, (t1 + 1) * SUPER)))
            except Exception as e:
                red[maio, x] = [repr(e)] * SUPER
    for hsn in range(hlo, hhi):
        # S of the specification (= MAI for MAIO 0, since S < N); MAI = (S + MAIO) mod N is then a
        # rotation of the channel list.  (The reference is called with every MAIO itself on the
        # reduced space and on the HSN 0 set.)
        s0 = [hopping.mai(hsn, 0, n, fn) for fn in FULL_FNS]
        for maio in maios:
            hp = gs.HoppingParams(hsn, maio, ma)
            rot = [ma[(i + maio) % n] for i in range(n)]
            try:
                got = list(map(hp.resolve, FULL_FNS))
            except Exception as e:
                res["viol"].append(("C07:python:exception:N=%d" % n, {"impl": "python", "hsn": hsn, "maio": maio, "n": n, "fn": 0, "scan": len(FULL_FNS)},
                                    "resolve raised %r for hsn=%d maio=%d N=%d" % (e, hsn, maio, n)))
                continue
            exp = list(map(rot.__getitem__, s0))
            cov["python_full"] += len(FULL_FNS)
            if got != exp:
                bad = [i for i in range(len(FULL_FNS)) if got[i] != exp[i]]
                d = cov["py_mismatch_by_N"]
                d[str(n)] = d.get(str(n), 0) + len(bad)
                i = bad[0]
                res["viol"].append((_pykey(hsn, n), {"impl": "python", "hsn": hsn, "maio": maio, "n": n, "fn": FULL_FNS[i]},
                                    _pymsg(hsn, maio, n, FULL_FNS[i], got[i], hopping.mai(hsn, maio, n, FULL_FNS[i]))))
                res["nviol_extra"] += len(bad) - 1
            viared = []
            for t1 in t1s:
                viared += red[maio, hsn ^ (t1 & 63)]
            cov["python_reduction_compared"] += len(viared)
            if got != viared:
                i = [j for j in range(len(got)) if got[j] != viared[j]][0]
                fn = FULL_FNS[i]
                x = hsn ^ ((fn // SUPER) & 63)
                h2, t12 = rep(x)
                res["viol"].append(("C07:python:reduction:N=%d" % n,
                                    {"impl": "python-reduction", "hsn": hsn, "maio": maio, "n": n, "fn": fn},
                                    "resolve(hsn=%d, maio=%d, N=%d, fn=%d) = %r but (hsn=%d, fn=%d) with the same HSN xor T1R=%d, T2, T3 gives %r"
                                    % (hsn, maio, n, fn, got[i], h2, t12 * SUPER + fn % SUPER, x, viared[i])))
    return res


def _py_hsn0(n):
    return _with_task(_py_hsn0_(n), ["hsn0", n])


def _py_hsn0_(n):
    gs = _toolkit(fresh=True)
    ma = make_ma(n)
    fns = hsn0_fns(n)
    res = {"cov": {"python_hsn0": 0, "python_vs_firmware_compared": 0}, "viol": [], "nviol_extra": 0, "seen": set()}
    vec = "".join("0 %d %d %d\n" % (maio, n, fn) for maio in range(64) for fn in fns)
    rc, out, err = cbuild.run(_exe, ["vec"], stdin=vec.encode())
    fwl = [int(l.split()[0][3:]) for l in out.decode().splitlines() if l.startswith("fw=")]
    if rc != 0 or len(fwl) != 64 * len(fns):
        return {"crash": (["hsn0"], rc, _san(err.decode()))}
    o = 0
    for maio in range(64):
        hp = gs.HoppingParams(0, maio, ma)
        for fn in fns:
            want = hopping.mai(0, maio, n, fn)
            fw = fwl[o]
            o += 1
            res["cov"]["python_hsn0"] += 1
            res["cov"]["python_vs_firmware_compared"] += 1
            res["seen"].add((n, want))
            try:
                got = hp.resolve(fn)
            except Exception as e:
                got = repr(e)
            if got != ma[want]:
                res["viol"].append((_pykey(0, n), {"impl": "python", "hsn": 0, "maio": maio, "n": n, "fn": fn},
                                    _pymsg(0, maio, n, fn, got, want, fw)))
            if fw != ma[want]:
                res["viol"].append((_fwkey(0, n), {"impl": "firmware", "hsn": 0, "maio": maio, "n": n, "fn": fn},
                                    "rfch_get_params(hsn=0 maio=%d N=%d fn=%d) = channel %d; vlib.ref.hopping gives MAI=%d -> channel %d"
                                    % (maio, n, fn, fw, want, ma[want])))
    return res


def _py_hist(fns):
    """Order independence on the Python side: for a fixed FN, HoppingParams objects of *all*
    configurations (two MA contents per (hsn, N, maio)) are resolved one after the other, every
    fifth one twice in a row; each result must be the spec value for that object's own parameters."""
    gs = _toolkit(fresh=True)
    fns = list(fns)
    _hist_objs = []
    if True:
        for hsn in range(64):
            for n in range(1, 65):
                for maio in maio_set(n):
                    for base in HIST_BASES:
                        ma = make_ma(n, base)
                        _hist_objs.append((hsn, maio, n, base, ma, gs.HoppingParams(hsn, maio, ma)))
    res = {"cov": {"python_history_calls": 0, "python_history_fns": 0}, "viol": [], "nviol_extra": 0}
    for fn in fns:
        res["cov"]["python_history_fns"] += 1
        got = []
        for k, o in enumerate(_hist_objs):
            try:
                g = o[5].resolve(fn)
                if k % 5 == 0:
                    g2 = o[5].resolve(fn)
                    res["cov"]["python_history_calls"] += 1
                    if g2 != g:
                        g = ("first call", g, "second call", g2)
            except Exception as e:
                g = repr(e)
            got.append(g)
        res["cov"]["python_history_calls"] += len(got)
        exp = [o[4][hopping.mai(o[0], o[1], o[2], fn)] for o in _hist_objs]
        if got != exp:
            bad = [i for i in range(len(got)) if got[i] != exp[i]]
            res["nviol_extra"] += len(bad)
            seen = set()
            for i in bad:
                hsn, maio, n, base, ma, _ = _hist_objs[i]
                key = "C07:python:history:hsn%s:N=%d" % ("=0" if hsn == 0 else "!=0", n)
                if key in seen:
                    continue
                seen.add(key)
                res["nviol_extra"] -= 1
                prev = _hist_objs[i - 1][:4] if i else None
                res["viol"].append((key, {"impl": "python-history", "fn": fn, "fns": fns[:fns.index(fn) + 1]},
                                    "with FN=%d fixed and objects of all configurations resolved in turn, "
                                    "HoppingParams(hsn=%d, maio=%d, ma=<%d channels from %d>).resolve(%d) = %r (previous object: hsn/maio/N/base %r); "
                                    "TS 45.002 6.2.3 gives MAI=%d -> channel %d"
                                    % (fn, hsn, maio, n, base, fn, got[i], prev, hopping.mai(hsn, maio, n, fn), exp[i])))
    return res


def _pairs(n):
    """N (rx, tx) pairs in kHz: all rx distinct, all tx distinct, no rx value is a tx value."""
    return [(935000 + 200 * (ma_val(i) - 512), 890000 + 200 * (ma_val((5 * i + 3) % 64) - 512)) for i in range(n)]


def _trx_fns(n):
    return list(range(17 * SUPER, 18 * SUPER)) + hsn0_fns(n)[-19:] + list(range(0, n + 1))


def _trx_one(trx, hsn, maio, n, fns, res):
    pk = _pairs(n)
    ma = [(rx * 1000, tx * 1000) for rx, tx in pk]
    req = ["SETFH", str(hsn), str(maio)]
    for rx, tx in pk:
        req += [str(rx), str(tx)]
    trx.disable_fh()
    rc = trx.ctrl_if.parse_cmd(req)
    case = {"impl": "transceiver", "hsn": hsn, "maio": maio, "n": n, "fn": fns[0]}
    if rc != 0 or trx.fh is None:
        res["viol"].append(("C07:transceiver:setfh-rejected:N=%d" % n, case,
                            "SETFH %d %d with %d channel pairs -> rc=%r, hopping %s" % (hsn, maio, n, rc, "on" if trx.fh else "off")))
        return
    for fn in fns:
        want = hopping.mai(hsn, maio, n, fn)
        try:
            rx, tx = trx.get_rx_freq(fn), trx.get_tx_freq(fn)
        except Exception as e:
            rx = tx = repr(e)
        res["cov"]["transceiver_lookups"] += 2
        res["seen_pairs"].add((n, want))
        if (rx, tx) == ma[want]:
            continue
        case = {"impl": "transceiver", "hsn": hsn, "maio": maio, "n": n, "fn": fn}
        try:
            raw = trx.fh.resolve(fn)
        except Exception as e:
            raw = repr(e)
        if (rx, tx) == raw and raw in ma:
            # pair selection is right, the index is not: same class as the resolve() defect
            res["viol"].append((_pykey(hsn, n), case,
                                "transceiver after SETFH hsn=%d maio=%d N=%d: get_rx_freq/get_tx_freq(fn=%d) = %r = MA[%d]; TS 45.002 6.2.3 gives MAI=%d -> %r"
                                % (hsn, maio, n, fn, (rx, tx), ma.index(raw), want, ma[want])))
        else:
            res["viol"].append(("C07:transceiver:rx-tx-pair", case,
                                "transceiver after SETFH hsn=%d maio=%d N=%d: get_rx_freq(fn=%d)=%r get_tx_freq=%r; expected the (rx, tx) pair MA[%d] = %r (resolve() returned %r)"
                                % (hsn, maio, n, fn, rx, tx, want, ma[want], raw)))


# ---- transceiver: SETFH repeated on a transceiver that is already hopping ---------------------
RE_N = (1, 2, 3, 5, 12, 21, 37, 64)            # every bit length 1..7 (2 and 3 share one)
RE_PAIRS = [(a, b) for a in RE_N for b in RE_N]  # every change of bit length in both directions, and none
RE_HSN = ((17, 0), (17, 5), (0, 63), (63, 63))   # (HSN of the first, HSN of the second SETFH)


def _pairs2(n):
    """other MA contents than _pairs(): a stale allocation is visible"""
    return [(925200 + 200 * (ma_val((3 * i + 1) % 64) - 512), 880200 + 200 * (ma_val((7 * i + 5) % 64) - 512)) for i in range(n)]


def _re_fns():
    f = list(range(29 * SUPER, 30 * SUPER))                                  # one complete T2 x T3 cycle
    f += [t1 * SUPER + (t1 * 37) % SUPER for t1 in range(64)]                 # every T1R
    f += [HYPER - 2, HYPER - 1, 0, 1, 1325, 1326, 64 * SUPER, 127 * SUPER + 5, 1024 * SUPER + 700]
    return f


def _setfh(trx, hsn, maio, pk):
    req = ["SETFH", str(hsn), str(maio)]
    for rx, tx in pk:
        req += [str(rx), str(tx)]
    return trx.ctrl_if.parse_cmd(req)


def _re_scenario(transceiver, n1, n2, hsn1, hsn2, poweroff, res):
    """SETFH #1, a few lookups, [POWEROFF,] SETFH #2 on the same transceiver, then a complete FN set"""
    from vlib import world
    world.new_fabric()
    trx = transceiver.Transceiver("127.0.0.1", "127.0.0.1", 5700)
    maio1, maio2 = min(2, n1 - 1), min(1, n2 - 1)
    pk1, pk2 = _pairs(n1), _pairs2(n2)
    ma1 = [(rx * 1000, tx * 1000) for rx, tx in pk1]
    ma2 = [(rx * 1000, tx * 1000) for rx, tx in pk2]
    case = {"impl": "transceiver-resetfh", "n1": n1, "n2": n2, "hsn1": hsn1, "hsn2": hsn2, "poweroff": poweroff}
    what = "SETFH hsn=%d maio=%d N=%d%s, SETFH hsn=%d maio=%d N=%d on the same transceiver" % (
        hsn1, maio1, n1, ", POWEROFF" if poweroff else " (no POWEROFF)", hsn2, maio2, n2)
    kind = "setfh-poweroff-setfh" if poweroff else "re-setfh"
    cls = "nbin=%d->%d:hsn%s" % (n1.bit_length(), n2.bit_length(), "=0" if hsn2 == 0 else "!=0")
    res["cov"]["transceiver_resetfh_scenarios"] += 1
    try:
        rc1 = _setfh(trx, hsn1, maio1, pk1)
        for fn in (0, 1, 51, 1326, 84863):
            want = hopping.mai(hsn1, maio1, n1, fn)
            got = (trx.get_rx_freq(fn), trx.get_tx_freq(fn))
            res["cov"]["transceiver_resetfh_lookups"] += 2
            if got != ma1[want]:
                res["viol"].append((_pykey(hsn1, n1), dict(case, fn=fn),
                                    "%s: after the first SETFH get_rx/tx_freq(%d) = %r, TS 45.002 6.2.3 gives MAI=%d -> %r" % (what, fn, got, want, ma1[want])))
                return
        rc0 = trx.ctrl_if.parse_cmd(["POWEROFF"]) if poweroff else 0
        rc2 = _setfh(trx, hsn2, maio2, pk2)
    except Exception as e:
        res["viol"].append(("C07:transceiver:%s:exception" % kind, case, "%s raised %r" % (what, e)))
        return
    if rc1 != 0 or rc0 != 0 or rc2 != 0 or trx.fh is None:
        res["viol"].append(("C07:transceiver:%s:rejected" % kind, case,
                            "%s -> rc %r / %r / %r, hopping %s" % (what, rc1, rc0, rc2, "on" if trx.fh else "off")))
        return
    for fn in _re_fns():
        want = hopping.mai(hsn2, maio2, n2, fn)
        try:
            got = (trx.get_rx_freq(fn), trx.get_tx_freq(fn))
        except Exception as e:
            got = repr(e)
        res["cov"]["transceiver_resetfh_lookups"] += 2
        if got != ma2[want]:
            idx = ma2.index(got) if got in ma2 else ("first allocation[%d]" % ma1.index(got) if got in ma1 else None)
            res["viol"].append(("C07:transceiver:%s:%s" % (kind, cls), dict(case, fn=fn),
                                "%s: get_rx_freq/get_tx_freq(fn=%d) = %r (MA index %r); the second SETFH alone determines the sequence: "
                                "TS 45.002 6.2.3 gives MAI=%d -> %r" % (what, fn, got, idx, want, ma2[want])))
            return


def _py_trx_re(chunk):
    from vlib import world
    world.install()
    _toolkit(fresh=True)
    import transceiver
    importlib.reload(transceiver)
    res = {"cov": {"transceiver_resetfh_scenarios": 0, "transceiver_resetfh_lookups": 0}, "viol": []}
    for n1, n2 in chunk:
        for hsn1, hsn2 in RE_HSN:
            _re_scenario(transceiver, n1, n2, hsn1, hsn2, False, res)
        _re_scenario(transceiver, n1, n2, 17, 5, True, res)
    return res


def _py_trx(n):
    from vlib import world
    world.install()
    _toolkit(fresh=True)
    import transceiver
    importlib.reload(transceiver)          # picks up the re-executed gsm_shared
    world.new_fabric()
    trx = transceiver.Transceiver("127.0.0.1", "127.0.0.1", 5700)
    res = {"cov": {"transceiver_lookups": 0}, "viol": [], "seen_pairs": set()}
    fns = _trx_fns(n)
    for hsn in TRX_HSN:
        for maio in sorted({0, n - 1}):
            _trx_one(trx, hsn, maio, n, fns, res)
    return _with_task(res, ["trx", n])


# ---------------------------------------------------------------------------------------------

def _take_fw(ctx, what, rc, out, err, tot, seen):
    js = None
    for line in out.splitlines():
        if line.startswith("V "):
            f = dict(p.split("=") for p in line.split()[1:])
            hsn, maio, n, fn = int(f["hsn"]), int(f["maio"]), int(f["n"]), int(f["fn"])
            fl = int(f.get("flavour", 0))
            ctx.violation(_fwkey(hsn, n), {"impl": "firmware", "hsn": hsn, "maio": maio, "n": n, "fn": fn, "flavour": fl, "slice": what},
                          "rfch_get_params(hsn=%d maio=%d N=%d fn=%d, MA contents %s) = channel 0x%04x (MA index %s); "
                          "TS 45.002 6.2.3 gives MAI=%s -> channel 0x%04x (M'>=N branch: %s)"
                          % (hsn, maio, n, fn, FLAVOURS[fl], int(f["fw"]), f["fwidx"], f["spec"], int(f["want"]), f["wrapped"]))
        elif line.startswith("{"):
            js = json.loads(line)
    if js is None:
        case, where = {"impl": "firmware-run", "args": what}, ""
        marks = [l for l in out.splitlines() if l.startswith("P ")]
        if marks and _exe:
            # narrow the death down to one input: replay the last configuration FN by FN
            f = dict(p.split("=") for p in marks[-1].split()[1:])
            hsn, n, maio = int(f["hsn"]), int(f["n"]), int(f["maio"])
            fl = int(f.get("flavour", 0))
            vec = "".join("%d %d %d %d %d\n" % (hsn, maio, n, fn, fl) for fn in FULL_FNS)
            rc2, out2, _ = cbuild.run(_exe, ["vec"], stdin=vec.encode())
            last = [l for l in out2.decode().splitlines() if l.startswith("case ")]
            if rc2 not in (0, 1) and last:
                g = dict(p.split("=") for p in last[-1].split()[1:])
                case = {"impl": "firmware", "hsn": hsn, "maio": maio, "n": n, "fn": int(g["fn"]), "flavour": fl}
                where = " at hsn=%d maio=%d N=%d fn=%d" % (hsn, maio, n, case["fn"])
        ctx.violation("C07:firmware:crash", case,
                      "driver died (rc=%d) in `%s`%s: %s" % (rc, " ".join(map(str, what)), where, _san(err)))
        return
    for k in ("evaluations", "nontrivial", "direct", "wrapped", "cyclic"):
        tot[k] = tot.get(k, 0) + js[k]
    tot["flavours"] = [a + b for a, b in zip(tot.get("flavours", [0] * len(FLAVOURS)), js["flavours"])]
    sf = tot.setdefault("seen_by_flavour", [set() for _ in FLAVOURS])
    for i, hx in enumerate(js["seen_by_flavour"]):
        v = int(hx, 16)
        sf[i // 64].update((i % 64 + 1, b) for b in range(64) if v >> b & 1)
    ctx.n_violations += max(0, js["violations"] - 20)
    for i, hx in enumerate(js["seen"]):
        v = int(hx, 16)
        seen.update((i + 1, b) for b in range(64) if v >> b & 1)


def _take_hist(ctx, what, rc, out, err, tot):
    js = None
    for line in out.splitlines():
        if line.startswith("H "):
            f = dict(p.split("=") for p in line.split()[1:])
            hsn, n, kind = int(f["hsn"]), int(f["n"]), f["kind"]
            cls = ("hsn%s:N=%d" % ("=0" if hsn == 0 else "!=0", n)) if kind in ("hop", "again") else kind
            exp = "TS 45.002 6.2.3 gives MAI=%s -> channel %s" % (f["spec"], f["want"]) if kind in ("hop", "again") else \
                "expected channel %s (%s)" % (f["want"], "h0.arfcn of the non-hopping dedicated channel" if kind == "nonhop"
                                               else "ARFCN of the serving cell, no dedicated channel")
            ctx.violation("C07:firmware:history:%s" % cls, {"impl": "firmware-history", "idx": int(f["idx"]), "lo": int(what[1])},
                          "with FN=%s fixed and the channel description changing between calls (%s), rfch_get_params with "
                          "hsn=%d maio=%s N=%d MA contents %s returns channel %s (MA index %s); %s - the result depends on the call history"
                          % (f["fn"], {"hop": "next hopping configuration", "again": "hopping again after non-hopping / idle",
                                       "nonhop": "non-hopping channel", "none": "no dedicated channel"}[kind],
                             hsn, f["maio"], n, FLAVOURS[int(f["flavour"])], f["fw"], f["fwidx"], exp))
        elif line.startswith("{"):
            js = json.loads(line)
    if js is None:
        marks = [l for l in out.splitlines() if l.startswith("P ")]
        ctx.violation("C07:firmware:crash", {"impl": "firmware-run", "args": what},
                      "driver died (rc=%d) in `%s` (last marker: %s): %s"
                      % (rc, " ".join(map(str, what)), marks[-1] if marks else "none", err))
        return
    for k in ("hist_fns", "hist_hopping", "hist_hopping_repeat", "hist_nonhopping", "hist_serving_cell"):
        tot[k] = tot.get(k, 0) + js[k]
    tot["hist_flavours"] = [a + b for a, b in zip(tot.get("hist_flavours", [0] * len(FLAVOURS)), js["hist_flavours"])]
    ctx.n_violations += max(0, js["violations"] - 20)


def _take_py(ctx, res, seen=None):
    if "crash" in res:
        what, rc, err = res["crash"]
        if rc in (98, 99) or rc < 0:
            # sanitizer report / signal inside the firmware code while producing comparison vectors
            ctx.violation("C07:firmware:crash", {"impl": "firmware-run", "args": what},
                          "driver died (rc=%d) in `%s`: %s" % (rc, " ".join(map(str, what)), err))
            return
        raise HarnessError("driver failed while producing comparison vectors (%s): rc=%r %s" % (what, rc, err))
    s = res.pop("seen", None)
    if s is not None and seen is not None:
        seen.update(s)
    ctx.merge(res)


def run(ctx):
    global _exe
    # order independence of the Python side, before anything else in this process touches the toolkit
    ncalls, seqbad = _seq_leg()
    ctx.cov["python_sequence_calls"] = ncalls
    ctx.cov["python_sequence_mismatches"] = len(seqbad)
    # a mismatch is history dependence only if the same call on a pristine (re-executed) module answers differently;
    # otherwise it is an ordinary wrong value, which the per-point sweep reports and a single-point replay reproduces
    done, nhist = set(), 0
    for bad in seqbad[:200]:
        i, h, m, n, fn, prev, got, want = bad
        try:
            alone = _toolkit(fresh=True).HoppingParams(h, m, make_ma(n)).resolve(fn)
        except Exception as e:
            alone = repr(e)
        if alone != got:
            nhist += 1
            key, case = _seq_key(h, n), {"impl": "python-sequence", "index": i}
            msg = _seq_msg(bad) + "; asked alone in a pristine module it answers %r" % (alone,)
        else:
            key, case = _pykey(h, n), {"impl": "python", "hsn": h, "maio": m, "n": n, "fn": fn}
            msg = _pymsg(h, m, n, fn, got, want)
        if key not in done:
            done.add(key)
            ctx.violation(key, case, msg)
    ctx.n_violations += max(0, len(seqbad) - len(done))
    ctx.cov["python_sequence_history_dependent"] = nhist
    py_sweep = nhist == 0       # per-point results of a history-dependent function would not replay
    ctx.cov["python_sweep_skipped_history_dependent"] = not py_sweep
    b, _exe = _build("c07")
    try:
        # -- firmware: full space inside the driver, one HSN per slice
        tot, fwseen = {}, set()
        slices = [["full", h, h + 1] for h in range(64)] + [["hsn0"]]
        for what, (rc, out, err) in zip(slices, ctx.pmap(_fw_run, slices)):
            _take_fw(ctx, what, rc, out, err, tot, fwseen)
        c = ctx.cov
        c["firmware_evaluations"] = tot.get("evaluations", 0)
        c["firmware_direct_branch"] = tot.get("direct", 0)
        c["firmware_wrap_branch"] = tot.get("wrapped", 0)
        c["firmware_cyclic"] = tot.get("cyclic", 0)
        c["firmware_distinct_n_mai"] = len(fwseen)
        c["firmware_calls_by_ma_contents"] = dict(zip(FLAVOURS, tot.get("flavours", [])))
        c["firmware_distinct_n_mai_by_ma_contents"] = dict(zip(FLAVOURS, [len(x) for x in tot.get("seen_by_flavour", [])]))
        fw_expected = 64 * sum(len(maio_set(n)) for n in range(1, 65)) * len(FULL_FNS) \
            + sum(64 * len(hsn0_fns(n)) for n in range(1, 65))

        # -- python: reduced space, three ways
        pyseen = set()
        for res in (ctx.pmap(_py_red, list(range(1, 65))) if py_sweep else []):
            _take_py(ctx, res, pyseen)
        # -- python: HSN 0
        for res in (ctx.pmap(_py_hsn0, list(range(1, 65))) if py_sweep else []):
            _take_py(ctx, res, pyseen)
        # -- python: full space (quick: the N of RED_N; thorough: every N)
        ns = RED_N if ctx.quick else tuple(range(1, 65))
        blk = 8 if ctx.quick else 16
        fm = {n: ([m for m in maio_set(n) if m in (0, 63)] if ctx.quick else maio_set(n)) for n in ns}
        items = [(n, lo, min(lo + blk, 64), fm[n]) for n in ns for lo in range(1, 64, blk)]
        for res in (ctx.pmap(_py_full, items) if py_sweep else []):
            _take_py(ctx, res)
        # -- transceiver: rx/tx pair selection
        trxseen = set()
        for res in (ctx.pmap(_py_trx, list(range(1, 65)), chunksize=4) if py_sweep else []):
            trxseen.update(res.pop("seen_pairs"))
            ctx.merge(res)
        # -- transceiver: SETFH repeated while hopping (no POWEROFF), and SETFH / POWEROFF / SETFH
        for res in (ctx.pmap(_py_trx_re, [RE_PAIRS[i:i + 4] for i in range(0, len(RE_PAIRS), 4)]) if py_sweep else []):
            ctx.merge(res)

        # -- order independence: FN outermost, all configurations (and non-hopping / idle settings) inside
        htot = {}
        nh = len(HIST_FNS)
        cuts = [nh * i // 32 for i in range(33)]
        hslices = [["hist", cuts[i], cuts[i + 1]] for i in range(32)]
        for what, (rc, out, err) in zip(hslices, ctx.pmap(_fw_run, hslices)):
            _take_hist(ctx, what, rc, out, err, htot)
        for res in (ctx.pmap(_py_hist, [HIST_FNS_PY[i:i + 4] for i in range(0, len(HIST_FNS_PY), 4)]) if py_sweep else []):
            ctx.merge(res)
        ncfg = 64 * sum(len(maio_set(n)) for n in range(1, 65)) * len(HIST_BASES)
        c["history_configurations_per_fn"] = ncfg
        c["firmware_history_fns"] = htot.get("hist_fns", 0)
        c["firmware_history_calls_by_ma_contents"] = dict(zip(FLAVOURS, htot.get("hist_flavours", [])))
        c["firmware_history_hopping_calls"] = htot.get("hist_hopping", 0) + htot.get("hist_hopping_repeat", 0)
        c["firmware_history_nonhopping_calls"] = htot.get("hist_nonhopping", 0)
        c["firmware_history_serving_cell_calls"] = htot.get("hist_serving_cell", 0)
        hist_ok = (htot.get("hist_fns", 0) == nh and htot.get("hist_hopping", 0) == nh * ncfg
                   and c.get("python_history_fns", 0) == len(HIST_FNS_PY)
                   and c.get("python_history_calls", 0) == len(HIST_FNS_PY) * (ncfg + (ncfg + 4) // 5))
        c["python_distinct_n_mai"] = len(pyseen)
        c["transceiver_distinct_n_mai"] = len(trxseen)
        c["distinct_n_mai_outcomes"] = len(fwseen | pyseen)
        c["python_full_N"] = list(ns)
        c["python_evaluations"] = c.get("python_reduced", 0) + c.get("python_hsn0", 0) + c.get("python_full", 0) \
            + c.get("transceiver_lookups", 0) + c.get("python_history_calls", 0) + c["python_sequence_calls"] \
            + c.get("transceiver_resetfh_lookups", 0)
        c["evaluations"] = c["firmware_evaluations"] + c["python_evaluations"] + c["firmware_history_hopping_calls"] \
            + c["firmware_history_nonhopping_calls"] + c["firmware_history_serving_cell_calls"]
        c["distinct_nontrivial"] = tot.get("nontrivial", 0)
        c["rule"] = ("every (HSN, MAIO, N, FN) tuple of the stated product is evaluated exactly once per implementation "
                     "(firmware inside the C driver, Python in 16 worker processes); a tuple is non-trivial when N >= 2, "
                     "i.e. more than one channel can be selected (distinct_nontrivial counts the firmware tuples with N >= 2; "
                     "*_wrap_branch counts those that take the M' >= N branch)")
        py_red_expected = sum(len(maio_set(n)) for n in range(1, 65)) * 64 * SUPER
        py_full_expected = sum(len(fm[n]) for n in ns) * 63 * len(FULL_FNS)
        c["exhaustive"] = bool(py_sweep and c["firmware_evaluations"] == fw_expected
                               and c.get("transceiver_resetfh_scenarios", 0) == len(RE_PAIRS) * (len(RE_HSN) + 1)
                               and c.get("python_reduced", 0) == py_red_expected
                               and c.get("python_full", 0) == py_full_expected and hist_ok
                               and all(v > 0 for v in tot.get("flavours", [0])) and all(v > 0 for v in htot.get("hist_flavours", [0])))
        c["bound"] = ("firmware: HSN 0..63 x N 1..64 x MAIO {0,1,N-1,63} x 86190 FN (T1 0..63 and T1 2047) + HSN 0 with MAIO 0..63; "
                      "history pass: %d FN (firmware) / %d FN (python) x all HSN x N x MAIO {0,1,N-1,63} x 2 MA contents with FN outermost; "
                      "python: reduced space complete, full space (HSN 1..63 x 86190 FN) for %s"
                      % (len(HIST_FNS), len(HIST_FNS_PY), "N 1..64 x MAIO {0,1,N-1,63}" if not ctx.quick else "N in %s x MAIO {0,63}" % (list(RED_N),)))
        ctx.sample({"hsn": 5, "maio": 0, "n": 3, "fn": 0, "spec_mai": hopping.mai(5, 0, 3, 0)})
        ctx.sample({"hsn": 63, "maio": 63, "n": 64, "fn": 2715647, "spec_mai": hopping.mai(63, 63, 64, 2715647)})
        ctx.sample({"hsn": 0, "maio": 63, "n": 37, "fn": 2715647, "spec_mai": hopping.mai(0, 63, 37, 2715647)})
        ctx.sample({"hsn": 17, "maio": 1, "n": 37, "fn": 84863, "spec_mai": hopping.mai(17, 1, 37, 84863)})
        ctx.assumptions += [
            "x86-64 host build of rfch.c / gsm_utils.c (the code exercised uses fixed-width and int arithmetic well inside 16 bits)",
            "firmware MA contents rotate through six sets of distinct 16-bit values incl. ARFCN_PCS/ARFCN_UPLINK flag bits and 0xffff/0x8000/0x7fff/0x0000; "
            "the serving-cell ARFCN (0xbeef; 900..999 in the history pass) and the poison beyond N (0xdead) are in none of them",
            "MAIO >= N is evaluated with the same formula ((S + MAIO) mod N); the firmware stores MAIO in a uint8",
            "firmware FN set: T1 0..63 (every T1R) and T1 2047; other T1 differ only in bits of T1 above T1R, which the spec discards",
            "the two spec transcriptions (C in the driver, Python in vlib.ref.hopping) are tied together by comparing the firmware's real output with the Python one on the reduced space",
        ]
    finally:
        cbuild.cleanup(b)


def _replay_task(ctx, case):
    """Fallback of a per-point replay that did not reproduce: the point's outcome depended on the calls
    made before it in its worker task.  Tasks start from a re-executed toolkit module, so re-running the
    whole task in this fresh process reproduces it."""
    global _exe
    t = case.get("task")
    if not t:
        return
    b = None
    try:
        if t[0] in ("red", "hsn0"):
            b, _exe = _build("c07rt")
        res = {"red": lambda: _py_red_(t[1]), "hsn0": lambda: _py_hsn0_(t[1]),
               "full": lambda: _py_full_(tuple(t[1:])), "trx": lambda: _py_trx(t[1])}[t[0]]()
        for v in res.get("viol", []):
            if str(v[1].get("impl", "")).startswith(("python", "transceiver")):
                ctx.violation(v[0], case, v[2] + " [seen when the whole worker task %r is re-run, not for this point alone]" % (t,))
    finally:
        if b:
            cbuild.cleanup(b)


def replay(ctx, case):
    global _exe
    impl = case["impl"]
    if impl == "python-sequence":
        _, bad = _seq_leg(case["index"])
        for x in bad:
            if x[0] == case["index"]:
                ctx.violation(_seq_key(x[1], x[3]), case, _seq_msg(x))
        return
    if impl in ("python", "python-reduction"):
        gs = _toolkit()
        hsn, maio, n = case["hsn"], case["maio"], case["n"]
        ma = make_ma(n)
        for fn in range(case["fn"], case["fn"] + case.get("scan", 1)):
            want = hopping.mai(hsn, maio, n, fn)
            try:
                got = gs.HoppingParams(hsn, maio, ma).resolve(fn)
            except Exception as e:
                ctx.violation("C07:python:exception:N=%d" % n, case, "resolve raised %r" % (e,))
                return
            if impl == "python-reduction":
                h2, t12 = rep(hsn ^ ((fn // SUPER) & 63))
                other = gs.HoppingParams(h2, maio, ma).resolve(t12 * SUPER + fn % SUPER)
                if other != got:
                    ctx.violation("C07:python:reduction:N=%d" % n, case, "resolve differs for equal (HSN xor T1R, T2, T3): %r vs %r" % (got, other))
            if got != ma[want]:
                ctx.violation(_pykey(hsn, n), case, _pymsg(hsn, maio, n, fn, got, want))
        if not ctx.violations:
            _replay_task(ctx, case)
        return
    if impl == "python-history":
        res = _py_hist(case.get("fns") or [case["fn"]])
        for v in res["viol"]:
            ctx.violation(*v)
        return
    if impl == "transceiver-resetfh":
        from vlib import world
        world.install()
        import transceiver
        res = {"cov": {"transceiver_resetfh_scenarios": 0, "transceiver_resetfh_lookups": 0}, "viol": []}
        _re_scenario(transceiver, case["n1"], case["n2"], case["hsn1"], case["hsn2"], case["poweroff"], res)
        for v in res["viol"]:
            ctx.violation(v[0], case, v[2])
        return
    if impl == "transceiver":
        from vlib import world
        world.install()
        import transceiver
        world.new_fabric()
        trx = transceiver.Transceiver("127.0.0.1", "127.0.0.1", 5700)
        res = {"cov": {"transceiver_lookups": 0}, "viol": [], "seen_pairs": set()}
        _trx_one(trx, case["hsn"], case["maio"], case["n"], [case["fn"]], res)
        for v in res["viol"]:
            ctx.violation(*v)
        if not ctx.violations:
            _replay_task(ctx, case)
        return
    b, _exe = _build("c07r")
    try:
        if impl == "firmware-history":
            what = ["hist", case.get("lo", case["idx"]), case["idx"] + 1]     # the slice's own history up to this FN
            rc, out, err = _fw_run(what)
            _take_hist(ctx, what, rc, out, err, {})
            return
        if impl == "firmware-run":
            rc, out, err = _fw_run(case["args"])
            if case["args"][0] == "hist":
                _take_hist(ctx, case["args"], rc, out, err, {})
            elif case["args"][0] in ("full", "hsn0"):
                _take_fw(ctx, case["args"], rc, out, err, {}, set())
            elif rc not in (0, 1):
                ctx.violation("C07:firmware:crash", case, "driver died (rc=%d) in `%s`: %s" % (rc, " ".join(map(str, case["args"])), err))
            return
        hsn, maio, n, fn = case["hsn"], case["maio"], case["n"], case["fn"]
        fl = case.get("flavour", 0)
        rc, out, err = cbuild.run(_exe, ["vec"], stdin=("%d %d %d %d %d\n" % (hsn, maio, n, fn, fl)).encode())
        f = None
        for line in out.decode().splitlines():
            if line.startswith("fw="):
                f = dict(p.split("=") for p in line.split())
        if f is None:
            ctx.violation("C07:firmware:crash", case, "driver died rc=%d: %s" % (rc, _san(err.decode())))
            return
        want = hopping.mai(hsn, maio, n, fn)
        if int(f["fw"]) != int(f["want"]) or int(f["spec"]) != want or (fl == 0 and int(f["want"]) != ma_val(want)):
            ctx.violation(_fwkey(hsn, n), case,
                          "rfch_get_params(hsn=%d maio=%d N=%d fn=%d, MA contents %s) = channel 0x%04x (MA index %s); "
                          "TS 45.002 6.2.3: MAI=%d (C transcription %s) -> channel 0x%04x"
                          % (hsn, maio, n, fn, FLAVOURS[fl], int(f["fw"]), f["fwidx"], want, f["spec"], int(f["want"])))
        elif case.get("slice"):
            # not reproduced for the point alone: the result depended on the calls before it in its slice
            rc, out, err = _fw_run(case["slice"])
            _take_fw(ctx, case["slice"], rc, out, err, {}, set())
    finally:
        cbuild.cleanup(b)

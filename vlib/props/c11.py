"""C11 - firmware and trxcon agree on the multiframe mapping of every logical channel.

Complete enumeration of two finite table sets on the real code (both compiled unmodified, ASan):

  firmware  mframe_schedule() of layer1/mframe_sched.c is stepped through a full 51*26*8 = 10608
            frame cycle (quick: the first and the last cycle of the hyperframe; thorough: eight of its
            256 cycles) with exactly one multiframe task enabled, for every task; a stub tdma_schedule_set() records (fn, frame offset,
            item set identity, p3).
  trxcon    l1sched_mframe_layout(config, tn) of sched_mframe.c for every channel combination value
            and tn 0..7, then frames[fn % period] for every fn of the cycle.

(a) cross-stack: the correspondence table below (TS 45.002 clause 7 semantics: which firmware task
    is which logical channel of which channel combination on which timeslots).  A command handed to
    tdma_schedule_set(offset, ...) in frame fn is written to the DSP in frame fn+offset and executed
    one frame later (DSP_LATENCY, the hardware fact behind SCHEDULE_LATENCY), so the first burst of
    a block is on air in fn + offset + 1 (= fn + SCHEDULE_AHEAD = fn + 2 in the current tree).
    Block channels: {block start} == {fn : chan matches and bid == 0} per direction.  TCH and its
    SACCH (scheduled frame by frame, rx and tx by the same item set): per-frame sets, against both
    directions of the layout.  SACCH is told apart by MF_F_SACCH in p3.
(c) sched_trx: the tree's real sched_trx.c (+ sched_mframe.c, sched_lchan_desc.c; recording lchan handlers)
    is driven for every (implemented combination, tn): l1sched_configure_ts / activate, then
    l1sched_handle_rx_burst() for every FN of a cycle and across the hyperframe wrap, loss-free and with
    every (start phase 0..period-1) x (1..3 lost frames; thorough 1..8) loss pattern, and
    l1sched_pull_burst() / l1sched_handle_rx_probe() for every FN.  No sanitizer report (a lookup outside
    a frame table), every callback's (lchan, fn, bid) is the layout's entry for that fn, every lost frame
    of an lchan is substituted by one dummy burst with the lost frame's own fn and bid.
(b) trxcon-internal: bids cycle 0,1,2,3 (0,1 for TCH/H) around the period; every chan used is in
    lchan_mask; every lookup stays in the table (ASan); every (config, tn) of a combination the
    stacks implement returns a layout of that combination whose slotmask contains tn.
"""
import json
import os
import re

from vlib import cbuild
from vlib.errors import HarnessError

LEVEL = "exploration"
CYCLE = 51 * 26 * 8
HYPER = 2048 * 26 * 51
DSP_LATENCY = 1

# --- correspondence table ------------------------------------------------------------------------
ALL_TN = tuple(range(8))
COMB = ("GSM_PCHAN_CCCH_SDCCH4", "GSM_PCHAN_CCCH_SDCCH4_CBCH")


def _block(main, sacch=None, ul=True):
    """legs of a block channel: (set, sacch flag) -> [(direction, lchan or None, mode, optional)]"""
    m = {("NB_DL", False): [("dl", main, "block", False)],
         ("NB_DL", True): [("dl", sacch, "block", False)]}
    if ul:
        m[("NB_UL", False)] = [("ul", main, "block", False)]
        m[("NB_UL", True)] = [("ul", sacch, "block", False)]
    else:
        # the firmware has no uplink for this channel ("receive only task"): compared only if it ever gets one
        m[("NB_UL", False)] = [("ul", main, "block", True)]
    return m


def _tch(main, sacch):
    return {("TCH", False): [("dl", main, "frame", False), ("ul", main, "frame", False)],
            ("TCH_A", True): [("dl", sacch, "frame", False), ("ul", sacch, "frame", False)]}


IGNORED_SETS = ("TCH_D",)     # TCH/H: frame of the other sub-channel (dummy), nothing to compare

# task -> [(channel combinations, timeslots, legs)]
CORR = {
    "MF_TASK_BCCH_NORM": [(("GSM_PCHAN_CCCH",) + COMB, ALL_TN, _block("L1SCHED_BCCH"))],
    "MF_TASK_CCCH": [(("GSM_PCHAN_CCCH",), ALL_TN, _block("L1SCHED_CCCH"))],
    "MF_TASK_CCCH_COMB": [(COMB, ALL_TN, _block("L1SCHED_CCCH"))],
    "MF_TASK_SDCCH4_CBCH": [(("GSM_PCHAN_CCCH_SDCCH4_CBCH",), ALL_TN, _block("L1SCHED_SDCCH4_CBCH"))],
    "MF_TASK_SDCCH8_CBCH": [(("GSM_PCHAN_SDCCH8_SACCH8C_CBCH",), ALL_TN, _block("L1SCHED_SDCCH8_CBCH"))],
    "MF_TASK_TCH_F_EVEN": [(("GSM_PCHAN_TCH_F",), (0, 2, 4, 6), _tch("L1SCHED_TCHF", "L1SCHED_SACCHTF"))],
    "MF_TASK_TCH_F_ODD": [(("GSM_PCHAN_TCH_F",), (1, 3, 5, 7), _tch("L1SCHED_TCHF", "L1SCHED_SACCHTF"))],
    "MF_TASK_TCH_H_0": [(("GSM_PCHAN_TCH_H",), ALL_TN, _tch("L1SCHED_TCHH_0", "L1SCHED_SACCHTH_0"))],
    "MF_TASK_TCH_H_1": [(("GSM_PCHAN_TCH_H",), ALL_TN, _tch("L1SCHED_TCHH_1", "L1SCHED_SACCHTH_1"))],
    "MF_TASK_GPRS_PDTCH": [(("GSM_PCHAN_PDCH",), ALL_TN, _block("L1SCHED_PDTCH", ul=False))],
}
for _n in range(4):
    # sub-slot 2 is given to the CBCH in the +CBCH combinations (TS 45.002 6.4.1)
    CORR["MF_TASK_SDCCH4_%d" % _n] = [(COMB if _n != 2 else COMB[:1], ALL_TN,
                                       _block("L1SCHED_SDCCH4_%d" % _n, "L1SCHED_SACCH4_%d" % _n))]
for _n in range(8):
    CORR["MF_TASK_SDCCH8_%d" % _n] = [((("GSM_PCHAN_SDCCH8_SACCH8C", "GSM_PCHAN_SDCCH8_SACCH8C_CBCH") if _n != 2
                                        else ("GSM_PCHAN_SDCCH8_SACCH8C",)), ALL_TN,
                                       _block("L1SCHED_SDCCH8_%d" % _n, "L1SCHED_SACCH8_%d" % _n))]
# tasks without a counterpart in trxcon's layouts (walked, recorded, not compared)
NOT_COMPARED = ("MF_TASK_BCCH_EXT", "MF_TASK_GPRS_PTCCH", "MF_TASK_NEIGH_PM51_C0T0", "MF_TASK_NEIGH_PM51",
                "MF_TASK_NEIGH_PM26E", "MF_TASK_NEIGH_PM26O", "MF_TASK_UL_ALL_NB")
# channel combinations both stacks implement: a layout must exist for every timeslot
IMPLEMENTED = ("GSM_PCHAN_CCCH", "GSM_PCHAN_CCCH_SDCCH4", "GSM_PCHAN_CCCH_SDCCH4_CBCH", "GSM_PCHAN_SDCCH8_SACCH8C",
               "GSM_PCHAN_SDCCH8_SACCH8C_CBCH", "GSM_PCHAN_TCH_F", "GSM_PCHAN_TCH_H", "GSM_PCHAN_PDCH")
SINGLE_BURST = ("L1SCHED_IDLE", "L1SCHED_FCCH", "L1SCHED_SCH", "L1SCHED_RACH")
TWO_BURST = ("L1SCHED_TCHH_0", "L1SCHED_TCHH_1")


# --- build / run / parse -------------------------------------------------------------------------

def _san(err):
    """Deterministic digest of a sanitizer report (addresses, pids and shadow dumps vary per run)."""
    keep = [l.strip() for l in err.splitlines()
            if re.search(r"ERROR: AddressSanitizer|runtime error|is located|SUMMARY|^\s*#[0-3] ", l)]
    txt = " | ".join(keep[:8]) if keep else err.strip()[-300:]
    txt = re.sub(r"0x[0-9a-fA-F]+", "0x..", txt)
    txt = re.sub(r"==\d+==", "", txt)
    txt = re.sub(r"/build/[A-Za-z0-9_]+\.\d+/", "/build/../", txt)
    return re.sub(r"\(BuildId: [0-9a-f]+\)", "", txt)


def _build(name):
    b = cbuild.builddir(name)
    drv = os.path.join(cbuild.CSRC, "drv_c11.c")
    fw = cbuild.compile(b, "c11fw", [drv, os.path.join(cbuild.FW, "layer1/mframe_sched.c"),
                                      os.path.join(cbuild.LIBOSMO, "src/gsm/gsm_utils.c")],
                        # mframe_schedule() evaluates `1 << 31` on an int for the task bitmap (fine for the
                        # firmware's compiler, flagged by UBSan's shift check, unrelated to the mapping)
                        cbuild.firmware_flags(b) + ["-DC11_FW", "-fno-sanitize=shift"])
    trx = cbuild.compile(b, "c11trx", [drv, os.path.join(cbuild.TRXCON, "src/sched_mframe.c")],
                         ["-I", os.path.join(cbuild.TRXCON, "include"),
                          "-I", os.path.join(cbuild.CSRC, "shim_trxcon"),
                          "-I", os.path.join(cbuild.LIBOSMO, "include")])
    return b, fw, trx


def _build_sched(b):
    """The real scheduler core of trxcon: sched_trx.c + sched_mframe.c + sched_lchan_desc.c, unmodified."""
    return cbuild.compile(b, "c11sched", [os.path.join(cbuild.CSRC, "drv_c11_sched.c"),
                                          os.path.join(cbuild.TRXCON, "src/sched_trx.c"),
                                          os.path.join(cbuild.TRXCON, "src/sched_mframe.c"),
                                          os.path.join(cbuild.TRXCON, "src/sched_lchan_desc.c")],
                          ["-I", os.path.join(cbuild.TRXCON, "include"),
                           "-I", os.path.join(cbuild.CSRC, "shim_trxcon_sched"),
                           "-I", os.path.join(cbuild.CSRC, "shim_trxcon"),
                           "-I", os.path.join(cbuild.LIBOSMO, "include")])


_sched_exe = None
SCHED_COUNTERS = ("streams", "reconfigurations", "rx_bursts_fed", "rx_frames_lost", "rx_callbacks_real",
                  "rx_callbacks_dummy", "tx_pulls", "tx_callbacks", "probes", "probes_active")


def _sched_run(arg):
    """One (config, tn) slice (or a single stream of it) of the sched_trx leg.
    -> {"cov": {...}, "viol": [(key, case, msg)], "complete": bool}"""
    pn, c, tn, extra = arg
    rc, out, err = cbuild.run(_sched_exe, [c, tn] + list(extra))
    res = {"cov": {"sched_" + k: 0 for k in SCHED_COUNTERS}, "viol": [], "complete": False, "nolayout": False}
    res["cov"]["sched_slices"] = 1
    lastq, ctxline, js = None, None, None
    for line in out.decode().splitlines():
        if line.startswith("Q "):
            lastq = line.split()[1:]
        elif line.startswith("A "):
            ctxline = dict(p.split("=") for p in line.split()[1:])
        elif line.startswith("N "):
            res["nolayout"] = True
        elif line.startswith("V "):
            f = dict(p.split("=", 1) for p in line.split()[1:7])
            msg = line.split(" ", 7)[7] if len(line.split(" ", 7)) > 7 else line
            case = {"side": "sched", "pchan": pn, "config": c, "tn": tn, "mode": f["mode"], "base": int(f["base"]),
                    "phase": int(f["phase"]), "len": int(f["len"])}
            res["viol"].append(("C11:sched_trx:%s:%s" % (pn, f["kind"]), case,
                                "%s tn=%d, %s stream from fn=%s%s: %s"
                                % (pn, tn, f["mode"], f["base"],
                                   (" with %s frame(s) lost from phase %s of every multiframe" % (f["len"], f["phase"]))
                                   if f["mode"] == "loss" else "", msg)))
        elif line.startswith("{"):
            js = json.loads(line)
    if js is not None:
        for k in SCHED_COUNTERS:
            res["cov"]["sched_" + k] += js[k]
        res["complete"] = True
    elif not res["nolayout"]:
        # sanitizer report / signal inside the scheduler: attribute it to the stream and burst at hand
        e = err.decode()
        q = ctxline or ({"mode": lastq[0], "base": lastq[1], "phase": lastq[2], "len": lastq[3], "fn": "?"} if lastq else None)
        kind = "table-overrun" if ("global-buffer-overflow" in e and "frame_" in e) else "crash"
        case = {"side": "sched", "pchan": pn, "config": c, "tn": tn}
        where = "before the first stream"
        if q:
            case.update({"mode": q["mode"], "base": int(q["base"]), "phase": int(q["phase"]), "len": int(q["len"])})
            where = "in the %s stream from fn=%s%s while handling the burst fn=%s" % (
                q["mode"], q["base"], (" (%s frame(s) lost from phase %s)" % (q["len"], q["phase"])) if q["mode"] == "loss" else "", q["fn"])
        res["viol"].append(("C11:sched_trx:%s:%s" % (pn, kind), case,
                            "%s tn=%d: scheduler died (rc=%d) %s: %s" % (pn, tn, rc, where, _san(e))))
    return res


def _run_fw(ctx, exe, args=()):
    """-> ({task: {"id", "base", "calls": [(fn, off, set, p3)], "done"}}, info, crashed task or None)"""
    rc, out, err = cbuild.run(exe, args)
    tasks, info, cur = {}, {}, None
    for line in out.decode().splitlines():
        f = line.split()
        if not f:
            continue
        if f[0] == "I":
            info[f[1]] = int(f[2])
        elif f[0] == "T":
            cur = {"id": int(f[2]), "base": int(f[3]), "calls": [], "done": False}
            tasks[f[1]] = cur
        elif f[0] == "C":
            cur["calls"].append((int(f[1]), int(f[2]), f[3], int(f[4])))
        elif f[0] == "E":
            cur["done"] = True
            if int(f[3]) != len(cur["calls"]):
                raise HarnessError("firmware driver output inconsistent for %s" % f[1])
    crashed = None
    if rc != 0:
        crashed = [n for n, t in tasks.items() if not t["done"]]
        crashed = (crashed[0] if crashed else "?", rc, _san(err.decode()))
    return tasks, info, crashed


def _run_trx(exe):
    """All (config, tn) queries; when the driver dies in one of them (sanitizer report), the death is
    recorded and the remaining queries are made one per process."""
    lch, pch, queries, crash = _run_trx_once(exe, [])
    crashes = [crash] if crash else []
    if crash and "_GSM_PCHAN_MAX" in pch:
        done = {(q["config"], q["tn"]) for q in queries}
        for c in list(range(pch["_GSM_PCHAN_MAX"] + 2)) + [255]:
            for t in range(8):
                if (c, t) in done:
                    continue
                _, _, qs, cr = _run_trx_once(exe, [c, t])
                queries += qs
                if cr:
                    crashes.append(cr)
    return lch, pch, queries, crashes


def _run_trx_once(exe, args):
    rc, out, err = cbuild.run(exe, args)
    lch, pch, queries, cur = {}, {}, [], None
    for line in out.decode().splitlines():
        f = line.split(None, 1)
        if not f:
            continue
        if f[0] == "L":
            n, v = f[1].split()
            lch[n] = int(v)
        elif f[0] == "P":
            n, v = f[1].split()
            pch[n] = int(v)
        elif f[0] == "Q":
            c, t = f[1].split()
            cur = {"config": int(c), "tn": int(t), "answered": False, "layout": None, "frames": None}
            queries.append(cur)
        elif f[0] == "R":
            cur["answered"] = True
            if f[1].strip() != "null":
                g = f[1].split()
                cur["layout"] = {"idx": int(g[0]), "chan_config": int(g[1]), "period": int(g[2]), "slotmask": int(g[3]),
                                 "lchan_mask": int(g[4]), "has_frames": g[5] == "1", "name": g[6]}
        elif f[0] == "F":
            cur["frames"] = bytes.fromhex(f[1].strip())
    crashed = None
    if rc != 0:
        q = queries[-1] if queries else {"config": -1, "tn": -1}
        crashed = (q["config"], q["tn"], rc, _san(err.decode()))
    return lch, pch, queries, crashed


# --- oracle ----------------------------------------------------------------------------------------

def _fmt(s, period=None):
    s = sorted(s)
    if period:
        s = sorted({x % period for x in s})
    return "{" + ",".join(map(str, s[:24])) + (",...(%d)" % len(s) if len(s) > 24 else "") + "}"


def _fw_sets(task, t, sacch_bit, viol, compared):
    """(set, sacch) -> set of on-air frame numbers relative to the cycle base"""
    base = t["base"]
    out = {}
    for fn, off, setn, p3 in t["calls"]:
        if (p3 & 0xff) != t["id"]:
            viol("C11:fw:%s:p3-task" % task, {"side": "fw", "task": task, "base": base},
                 "%s (id %d) at fn=%d: p3=0x%04x does not carry the task id" % (task, t["id"], fn, p3))
        flags = p3 >> 8
        if compared and flags & ~sacch_bit:
            viol("C11:fw:%s:unexpected-flags" % task, {"side": "fw", "task": task, "base": base},
                 "%s at fn=%d schedules %s with flags 0x%x" % (task, fn, setn, flags))
        air = (fn + off + DSP_LATENCY - base) % CYCLE
        out.setdefault((setn, bool(flags & sacch_bit)), set()).add(air)
    return out


def _check(ctx_like, fwres, trxres):
    """Evaluates (a) and (b); returns coverage dict.  ctx_like.violation(key, case, msg)."""
    viol = ctx_like.violation
    cov = {"xstack_comparisons": 0, "xstack_nontrivial": 0, "xstack_frames_compared": 0, "fw_calls": 0,
           "fw_tasks_walked": 0, "fw_frames_walked": 0, "trxcon_queries": 0, "trxcon_lookups": 0,
           "trxcon_layouts": 0, "bid_cycles_checked": 0, "mask_checks": 0, "xstack_task_dir_tn": 0}
    lch, pch, queries, tcrash = trxres
    lname = {v: k for k, v in lch.items() if not k.startswith("_")}
    pname = {v: k for k, v in pch.items() if not k.startswith("_")}
    nl = lch["_L1SCHED_CHAN_MAX"]

    # ---- (b) trxcon-internal ------------------------------------------------------------------
    for c, tn, rc, err in tcrash:
        viol("C11:trxcon:crash:%s" % pname.get(c, c), {"side": "trx", "config": c, "tn": tn},
             "trxcon driver died (rc=%d) in l1sched_mframe_layout(%s, %d) / frames[fn %% period]: %s"
             % (rc, pname.get(c, c), tn, err))
    tables = {}      # (pchan name, tn) -> (layout, frames)
    seen_layout = {}
    for q in queries:
        if not q["answered"]:
            continue
        cov["trxcon_queries"] += 1
        c, tn, lay = q["config"], q["tn"], q["layout"]
        pn = pname.get(c, "config=%d" % c)
        case = {"side": "trx", "config": c, "tn": tn}
        if lay is None:
            if pn in IMPLEMENTED:
                viol("C11:trxcon:lookup:%s:null" % pn, case, "l1sched_mframe_layout(%s, tn=%d) = NULL" % (pn, tn))
            continue
        if pn == "GSM_PCHAN_NONE" and lay["period"] == 0:
            continue        # the explicit "no channel" layout
        if lay["chan_config"] != c:
            viol("C11:trxcon:lookup:%s:wrong-combination" % pn, case,
                 "l1sched_mframe_layout(%s, tn=%d) returned the layout '%s' of combination %s"
                 % (pn, tn, lay["name"], pname.get(lay["chan_config"], lay["chan_config"])))
        if not lay["slotmask"] >> tn & 1:
            viol("C11:trxcon:lookup:%s:slotmask" % pn, case,
                 "l1sched_mframe_layout(%s, tn=%d) returned '%s' with slotmask 0x%02x" % (pn, tn, lay["name"], lay["slotmask"]))
        if lay["has_frames"] and lay["period"] and q["frames"] is None and (c, tn) in {x[:2] for x in tcrash}:
            continue        # the driver died in this table walk: reported above
        if not lay["has_frames"] or lay["period"] == 0 or q["frames"] is None:
            viol("C11:trxcon:lookup:%s:no-table" % pn, case,
                 "layout '%s' for (%s, tn=%d) has period %d and %s frame table"
                 % (lay["name"], pn, tn, lay["period"], "a" if lay["has_frames"] else "no"))
            continue
        fr = q["frames"]
        if len(fr) != CYCLE * 4:
            raise HarnessError("short frame dump for %s tn %d" % (pn, tn))
        cov["trxcon_lookups"] += CYCLE
        tables[pn, tn] = (lay, fr)
        # "a layout valid for that timeslot": the only timeslot-dependent part of the mapping (TS 45.002 clause 7
        # table 1) is the phase of the SACCH block on a traffic channel - SACCH/TF starts in frame
        # (12 + 13 TN) mod 104, SACCH/TH sub-channel s in frame (12 + 13 s + 26 (TN div 2)) mod 104
        want_sacch = {}
        if pn == "GSM_PCHAN_TCH_F":
            want_sacch = {"L1SCHED_SACCHTF": (12 + 13 * tn) % 104}
        elif pn == "GSM_PCHAN_TCH_H":
            want_sacch = {"L1SCHED_SACCHTH_%d" % s: (12 + 13 * s + 26 * (tn // 2)) % 104 for s in (0, 1)}
        for xn, start in sorted(want_sacch.items()):
            x = lch.get(xn)
            for d, o in (("dl", 0), ("ul", 2)):
                got = sorted({f % 104 for f in range(CYCLE) if fr[4 * f + o] == x and fr[4 * f + o + 1] == 0})
                cov["tn_phase_checks"] = cov.get("tn_phase_checks", 0) + 1
                if got != [start]:
                    viol("C11:trxcon:lookup:%s:sacch-phase-for-timeslot" % pn, case,
                         "l1sched_mframe_layout(%s, tn=%d) returned '%s': its %s %s blocks start in frames %s (mod 104); "
                         "on timeslot %d the block starts in frame %d (TS 45.002 clause 7 table 1)"
                         % (pn, tn, lay["name"], d.upper(), xn, got, tn, start))
        lid ="%s/0x%02x" % (pn, lay["slotmask"])
        ident = (lay["chan_config"], lay["slotmask"], lay["period"], lay["lchan_mask"], lay["name"])
        if seen_layout.get(ident) == fr:
            continue        # the same layout (returned for another tn): internal checks done once
        seen_layout[ident] = fr
        cov["trxcon_layouts"] += 1
        P = lay["period"]
        for d, o in (("dl", 0), ("ul", 2)):
            chans = fr[o:4 * P:4]
            bids = fr[o + 1:4 * P:4]
            for x in sorted(set(chans)):
                xn = lname.get(x)
                if xn is None or x >= nl:
                    viol("C11:trxcon:%s:bad-chan:%s" % (lid, d), case,
                         "layout '%s' %s frame %d names lchan %d (>= _L1SCHED_CHAN_MAX)" % (lay["name"], d, chans.index(x), x))
                    continue
                if xn == "L1SCHED_IDLE":
                    continue
                cov["mask_checks"] += 1
                if not lay["lchan_mask"] >> x & 1:
                    viol("C11:trxcon:%s:lchan-mask:%s" % (lid, xn), case,
                         "layout '%s' uses %s (%s frame %d) but lchan_mask 0x%x does not contain it"
                         % (lay["name"], xn, d, chans.index(x), lay["lchan_mask"]))
                if xn in SINGLE_BURST:
                    continue
                k = 2 if xn in TWO_BURST else 4
                own = [f for f in range(P) if chans[f] == x]
                bb = [bids[f] for f in own]
                cov["bid_cycles_checked"] += 1
                ok = len(own) % k == 0 and all(b < k for b in bb) and \
                    all(bb[(i + 1) % len(bb)] == (bb[i] + 1) % k for i in range(len(bb)))
                if not ok:
                    i = next((i for i in range(len(bb)) if bb[i] >= k or bb[(i + 1) % len(bb)] != (bb[i] + 1) % k), 0)
                    viol("C11:trxcon:%s:bid-cycle:%s:%s" % (lid, d, xn), case,
                         "layout '%s' %s: frames of %s are %s with bids %s; expected 0..%d in cyclic order (first break after frame %d)"
                         % (lay["name"], d, xn, own[:32], bb[:32], k - 1, own[i]))

    # ---- (a) cross-stack ----------------------------------------------------------------------
    for fwtasks, info, fcrash in fwres:
        if fcrash:
            viol("C11:fw:crash:%s" % fcrash[0], {"side": "fw", "task": fcrash[0], "base": 0},
                 "firmware driver died (rc=%d) while walking %s: %s" % (fcrash[1], fcrash[0], fcrash[2]))
        sacch_bit = info.get("MF_F_SACCH", 1)
        for task, t in sorted(fwtasks.items()):
            if not t["done"]:
                continue
            cov["fw_tasks_walked"] += 1
            cov["fw_frames_walked"] += CYCLE
            cov["fw_calls"] += len(t["calls"])
            rows = CORR.get(task)
            fws = _fw_sets(task, t, sacch_bit, viol, rows is not None)
            if rows is None:
                continue
            for pchans, tns, legs in rows:
                for key in fws:
                    if key not in legs and key[0] not in IGNORED_SETS:
                        viol("C11:fw:%s:unexpected-set" % task, {"side": "fw", "task": task, "base": t["base"]},
                             "%s schedules item set %s (SACCH flag %s) in frames %s of the cycle: no such leg for this channel"
                             % (task, key[0], key[1], _fmt(fws[key])))
                for pn in pchans:
                    for tn in tns:
                        if (pn, tn) not in tables:
                            continue        # reported under (b)
                        lay, fr = tables[pn, tn]
                        for (setn, sacch), ll in sorted(legs.items()):
                            for d, lc, mode, optional in ll:
                                got = fws.get((setn, sacch), set())
                                if optional and not got:
                                    continue
                                o = 0 if d == "dl" else 2
                                if lc is None:
                                    want = set()
                                else:
                                    x = lch[lc]
                                    if mode == "block":
                                        want = {f for f in range(CYCLE) if fr[4 * f + o] == x and fr[4 * f + o + 1] == 0}
                                    else:
                                        want = {f for f in range(CYCLE) if fr[4 * f + o] == x}
                                cov["xstack_comparisons"] += 1
                                cov["xstack_frames_compared"] += CYCLE
                                if want:
                                    cov["xstack_nontrivial"] += 1
                                if got == want:
                                    continue
                                P = lay["period"]
                                what = "first bursts (bid 0)" if mode == "block" else "frames"
                                diff = sorted(got ^ want)
                                viol("C11:xstack:%s:%s:%s:%s%s" % (task, pn, d, lc or "none", ":sacch" if sacch else ""),
                                     {"side": "both", "task": task, "base": t["base"], "config": pch[pn], "tn": tn},
                                     "%s%s (%s, fn+offset+%d) vs trxcon %s tn=%d %s %s %s: firmware %s, trxcon %s (mod %d); "
                                     "first differing frame of the cycle: %d (base fn %d)"
                                     % (task, " SACCH" if sacch else "", setn, DSP_LATENCY, pn, tn, d.upper(), lc, what,
                                        _fmt(got, P), _fmt(want, P), P, diff[0], t["base"]))
    return cov


class _Collect:
    def __init__(self):
        self.v = []

    def violation(self, key, case, msg):
        self.v.append((key, case, msg))


def _count_tdt(fwres, trxres):
    """number of distinct (task, direction, timeslot) triples compared"""
    lch, pch, queries, _ = trxres
    have = {(q["config"], q["tn"]) for q in queries if q["frames"] is not None}
    n = set()
    for task, rows in CORR.items():
        for pchans, tns, legs in rows:
            for pn in pchans:
                for tn in tns:
                    if (pch.get(pn), tn) in have:
                        for ll in legs.values():
                            for d, lc, mode, optional in ll:
                                if lc is not None and not optional:
                                    n.add((task, d, tn))
    return len(n)


def run(ctx):
    b, fw, trx = _build("c11")
    try:
        # the mapping is a function of fn modulo the cycle; quick walks the first and the last cycle of the
        # hyperframe, thorough eight of the 256 cycles (both ends, the middle and their neighbours)
        bases = [0, HYPER - CYCLE] if ctx.quick else [k * CYCLE for k in (0, 1, 2, 127, 128, 129, 254, 255)]
        fwres = [_run_fw(ctx, fw, ["all", b_]) for b_ in bases]
        trxres = _run_trx(trx)
        if not trxres[0] or not trxres[1]:
            raise HarnessError("trxcon driver produced no enumerator table")
        if not fwres[0][0]:
            raise HarnessError("firmware driver produced no task")
        cov = _check(ctx, fwres, trxres)
        c = ctx.cov
        c.update(cov)
        # ---- (c) the real sched_trx.c, one process per (combination, tn)
        global _sched_exe
        _sched_exe = _build_sched(b)
        pch = trxres[1]
        items = [(pn, pch[pn], tn, [] if ctx.quick else [8]) for pn in IMPLEMENTED if pn in pch for tn in range(8)]
        sched_complete = 0
        for res in ctx.pmap(_sched_run, items, chunksize=2):
            sched_complete += bool(res.pop("complete"))
            res.pop("nolayout")
            ctx.merge(res)
        c["sched_slices_complete"] = sched_complete
        c["sched_loss_lengths"] = [1, 3] if ctx.quick else [1, 8]
        c["xstack_task_dir_tn"] = _count_tdt(fwres, trxres)
        c["fw_cycle_bases"] = bases
        c["fw_tasks_compared"] = len([t for t in fwres[0][0] if t in CORR])
        c["fw_tasks_not_compared"] = sorted(t for t in fwres[0][0] if t not in CORR)
        c["evaluations"] = cov["fw_frames_walked"] + cov["trxcon_lookups"] + cov["xstack_frames_compared"] \
            + c.get("sched_rx_bursts_fed", 0) + c.get("sched_tx_pulls", 0) + c.get("sched_probes", 0)
        c["distinct_nontrivial"] = cov["xstack_nontrivial"] + cov["bid_cycles_checked"] + c.get("sched_streams", 0)
        c["rule"] = ("every multiframe task x every fn of the 10608-frame cycle (at the cycle bases listed in fw_cycle_bases) "
                     "through mframe_schedule(); every channel combination value x tn 0..7 through l1sched_mframe_layout() "
                     "and every fn of the cycle through frames[fn % period]; every (task, combination, tn, direction, "
                     "lchan) leg of the correspondence table compared as sets over the whole cycle - a comparison is "
                     "non-trivial when the expected set is not empty; every (layout, direction, block lchan) bid sequence; "
                     "every (combination, tn, stream) of the sched_trx leg: loss-free cycle, hyperframe wrap, every "
                     "(start phase, loss length) pattern, tx/probe cycle - each stream counts as one non-trivial case")
        ntasks = len(fwres[0][0])
        c["exhaustive"] = bool(all(r[2] is None for r in fwres) and not trxres[3]
                               and cov["fw_tasks_walked"] == ntasks * len(bases)
                               and all(t["done"] for r in fwres for t in r[0].values())
                               and cov["trxcon_queries"] == (trxres[1]["_GSM_PCHAN_MAX"] + 3) * 8
                               and sched_complete == len(items) == len(IMPLEMENTED) * 8)
        t0 = fwres[0][0]
        ctx.sample({"task": "MF_TASK_SDCCH4_2", "calls_per_cycle": len(t0["MF_TASK_SDCCH4_2"]["calls"]),
                    "first": t0["MF_TASK_SDCCH4_2"]["calls"][:4]})
        ctx.sample({"task": "MF_TASK_TCH_F_ODD", "calls_per_cycle": len(t0["MF_TASK_TCH_F_ODD"]["calls"]),
                    "first": t0["MF_TASK_TCH_F_ODD"]["calls"][:3]})
        q = [q for q in trxres[2] if q["frames"] is not None][:1]
        if q:
            ctx.sample({"config": q[0]["config"], "tn": q[0]["tn"], "layout": q[0]["layout"], "frames_0_7": q[0]["frames"][:32].hex()})
        ctx.assumptions += [
            "a command scheduled with tdma_schedule_set(offset) in frame fn is on air in fn + offset + 1 (DSP latency of one frame); "
            "the six TDMA item sets are identities only (tdma_sched.c and the primitives are not linked)",
            "firmware built with ASan+UBSan minus the `shift` check (mframe_schedule() tests the task bitmap with `1 << i`, i up to 31, on an int)",
            "firmware tasks without a trxcon counterpart are walked but not compared: BCCH_EXT, GPRS_PTCCH (empty table), NEIGH_PM*, UL_ALL_NB; "
            "PDTCH is compared on the downlink only (the firmware task is receive-only)",
            "sched_trx leg: sched_trx.c, sched_mframe.c and sched_lchan_desc.c are the tree's files; the ten lchan handlers are recording "
            "stubs (the real ones need libosmocoding), sched_prim.c / libosmocore entry points are minimal stand-ins, talloc is flat malloc; "
            "no ciphering, no queued Tx primitives; loss patterns repeat in every multiframe of a 3-multiframe stream",
            "SDCCH/4 and SDCCH/8 sub-channel 2 are not compared against the +CBCH combinations (the sub-slot carries the CBCH there)",
            "trxcon's sched_mframe.c is compiled against the libosmocore headers embedded in the repository plus stand-ins for "
            "gsm_utils.h (enum gsm_phys_chan_config incl. CBCH combinations) and gsm0502.h (burst length constants)",
        ]
    finally:
        cbuild.cleanup(b)


def replay(ctx, case):
    b, fw, trx = _build("c11r")
    try:
        side = case.get("side")
        if side == "sched":
            global _sched_exe
            _sched_exe = _build_sched(b)
            extra = [case["mode"], case["base"], case["phase"], case["len"]] if "mode" in case else []
            res = _sched_run((case["pchan"], case["config"], case["tn"], extra))
            for v in res["viol"]:
                ctx.violation(v[0], case, v[2])
            return
        fwres, trxres = [], _run_trx(trx)
        if side in ("fw", "both"):
            fwres = [_run_fw(ctx, fw, [case["task"], case.get("base", 0)])]
        if side == "fw":
            # firmware-only finding: evaluate with the layouts present (cross-stack legs included)
            pass
        col = _Collect()
        _check(col, fwres, trxres)
        for key, c, msg in col.v:
            if side == "trx" and not key.startswith("C11:trxcon"):
                continue
            ctx.violation(key, case, msg)
    finally:
        cbuild.cleanup(b)

"""C05, trxcon leg: the replies of the Python transceiver to every command trxcon
emits are accepted by trxcon's real response parser (trx_if.c)."""


def run(ctx):
    try:
        from vlib import trxcon_drv  # noqa
    except ImportError:
        ctx.cov["trxcon_leg"] = "driver not available"
        return
    ctx.cov["trxcon_leg"] = "not wired yet"


def replay(ctx, case):
    pass

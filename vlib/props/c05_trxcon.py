"""C05, trxcon leg: the replies of the Python transceiver to every command trxcon emits
are accepted by trxcon's real response parser.

The tree's trx_if.c (unmodified, ASan/UBSan, csrc/drv_trxcon.c) emits every command
type through the real trx_if_handle_phyif_cmd(): RESET, SETFREQ_H0 (7 ARFCNs of
all bands), MEASURE, POWERON/POWEROFF, SETSLOT for every timeslot x channel
combination, SETTA -128..127, SETFREQ_H1 with every mobile-allocation length 1..64
in GSM900 and DCS1800.  The emitted octets are delivered to the real Python
transceiver (MS side of fake_trx.Application on the fake fabric, also judged by
the reference model), its reply octets go into the real trx_ctrl_read_cb().
Accepted = callback returns 0, the command leaves the queue, the next queued
command is sent, the interface is not terminated, the FSM state is the documented
one, and a MEASURE result reaches trxcon_phyif_handle_rsp with the same ARFCN/dBm.
"""
from vlib import cbuild
from vlib import trxcon_drv
from vlib.appworld import AppWorld
from vlib.ref import trxmodel

MS = 1
PCHANS = ["NONE", "CCCH", "CCCH_SDCCH4", "TCH_F", "TCH_H", "SDCCH8_SACCH8C", "PDCH", "9", "10"]


class Leg:
    def __init__(self, ctx, exe):
        self.ctx = ctx
        self.s = trxcon_drv.Session(exe)
        self.W = AppWorld(trxmodel.std_config())
        self.n_cmd = 0
        self.n_rsp = 0
        self.verbs = {}
        self.maxlen = 0
        self.trail = []

    def viol(self, verb, what, msg):
        self.ctx.violation("C05:trxcon:%s:%s" % (verb, what), {"trxcon": True, "trail": list(self.trail)}, msg)

    def cmd(self, line, expect_state=None, expect_rc=0):
        """one phyif command through trxcon and the exchange(s) it triggers"""
        self.trail.append(line)
        r = self.s.send("cmd " + line)
        self.n_cmd += 1
        if r.get("died"):
            self.viol(line.split()[0], "died", "trxcon died on 'cmd %s': %s" % (line, r.get("report", "")[:300]))
            return None
        if r.get("rc") != expect_rc:
            self.viol(line.split()[0], "cmd-rc", "trx_if_handle_phyif_cmd(%s) returned %r, expected %r" % (line, r.get("rc"), expect_rc))
            return None
        pending = list(r.get("sent") or [])
        last = r
        upcalls = []
        while pending:
            payload = bytes.fromhex(pending.pop(0))
            self.maxlen = max(self.maxlen, len(payload))
            verb = payload[4:].split(b" ")[0].rstrip(b"\0").decode("ascii", "replace")
            self.verbs[verb] = self.verbs.get(verb, 0) + 1
            v = self.W.ctrl(MS, payload, ("127.0.0.1", 6801))
            if v:
                self.viol(verb, "python-" + v[0][0].split(":")[0], "command emitted by trxcon %r: %s" % (payload[:60], v[0][1]))
                return None
            out = self.W.last_out
            if len(out) != 1:
                self.viol(verb, "no-reply", "no single reply to %r" % payload[:60])
                return None
            reply = out[0][3]
            rr = self.s.send("rsp " + reply.hex())
            self.n_rsp += 1
            if rr.get("died"):
                self.viol(verb, "died", "trxcon died on the reply %r to %r: %s" % (reply[:60], payload[:60], rr.get("report", "")[:300]))
                return None
            if rr.get("rc") != 0 or not rr.get("dequeued") or rr.get("terminated"):
                self.viol(verb, "not-accepted", "reply %r to %r: callback rc=%r dequeued=%r terminated=%r state=%r log=%r"
                          % (reply[:80], payload[:80], rr.get("rc"), rr.get("dequeued"), rr.get("terminated"), rr.get("state"),
                             rr.get("log_err")))
                return None
            if rr.get("upcall"):
                upcalls.append((rr["upcall"], reply))
            pending += list(rr.get("sent") or [])
            last = rr
        if last.get("queued"):
            self.viol(line.split()[0], "queue-left", "%d command(s) still queued after all replies" % last["queued"])
        if expect_state and last.get("state") != expect_state:
            self.viol(line.split()[0], "fsm-state", "after '%s' and its replies the FSM is in %r, documented %r" % (line, last.get("state"), expect_state))
        return last, upcalls

    def fresh(self):
        """new trxcon instance *and* a new Python application: what follows does not depend on what came before
        (a trail starting with "(fresh)" replays from scratch)"""
        self.s.send("fresh")
        self.W = AppWorld(trxmodel.std_config())
        self.trail = ["(fresh)"]

    def close(self):
        self.s.close()


def run(ctx):
    c = ctx.cov
    b = cbuild.builddir("c05trx")
    try:
        exe = trxcon_drv.build(b)
        L = Leg(ctx, exe)
        try:
            L.cmd("RESET", "IDLE")
            for arfcn in (1, 124, 512, 885, 975, 1023, 0):
                L.cmd("SETFREQ_H0 %d" % arfcn, "IDLE")
            meas = list(range(1, 125, 1 if not ctx.quick else 9)) + [0, 512, 700, 885, 975, 1023]
            nmeas = 0
            for arfcn in meas:
                r = L.cmd("MEASURE %d" % arfcn)
                if r is None:
                    break
                last, ups = r
                ok = False
                for up, reply in ups:
                    toks = reply.rstrip(b"\0").split(b" ")
                    if up.get("type") == "MEASURE" and up.get("band_arfcn") == arfcn and up.get("dbm") == int(toks[-1]):
                        ok = True
                if not ok:
                    L.viol("MEASURE", "result", "MEASURE %d: upcalls %r do not carry the ARFCN and the dBm value of the reply" % (arfcn, ups))
                nmeas += 1
            L.cmd("SETFREQ_H0 1", None)
            L.cmd("POWERON", "ACTIVE")
            nslot = 0
            for tn in range(8):
                for pc in PCHANS:
                    L.cmd("SETSLOT %d %s" % (tn, pc), "ACTIVE")
                    nslot += 1
            for ta in range(-128, 128):
                L.cmd("SETTA %d" % ta, "ACTIVE")
            L.cmd("POWEROFF", "IDLE")
            # hopping: every mobile-allocation length
            enc = {"gsm900": 0, "dcs1800": 0}
            toolong = []
            for band, first in (("gsm900", 1), ("dcs1800", 512)):
                for n in range(1, 65):
                    hsn, maio = (n * 7) % 64, (n - 1) % 64
                    line = "SETFREQ_H1 %d %d %d %s" % (hsn, maio, n, " ".join(str(first + k) for k in range(n)))
                    L.trail.append(line)
                    r = L.s.send("cmd " + line)
                    L.trail.pop()
                    if r.get("rc") not in (0, None) and not r.get("sent"):
                        toolong.append((band, n, r.get("rc")))     # trxcon cannot encode this one: outside the statement
                        L.fresh()
                        continue
                    # re-issue through the judged path on a fresh instance (the probe above consumed the command)
                    L.fresh()
                    L.cmd(line, None)
                    enc[band] += 1
                    if n in (1, 2, 64) or n % 16 == 0:
                        L.cmd("POWERON", "ACTIVE")
                        L.cmd("POWEROFF", "IDLE")
            c["trxcon_leg"] = "ran"
            c["trxcon_commands"] = L.n_cmd
            c["trxcon_replies_fed_back"] = L.n_rsp
            c["trxcon_verbs"] = L.verbs
            c["trxcon_longest_command_octets"] = L.maxlen
            c["trxcon_setfh_lengths_encodable"] = enc
            c["trxcon_setfh_not_encodable_by_trxcon"] = ["%s N=%d rc=%s" % t for t in toolong]
            c["trxcon_measure_results_checked"] = nmeas
            c["traces_validated_against_impl"] = c.get("traces_validated_against_impl", 0) + L.n_rsp
            c["transitions"] = c.get("transitions", 0) + L.n_rsp
        finally:
            L.close()
        ctx.assumptions += ["trxcon leg: trx_if.c compiled unmodified; system libosmocore fsm/socket/select replaced by a stand-in; one sequential "
                            "session (trxcon sends one command at a time and waits for the reply)"]
    finally:
        cbuild.cleanup(b)


def replay(ctx, case):
    b = cbuild.builddir("c05trxr")
    try:
        exe = trxcon_drv.build(b)
        L = Leg(ctx, exe)
        try:
            for line in case["trail"]:
                if line == "(fresh)":
                    L.fresh()
                    continue
                L.trail = []
                r = L.cmd(line)
                if r is None:
                    break
        finally:
            L.close()
    finally:
        cbuild.cleanup(b)

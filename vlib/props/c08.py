"""C08 - firmware TDMA scheduler runs each item exactly in its scheduled frame.

Explicit-state breadth-first search, written in C (csrc/drv_c08.c), over the tree's
unmodified layer1/tdma_sched.c working on the real `l1s.tdma_sched`.

* BFS runs ("configs"): every sequence of tdma_schedule / tdma_schedule_set / frame step
  (execute + advance) / execute without advance / reset over a stated alphabet with at most K
  outstanding items is explored until the frontier is empty.  A state is the ring position
  (never normalised away), the live contents of all 25 buckets in slot order and the reference
  model (pending items by frame distance); states are stored and compared in full, the hash only
  indexes them.  Each config is one single-threaded driver process; configs run in parallel.
* Capacity sweep: at all 25 x 25 (ring position, offset) pairs a frame is filled to 8 items in 4
  ways, the 9th tdma_schedule / tdma_schedule_set must return -1 and change nothing (memcmp of the
  whole scheduler), every other frame holds sentinels, then 25 frame steps must run exactly what
  was scheduled.
* Set sweep: every ring position x every offset x 9 set shapes of 1..6 frames (one scheduled with p3 = 0 over templates with non-zero p3) (incl. idle frames: 2 and 3 end-of-frame markers in a row) (last frame < 25 ahead),
  on an empty scheduler and with witness items in every 4th frame, then 30 frame steps.
* Reset sweep (in the set sweep jobs): from every ring position an item / a three-item set at every offset 0..24,
  and a ring with an item in every frame; tdma_sched_reset(); 30 frame steps: nothing of a later frame may run.
* Order sweep: for n = 1..8 all n^n assignments of n priority ranks to n items of one frame (all
  permutations and all tie patterns), scheduled once with tdma_schedule and once as a set, at
  ring position / offset cycling through all 625 pairs: must run in ascending priority with
  their own parameters.
"""
import json
import os
import re
import subprocess

from vlib import cbuild
from vlib.errors import HarnessError

LEVEL = "model_checking"
_exe = None
# sanitizer reports abort(): the driver's SIGABRT handler then names the case it was executing
_SAN_ENV = {"ASAN_OPTIONS": "detect_leaks=0:abort_on_error=1",
            "UBSAN_OPTIONS": "print_stacktrace=1:halt_on_error=1:abort_on_error=1"}

# BFS configurations: (name, driver arguments).  PRIOS index: 0=-32768 1=-257 2=-1 3=0 4=1 5=255 6=256 7=32767
QUICK_BFS = [
    # K=2, all 25 offsets, all 8 priorities incl. INT16_MIN/MAX, re-scheduling callback with follow-up
    # distance 0/1/5/24, one-item set
    ("k2-full", "K=2 off=all prio=0,1,2,3,4,5,6,7 resched=0,1,5,24 rprio=4 sets=0 cap=2500000"),
    # K=3, all offsets, 3 priorities
    ("k3-prio3", "K=3 off=all prio=0,3,7 resched=- sets=- cap=3000000"),
    # two three-item sets (1, 2 and 3 frames long, one with an empty frame) in flight at all offsets
    ("k6-sets123", "K=6 off=all prio=- resched=- sets=1,2,3 cap=400000"),
    # the six-item three-frame set, and the set that is scheduled with p3 = 0 over templates carrying non-zero p3
    ("k6-set4", "K=6 off=all prio=- resched=- sets=4,8 cap=200000"),
    # a three-item set plus single items / a second set on the wrap offsets
    ("k4-sets-wrap", "K=4 off=0,1,24 prio=3 resched=- sets=1,2,3 cap=1500000"),
    # callbacks that call tdma_sched_reset() from inside tdma_sched_execute() (as prim_fbsb.c does) and then schedule
    # nothing / an item for this frame / an item for the next frame, with items before, beside and behind them
    ("k2-resetcb", "K=2 off=all prio=0,3,7 resched=- rstcb=0,1,2 rprio=3 sets=- cap=600000"),
    ("k4-resetcb-near", "K=4 off=0,1 prio=0,3,7 resched=0,1 rstcb=0,1,2 rprio=3 sets=- cap=3500000"),
]
THOROUGH_BFS = QUICK_BFS + [
    # K=3 with 5 priorities (incl. both extremes and the sign change) at all offsets
    ("k3-prio5", "K=3 off=all prio=0,2,3,4,7 resched=- sets=- cap=12000000"),
    # K=3 with re-scheduling callbacks (follow-up 0/1/24 frames ahead) and the one-item set
    ("k3-prio3-resched", "K=3 off=all prio=0,3,7 resched=0,1,24 rprio=3 sets=0 cap=46000000"),
    # K=4 on the wrap sub-alphabet of offsets {0,1,24}
    ("k4-off3-prio3", "K=4 off=0,1,24 prio=0,3,7 resched=- sets=- cap=46000000"),
    ("k5-off3-prio1", "K=5 off=0,1,24 prio=3 resched=- sets=- cap=4000000"),
    ("k4-prio1", "K=4 off=all prio=3 resched=- sets=- cap=800000"),
    # a three-item set plus one single item / one-item sets at all offsets
    ("k4-sets-all", "K=4 off=all prio=3 resched=- sets=0,1,2,3 cap=15000000"),
    ("k3-resetcb-all", "K=3 off=all prio=0,7 resched=- rstcb=0,1,2 rprio=3 sets=- cap=13000000"),
    ("k4-resetcb-sets", "K=4 off=0,1 prio=0,3,7 resched=- rstcb=0,1,2 rprio=3 sets=1,2 cap=1500000"),
]


def _sources():
    return [os.path.join(cbuild.CSRC, "drv_c08.c"), os.path.join(cbuild.FW, "layer1/tdma_sched.c")]


def _build(b, opt="-O2"):
    return cbuild.compile(b, "drv_c08", _sources(), cbuild.firmware_flags(b), opt=opt)


def _san_summary(err):
    """Deterministic one-line digest of a sanitizer report (no pids / addresses)."""
    m = re.search(r"SUMMARY: [^\n]*", err)
    if m:
        return re.sub(r"0x[0-9a-f]+", "0x..", m.group(0))
    m = re.search(r"[^\n]*runtime error[^\n]*", err)
    if m:
        return re.sub(r"0x[0-9a-f]+", "0x..", m.group(0))
    return "no sanitizer summary"


def _job(job):
    name, args, tmo = job
    try:
        rc, out, err = cbuild.run(_exe, args, timeout=tmo, env=_SAN_ENV)
    except subprocess.TimeoutExpired:
        return {"name": name, "args": args, "rc": None, "js": None, "v": [], "hd": [], "crash": None, "err": "timeout after %ds" % tmo}
    js, v, hd, crash = None, [], [], None
    for line in out.decode(errors="replace").splitlines():
        if line.startswith("V "):
            parts = line[2:].split(" | ")
            if len(parts) == 3:
                v.append(tuple(parts))
        elif line.startswith("HD "):
            parts = line[3:].split(" | ")
            if len(parts) == 4:
                hd.append(tuple(parts))
        elif line.startswith("CRASH | "):
            crash = line[8:].strip()
        elif line.startswith("{"):
            try:
                js = dict(js or {}, **json.loads(line))
            except ValueError:
                pass
    if js is not None and "violations" not in js and "harness_error" not in js:
        js = None                    # only a partial counter line: the run did not finish
    return {"name": name, "args": args, "rc": rc, "js": js, "v": v, "hd": hd, "crash": crash, "err": _san_summary(err.decode(errors="replace"))}


def _case_for(token, r):
    return {"token": token, "mode": r["args"][0], "args": r["args"]}


def _k_of(args):
    k = [a[2:] for a in map(str, args) if a.startswith("K=")]
    return [int(k[0])] if k else []


def _died(r):
    return r["rc"] is not None and (r["js"] is None or r["rc"] not in (0, 1))


HD_TEXT = ("the result of a trace depends on what ran before it in the same process: the code under test keeps state outside "
           "l1s.tdma_sched (e.g. a file-scope static) that survives from one frame / call sequence to the next")


def _report(ctx, r, confirmed=None):
    """Self-contained violations of one driver run -> ctx (every V line carries a trace that the driver has already
    re-run alone in a pristine process).  Returns True if the run completed."""
    for key, msg, token in r["v"]:
        ctx.violation(key, _case_for(token, r), "%s [%s] case: %s" % (msg, r["name"], token))
        if confirmed is not None:
            confirmed.add(key)
    if r["rc"] is None:
        ctx.violation("C08:hang:%s" % r["args"][0], _case_for("-", r), "driver did not finish: %s" % r["err"])
        return False
    if r["js"] is not None and "harness_error" in r["js"]:
        raise HarnessError("drv_c08 %s: %s" % (r["name"], r["js"]["harness_error"]))
    return not _died(r)


def _report_crash(ctx, r):
    """The driver died (sanitizer report, abort).  The case it was executing is re-run alone in a fresh process: if it
    dies there too it is an ordinary, replayable violation; otherwise the death depends on the history of the process."""
    mode, tok = r["args"][0], r["crash"] or "-"
    if tok != "-":
        rr = _job(("crash-recheck", ["case", tok] + _k_of(r["args"]), 600))
        if _died(rr):
            ctx.violation("C08:crash:%s" % mode, _case_for(tok, r),
                          "driver died (rc=%s) in %s at case %s: %s" % (r["rc"], r["name"], tok, r["err"]))
            return
    ctx.violation("C08:history-dependent:crash:%s" % mode, {"hd_key": "crash", "vkey": "C08:history-dependent:crash:%s" % mode,
                                                             "token": "-", "mode": mode, "args": r["args"]},
                  "driver died (rc=%s) in %s at case %s (%s); that case alone in a fresh process does not die - %s"
                  % (r["rc"], r["name"], tok, r["err"], HD_TEXT))


def _report_hd(ctx, r, confirmed):
    for key, msg, example, note in r["hd"]:
        if key in confirmed:
            continue                 # a self-contained trace for this key exists (possibly from another run)
        vkey = "C08:history-dependent:%s" % (key[4:] if key.startswith("C08:") else key)
        ctx.violation(vkey, {"hd_key": key, "vkey": vkey, "token": "-", "mode": r["args"][0], "args": r["args"]},
                      "%s (e.g. after %s) - seen inside the exploration [%s], but %s; %s" % (msg, example, r["name"], note, HD_TEXT))


def run(ctx):
    global _exe
    b = cbuild.builddir("c08")
    try:
        _exe = _build(b)
        tmo = 280 if ctx.quick else 2400
        jobs = []
        for name, args in (QUICK_BFS if ctx.quick else THOROUGH_BFS):
            jobs.append((name, ["bfs"] + args.split(), tmo))
        # longest first
        jobs.sort(key=lambda j: -int(j[1][-1].split("=")[1]))
        nsplit8 = 64
        total8 = 8 ** 8
        for i in range(nsplit8):
            jobs.append(("order8[%d]" % i, ["order", 8, total8 * i // nsplit8, total8 * (i + 1) // nsplit8], tmo))
        for i in range(4):
            jobs.append(("order7[%d]" % i, ["order", 7, 7 ** 7 * i // 4, 7 ** 7 * (i + 1) // 4], tmo))
        for n in range(1, 7):
            jobs.append(("order%d" % n, ["order", n, 0, n ** n], tmo))
        for p in range(0, 25, 5):
            jobs.append(("capacity[%d..%d]" % (p, p + 4), ["capacity", p, p + 5], tmo))
            jobs.append(("setsweep[%d..%d]" % (p, p + 4), ["setsweep", p, p + 5], tmo))
        results = ctx.pmap(_job, jobs)

        c = ctx.cov
        c.update({"states": 0, "transitions": 0, "order_cases": 0, "capacity_cases": 0, "refusals_checked": 0, "setsweep_cases": 0, "resetsweep_cases": 0,
                  "set_calls_nonfirst_frame_on_slot24": 0, "set_calls_wrapping_ring": 0, "history_dependent_keys": 0, "verify_requests": 0,
                  "sampled_traces_rerun_alone": 0, "sampled_traces_differing": 0, "resets_from_callbacks": 0,
                  "execute_calls": 0, "items_due_at_execute": 0, "schedule_calls": 0, "set_calls": 0, "resets": 0,
                  "bad_transitions": 0})
        bfs, complete, depth = {}, True, 0
        hist = [0] * 9
        confirmed = set()
        oks = [_report(ctx, r, confirmed) for r in results]
        for r, ok in zip(results, oks):
            if _died(r):
                _report_crash(ctx, r)
            _report_hd(ctx, r, confirmed)
            complete = complete and ok
            js = r["js"] or {}
            for i, x in enumerate(js.get("executed_per_call_hist", [])):
                hist[i] += x
            if r["args"][0] == "bfs" and ok:
                bfs[r["name"]] = {k: js[k] for k in ("states", "transitions", "depth", "frontier_exhausted", "K", "alphabet",
                                                      "max_outstanding", "ring_positions", "min_states_per_position", "item_types",
                                                      "set_calls", "set_calls_nonfirst_frame_on_slot24", "set_calls_wrapping_ring",
                                                      "resets_from_callbacks", "sampled_traces_rerun_alone", "sampled_traces_differing")}
                bfs[r["name"]]["config"] = " ".join(map(str, r["args"][1:]))
                complete = complete and js["frontier_exhausted"] and js["ring_positions"] == 25
                depth = max(depth, js["depth"])
                for k in ("states", "transitions", "execute_calls", "items_due_at_execute", "schedule_calls", "set_calls",
                          "resets", "bad_transitions", "sampled_traces_rerun_alone", "sampled_traces_differing", "resets_from_callbacks"):
                    c[k] += js[k]
            elif ok:
                for k in ("order_cases", "capacity_cases", "refusals_checked", "setsweep_cases", "resetsweep_cases"):
                    c[k] += js.get(k, 0)
            if ok:
                for k in ("set_calls_nonfirst_frame_on_slot24", "set_calls_wrapping_ring", "history_dependent_keys", "verify_requests"):
                    c[k] += js.get(k, 0)
        c["bfs_runs"] = bfs
        c["depth_reached"] = depth
        c["frontier_exhausted"] = all(x["frontier_exhausted"] for x in bfs.values()) and len(bfs) == len(QUICK_BFS if ctx.quick else THOROUGH_BFS)
        c["executed_per_call_hist"] = hist          # distinct outcomes: execute calls by number of items they ran (8 = 8 or more)
        c["distinct_execute_outcomes"] = sum(1 for x in hist if x)
        c["traces_validated_against_impl"] = c["transitions"]
        c["order_cases_expected"] = 2 * sum(n ** n for n in range(1, 9))
        c["capacity_cases_expected"] = 25 * 25 * 4
        # 9 shapes of 1,1,2,3,3,4,6,5,2 frames (two with idle frames in the middle, one scheduled with p3 = 0); a set is in the domain if its last frame is < 25 ahead; x 2 variants x 25 positions
        c["setsweep_cases_expected"] = 25 * 2 * sum(25 - (f - 1) for f in (1, 1, 2, 3, 3, 4, 6, 5, 2))
        c["exhaustive"] = bool(complete and c["frontier_exhausted"] and c["order_cases"] == c["order_cases_expected"]
                               and c["capacity_cases"] == c["capacity_cases_expected"]
                               and c["setsweep_cases"] == c["setsweep_cases_expected"]
                               and c["resetsweep_cases"] == 25 * (25 * 2 + 1))
        ctx.sample({"bfs_event_sequence": "s24.7,t,S0.2,r3.1.4,R,x", "meaning": "schedule(off 24, prio 32767); frame step; set shape 2 at off 0; "
                    "re-scheduling item at off 3 (follow-up 1 frame later); reset; execute without advance"})
        ctx.sample({"capacity_case": "capacity:24:1:3", "meaning": "ring position 24, offset 1 (wraps to bucket 0), whole ring filled with 200 items"})
        ctx.sample({"setsweep_case": "t x20, S1.5, t x30", "meaning": "ring position 20, four-frame set one frame ahead (last frame in ring slot 24)"})
        ctx.sample({"order_case": "order:8:16434824", "meaning": "8 items in one frame, ranks = base-8 digits of the index"})
        ctx.assumptions += [
            "x86-64 host build of tdma_sched.c (fixed-width integer types only); callbacks always report success",
            "tdma_sched_reset(): items of later frames must be gone; items of the current frame may run in it or not at all "
            "(header: 'erase all scheduled items'; implementation leaves the current frame to the execute loop) - both accepted",
            "storage beyond num_items is refilled with a violation-reporting item before every transition, so the live content "
            "is the complete state; tdma_sched_flag_scan()/tdma_sched_dump() are not exercised",
            "return values 0 / number of end-of-frame markers / -1 and execute's item count are checked as DESIGN.md lists them "
            "(keys C08:retval:*), although the statement itself only demands that overflow is reported as an error",
            "tdma_sched_reset() called by a callback during tdma_sched_execute(): items of later frames are gone, items of this frame "
            "that had not run yet may run in it or not at all, an item the callback schedules afterwards (accepted with 0) must run "
            "exactly once in its frame - for offset 0 in this very frame",
            "a follow-up scheduled by a callback for the frame being executed must run in that frame after its creator; no "
            "priority order is demanded of it (tdma_sched.c documents that priorities do not apply there)",
        ]
    finally:
        cbuild.cleanup(b)


def replay(ctx, case):
    global _exe
    b = cbuild.builddir("c08r")
    try:
        # a single case needs no optimised driver (the build is most of a replay's time); re-running a whole job does
        _exe = _build(b, "-O2" if "hd_key" in case or case.get("token", "-") == "-" else "-O1")
        tok = case.get("token", "-")
        if "hd_key" in case:
            # history-dependent result: only the whole (deterministic) run shows it again
            r = _job(("replay", case["args"], 2400))
            r["args"] = case["args"]
            if case["hd_key"] == "crash":
                if _died(r):
                    ctx.violation(case["vkey"], case, "driver died again (rc=%s) at case %s: %s; %s" % (r["rc"], r["crash"], r["err"], HD_TEXT))
            else:
                for key, msg, example, note in r["hd"]:
                    if key == case["hd_key"]:
                        ctx.violation(case["vkey"], case, "%s (e.g. after %s) - %s; %s" % (msg, example, note, HD_TEXT))
            return
        if tok == "-":
            args = case["args"]          # hang without a located case: re-run the whole job
        else:
            # one case alone in a fresh process; the search's bound K decides when the structure counts as holding
            # more items than were ever scheduled
            args = ["case", tok] + _k_of(case.get("args", []))
        r = _job(("replay", args, 1500))
        r["args"] = case.get("args", args)
        _report(ctx, r)
        if _died(r):
            ctx.violation("C08:crash:%s" % r["args"][0], case, "driver died (rc=%s) at case %s: %s" % (r["rc"], r["crash"], r["err"]))
    finally:
        cbuild.cleanup(b)

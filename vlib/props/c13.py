"""C13 - validation accepts exactly the protocol value ranges; nothing invalid is sent.

Bounded-exhaustive enumeration over boundary sets (see DESIGN.md, C13).
Seam: Msg.validate(), Msg.gen_msg(), DATAInterface.send_msg() of the tree.
Oracle: range predicate written from the property statement.
"""
import itertools
from array import array

from vlib import world

LEVEL = "exploration"

HYPER = 2715648
FN_SET = [None, -1, 0, 1, 1357824, HYPER - 2, HYPER - 1, HYPER]
TN_SET = [None, -1, 0, 1, 4, 6, 7, 8]
PWR_SET = [None, -1, 0, 1, 128, 254, 255, 256]
RSSI_SET = [None, -121, -120, -119, -80, -48, -47, -46]
TOA_SET = [None, -32769, -32768, -32767, 0, 32766, 32767, 32768]
CI_SET = [None, -1281, -1280, 0, 1280, 1281]
VER_SET = [-1, 0, 1, 2, 16]
TSCSET_SET = [None, -1, 0, 1, 2, 3, 4]
TSC_SET = [None, -1, 0, 7, 8]
MOD_BL = {"ModGMSK": 148, "Mod8PSK": 444, "ModGMSK_AB": 148, "Mod16QAM": 592,
          "Mod32QAM": 740, "ModAQPSK": 296}          # TS 45.002 burst lengths (bits)
MOD_SET = list(MOD_BL) + [None, "<int 0>"]
BASE_LENS = [None, 0, 147, 148, 149, 443, 444, 445]


def burst_lens(mod):
    s = list(BASE_LENS)
    bl = MOD_BL.get(mod)
    if bl:
        for x in (bl - 1, bl, bl + 1):
            if x not in s:
                s.append(x)
    return s


def in_rng(v, lo, hi):
    return v is not None and lo <= v <= hi


def ref_valid(kind, f):
    """True / False / None (statement does not decide)."""
    if f["ver"] not in (0, 1):
        return False
    if not in_rng(f["fn"], 0, HYPER - 1) or not in_rng(f["tn"], 0, 7):
        return False
    bl = f["bl"]
    if kind == "tx":
        if not in_rng(f["pwr"], 0, 255):
            return False
        return bl in (148, 444)
    if not in_rng(f["rssi"], -120, -47) or not in_rng(f["toa"], -32768, 32767):
        return False
    if f["ver"] == 0:
        if bl not in (148, 444):
            return False
        return None if f["nope"] else True      # a NOPE flag has no meaning on version 0
    # version 1
    if not in_rng(f["ci"], -1280, 1280):
        return False
    mod, ts, tsc = f["mod"], f["tsc_set"], f["tsc"]
    mod_ok = mod in MOD_BL
    ts_ok = mod_ok and in_rng(ts, 0, 3 if mod == "ModGMSK" else 1)
    tsc_ok = in_rng(tsc, 0, 7)
    if f["nope"]:
        if bl is not None:
            return False
        if (mod_ok and ts_ok and tsc_ok) or (mod is None and ts is None and tsc is None):
            return True
        return None         # fields a NOPE.ind does not carry hold junk: not decided by the statement
    if not (mod_ok and ts_ok and tsc_ok):
        return False
    return bl == MOD_BL[mod]


_env = {}


def env():
    if not _env:
        world.install()
        import data_msg, data_if
        world.new_fabric()
        _env["dm"] = data_msg
        _env["dif"] = data_if.DATAInterface("127.0.0.1", 7002, "0.0.0.0", 7000)
        _env["fab"] = world.fabric()
        _env["bursts_tx"] = {}
        _env["bursts_rx"] = {}
    return _env


def build(kind, f):
    e = env()
    dm = e["dm"]
    bl = f["bl"]
    if kind == "tx":
        m = dm.TxMsg(fn=f["fn"], tn=f["tn"], ver=f["ver"])
        m.pwr = f["pwr"]
        if bl is not None:
            b = e["bursts_tx"].get(bl)
            if b is None:
                b = e["bursts_tx"][bl] = bytearray(i & 1 for i in range(bl))
            m.burst = b
        return m
    m = dm.RxMsg(fn=f["fn"], tn=f["tn"], ver=f["ver"])
    m.rssi = f["rssi"]
    m.toa256 = f["toa"]
    m.ci = f["ci"]
    m.nope_ind = f["nope"]
    mod = f["mod"]
    m.mod_type = dm.Modulation[mod] if mod in MOD_BL else (None if mod is None else 0)
    m.tsc_set = f["tsc_set"]
    m.tsc = f["tsc"]
    if bl is not None:
        b = e["bursts_rx"].get(bl)
        if b is None:
            b = e["bursts_rx"][bl] = array('b', [(-127 if i & 1 else 127) for i in range(bl)])
        m.burst = b
    return m


def judge(kind, f, out):
    """Run the three seams on one field assignment; append violations."""
    e = env()
    fab = e["fab"]
    exp = ref_valid(kind, f)
    # 1. validate()
    try:
        build(kind, f).validate()
        v_ok, v_exc = True, None
    except ValueError:
        v_ok, v_exc = False, None
    except Exception as ex:      # anything else is not "refused with ValueError"
        v_ok, v_exc = False, type(ex).__name__
    # 2. gen_msg()
    g_bytes = None
    try:
        g_bytes = build(kind, f).gen_msg(False)
        g_ok, g_exc = True, None
    except ValueError:
        g_ok, g_exc = False, None
    except Exception as ex:
        g_ok, g_exc = False, type(ex).__name__
    # 3. send_msg()
    fab.out = []
    s_exc = None
    try:
        e["dif"].send_msg(build(kind, f), False)
    except BaseException as ex:
        s_exc = type(ex).__name__
    sent = fab.out
    fab.out = []
    # 4. the same with the legacy-padding flag of the call site: it decides about two trailing octets on
    #    version 0, never about whether a message is valid
    gl_ok = gl_exc = sl_exc = None
    try:
        build(kind, f).gen_msg(True)
        gl_ok = True
    except ValueError:
        gl_ok = False
    except Exception as ex:
        gl_ok, gl_exc = False, type(ex).__name__
    try:
        e["dif"].send_msg(build(kind, f), True)
    except BaseException as ex:
        sl_exc = type(ex).__name__
    sent_l = fab.out
    fab.out = []

    def field_class():
        bad = [k for k in sorted(f) if not field_ok(kind, k, f)]
        return ",".join("%s=%s" % (k, f[k]) for k in bad) or "all-in-range"

    def viol(what, msg):
        out.append(("C13:%s:%s:%s" % (kind, what, field_class()), {"kind": kind, "fields": f}, msg))

    if v_exc:
        viol("validate-raises-" + v_exc, "validate() raised %s instead of ValueError" % v_exc)
    if g_exc:
        viol("gen-raises-" + g_exc, "gen_msg() raised %s instead of ValueError" % g_exc)
    if s_exc:
        viol("send-raises-" + s_exc, "send_msg() raised %s" % s_exc)
    if gl_exc or sl_exc:
        viol("legacy-flag-raises-" + (gl_exc or sl_exc), "gen_msg(legacy=True) / send_msg(legacy=True) raised %s" % (gl_exc or sl_exc))
    elif not (g_exc or s_exc):
        if gl_ok != g_ok:
            viol("legacy-flag-gen", "gen_msg(legacy=True) %s a message that gen_msg(legacy=False) %s"
                 % ("encodes" if gl_ok else "refuses", "encodes" if g_ok else "refuses"))
        if len(sent_l) != len(sent):
            viol("legacy-flag-send", "send_msg(legacy=True) emitted %d datagram(s), send_msg(legacy=False) %d" % (len(sent_l), len(sent)))
    if exp is not None:
        if v_ok != exp and not v_exc:
            viol("validate-accepts" if v_ok else "validate-rejects",
                 "validate() %s a message that is %s per the protocol ranges"
                 % ("accepted" if v_ok else "rejected", "valid" if exp else "invalid"))
        if g_ok != exp and not g_exc:
            viol("gen-accepts" if g_ok else "gen-rejects",
                 "gen_msg() %s a message that is %s" % ("encoded" if g_ok else "refused", "valid" if exp else "invalid"))
        if (len(sent) == 1) != exp and not s_exc:
            viol("send-emits" if sent else "send-silent",
                 "send_msg() emitted %d datagram(s) for a message that is %s" % (len(sent), "valid" if exp else "invalid"))
    else:
        # undecided by the statement: the three seams must still agree with each other
        if g_ok != v_ok and not (v_exc or g_exc):
            viol("gen-vs-validate", "gen_msg() and validate() disagree")
    if not s_exc:
        if len(sent) > 1:
            viol("send-multiple", "send_msg() emitted %d datagrams" % len(sent))
        if g_ok != (len(sent) == 1) and not g_exc:
            viol("send-vs-gen", "send_msg() emitted %d datagram(s) although gen_msg() %s"
                 % (len(sent), "succeeded" if g_ok else "raised"))
        if g_ok and len(sent) == 1 and sent[0][3] != bytes(g_bytes):
            viol("send-payload", "datagram differs from gen_msg() output")
        if len(sent) == 1 and (sent[0][1], sent[0][2]) != ("127.0.0.1", 7002):
            viol("send-dest", "datagram sent to %r" % (sent[0][1:3],))
    return exp


def assign(kind, m, f):
    """put the field assignment f onto an EXISTING message object (history / object reuse)"""
    e = env()
    dm = e["dm"]
    m.fn, m.tn, m.ver = f["fn"], f["tn"], f["ver"]
    bl = f["bl"]
    if kind == "tx":
        m.pwr = f["pwr"]
        m.burst = None if bl is None else e["bursts_tx"].setdefault(bl, bytearray(i & 1 for i in range(bl)))
        return m
    m.rssi, m.toa256, m.ci, m.nope_ind = f["rssi"], f["toa"], f["ci"], f["nope"]
    mod = f["mod"]
    m.mod_type = dm.Modulation[mod] if mod in MOD_BL else (None if mod is None else 0)
    m.tsc_set, m.tsc = f["tsc_set"], f["tsc"]
    if bl is None:
        m.burst = None
    else:
        from array import array as _a
        m.burst = e["bursts_rx"].setdefault(bl, _a('b', [(-127 if i & 1 else 127) for i in range(bl)]))
    return m


def judge_reuse(kind, f_valid, f, out):
    """History on one object: encode a valid message, change fields on the SAME object to the assignment f,
    encode / send again.  The second outcome must be what a fresh object with f gives per the predicate."""
    e = env()
    fab = e["fab"]
    exp = ref_valid(kind, f)
    if exp is None:
        return
    m = build(kind, f_valid)
    try:
        m.gen_msg(False)
    except Exception:
        return          # the base point itself is refused: judged elsewhere
    fab.out = []
    e["dif"].send_msg(m, False)
    fab.out = []
    assign(kind, m, f)
    try:
        m.gen_msg(False)
        g_ok, g_exc = True, None
    except ValueError:
        g_ok, g_exc = False, None
    except Exception as ex:
        g_ok, g_exc = False, type(ex).__name__
    s_exc = None
    try:
        e["dif"].send_msg(m, False)
    except BaseException as ex:
        s_exc = type(ex).__name__
    sent = fab.out
    fab.out = []
    bad = ",".join("%s=%s" % (k, f[k]) for k in sorted(f) if not field_ok(kind, k, f)) or "all-in-range"
    case = {"kind": kind, "fields": f, "reuse_from": f_valid}
    if g_exc:
        out.append(("C13:%s:reuse:gen-raises-%s:%s" % (kind, g_exc, bad), case, "after re-assigning the fields of an already encoded "
                    "message object gen_msg() raised %s instead of ValueError" % g_exc))
    elif g_ok != exp:
        out.append(("C13:%s:reuse:%s:%s" % (kind, "gen-accepts" if g_ok else "gen-rejects", bad), case,
                    "message object encoded once with valid fields, then changed to %s: gen_msg() %s it although it is %s"
                    % (bad, "encoded" if g_ok else "refused", "valid" if exp else "invalid")))
    if s_exc:
        out.append(("C13:%s:reuse:send-raises-%s:%s" % (kind, s_exc, bad), case, "send_msg() raised %s" % s_exc))
    elif (len(sent) == 1) != exp:
        out.append(("C13:%s:reuse:%s:%s" % (kind, "send-emits" if sent else "send-silent", bad), case,
                    "message object sent once with valid fields, then changed to %s: send_msg() emitted %d datagram(s)" % (bad, len(sent))))


def field_ok(kind, k, f):
    v = f[k]
    if k == "ver":
        return v in (0, 1)
    if k == "fn":
        return in_rng(v, 0, HYPER - 1)
    if k == "tn":
        return in_rng(v, 0, 7)
    if k == "pwr":
        return in_rng(v, 0, 255)
    if k == "rssi":
        return in_rng(v, -120, -47)
    if k == "toa":
        return in_rng(v, -32768, 32767)
    if f.get("ver") == 0 and k in ("ci", "mod", "tsc_set", "tsc", "nope"):
        return True
    if k == "ci":
        return in_rng(v, -1280, 1280)
    if k == "mod":
        return v in MOD_BL or f.get("nope")
    if k == "tsc_set":
        return f.get("nope") or in_rng(v, 0, 3 if f.get("mod") == "ModGMSK" else 1)
    if k == "tsc":
        return f.get("nope") or in_rng(v, 0, 7)
    if k == "bl":
        if kind == "tx" or f.get("ver") == 0:
            return v in (148, 444)
        if f.get("nope"):
            return v is None
        return v == MOD_BL.get(f.get("mod"))
    return True


RX_BASE = {"fn": 1, "tn": 1, "rssi": -80, "toa": 0}
TX_BASE = {"fn": 1, "tn": 1, "pwr": 1}


def rx_clusters():
    for ver in VER_SET:
        for nope in (False, True):
            for mod in MOD_SET:
                for ts in TSCSET_SET:
                    yield (ver, nope, mod, ts)


def work_rx(arg):
    (ver, nope, mod, ts), tier = arg
    out = []
    cov = {"evaluations": 0, "decided_valid": 0, "decided_invalid": 0, "undecided": 0}
    distinct = set()
    samples = []

    def one(f):
        exp = judge("rx", f, out)
        cov["evaluations"] += 1
        cov["decided_valid" if exp else ("undecided" if exp is None else "decided_invalid")] += 1

    n = 0
    for tsc in TSC_SET:
        for ci in CI_SET:
            for bl in burst_lens(mod):
                f = dict(RX_BASE, ver=ver, nope=nope, mod=mod, tsc_set=ts, tsc=tsc, ci=ci, bl=bl)
                one(f)
                n += 1
                # independent fields, one at a time, at every cluster point (thorough)
                # or at the cluster points on the accept/reject frontier (quick)
                frontier = ref_valid("rx", f) is not False
                if tier == "thorough" or frontier:
                    for k, vals in (("fn", FN_SET), ("tn", TN_SET), ("rssi", RSSI_SET), ("toa", TOA_SET)):
                        for v in vals:
                            if v == RX_BASE[k]:
                                continue
                            g = dict(f)
                            g[k] = v
                            one(g)
                    if len(samples) < 1 and frontier:
                        samples.append(dict(f))
    cov["cluster_points"] = n
    return {"cov": cov, "viol": out, "samples": samples}


def work_rx_product(arg):
    """complete product of the independent fields at one valid cluster point"""
    f0 = arg
    out = []
    cov = {"evaluations": 0, "decided_valid": 0, "decided_invalid": 0, "undecided": 0}
    for fn, tn, rssi, toa in itertools.product(FN_SET, TN_SET, RSSI_SET, TOA_SET):
        f = dict(f0, fn=fn, tn=tn, rssi=rssi, toa=toa)
        exp = judge("rx", f, out)
        cov["evaluations"] += 1
        cov["decided_valid" if exp else ("undecided" if exp is None else "decided_invalid")] += 1
    # object reuse: from the valid base point change one field (or the dependent cluster) at a time on the same object
    base = dict(f0, **RX_BASE)
    cov["reuse_evaluations"] = 0
    if ref_valid("rx", base):
        singles = [("fn", FN_SET), ("tn", TN_SET), ("rssi", RSSI_SET), ("toa", TOA_SET), ("ci", CI_SET), ("tsc", TSC_SET),
                   ("tsc_set", TSCSET_SET), ("mod", MOD_SET), ("bl", burst_lens(f0["mod"])), ("nope", [False, True]), ("ver", VER_SET)]
        for k, vals in singles:
            for v in vals:
                f = dict(base)
                f[k] = v
                judge_reuse("rx", base, f, out)
                cov["reuse_evaluations"] += 1
    return {"cov": cov, "viol": out}


def work_tx(arg):
    ver = arg
    out = []
    cov = {"evaluations": 0, "decided_valid": 0, "decided_invalid": 0, "undecided": 0}
    samples = []
    for bl in BASE_LENS:
        for fn, tn, pwr in itertools.product(FN_SET, TN_SET, PWR_SET):
            f = dict(ver=ver, bl=bl, fn=fn, tn=tn, pwr=pwr)
            exp = judge("tx", f, out)
            cov["evaluations"] += 1
            cov["decided_valid" if exp else ("undecided" if exp is None else "decided_invalid")] += 1
    samples.append(f)
    cov["reuse_evaluations"] = 0
    base = dict(TX_BASE, ver=ver, bl=148)
    if ref_valid("tx", base):
        for k, vals in (("fn", FN_SET), ("tn", TN_SET), ("pwr", PWR_SET), ("bl", BASE_LENS), ("ver", VER_SET)):
            for v in vals:
                g = dict(base)
                g[k] = v
                judge_reuse("tx", base, g, out)
                cov["reuse_evaluations"] += 1
    return {"cov": cov, "viol": out, "samples": samples}


def run(ctx):
    items = [(c, ctx.tier) for c in rx_clusters()]
    for r in ctx.pmap(work_rx, items, chunksize=4):
        ctx.merge(r)
    prod_pts = [dict(ver=0, nope=False, mod="ModGMSK", tsc_set=0, tsc=0, ci=0, bl=148),
                dict(ver=0, nope=False, mod="ModGMSK", tsc_set=None, tsc=None, ci=None, bl=444),
                dict(ver=1, nope=False, mod="ModGMSK", tsc_set=3, tsc=7, ci=1280, bl=148),
                dict(ver=1, nope=False, mod="Mod8PSK", tsc_set=1, tsc=0, ci=-1280, bl=444),
                dict(ver=1, nope=False, mod="Mod32QAM", tsc_set=0, tsc=3, ci=0, bl=740),
                dict(ver=1, nope=True, mod=None, tsc_set=None, tsc=None, ci=-30, bl=None)]
    if not ctx.quick:
        prod_pts += [dict(ver=1, nope=False, mod=m, tsc_set=1, tsc=5, ci=1, bl=MOD_BL[m]) for m in MOD_BL]
    for r in ctx.pmap(work_rx_product, prod_pts):
        ctx.merge(r)
    for r in ctx.pmap(work_tx, VER_SET):
        ctx.merge(r)
    c = ctx.cov
    c["distinct_nontrivial"] = c["decided_valid"] + c["decided_invalid"]
    c["rule"] = ("every field assignment is generated once (no duplicates by construction): complete product over the "
                 "dependent cluster ver x NOPE x modulation x TSC set x TSC x C/I x burst length, each independent "
                 "field swept over its 8-value boundary set one at a time (%s), complete 8^4 product of FN/TN/RSSI/ToA "
                 "at %d valid cluster points, complete Tx product; non-trivial = decided by the range predicate "
                 "(undecided = NOPE flag on v0 or junk in fields a NOPE.ind does not carry; only seam consistency "
                 "is checked there)" % ("at every cluster point" if not ctx.quick else
                                        "at every cluster point the predicate does not already reject", len(prod_pts)))
    c["exhaustive"] = True
    ctx.assumptions += ["integer or None field values only", "burst content irrelevant to validation (length only)"]


def replay(ctx, case):
    out = []
    if case.get("reuse_from"):
        judge_reuse(case["kind"], case["reuse_from"], case["fields"], out)
        for v in out:
            ctx.violation(*v)
        return
    judge(case["kind"], case["fields"], out)
    for v in out:
        ctx.violation(*v)

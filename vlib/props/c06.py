"""C06 - serial link framing (sercomm/HDLC) delivers every message intact.

All exploration runs in C (csrc/drv_c06.c) on the tree's unmodified firmware/comm/sercomm.c
(HOST_BUILD, #included for access to its static state) linked with the tree's msgb.c, talloc.c,
panic.c, backtrace.c under ASan/UBSan.

* Space A - explicit-state BFS with replay-from-reset: events send(dlci, payload), pull one octet
  and feed it to the receiver, noise octet / over-long frame injected while the transmitter is
  between frames.  States are identified by a 128-bit fingerprint of the complete static state of
  sercomm.c (queues with message contents, message in transmission + position + escape state,
  receive buffer, receive state, dlci, ctrl) and of the reference model.  Several alphabets
  ("configs"), each explored until the frontier is empty or the stated depth bound is reached.
* Space B - transparency: for every DLCI 0..127 every payload of length 0, 1 and 2 over all 256 octet
  values, every payload of length 3..6 (thorough: ..7) over {7E,7D,00,5E,5D,20,41}, boundary lengths
  2045/2046/2047 with special octets first/last and worst-case stuffing, and the first rejected
  length 2048 followed by two frames.
* Resync scenarios: [noise] [over-long frame of 2048..70000 payload octets, injected or sent through
  the real transmitter] [0..3 noise octets; 0..1 after the 65000/70000-octet frames] F1 [0..1 noise octet] F2 F3 - complete product over 7 sets
  of following frames: regular DLCIs, the echo DLCI 128 (echo pulled and judged on the wire, not fed
  back), longest deliverable payload (2047), DLCIs with an escaped address octet, a second
  over-long frame.  A payload of >= 2048 octets must never reach a handler; a panic / abort /
  sanitizer death is reported as C06:dlci=0x..:after-overlong:crash.
* Handlers on a subset of the DLCIs: for every DLCI d handlers on {d} plus every subset of {0x7D, 0x7E, d^0x20};
  frames to registered and unregistered DLCIs interleaved (one at a time / all queued first).  A frame for a DLCI
  without handler reaches no handler and costs no other frame.
* Transmit backlog: 255 / 256 / 257 / 512 messages queued (one DLCI; two DLCIs alternating; behind one message of
  a lower DLCI; while a frame is already on the wire), then drained: exactly once, in order, transmitter idle after.
* DLCI 128 (built-in echo, handler = sercomm_sendmsg): every payload of length 0..2; the echo is
  pulled and judged on the wire, not fed back.
"""
import json
import os
import re
import subprocess

from vlib import cbuild
from vlib.errors import HarnessError

LEVEL = "model_checking"
_exe = None
# sanitizer reports abort(): the driver's SIGABRT handler then names the case it was executing
_SAN_ENV = {"ASAN_OPTIONS": "detect_leaks=0:abort_on_error=1:quarantine_size_mb=16",   # small quarantine: 10x less page-fault time
            "UBSAN_OPTIONS": "print_stacktrace=1:halt_on_error=1:abort_on_error=1"}

D_ALL = "4,5,9,10,127"
P_ALL = "0,1,2,3,4,5,6,7,8"          # {-, 7E, 7D, 00, 41, 7E7D, 7D5E, 410042, 5E}
NOISE = "00,7d,05,41"

# (name, arguments, rough single-core cost in s)
QUICK_BFS = [
    # the design's alphabet, <= 3 messages queued, send/pull interleavings, depth bound 9
    ("full-q3-d9", "depth=9 dlci=%s pay=%s noise=- ol=- maxq=3 cap=4000000" % (D_ALL, P_ALL), 25),
    # the design's alphabet with noise and over-long frames, <= 2 messages queued, to the fixpoint
    ("full-q2-noise-ol", "depth=60 dlci=%s pay=%s noise=%s ol=2049,4100 maxq=2 cap=1000000" % (D_ALL, P_ALL, NOISE), 25),
    # all 5 DLCIs, 2 payloads, <= 3 queued, noise and over-long frames, to the fixpoint
    ("d5-p2-q3-noise-ol", "depth=60 dlci=%s pay=1,7 noise=%s ol=2049,2050,4100 maxq=3 cap=400000" % (D_ALL, NOISE), 13),
    # 70 000-octet frame (longer than any 16-bit length) at every between-frames state of a small alphabet
    ("d2-p2-q2-ol70000", "depth=60 dlci=5,9 pay=1,7 noise=%s ol=2049,2050,4100,70000 maxq=2 cap=100000" % NOISE, 3),
]
THOROUGH_BFS = [
    ("full-q3", "depth=60 dlci=%s pay=%s noise=- ol=- maxq=3 cap=6000000" % (D_ALL, P_ALL), 55),
    ("full-q3-noise", "depth=60 dlci=%s pay=%s noise=%s ol=- maxq=3 cap=6000000" % (D_ALL, P_ALL, NOISE), 90),
    ("full-q2-noise-ol3", "depth=60 dlci=%s pay=%s noise=%s ol=2049,2050,4100 maxq=2 cap=1000000" % (D_ALL, P_ALL, NOISE), 35),
    ("d2-pall-q3-noise-ol", "depth=60 dlci=5,9 pay=%s noise=%s ol=2049,2050,4100 maxq=3 cap=1500000" % (P_ALL, NOISE), 50),
    ("d3-pall-q3-noise-ol", "depth=60 dlci=4,9,127 pay=%s noise=%s ol=2049,2050,4100 maxq=3 cap=6000000" % (P_ALL, NOISE), 200),
    ("d5-p2-q3-noise-ol", QUICK_BFS[2][1], 13),
    ("d2-p2-q2-ol70000", QUICK_BFS[3][1], 3),
    ("d3-p3-q4", "depth=60 dlci=4,5,9 pay=0,1,7 noise=%s ol=2049 maxq=4 cap=3000000" % NOISE, 60),
]
RESYNC_PARTS = 64
RESYNC_FRAME_SETS = 7


def _build(b, opt="-O2"):
    flags = cbuild.firmware_flags(b) + ["-DHOST_BUILD", "-I", os.path.join(cbuild.FW, "include/comm"), "-I", cbuild.FW]
    src = [os.path.join(cbuild.CSRC, "drv_c06.c")] + [os.path.join(cbuild.LIBOSMO, "src", f)
                                                       for f in ("msgb.c", "talloc.c", "panic.c", "backtrace.c")]
    return cbuild.compile(b, "drv_c06", src, flags, opt=opt)


def _san_summary(err):
    m = re.search(r"SUMMARY: [^\n]*", err) or re.search(r"[^\n]*runtime error[^\n]*", err)
    return re.sub(r"0x[0-9a-f]+", "0x..", m.group(0)) if m else "no sanitizer summary"


def _job(job):
    name, args, tmo = job
    try:
        rc, out, err = cbuild.run(_exe, args, timeout=tmo, env=_SAN_ENV)
    except subprocess.TimeoutExpired:
        return {"name": name, "args": args, "rc": None, "js": None, "v": [], "hd": [], "crash": None, "err": "timeout after %ds" % tmo}
    js, v, hd, crash, panic = None, [], [], None, None
    for line in out.decode(errors="replace").splitlines():
        if line.startswith("V "):
            parts = line[2:].split(" | ")
            if len(parts) == 3:
                v.append(tuple(parts))
        elif line.startswith("HD "):
            parts = line[3:].split(" | ")
            if len(parts) == 4:
                hd.append(tuple(parts))
        elif line.startswith("CRASH | "):
            crash = line[8:].strip()
        elif line.startswith("PANIC | "):
            panic = line[8:].strip()
        elif line.startswith("{"):
            try:
                d = json.loads(line)
                js = dict(js or {}, **d)
            except ValueError:
                pass
    if js is not None and "violations" not in js and "harness_error" not in js:
        js = None                    # only a partial counter line: the run did not finish
    return {"name": name, "args": args, "rc": rc, "js": js, "v": v, "hd": hd, "crash": crash,
            "err": ("osmo_panic:" + re.sub(r"0x[0-9a-f]+", "0x..", panic)) if panic else _san_summary(err.decode(errors="replace"))}


def _died(r):
    return r["rc"] is not None and (r["js"] is None or r["rc"] not in (0, 1))


HD_TEXT = ("the result of an event list depends on what ran before it in the same process: the code under test keeps state outside "
           "the `sercomm` structure (or state that sercomm_init() does not set up again) that survives from one case to the next")


def _crash_key(token):
    """Class of a crash (panic / abort / sanitizer death): the DLCI of the last send before it, and whether an
    over-long frame preceded that send."""
    toks = (token or "").split(",")
    sends = [(i, int(m.group(1))) for i, t in enumerate(toks) for m in [re.match(r"[sS](\d+)\.", t)] if m]
    longs = [i for i, t in enumerate(toks)
             if re.match(r"o\d+$", t) or (t.startswith("S") and len(t.split(".")) > 1 and t.split(".")[1].isdigit() and int(t.split(".")[1]) >= 2048)]
    if not sends:
        return "C06:overlong:crash" if longs else "C06:crash"
    i, d = sends[-1]
    return "C06:dlci=0x%02x:%scrash" % (d, "after-overlong:" if any(j < i for j in longs) else "")


def _report(ctx, r, confirmed=None):
    """Self-contained violations of one driver run -> ctx (every V line carries an event list that the driver has already
    re-run alone in a pristine process).  Returns True if the run completed."""
    mode = r["args"][0]
    for key, msg, token in r["v"]:
        ctx.violation(key, {"token": token, "mode": mode, "args": r["args"]}, "%s | events: %s [%s]" % (msg, token, r["name"]))
        if confirmed is not None:
            confirmed.add(key)
    if r["rc"] is None:
        ctx.violation("C06:hang:%s" % mode, {"token": "-", "mode": mode, "args": r["args"]}, "driver did not finish (%s): %s" % (r["name"], r["err"]))
        return False
    if r["js"] is not None and "harness_error" in r["js"]:
        raise HarnessError("drv_c06 %s: %s" % (r["name"], r["js"]["harness_error"]))
    return not _died(r)


def _report_crash(ctx, r):
    """The driver died (panic, abort, sanitizer report).  The event list it was executing is re-run alone in a fresh
    process: if it dies there too it is an ordinary, replayable violation, otherwise the death is history dependent."""
    mode, tok = r["args"][0], r["crash"] or "-"
    if tok != "-":
        rr = _job(("crash-recheck", ["case", tok], 600))
        if _died(rr):
            ctx.violation(_crash_key(tok), {"token": tok, "mode": mode, "args": r["args"]},
                          "driver died (rc=%s) in %s at events %s: %s" % (r["rc"], r["name"], tok, r["err"]))
            return
    vkey = "C06:history-dependent:crash:%s" % mode
    ctx.violation(vkey, {"hd_key": "crash", "vkey": vkey, "token": "-", "mode": mode, "args": r["args"]},
                  "driver died (rc=%s) in %s at events %s (%s); these events alone in a fresh process do not kill it - %s"
                  % (r["rc"], r["name"], tok, r["err"], HD_TEXT))


def _report_hd(ctx, r, confirmed):
    for key, msg, example, note in r["hd"]:
        if key in confirmed:
            continue                 # a self-contained event list for this key exists (possibly from another run)
        vkey = "C06:history-dependent:%s" % (key[4:] if key.startswith("C06:") else key)
        ctx.violation(vkey, {"hd_key": key, "vkey": vkey, "token": "-", "mode": r["args"][0], "args": r["args"]},
                      "%s (e.g. after %s) - seen inside the exploration [%s], but %s; %s" % (msg, example, r["name"], note, HD_TEXT))


class _Collector:
    """Stands in for ctx while the results are gathered, so that violation classes that differ only in the DLCI can be
    folded before they are reported (every reported class costs two confirming replays with a fresh build)."""
    def __init__(self):
        self.items = []

    def violation(self, key, case, msg):
        self.items.append((key, case, msg))


FOLD_KEEP = 1        # DLCIs reported per failure kind (the message says how many more); classes matching an open known finding are always reported


def _emit_folded(ctx, items):
    from vlib import runner
    known = runner.load_known()
    per_kind, kept, seen, folded = {}, [], set(), 0
    for key, case, msg in items:
        if key in seen:
            ctx.n_violations += 1
            continue
        seen.add(key)
        m = re.match(r"^C06:dlci=0x([0-9a-f]{2}):(.+)$", key)
        if not m or runner.match_known(known, "C06", key):
            kept.append([key, case, msg, None])
            continue
        lst = per_kind.setdefault(m.group(2), [])
        if len(lst) < FOLD_KEEP:
            rec = [key, case, msg, m.group(2)]
            lst.append(rec)
            kept.append(rec)
        else:
            lst.append(None)
            folded += 1
            ctx.n_violations += 1
    for key, case, msg, kind in kept:
        more = len(per_kind[kind]) - FOLD_KEEP if kind else 0
        ctx.violation(key, case, msg + (" (the same failure kind was seen on %d further DLCIs, not listed)" % more if more > 0 else ""))
    return folded


def run(ctx):
    global _exe
    b = cbuild.builddir("c06")
    try:
        _exe = _build(b)
        tmo = 280 if ctx.quick else 1700
        maxlen = 6 if ctx.quick else 7
        cfgs = QUICK_BFS if ctx.quick else THOROUGH_BFS
        jobs = [(name, ["bfs"] + a.split(), tmo) for name, a, cost in sorted(cfgs, key=lambda c: -c[2])]
        jobs += [("sweep[dlci %d]" % d, ["sweep", d, d + 1, maxlen], tmo) for d in range(128)]
        jobs += [("resync[%d/%d]" % (i, RESYNC_PARTS), ["resync", i, RESYNC_PARTS], tmo) for i in range(RESYNC_PARTS)]
        jobs.append(("echo", ["echo"], tmo))
        jobs.append(("backlog", ["backlog"], tmo))
        jobs += [("regsweep[dlci %d..%d]" % (d, d + 31), ["regsweep", d, d + 32], tmo) for d in range(0, 128, 32)]
        results = ctx.pmap(_job, jobs)

        c = ctx.cov
        sums = ("states", "transitions", "bad_transitions", "events_replayed", "pull_transitions", "send_transitions",
                "noise_transitions", "overlong_transitions", "states_out_of_sync", "states_mid_frame")
        other = ("transfers", "special_tuples", "boundary_cases", "resync_scenarios", "echo_cases", "frames", "exact_deliveries",
                 "tolerated_deliveries", "wire_octets", "escapes", "noise_octets", "overlong_frames", "dlcis",
                 "echoes_queued", "scenarios_abandoned_in_window", "backlog_cases", "backlog_frames", "regsweep_cases", "frames_to_unregistered_dlci", "history_dependent_keys", "verify_requests",
                 "sampled_traces_rerun_alone", "sampled_traces_differing")
        for k in sums + other:
            c[k] = 0
        bfs, complete, depth = {}, True, 0
        confirmed = set()
        col = _Collector()
        oks = [_report(col, r, confirmed) for r in results]
        for r, ok in zip(results, oks):
            if _died(r):
                _report_crash(col, r)
            _report_hd(col, r, confirmed)
            complete = complete and ok
            js = r["js"] or {}
            if r["args"][0] == "bfs" and ok:
                bfs[r["name"]] = {k: js[k] for k in ("states", "transitions", "depth", "depth_bound", "states_at_bound_unexpanded",
                                                      "frontier_exhausted", "cap_hit", "alphabet")}
                bfs[r["name"]]["config"] = " ".join(map(str, r["args"][1:]))
                depth = max(depth, js["depth"])
                complete = complete and not js["cap_hit"]
                for k in sums:
                    c[k] += js[k]
            if ok:
                for k in other:
                    c[k] += js.get(k, 0)
        c["violation_classes_folded"] = _emit_folded(ctx, col.items)
        c["bfs_runs"] = bfs
        c["depth_reached"] = depth
        c["frontier_exhausted_runs"] = sum(1 for x in bfs.values() if x["frontier_exhausted"])
        c["depth_bounded_runs"] = sum(1 for x in bfs.values() if not x["frontier_exhausted"] and not x["cap_hit"])
        c["cap_hit"] = any(x["cap_hit"] for x in bfs.values())
        c["traces_validated_against_impl"] = c["transitions"]
        per_dlci = 1 + 256 + 65536 + sum(7 ** n for n in range(3, maxlen + 1)) + 48 + 4 * 3
        c["transfers_expected"] = 128 * per_dlci
        c["resync_scenarios_expected"] = (8 * 156 + 2 * 6) * 2 * RESYNC_FRAME_SETS * 6
        # exhaustive = every stated finite space was enumerated completely (a BFS run that stops at its stated depth
        # bound is complete within that bound); cases cut short by a violation do not count as a hole
        c["exhaustive"] = bool(complete and len(bfs) == len(cfgs) and c["dlcis"] == 128 and c["transfers"] == c["transfers_expected"]
                               and c["resync_scenarios"] == c["resync_scenarios_expected"] and c["echo_cases"] == 1 + 256 + 65536 + 9
                               and c["backlog_cases"] == 16 and c["regsweep_cases"] == 128 * 8 * 2)
        c["distinct_outcomes"] = {"exact_deliveries": c["exact_deliveries"], "deliveries_inside_tolerance_window": c["tolerated_deliveries"],
                                  "frames_on_wire": c["frames"], "escaped_octets": c["escapes"]}
        ctx.sample({"space_A_events": "s9.410042,p,p,s5.7e,p,p,p,p,p,p,p", "meaning": "send on DLCI 9, two octets out, send on DLCI 5 mid-frame, drain"})
        ctx.sample({"space_B_transfer": "s127.7d5e,P", "meaning": "payload 7D 5E on DLCI 127, pulled and fed octet by octet"})
        ctx.sample({"resync_scenario": "n41,n00,S4.4100.7d.7e.7e,P,n7d,s127.7d5e,P,s4.00,P,s5.7e7d,P"})
        ctx.sample({"echo_case": "s128.7e00,P,Q"})
        ctx.assumptions += [
            "host build (HOST_BUILD, receive buffer 2048); x86-64; the driver reaches sercomm.c's static state by #including the file",
            "BFS states are compared by a 128-bit fingerprint (two independent 64-bit hashes) of the serialised real + reference state",
            "noise octets in space A are injected only while reception is in sync; noise inside the tolerance window after an "
            "over-long frame is enumerated by the resync scenarios (0..3 octets from {00,7D,05,41,03})",
            "wire format judged the HDLC way: 0x7D then octet xor 0x20; the control octet's value is not judged",
            "an over-long frame (payload >= 2048) must not reach a handler; from it until the end of the next regular frame deliveries "
            "are not judged (except: never >= 2048 octets, never a crash, and a frame for the echo DLCI that is echoed inside this "
            "window must be echoed exactly); the frame after that must be exact again, also when noise octets precede it",
            "handlers registered on DLCI 0..127; DLCI 128 keeps sercomm_init()'s echo handler; sercomm_alloc_msgb(0) is outside the API "
            "(msgb_alloc_headroom asserts size > headroom), empty payloads are allocated with size 1",
        ]
    finally:
        cbuild.cleanup(b)


def replay(ctx, case):
    global _exe
    b = cbuild.builddir("c06r")
    try:
        # a single case needs no optimised driver (the build is most of a replay's time); re-running a whole job does
        _exe = _build(b, "-O2" if "hd_key" in case or case.get("token", "-") == "-" else "-O1")
        tok = case.get("token", "-")
        if "hd_key" in case:
            # history-dependent result: only the whole (deterministic) run shows it again
            r = _job(("replay", case["args"], 1700))
            r["args"] = case["args"]
            if case["hd_key"] == "crash":
                if _died(r):
                    ctx.violation(case["vkey"], case, "driver died again (rc=%s) at events %s: %s; %s" % (r["rc"], r["crash"], r["err"], HD_TEXT))
            else:
                for key, msg, example, note in r["hd"]:
                    if key == case["hd_key"]:
                        ctx.violation(case["vkey"], case, "%s (e.g. after %s) - %s; %s" % (msg, example, note, HD_TEXT))
            return
        args = ["case", tok] if tok and tok != "-" else case["args"]
        r = _job(("replay", args, 1700))
        r["args"] = case.get("args", args)
        _report(ctx, r)
        if _died(r):
            ctx.violation(_crash_key(r["crash"] or tok), case, "driver died (rc=%s) at events %s: %s" % (r["rc"], r["crash"], r["err"]))
    finally:
        cbuild.cleanup(b)

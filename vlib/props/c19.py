"""C19 - GSM time arithmetic is consistent across the code base.

The frame counter is a finite state machine with 2 715 648 states; all of them
are visited.  Transitions l1s_time_inc(delta) of the tree's firmware sync.c are
taken from *every* state for every delta of the set; decomposition and
recomposition (tree's libosmocore gsm_utils.c) are checked in every state; the
Python toolkit's fn2gsm_time is compared with the C values for every state.
"""
import array
import os
import sys

from vlib import cbuild

LEVEL = "model_checking"
HYPER = 2715648
_exe = None
_dump = None


def _walk(arg):
    lo, hi, mode = arg
    rc, out, err = cbuild.run(_exe, ["walk", lo, hi, mode])
    return rc, out.decode(), err.decode()[-2000:]


def _pycmp(arg):
    lo, hi = arg
    from vlib import world
    if world.TOOLKIT not in sys.path:
        sys.path.insert(0, world.TOOLKIT)
    import gsm_shared
    f = gsm_shared.HoppingParams.fn2gsm_time
    with open(_dump, "rb") as fh:
        fh.seek(lo * 6)
        rec = fh.read((hi - lo) * 6)
    bad = []
    for k in range(hi - lo):
        fn = lo + k
        r = rec[6 * k:6 * k + 6]
        c = (r[0] | (r[1] << 8), r[2], r[3], r[4])
        p = tuple(f(fn))
        if p[:3] != c[:3] or (len(p) > 3 and p[3] != c[3]):
            if len(bad) < 5:
                bad.append((fn, p, c))
    return hi - lo, bad


def _history_sequence():
    """Fixed call sequence for the order-independence leg: the hyperframe wrap, steps back over superframe
    boundaries, two interleaved streams a few frames apart, descending runs, pseudo-random jumps."""
    SF = 26 * 51
    seq = [HYPER - 3, HYPER - 2, HYPER - 1, 0, 1, 2, HYPER - 1, 0]
    for k in (1, 2, 3, 1024, 2047):
        b = k * SF
        seq += [b - 2, b - 1, b, b + 1, b, b - 1, b - 2, b + 1325, b - 1, b + SF, b, b - SF, b + 1]
        for i in range(-6, 7):                 # two streams, 3 frames apart, crossing the boundary
            seq += [b + i, b + i - 3]
    seq += list(range(3 * SF + 5, SF - 5, -1))          # descending over two boundaries
    seq += list(range(HYPER - 1, HYPER - SF - 3, -7))
    x = 12345
    for _ in range(3000):
        x = (x * 1103515245 + 12345) % (1 << 31)
        seq.append(x % HYPER)
    return [fn % HYPER for fn in seq]      # frame numbers live on the ring 0..HYPER-1


def _history_leg(upto=None):
    """Calls fn2gsm_time() along the fixed sequence (from process start: nothing else has called it before);
    -> (calls, [(index, fn, previous fn, got, want)])"""
    from vlib import world
    if world.TOOLKIT not in sys.path:
        sys.path.insert(0, world.TOOLKIT)
    import gsm_shared
    f = gsm_shared.HoppingParams.fn2gsm_time
    seq = _history_sequence()
    if upto is not None:
        seq = seq[:upto + 1]
    bad = []
    for i, fn in enumerate(seq):
        p = tuple(f(fn))
        want = ((fn // 1326) % 2048, fn % 26, fn % 51)
        if p[:3] != want:
            bad.append((i, fn, seq[i - 1] if i else None, p, want))
            if len(bad) >= 5:
                break
    return len(seq), bad


def run(ctx):
    global _exe, _dump
    # order-independence of the Python decomposition, before anything else in this process calls it
    ncalls, bad_hist = _history_leg()
    ctx.cov["python_history_calls"] = ncalls
    for i, fn, prev, p, want in bad_hist[:1]:
        ctx.violation("C19:python-history", {"kind": "py-history", "index": i, "fn": fn, "delta": 0},
                      "fn2gsm_time(%d) = %r when called after fn2gsm_time(%s) (call %d of the fixed sequence); "
                      "(T1, T2, T3) = %r is demanded whatever was asked before" % (fn, p, prev, i, want))
    b = cbuild.builddir("c19")
    try:
        _exe = cbuild.compile(b, "drv_c19", [os.path.join(cbuild.CSRC, "drv_c19.c"),
                                              os.path.join(cbuild.FW, "layer1/sync.c"),
                                              os.path.join(cbuild.LIBOSMO, "src/gsm/gsm_utils.c")],
                              cbuild.firmware_flags(b))
        mode = 0 if ctx.quick else 1
        n = ctx.nproc * 4
        cuts = [HYPER * i // n for i in range(n + 1)]
        import json
        tot = {"states": 0, "transitions": 0, "roundtrips": 0}
        for (lo, hi, _), (rc, out, err) in zip([(cuts[i], cuts[i + 1], mode) for i in range(n)],
                                                ctx.pmap(_walk, [(cuts[i], cuts[i + 1], mode) for i in range(n)])):
            js = None
            for line in out.splitlines():
                if line.startswith("V "):
                    parts = line.split()
                    kind, fn, delta = parts[1], int(parts[2][3:]), int(parts[3][6:])
                    cls = "delta=%d" % delta if kind in ("time_inc", "running") else kind
                    ctx.violation("C19:%s:%s" % (kind, cls), {"kind": kind, "fn": fn, "delta": delta}, line)
                elif line.startswith("{"):
                    js = json.loads(line)
            if js is None:
                # sanitizer report / crash
                ctx.violation("C19:crash", {"kind": "crash", "fn": lo, "hi": hi, "delta": 0},
                              "driver died (rc=%d) on fn range %d..%d: %s" % (rc, lo, hi, err[-600:]))
                continue
            for k in tot:
                tot[k] += js[k]
            ctx.cov["deltas"] = js["deltas"]
        _dump = os.path.join(b, "dump.bin")
        rc, out, err = cbuild.run(_exe, ["dump", _dump])
        if rc != 0:
            raise cbuild.HarnessError("dump failed: %s" % err[-500:])
        npy = 0
        # (when the decomposition turned out to depend on the calls made before, a per-value comparison has no
        # meaning - and would not replay: it is left out and the run is not exhaustive)
        for cnt, bad in ([] if bad_hist else ctx.pmap(_pycmp, [(cuts[i], cuts[i + 1]) for i in range(n)])):
            npy += cnt
            for fn, p, c in bad:
                ctx.violation("C19:python-vs-c", {"kind": "py", "fn": fn, "delta": 0},
                              "fn2gsm_time(%d) = %r, C code gives (t1,t2,t3,tc) = %r" % (fn, p, c))
        c = ctx.cov
        c.update(tot)
        c["python_vs_c_compared"] = npy
        c["traces_validated_against_impl"] = tot["transitions"]
        c["exhaustive"] = tot["states"] == HYPER and npy == HYPER and not bad_hist
        c["evaluations"] = tot["transitions"] + tot["roundtrips"] + npy
        c["distinct_nontrivial"] = tot["states"]
        c["rule"] = "every frame number 0..2715647 is a state; every (state, delta) pair is a transition, each executed once"
        ctx.sample({"fn": 2715647, "delta": 1, "expected": [0, 0, 0, 0, 0]})
        ctx.sample({"fn": 1325, "delta": 1326, "expected": "decomposition of 2651"})
        ctx.assumptions += ["x86-64 host build of sync.c/gsm_utils.c (fixed-width integer types only in the code exercised)",
                            "expected values computed with divisions by constants only"]
    finally:
        cbuild.cleanup(b)


def replay(ctx, case):
    global _exe
    if case["kind"] == "py-history":
        _, bad = _history_leg(case["index"])
        for i, fn, prev, p, want in bad[:1]:
            ctx.violation("C19:python-history", case, "fn2gsm_time(%d) = %r after fn2gsm_time(%s) (call %d), demanded %r"
                          % (fn, p, prev, i, want))
        return
    b = cbuild.builddir("c19r")
    try:
        _exe = cbuild.compile(b, "drv_c19", [os.path.join(cbuild.CSRC, "drv_c19.c"),
                                              os.path.join(cbuild.FW, "layer1/sync.c"),
                                              os.path.join(cbuild.LIBOSMO, "src/gsm/gsm_utils.c")],
                              cbuild.firmware_flags(b))
        if case["kind"] == "py":
            global _dump
            _dump = os.path.join(b, "dump.bin")
            cbuild.run(_exe, ["dump", _dump])
            cnt, bad = _pycmp((case["fn"], case["fn"] + 1))
            for fn, p, c in bad:
                ctx.violation("C19:python-vs-c", case, "fn2gsm_time(%d) = %r, C = %r" % (fn, p, c))
            return
        rc, out, err = cbuild.run(_exe, ["walk", case["fn"], case.get("hi", case["fn"] + 1), 1])
        for line in out.decode().splitlines():
            if line.startswith("V "):
                parts = line.split()
                kind, delta = parts[1], int(parts[3][6:])
                cls = "delta=%d" % delta if kind in ("time_inc", "running") else kind
                ctx.violation("C19:%s:%s" % (kind, cls), case, line)
        if rc not in (0, 1):
            ctx.violation("C19:crash", case, "driver died rc=%d: %s" % (rc, err.decode()[-400:]))
    finally:
        cbuild.cleanup(b)

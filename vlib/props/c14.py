"""C14 - no datagram or capture content can crash the tools.

Exhaustive fault enumeration: for every position of several valid sessions and
every entry of a mutation catalogue derived from the valid datagram at that
position (every truncation, header octets -> {00,7F,80,FF}, every bit of the
first 11 octets, all version nibbles, argument -> {-1, 20 digits, abc, empty,
1.5, 0x10, full-width digits, non-UTF-8}, dropped/extra argument, NUL variants,
case), the mutant is injected through the real main loop and the rest of the
session is replayed; argument faults are additionally sent *in place of* the valid
command, so that a hostile numeric value is still in force when traffic follows.  Oracle: no exception leaves the main loop / handlers;
a datagram the reference does not accept changes nothing and emits nothing;
a clearly malformed command is ignored or answered with a non-zero status and
changes nothing; the remainder of the session behaves exactly as the reference
model says.  Plus: every string over {C,M,D,' ',0,NUL,0xFF} up to length 5 on
both sockets in two states; Msg.parse_msg raises only ValueError on every data
mutant; every single-octet corruption / truncation of a capture file.

trxcon leg (ASan/UBSan driver around the real trx_if.c): c14_trxcon.py.
"""
import io
import itertools

from vlib import world
from vlib.appworld import AppWorld
from vlib.ref import trxmodel, trxd

LEVEL = "fault_enumeration"
F1, F2, F3 = 935000, 890000, 947000
HYPER = 2715648


def bits148(tag):
    return bytes(((k * 3 + tag) >> 1) & 1 for k in range(148))


# ---- sessions: lists of events.  ("c", trx, text) ("d", trx, ver, tn, dfn, pwr, nbits) ("t",)
def sessions():
    s1 = [("c", 0, "RXTUNE %d" % F2), ("c", 0, "TXTUNE %d" % F1), ("c", 1, "RXTUNE %d" % F1), ("c", 1, "TXTUNE %d" % F2),
          ("c", 1, "POWERON"), ("c", 0, "POWERON"), ("t",), ("d", 0, 0, 1, 1, 3, 148), ("t",), ("t",),
          ("d", 1, 0, 2, 1, 0, 148), ("t",), ("t",), ("c", 1, "MEASURE %d" % F1),
          ("c", 0, "SETFH 5 1 %d %d %d %d" % (F2, F1, F1, F2)), ("d", 0, 0, 3, 1, 1, 148), ("t",), ("t",),
          # the same command again while hopping is in force: a refused variant of it must leave hopping as it is
          ("c", 0, "SETFH 5 1 %d %d %d %d" % (F2, F1, F1, F2)), ("d", 0, 0, 4, 1, 1, 148), ("t",), ("t",),
          ("d", 0, 0, 5, 2, 1, 148), ("t",), ("t",), ("t",),      # (a frame in which the hopping sender is on the other carrier)
          ("c", 0, "POWEROFF"), ("t",), ("c", 1, "POWEROFF")]
    s2 = [("c", 0, "SETFORMAT 1"), ("c", 1, "SETFORMAT 1"), ("c", 1, "FAKE_TOA 10 2"), ("c", 1, "FAKE_RSSI -80 3"),
          ("c", 1, "FAKE_CI 80 5"), ("c", 1, "FAKE_DROP 1 2"), ("c", 1, "FAKE_TRXC_DELAY 0"), ("c", 0, "SETTA 2"), ("c", 0, "SETPOWER 4"),
          ("c", 0, "RXTUNE %d" % F2), ("c", 0, "TXTUNE %d" % F1), ("c", 1, "RXTUNE %d" % F1), ("c", 1, "TXTUNE %d" % F2),
          ("c", 0, "POWERON"), ("c", 1, "POWERON"), ("t",), ("d", 0, 1, 4, 1, 2, 148), ("d", 0, 1, 5, 2, 2, 444), ("t",), ("t",),
          ("t",), ("c", 1, "RFMUTE 1"), ("d", 0, 1, 6, 1, 0, 148), ("t",), ("t",), ("c", 1, "RFMUTE 0"),
          ("c", 0, "NOMTXPOWER"), ("c", 1, "POWEROFF"), ("c", 0, "POWEROFF")]
    s3 = [("c", 0, "RXTUNE %d" % F2), ("c", 0, "TXTUNE %d" % F1), ("c", 2, "RXTUNE %d" % F3), ("c", 2, "TXTUNE %d" % F3),
          ("c", 1, "RXTUNE %d" % F3), ("c", 1, "TXTUNE %d" % F2), ("c", 0, "POWERON"), ("c", 1, "POWERON"), ("t",),
          ("d", 2, 0, 7, 1, 1, 148), ("d", 1, 0, 0, 2, 0, 148), ("t",), ("t",), ("t",), ("c", 2, "POWEROFF"),
          ("d", 2, 0, 1, 1, 0, 148), ("t",), ("t",), ("c", 0, "POWEROFF"), ("c", 1, "POWEROFF")]
    return {"basic-v0": ([], s1), "v1-sim": ([], s2), "child": ([("C1", 5700, 1)], s3)}


def ev_payload(W, ev):
    if ev[0] == "c":
        return ("CMD " + ev[2] + "\0").encode()
    if ev[0] == "d":
        _, i, ver, tn, dfn, pwr, n = ev
        base = W.model.fn if W.model.clock_running else 0
        fn = (base + dfn) % HYPER
        bits = bits148(tn) if n == 148 else bytes((k * 5) & 1 for k in range(n))
        return trxd.enc_tx(ver, tn, fn, pwr, bits)
    return None


def do_event(W, ev):
    if ev[0] == "c":
        return W.ctrl(ev[1], ev_payload(W, ev))
    if ev[0] == "d":
        return W.data(ev[1], ev_payload(W, ev), check_noeffect=True)
    if W.can_tick() or W.model.clock_running:
        return W.tick()
    return []


# ---- catalogues --------------------------------------------------------------------------------
ARG_FAULTS = [b"-1", b"0", b"12345678901234567890", b"abc", b"", b"1.5", b"0x10", "１２".encode(), b"\xff\xfe",
              b"-128", b"32768", b"65536"]       # the ends of the 8/16-bit ranges the values are packed into later
OCT = [0x00, 0x7f, 0x80, 0xff]


def ctrl_mutants(b, full=True):
    out = []
    for n in range(len(b)):
        out.append(("trunc%d" % n, b[:n]))
    body = b[:-1]
    toks = body.split(b" ")
    for k in range(2, len(toks)):
        for f in ARG_FAULTS:
            t = list(toks)
            t[k] = f
            out.append(("arg%d=%s" % (k - 1, f.hex()), b" ".join(t) + b"\0"))
        if not full and k >= 3:
            break
    if len(toks) > 2:
        out.append(("droparg", b" ".join(toks[:-1]) + b"\0"))
    out.append(("extraarg", body + b" 7\0"))
    out.append(("nonul", body))
    out.append(("onlynul", b"\0"))
    out.append(("CMD", b"CMD"))
    out.append(("CMDsp", b"CMD "))
    out.append(("lower", body.lower() + b"\0"))
    out.append(("verblower", b"CMD " + toks[1].lower() + (b" " + b" ".join(toks[2:]) if len(toks) > 2 else b"") + b"\0"))
    out.append(("doublenul", b + b"\0"))
    for pos in range(4):
        for o in OCT:
            out.append(("hdr%d=%02x" % (pos, o), b[:pos] + bytes([o]) + b[pos + 1:]))
    out.append(("verb-nonutf8", b"CMD \xff\xfe\xfd\0"))
    out.append(("verb-abc-arg", b"CMD " + toks[1] + b" abc def\0"))
    return out


def data_mutants(b, full=True):
    out = []
    step = 1 if full else 7
    for n in list(range(0, 12)) + list(range(12, len(b), step)):
        out.append(("trunc%d" % n, b[:n]))
    for pos in range(6):
        for o in OCT:
            out.append(("oct%d=%02x" % (pos, o), b[:pos] + bytes([o]) + b[pos + 1:]))
    for bit in range(88):
        pos, m = bit // 8, 1 << (bit % 8)
        out.append(("flip%d" % bit, b[:pos] + bytes([b[pos] ^ m]) + b[pos + 1:]))
    for nib in range(16):
        out.append(("ver%d" % nib, bytes([(nib << 4) | (b[0] & 0x0f)]) + b[1:]))
    for extra in (1, 2, 3, 400):
        out.append(("extra%d" % extra, b + bytes(extra)))
    out.append(("bit=2", b[:6] + b"\x02" + b[7:]))
    out.append(("bit=ff", b[:-1] + b"\xff"))
    return out


def data_is_ambiguous(p):
    d = trxd.dec_tx(p[:512])
    return d is not None and d["ver"] in (0, 1) and d["fn"] >= HYPER


# ---- one faulted run ------------------------------------------------------------------------------
def run_one(extra, events, pos, port_kind, trx, payload, replace=False):
    """session prefix [0:pos], mutant, rest of the session (replace: the mutant stands in for the valid
    datagram at pos, so that whatever it configured is still in force when the traffic follows).
    Returns list of (class, msg)."""
    defs = trxmodel.std_config(extra)
    W = AppWorld(defs)
    for ev in events[:pos]:
        v = do_event(W, ev)
        if v:
            return [("session-" + v[0][0], "fault-free prefix already fails: %s" % v[0][1])]
    diverged = False
    cls = None
    if port_kind == "c":
        v, changed = W.ctrl_fault(trx, payload)
        cls = trxmodel.classify_ctrl(payload)
        if v:
            return v
        diverged = changed and cls == "AMBIG"
    else:
        if data_is_ambiguous(payload):
            W.fab.inject(defs[trx].data, payload, (defs[trx].addr, defs[trx].data + 100))
            try:
                world.pump(W.app)
            except Exception as e:
                return [("exception", "data %s: %s: %s" % (payload[:12].hex(), type(e).__name__, e))]
            W.fab.reset_out()
            diverged = True
        else:
            v = W.data(trx, payload, check_noeffect=True)
            if v:
                return v
    # liveness: the transceiver goes on answering
    v = W.ctrl(trx, "NOMTXPOWER")
    if diverged:
        v = [x for x in v if x[0] == "exception" or x[0].startswith("reply")]
    if v:
        return [("not-serving", "after the fault: %s" % v[0][1])]
    for ev in events[pos + 1 if replace else pos:]:
        v = do_event(W, ev)
        if diverged or (replace and cls != "VALID"):
            # (with the valid datagram left out the session is another one: only its survival is judged -
            # unless the mutant is itself a well-formed command, whose effect the reference model knows)
            v = [x for x in v if x[0] == "exception"]
        if v:
            return [("after-fault-" + v[0][0], "rest of the session after the fault%s: %s"
                     % (" (sent in place of the valid command)" if replace else "", v[0][1]))]
    return []


def work_session(arg):
    sname, pos, tier = arg
    extra, events = sessions()[sname]
    ev = events[pos]
    res = {"cov": {"evaluations": 0, "mutants": 0, "by_class": {}}, "viol": [], "samples": []}
    if ev[0] == "t":
        return res
    # the valid datagram at this position, as it would be sent
    defs = trxmodel.std_config(extra)
    W = AppWorld(defs)
    for e in events[:pos]:
        do_event(W, e)
    b = ev_payload(W, ev)
    muts = ctrl_mutants(b, tier != "quick") if ev[0] == "c" else data_mutants(b, tier != "quick")
    seen = set()
    for name, p in muts:
        if p in seen or p == b:
            continue
        seen.add(p)
        cls = trxmodel.classify_ctrl(p) if ev[0] == "c" else ("AMBIGDATA" if data_is_ambiguous(p) else "DATA")
        res["cov"]["by_class"][cls] = res["cov"]["by_class"].get(cls, 0) + 1
        v = run_one(extra, events, pos, ev[0], ev[1], p)
        res["cov"]["evaluations"] += 1
        res["cov"]["mutants"] += 1
        rep = False
        if not v and ev[0] == "c" and name.startswith("arg"):
            # a numeric argument out of every sensible range: also *instead of* the valid command
            v = run_one(extra, events, pos, ev[0], ev[1], p, replace=True)
            rep = True
            res["cov"]["evaluations"] += 1
            res["cov"]["replacing_mutants"] = res["cov"].get("replacing_mutants", 0) + 1
        for c, m in v[:1]:
            fam = name.rstrip("0123456789").split("=")[0]
            res["viol"].append(("C14:py:%s:%s:%s" % (c, "ctrl" if ev[0] == "c" else "data", fam),
                                {"leg": "session", "session": sname, "pos": pos, "kind": ev[0], "trx": ev[1],
                                 "payload": p.hex(), "mutant": name, "replace": rep},
                                "%s pos %d mutant %s (%r): %s" % (sname, pos, name, p[:40], m)))
    if not res["samples"] and muts:
        res["samples"].append({"session": sname, "pos": pos, "mutant": muts[len(muts) // 2][0], "payload": muts[len(muts) // 2][1][:40].hex()})
    return res


def work_pairs(arg):
    """two faults (thorough): a representative fault at position p1 and another at p2 > p1"""
    sname, p1 = arg
    extra, events = sessions()[sname]
    res = {"cov": {"evaluations": 0, "pairs": 0}, "viol": []}
    reps_c = [b"CMD RXTUNE abc\0", b"CMD \xff\xfe\0", b"CMD FAKE_TOA 5 x\0", b"CMD", b"\0", b"CMD SETFH 1 2 3\0", b"CMD POWERON 1.5\0"]
    reps_d = [b"", b"\x00", b"\x20\x00\x00\x00\x01\x00" + bytes(148), b"\x00\x00\x00\x00", b"\xf7" + bytes(160)]
    defs = trxmodel.std_config(extra)
    for p2 in range(p1, len(events) + 1):
        for (k1, f1), (k2, f2) in itertools.product([("c", f) for f in reps_c] + [("d", f) for f in reps_d], repeat=2):
            W = AppWorld(defs)
            bad = None
            for idx in range(len(events) + 1):
                if idx == p1:
                    bad = bad or _inject(W, k1, f1)
                if idx == p2:
                    bad = bad or _inject(W, k2, f2)
                if bad or idx == len(events):
                    break
                v = do_event(W, events[idx])
                if v:
                    bad = v
                    break
            res["cov"]["evaluations"] += 1
            res["cov"]["pairs"] += 1
            if bad and len(res["viol"]) < 3:
                res["viol"].append(("C14:py:pair:%s" % bad[0][0], {"leg": "pair", "session": sname, "p1": p1, "p2": p2,
                                                                  "k1": k1, "f1": f1.hex(), "k2": k2, "f2": f2.hex()},
                                    "%s faults at %d,%d: %s" % (sname, p1, p2, bad[0][1])))
    return res


def _inject(W, kind, f):
    if kind == "c":
        v, changed = W.ctrl_fault(0, f)
        return v or None
    v = W.data(0, f, check_noeffect=True)
    return v or None


def work_strings(arg):
    """every string over the alphabet up to length 5, on both sockets of the BTS, in one state"""
    state, first = arg
    alpha = [b"C", b"M", b"D", b" ", b"0", b"\0", b"\xff"]
    defs = trxmodel.std_config()
    res = {"cov": {"evaluations": 0, "strings": 0}, "viol": []}

    def fresh():
        W = AppWorld(defs)
        if state == "running":
            for i, c in [(0, "RXTUNE %d" % F2), (0, "TXTUNE %d" % F1), (1, "RXTUNE %d" % F1), (1, "TXTUNE %d" % F2),
                         (0, "POWERON"), (1, "POWERON")]:
                W.ctrl(i, c)
        return W
    W = fresh()
    for n in range(0, 5):
        for rest in itertools.product(alpha, repeat=n):
            s = first + b"".join(rest)
            for kind in ("c", "d"):
                if kind == "c":
                    v, changed = W.ctrl_fault(0, s)
                else:
                    v, changed = W.data(0, s, check_noeffect=True), False
                res["cov"]["evaluations"] += 1
                if v and len(res["viol"]) < 4:
                    res["viol"].append(("C14:py:string:%s:%s" % (kind, v[0][0]), {"leg": "string", "state": state, "kind": kind,
                                                                               "payload": s.hex()}, "%s socket, state %s, %r: %s"
                                        % ("ctrl" if kind == "c" else "data", state, s, v[0][1])))
                if v or changed:
                    W = fresh()
            res["cov"]["strings"] += 1
    return res


def work_parse(arg):
    """Msg.parse_msg on every data mutant of several valid datagrams: only ValueError may be raised"""
    world.install()
    import data_msg
    res = {"cov": {"evaluations": 0, "parse_inputs": 0, "parse_valueerror": 0, "parse_ok": 0}, "viol": []}
    base = [trxd.enc_tx(0, 1, 100, 3, bits148(1)), trxd.enc_tx(1, 2, 2715647, 255, bytes(444)),
            trxd.enc_rx(0, 3, 7, -60, -5, [127] * 148, pad=True), trxd.enc_rx(0, 3, 7, -60, -5, [-127] * 444),
            trxd.enc_rx(1, 4, 9, -110, 0, None, ci=-30, nope=True),
            trxd.enc_rx(1, 5, 11, -47, 32767, [0] * 148, mod="GMSK", tsc_set=3, tsc=7, ci=1280),
            trxd.enc_rx(1, 5, 11, -120, -32768, [1] * 740, mod="32QAM", tsc_set=1, tsc=0, ci=-1280)]
    b = base[arg]
    for name, p in data_mutants(b, True) + [("orig", b)]:
        for cls in (data_msg.TxMsg, data_msg.RxMsg):
            for conv in (bytes, bytearray):
                res["cov"]["evaluations"] += 1
                try:
                    cls().parse_msg(conv(p))
                    res["cov"]["parse_ok"] += 1
                except ValueError:
                    res["cov"]["parse_valueerror"] += 1
                except Exception as e:
                    if len(res["viol"]) < 4:
                        res["viol"].append(("C14:py:parse_msg:%s:%s" % (cls.__name__, type(e).__name__),
                                            {"leg": "parse", "cls": cls.__name__, "payload": p.hex(), "conv": conv.__name__},
                                            "%s.parse_msg(%s of %d octets, mutant %s) raised %s: %s"
                                            % (cls.__name__, conv.__name__, len(p), name, type(e).__name__, e)))
        res["cov"]["parse_inputs"] += 1
    return res


def capture_image():
    world.install()
    import data_msg, data_dump
    f = io.BytesIO()
    dd = data_dump.DATADumpFile(f)
    m1 = data_msg.TxMsg(fn=10, tn=1, burst=bytearray(bits148(2)))
    m1.pwr = 5
    m2 = data_msg.RxMsg(fn=11, tn=2, burst=data_msg.Msg.ubit2sbit(bytearray(bits148(3))))
    m2.rssi, m2.toa256 = -70, 12
    m3 = data_msg.RxMsg(fn=12, tn=3, ver=1)
    m3.rssi, m3.toa256, m3.ci, m3.nope_ind = -110, 0, -30, True
    dd.append_all([m1, m2, m3])
    img = f.getvalue()
    dd.f = io.BytesIO()
    return img


def work_capture(arg):
    lo, hi = arg
    world.install()
    import data_dump
    img = capture_image()
    res = {"cov": {"evaluations": 0, "capture_images": 0}, "viol": []}
    images = []
    for pos in range(lo, min(hi, len(img))):
        for val in (0x00, 0x01, 0x02, 0x03, 0x7f, 0x80, 0xff, img[pos] ^ 1, img[pos] ^ 0x80, (img[pos] + 1) & 0xff):
            if val != img[pos]:
                images.append(("corrupt@%d=%02x" % (pos, val), img[:pos] + bytes([val]) + img[pos + 1:]))
        images.append(("trunc@%d" % pos, img[:pos]))
    for name, im in images:
        res["cov"]["capture_images"] += 1
        dd = data_dump.DATADumpFile(io.BytesIO(im))
        for what, fn in [("parse_all", lambda: dd.parse_all()), ("parse_all(1,1)", lambda: dd.parse_all(1, 1)),
                         ("parse_msg(0)", lambda: dd.parse_msg(0)), ("parse_msg(1)", lambda: dd.parse_msg(1)),
                         ("parse_msg(2)", lambda: dd.parse_msg(2)), ("parse_msg(3)", lambda: dd.parse_msg(3))]:
            res["cov"]["evaluations"] += 1
            try:
                fn()
            except Exception as e:
                if len(res["viol"]) < 4:
                    res["viol"].append(("C14:py:capture:%s:%s" % (what.split("(")[0], type(e).__name__),
                                        {"leg": "capture", "image": im.hex(), "call": what},
                                        "capture image %s: %s raised %s: %s" % (name, what, type(e).__name__, e)))
        dd.f = io.BytesIO()
    return res


def run(ctx):
    from vlib.props import c14_trxcon
    items = []
    for sname, (extra, events) in sessions().items():
        # the fault-free session itself must be silent (otherwise everything below is meaningless)
        W = AppWorld(trxmodel.std_config(extra))
        for k, ev in enumerate(events):
            v = do_event(W, ev)
            if v:
                ctx.violation("C14:py:session-baseline:%s" % sname, {"leg": "baseline", "session": sname, "pos": k},
                              "fault-free session %s fails at %d: %s" % (sname, k, v[0][1]))
                break
        items += [(sname, pos, ctx.tier) for pos in range(len(events))]
    for r in ctx.pmap(work_session, items):
        ctx.merge(r)
    alpha = [b"C", b"M", b"D", b" ", b"0", b"\0", b"\xff"]
    for r in ctx.pmap(work_strings, [(st, a) for st in ("idle", "running") for a in alpha] + [("idle", b"")][:1]):
        ctx.merge(r)
    for r in ctx.pmap(work_parse, list(range(7))):
        ctx.merge(r)
    n = len(capture_image())
    cuts = list(range(0, n + 1, 24))
    for r in ctx.pmap(work_capture, [(a, a + 24) for a in cuts]):
        ctx.merge(r)
    if not ctx.quick:
        pitems = [(sname, p1) for sname, (extra, events) in sessions().items() for p1 in range(len(events) + 1)]
        for r in ctx.pmap(work_pairs, pitems):
            ctx.merge(r)
    c = ctx.cov
    c14_trxcon.run(ctx)
    c["sessions"] = len(sessions())
    c["distinct_nontrivial"] = c.get("mutants", 0) + c.get("capture_images", 0) + c.get("parse_inputs", 0)
    c["rule"] = ("every (session, position, mutant) triple of the catalogue, each mutant distinct from the valid datagram and from the other "
                 "mutants at that position; every string of length <= 5 over a 7-octet alphabet on both sockets in 2 states; every data mutant "
                 "through Tx/RxMsg.parse_msg; every single-octet corruption (10 values) and truncation of a 3-message capture")
    c["exhaustive"] = True
    ctx.assumptions += ["'clearly malformed' is decided by the harness's strict grammar; inputs the statement does not classify (odd whitespace/NUL "
                        "placement, '+5', non-ASCII digits, FN beyond the hyperframe) are judged for crash-freedom, reply count and liveness only",
                        "one fault per run in quick, representative pairs in thorough"]


def replay(ctx, case):
    leg = case.get("leg")
    if leg == "trxcon":
        from vlib.props import c14_trxcon
        return c14_trxcon.replay(ctx, case)
    if leg == "baseline":
        extra, events = sessions()[case["session"]]
        W = AppWorld(trxmodel.std_config(extra))
        for k, ev in enumerate(events):
            v = do_event(W, ev)
            if v:
                ctx.violation("C14:py:session-baseline:%s" % case["session"], case, "fault-free session fails at %d: %s" % (k, v[0][1]))
                break
        return
    if leg == "session":
        extra, events = sessions()[case["session"]]
        p = bytes.fromhex(case["payload"])
        v = run_one(extra, events, case["pos"], case["kind"], case["trx"], p, replace=bool(case.get("replace")))
        fam = case["mutant"].rstrip("0123456789").split("=")[0]
        for c, m in v[:1]:
            ctx.violation("C14:py:%s:%s:%s" % (c, "ctrl" if case["kind"] == "c" else "data", fam), case, m)
    elif leg == "string":
        defs = trxmodel.std_config()
        W = AppWorld(defs)
        if case["state"] == "running":
            for i, c in [(0, "RXTUNE %d" % F2), (0, "TXTUNE %d" % F1), (1, "RXTUNE %d" % F1), (1, "TXTUNE %d" % F2),
                         (0, "POWERON"), (1, "POWERON")]:
                W.ctrl(i, c)
        s = bytes.fromhex(case["payload"])
        v = W.ctrl_fault(0, s)[0] if case["kind"] == "c" else W.data(0, s, check_noeffect=True)
        for c, m in v[:1]:
            ctx.violation("C14:py:string:%s:%s" % (case["kind"], c), case, m)
    elif leg == "parse":
        world.install()
        import data_msg
        cls = getattr(data_msg, case["cls"])
        conv = bytes if case["conv"] == "bytes" else bytearray
        try:
            cls().parse_msg(conv(bytes.fromhex(case["payload"])))
        except ValueError:
            pass
        except Exception as e:
            ctx.violation("C14:py:parse_msg:%s:%s" % (case["cls"], type(e).__name__), case, "%s: %s" % (type(e).__name__, e))
    elif leg == "capture":
        world.install()
        import data_dump
        dd = data_dump.DATADumpFile(io.BytesIO(bytes.fromhex(case["image"])))
        what = case["call"]
        try:
            eval("dd." + (what if "(" in what else what + "()"))
        except Exception as e:
            ctx.violation("C14:py:capture:%s:%s" % (what.split("(")[0], type(e).__name__), case, "%s: %s" % (type(e).__name__, e))
        dd.f = io.BytesIO()
    elif leg == "pair":
        extra, events = sessions()[case["session"]]
        defs = trxmodel.std_config(extra)
        W = AppWorld(defs)
        bad = None
        for idx in range(len(events) + 1):
            if idx == case["p1"]:
                bad = bad or _inject(W, case["k1"], bytes.fromhex(case["f1"]))
            if idx == case["p2"]:
                bad = bad or _inject(W, case["k2"], bytes.fromhex(case["f2"]))
            if bad or idx == len(events):
                break
            v = do_event(W, events[idx])
            if v:
                bad = v
                break
        if bad:
            ctx.violation("C14:py:pair:%s" % bad[0][0], case, bad[0][1])

"""C15 - capture files return exactly what was stored, even after truncation.

Fault enumeration (histories x crash points), see DESIGN.md C15.

Seam   : data_dump.DATADumpFile over io.BytesIO (append_msg, append_all, parse_all, parse_msg).
Space  : every history of <= 3 (quick) / <= 4 (thorough) messages from an 11-entry menu
         (Tx v0 148, Tx v1 444, Rx v0 148/444, Rx v1 x 6 modulations, Rx v1 NOPE; the
         header fields depend on the position in the history so that every stored message
         is distinguishable), written by four call patterns (append_msg only, one
         append_all, append_all + append_msg, append_msg + append_all); the file image cut
         at EVERY offset 0..len; on every image parse_all(), parse_all(skip, count) for
         skip in {None, 0..N+1}, count in {None, 1..N+1} and parse_msg(i), i in 0..N+1
         (N = the tier's maximal history length).  For cuts deeper than two octets inside a
         record body the skip x count product is thinned to every skip with count in {None, 1}
         plus every count with skip None - in the quick tier on all such images, in the
         thorough tier only inside the 4th record of 4-message histories (every image of the
         <= 3-message histories gets the whole product there).
Oracle : the stored messages (plain dicts, never toolkit objects) and their end offsets;
         a message counts as stored when the file has reached the length the same call
         sequence produces for the history shortened to that message.  Result = the
         messages wholly before the cut, sliced by skip/count; equality field by field
         (only the fields the header version carries), burst bits equal; nothing raises.
         For skip / idx at or beyond the number of available messages the statement does
         not choose: [] / False / None are all accepted (what the code returns is counted
         in the evidence).

Interleaved leg (one DATADumpFile object that is written AND read): every history
  r0, A1, r1, A2, r2 [, A3, r3] in which append steps (append_msg(m) / append_all([m, m']))
  and read steps (nothing, parse_msg(i), parse_all(), parse_all(skip, count) incl. pages that
  reach past the end) alternate on the same object, on (a) a real file opened by path ("a+b")
  in a private directory under /verif/build and (b) an io.BytesIO handed to the constructor.
  Oracle: every read returns exactly the messages appended so far (sliced), field-equal, and
  a fresh reader on the finished capture sees all of them.  Every history runs twice: with the
  harness moving the file position to the end before each append step (what fails there is
  the reader's own state: keys C15:interleaved:<file|bytesio>:reader-state:...) and, if that
  run is clean, as plain API use (what fails only there comes from where an append after a
  read lands: keys C15:interleaved:<file|bytesio>:append-position:...).
Cross-object leg (runs first, in the parent process): a fixed sequence of writes and reads over
  four capture profiles and both backends through several DATADumpFile objects that are alive
  at the same time; if one capture's reads depend on another capture (state shared between
  objects) it reports C15:cross-object:<backend>:capture<N>:... and the sweeps are skipped
  (their violations would depend on what the worker process handled before and not replay).
Re-append leg: ONE message object is appended several times and changed in place in between
  (burst elements / slice / whole buffer changed in the same burst object, header fields
  changed, burst re-bound; Tx and Rx, v0/v1, NOPE; append_msg / append_all; both backends;
  optionally encoded once before).  Every read must return the values that were current at
  each append.  Keys C15:reappend:<file|bytesio>:<Tx|Rx>:...

A capture file is a pure function of its octets for the reader, and the truncated image
of history h cut inside (or at the end of) its i-th record is octet-identical to the
image of h[:i] cut at the same offset (this prefix stability is checked, not assumed).
Every distinct image is therefore evaluated once, in the work unit of the shortest
history that produces it, with the skip/count/index ranges of the longest history.
"""
import io
import itertools
import logging
import os
import shutil
from array import array

from vlib import world
from vlib.errors import HarnessError

LEVEL = "fault_enumeration"

HYPER = 2715648
MODS = [("ModGMSK", 148), ("Mod8PSK", 444), ("ModGMSK_AB", 148), ("Mod16QAM", 592),
        ("Mod32QAM", 740), ("ModAQPSK", 296)]


def hard_bits(n, seed):
    return bytes(((i * (seed + 3) + (i >> 3) + seed) & 1) for i in range(n))


def soft_bits(n, seed):
    # covers -127, 0, 127 and everything between; never -128 (outside the protocol range)
    return [((i * (2 * seed + 7) + seed * 31) % 255) - 127 for i in range(n)]


def menu_entry(idx, pos):
    """The stored message `idx` of the menu when written as the pos-th message of a
    history: plain dict, the oracle's notion of the message."""
    if idx == 0:
        return {"cls": "TxMsg", "ver": 0, "fn": 0 + pos, "tn": pos % 8, "pwr": 0 if pos == 0 else 7 * pos,
                "burst": hard_bits(148, 1)}
    if idx == 1:
        return {"cls": "TxMsg", "ver": 1, "fn": HYPER - 1 - pos, "tn": 7 - pos % 8, "pwr": 255 - pos,
                "burst": hard_bits(444, 2)}
    if idx == 2:
        return {"cls": "RxMsg", "ver": 0, "fn": 1000 + pos, "tn": (3 + pos) % 8, "rssi": -47 - pos,
                "toa256": -32768 + pos, "burst": soft_bits(148, 3)}
    if idx == 3:
        return {"cls": "RxMsg", "ver": 0, "fn": 65536 * 17 + pos, "tn": (5 + pos) % 8, "rssi": -120 + pos,
                "toa256": 32767 - pos, "burst": soft_bits(444, 4)}
    if 4 <= idx <= 9:
        mod, bl = MODS[idx - 4]
        tsc_set = [3, 1, 0, 1, 0, 1][idx - 4]
        return {"cls": "RxMsg", "ver": 1, "fn": 256 * idx + 255 + pos, "tn": (idx + pos) % 8,
                "rssi": -50 - idx - pos, "toa256": [-1, 255, -256, 1, 0x1234, -0x1234][idx - 4] + pos,
                "nope": False, "mod": mod, "tsc_set": tsc_set, "tsc": (7 - (idx - 4) + pos) % 8,
                "ci": [1280, -1280, 0, -1, 255, -256][idx - 4], "burst": soft_bits(bl, idx + 1)}
    if idx == 10:
        return {"cls": "RxMsg", "ver": 1, "fn": 2 * 51 * 26 + pos, "tn": (6 + pos) % 8, "rssi": -110 + pos,
                "toa256": -3 - pos, "nope": True, "ci": -5 - pos, "burst": None}
    raise HarnessError("menu index %r" % (idx,))


def stored_entry(idx, pos):
    e = menu_entry(idx, pos)
    if e["cls"] == "RxMsg" and e["burst"] is not None:
        e["raw"] = bytes(s & 0xff for s in e["burst"])      # two's complement octets of the soft bits
    return e


NMENU = 11
MENU_NAMES = ["Tx-v0-148", "Tx-v1-444", "Rx-v0-148", "Rx-v0-444", "Rx-v1-GMSK", "Rx-v1-8PSK", "Rx-v1-GMSK_AB",
              "Rx-v1-16QAM", "Rx-v1-32QAM", "Rx-v1-AQPSK", "Rx-v1-NOPE"]

_env = {}


def env():
    if not _env:
        world.install()
        world.capture.enabled = False            # tens of millions of "Message length mismatch" lines otherwise
        logging.disable(logging.CRITICAL)        # (the capture handler stays attached to the root logger)
        import data_msg
        import data_dump
        _env["dm"] = data_msg
        _env["dd"] = data_dump
    return _env


def build_msg(e):
    """Toolkit message object for a stored-message dict."""
    dm = env()["dm"]
    if e["cls"] == "TxMsg":
        m = dm.TxMsg(fn=e["fn"], tn=e["tn"], ver=e["ver"])
        m.pwr = e["pwr"]
        m.burst = bytearray(e["burst"])
        return m
    m = dm.RxMsg(fn=e["fn"], tn=e["tn"], ver=e["ver"])
    m.rssi = e["rssi"]
    m.toa256 = e["toa256"]
    if e["ver"] >= 1:
        m.nope_ind = e["nope"]
        m.ci = e["ci"]
        if not e["nope"]:
            m.mod_type = dm.Modulation[e["mod"]]
            m.tsc_set = e["tsc_set"]
            m.tsc = e["tsc"]
    if e["burst"] is not None:
        m.burst = array('b', e["burst"])
    return m


def differs(r, e):
    """None if the returned object r equals the stored message e in every field the
    header version carries; otherwise the name of the first differing field."""
    if type(r).__name__ != e["cls"]:
        return "class"
    for k, a in (("ver", "ver"), ("fn", "fn"), ("tn", "tn")):
        v = getattr(r, a, "<missing>")
        if type(v) is not int or v != e[k]:
            return k
    if e["cls"] == "TxMsg":
        if r.pwr != e["pwr"]:
            return "pwr"
        b = r.burst
        if b is None or bytes(b) != e["burst"]:
            return "burst"
        return None
    if r.rssi != e["rssi"]:
        return "rssi"
    if r.toa256 != e["toa256"]:
        return "toa256"
    if e["ver"] >= 1:
        if bool(r.nope_ind) != e["nope"]:
            return "nope_ind"
        if r.ci != e["ci"]:
            return "ci"
        if not e["nope"]:
            mt = r.mod_type
            if getattr(mt, "name", None) != e["mod"]:
                return "mod_type"
            if r.tsc_set != e["tsc_set"]:
                return "tsc_set"
            if r.tsc != e["tsc"]:
                return "tsc"
    b = r.burst
    if e["burst"] is None:
        return None if b is None else "burst"
    if b is None or len(b) != len(e["burst"]):
        return "burst"
    if type(b) is array and b.typecode == 'b':
        if b.tobytes() != e["raw"]:          # same values, compared as the signed octets
            return "burst"
    elif list(b) != e["burst"]:
        return "burst"
    return None


# ---------------------------------------------------------------------------
# writing

def call_patterns(k):
    """Call sequences that store a k-message history: list of (name, [chunks]); a chunk is
    ('msg', i) = append_msg(h[i]) or ('all', i, j) = append_all(h[i:j])."""
    pats = [("append_msg", [("msg", i) for i in range(k)]),
            ("append_all", [("all", 0, k)])]
    if k >= 2:
        pats.append(("append_all+append_msg", [("all", 0, k - 1), ("msg", k - 1)]))
        pats.append(("append_msg+append_all", [("msg", 0), ("all", 1, k)]))
    return pats


def shorten(chunks, n):
    """The same call sequence for the history shortened to its first n messages."""
    out = []
    for c in chunks:
        if c[0] == "msg":
            if c[1] < n:
                out.append(c)
        else:
            i, j = c[1], min(c[2], n)
            if i < j:
                out.append(("all", i, j))
    return out


def write_history(msgs, chunks):
    dd = env()["dd"]
    bio = io.BytesIO()
    f = dd.DATADumpFile(bio)
    for c in chunks:
        if c[0] == "msg":
            f.append_msg(msgs[c[1]])
        else:
            f.append_all(msgs[c[1]:c[2]])
    img = bio.getvalue()
    f.f = io.BytesIO()           # DATADumpFile.__del__ closes its file object
    return img


def image_and_ends(hist, chunks):
    """-> (image, [end offset of message 0..k-1]) or raises AssertionError text."""
    stored = [stored_entry(m, p) for p, m in enumerate(hist)]
    msgs = [build_msg(e) for e in stored]
    img = write_history(msgs, chunks)
    ends = []
    for n in range(1, len(hist) + 1):
        part = img if n == len(hist) else write_history(msgs[:n], shorten(chunks, n))
        if img[:len(part)] != part:
            return img, None, stored
        ends.append(len(part))
    return img, ends, stored


# ---------------------------------------------------------------------------
# reading + judging

def classify_cut(cut, ends):
    """where the cut falls: 'uncut', 'boundary', 'in-header', 'in-body'"""
    if cut == (ends[-1] if ends else 0):
        return "uncut"
    prev = 0
    for e in ends:
        if cut == e or cut == 0:
            return "boundary"
        if cut < e:
            return "in-header" if cut - prev < 3 else "in-body"
        prev = e
    return "boundary"


def short(x):
    if x is None or x is False or x is True:
        return repr(x)
    if isinstance(x, list):
        return "list[%d]" % len(x)
    return type(x).__name__


def judge_op(f, op, stored, avail, where, out, case, stats):
    """Execute one read operation on the (truncated) file and compare with the oracle.
    Returns True if the expected result held at least one message."""
    if op[0] == "msg":
        i = op[1]
        opname = "parse_msg"
        try:
            r = f.parse_msg(i)
        except BaseException as ex:           # "without raising"
            out.append(("C15:%s:raises-%s:cut=%s" % (opname, type(ex).__name__, where), case,
                        "parse_msg(%d) raised %s: %s" % (i, type(ex).__name__, ex)))
            return i < avail
        if i < avail:
            if r is None or r is False or isinstance(r, list):
                out.append(("C15:%s:missing:cut=%s" % (opname, where), case,
                            "parse_msg(%d) returned %s; message %d (%s) is completely stored before the cut"
                            % (i, short(r), i, stored[i]["cls"])))
                return True
            d = differs(r, stored[i])
            if d:
                out.append(("C15:%s:field-%s:cut=%s" % (opname, d, where), case,
                            "parse_msg(%d): field %s differs from the stored message" % (i, d)))
            return True
        stats["idx_beyond"][short(r)] = stats["idx_beyond"].get(short(r), 0) + 1
        if not (r is None or r is False):
            out.append(("C15:%s:phantom:cut=%s" % (opname, where), case,
                        "parse_msg(%d) returned %s although only %d message(s) are completely stored before the cut"
                        % (i, short(r), avail)))
        return False
    _, skip, count, noargs = op
    opname = "parse_all()" if noargs else "parse_all(skip,count)"
    try:
        if noargs:
            r = f.parse_all()
        else:
            r = f.parse_all(skip, count)
    except BaseException as ex:
        out.append(("C15:%s:raises-%s:cut=%s" % (opname, type(ex).__name__, where), case,
                    "parse_all(%r, %r) raised %s: %s" % (skip, count, type(ex).__name__, ex)))
        return False
    s = 0 if skip is None else skip
    exp = stored[s:avail]
    if count is not None:
        exp = exp[:count]
    if s >= avail:
        # nothing is stored at index s: [] / False / None all allowed, nothing else
        stats["skip_beyond" if s > avail else "skip_at_end"][short(r)] = \
            stats["skip_beyond" if s > avail else "skip_at_end"].get(short(r), 0) + 1
        if not (r is None or r is False or (isinstance(r, list) and len(r) == 0)):
            out.append(("C15:%s:phantom:cut=%s" % (opname, where), case,
                        "parse_all(%r, %r) returned %s although only %d message(s) are stored before the cut"
                        % (skip, count, short(r), avail)))
        return False
    if not isinstance(r, list):
        out.append(("C15:%s:not-a-list:cut=%s" % (opname, where), case,
                    "parse_all(%r, %r) returned %s, expected %d message(s)" % (skip, count, short(r), len(exp))))
        return True
    if len(r) != len(exp):
        out.append(("C15:%s:count-%s:cut=%s" % (opname, "short" if len(r) < len(exp) else "long", where), case,
                    "parse_all(%r, %r) returned %d message(s), expected %d (messages %d..%d of the %d stored before "
                    "the cut)" % (skip, count, len(r), len(exp), s, s + len(exp) - 1, avail)))
        return True
    for j, (a, b) in enumerate(zip(r, exp)):
        d = differs(a, b)
        if d:
            out.append(("C15:%s:field-%s:cut=%s" % (opname, d, where), case,
                        "parse_all(%r, %r): element %d differs from stored message %d in field %s"
                        % (skip, count, j, s + j, d)))
            break
    return True


def ops_for(nmax, reduced=False):
    """complete: parse_all(), the whole skip x count product, every index.
    reduced (quick tier, cuts deep inside a record body only): every skip with count None and 1, every count
    with skip None, every index."""
    ops = [("all", None, None, True)]
    for skip in [None] + list(range(nmax + 2)):
        for count in [None] + list(range(1, nmax + 2)):
            if reduced and not (count is None or skip is None or count == 1):
                continue
            ops.append(("all", skip, count, False))
    for i in range(nmax + 2):
        ops.append(("msg", i))
    return ops


def evaluate_image(img, cut, stored, ends, ops, out, base_case, stats, cov):
    dd = env()["dd"]
    data = img[:cut]
    avail = sum(1 for e in ends if e <= cut)
    where = classify_cut(cut, ends)
    f = dd.DATADumpFile(io.BytesIO(data))
    partial = cut > (ends[avail - 1] if avail else 0)
    for op in ops:
        nv = len(out)
        nonempty = judge_op(f, op, stored, avail, where, out, base_case, stats)
        for i in range(nv, len(out)):
            out[i] = (out[i][0], dict(base_case, cut=cut, op=list(op)), out[i][2])
        cov["evaluations"] += 1
        if nonempty:
            cov["distinct_nontrivial"] += 1
        elif partial:
            cov["partial_record_only"] += 1
    cov["images"] += 1
    k = "images_" + where.replace("-", "_")
    cov[k] = cov.get(k, 0) + 1


def new_cov():
    return {"evaluations": 0, "distinct_nontrivial": 0, "partial_record_only": 0, "images": 0, "images_uncut": 0,
            "images_in_header": 0, "images_in_body": 0, "histories": 0,
            "call_patterns_written": 0, "call_patterns_identical_image": 0, "octets_cut": 0, "images_reduced_ops": 0}


UNIT_LIMIT = 60         # violations after which a work unit stops
EDGE = 2        # body octets next to the record header / record end that always get the complete operation set


def work(arg):
    hist, nmax, quick = arg
    hist = list(hist)
    k = len(hist)
    out = []
    cov = new_cov()
    stats = {"idx_beyond": {}, "skip_beyond": {}, "skip_at_end": {}}
    ops = ops_for(nmax)
    ops_reduced = ops_for(nmax, True)
    seen = {}
    cov["histories"] = 1 if k else 0
    for pname, chunks in (call_patterns(k) if k else [("empty", [])]):
        img, ends, stored = image_and_ends(hist, chunks)
        cov["call_patterns_written"] += 1
        case = {"hist": hist, "pattern": pname, "nmax": nmax}
        if ends is None:
            out.append(("C15:append:not-prefix-stable:%s" % pname, dict(case, cut=None, op=None),
                        "the file written for a shortened history is not a prefix of the file written for the whole "
                        "history (call pattern %s): earlier records do not survive later appends" % pname))
            continue
        lo = ends[-2] if k >= 2 else 0
        key = (img, tuple(ends))
        if key in seen:
            cov["call_patterns_identical_image"] += 1
            continue
        seen[key] = pname
        # cuts inside / at the end of the last record (earlier cuts belong to the work unit of the shorter history);
        # the empty history contributes the empty image, a 1-message history also offset 0 .. see run()
        first = lo + 1 if k else 0
        for cut in range(first, len(img) + 1):
            if len(out) >= UNIT_LIMIT:
                cov["units_cut_short"] = 1          # nothing is gained by enumerating on
                break
            deep = (quick or k == 4) and (lo + 3 + EDGE <= cut <= len(img) - 1 - EDGE)
            evaluate_image(img, cut, stored, ends, ops_reduced if deep else ops, out, case, stats, cov)
            cov["octets_cut"] += 1
            cov["images_reduced_ops"] += 1 if deep else 0
    res = {"cov": cov, "viol": out[:40], "nviol_extra": max(0, len(out) - 40)}
    res["cov"]["returns_idx_beyond"] = stats["idx_beyond"]
    res["cov"]["returns_skip_beyond"] = stats["skip_beyond"]
    res["cov"]["returns_skip_at_end"] = stats["skip_at_end"]
    if k and hist[-1] in (3, 10) and k == nmax:
        res["samples"] = [{"history": [MENU_NAMES[m] for m in hist], "file_octets": len(img), "ends": ends,
                           "cuts_evaluated_here": [first, len(img)]}]
    return res


# ---------------------------------------------------------------------------
# interleaved leg: appends and reads alternate on ONE DATADumpFile object

IL_MENU = [0, 10, 5, 2]          # Tx v0 148 (157 octets), Rx v1 NOPE (14), Rx v1 8-PSK (458), Rx v0 148 (159)
_msg_cache = {}


def il_msg(idx, pos):
    k = (idx, pos)
    if k not in _msg_cache:
        e = stored_entry(idx, pos)
        _msg_cache[k] = (e, build_msg(e))
    return _msg_cache[k]


def il_append_options(nmenu, all_pairs):
    menu = IL_MENU[:nmenu]
    opts = [["msg", m] for m in menu]
    if all_pairs:
        opts += [["all", [a, b]] for a in menu for b in menu]
    else:
        opts += [["all", [menu[i], menu[(i + 1) % nmenu]]] for i in range(nmenu)]
    return opts


def il_reads_full(n):
    """every kind of read step when n messages have been appended (None = no read)"""
    ops = [None] + [["msg", i] for i in range(n + 2)] + [["all", None, None, True]]
    counts = [None, 1, 2] + ([n + 1] if n + 1 > 2 else [])
    for skip in [None] + list(range(n + 2)):
        for count in counts:
            ops.append(["all", skip, count, False])
    return ops


def il_reads_small(n):
    ops = [None, ["msg", 0], ["msg", max(n - 1, 0)], ["all", None, None, True], ["all", max(n - 1, 0), 2, False],
           ["all", 0, 1, False], ["all", n, 1, False]]
    out = []
    for o in ops:
        if o not in out:
            out.append(o)
    return out


class Capture:
    """one capture under test: a real file opened by path, or a BytesIO"""

    def __init__(self, backend, directory, name="capture.bin"):
        dd = env()["dd"]
        self.backend = backend
        self.path = None
        if backend == "file":
            self.path = os.path.join(directory, name)
            if os.path.exists(self.path):
                os.unlink(self.path)
            self.d = dd.DATADumpFile(self.path)
        else:
            self.bio = io.BytesIO()
            self.d = dd.DATADumpFile(self.bio)

    def content(self):
        if self.backend == "file":
            self.d.f.flush()
            with open(self.path, "rb") as f:
                return f.read()
        return self.bio.getvalue()

    def close(self):
        try:
            self.d.f.close()
        except Exception:
            pass
        if self.path and os.path.exists(self.path):
            os.unlink(self.path)


def run_interleaved(backend, directory, steps, out, cov, stats, at_end=False):
    """Execute one history; steps: ['msg', m] | ['all', [m, ..]] | ['read', op] ; every read is judged.
    at_end=True: the harness itself moves the file position to the end before every append step, so that
    whatever goes wrong in such a run is not caused by where an append after a read lands (key part
    'reader-state'); at_end=False is the plain API use (key part 'append-position')."""
    cap = Capture(backend, directory)
    stored = []
    cause = "reader-state" if at_end else "append-position"
    backend_key = "%s:%s" % (backend, cause)
    case = {"leg": "interleaved", "backend": backend, "steps": steps, "at_end": at_end}
    cov["interleaved_histories"] += 1
    try:
        for si, st in enumerate(steps):
            if st[0] == "read":
                op = st[1]
                op = ("msg", op[1]) if op[0] == "msg" else ("all", op[1], op[2], bool(op[3]))
                tmp = []
                nonempty = judge_op(cap.d, op, stored, len(stored), "-", tmp, case, stats)
                cov["evaluations"] += 1
                cov["interleaved_reads"] += 1
                if nonempty:
                    cov["distinct_nontrivial"] += 1
                for key, c, msg in tmp:
                    what = ":".join(key.split(":")[1:-1])
                    out.append(("C15:interleaved:%s:%s" % (backend_key, what), case,
                                "step %d of %s on one DATADumpFile (%s%s): %s"
                                % (si, describe(steps), backend, ", position moved to the end before each append"
                                   if at_end else "", msg)))
                continue
            try:
                if at_end:
                    cap.d.f.seek(0, 2)
                if st[0] == "msg":
                    e, m = il_msg(st[1], len(stored))
                    cap.d.append_msg(m)
                    stored.append(e)
                else:
                    ems = [il_msg(x, len(stored) + j) for j, x in enumerate(st[1])]
                    cap.d.append_all([m for _, m in ems])
                    stored += [e for e, _ in ems]
            except BaseException as ex:
                out.append(("C15:interleaved:%s:append:raises-%s" % (backend_key, type(ex).__name__), case,
                            "step %d of %s: append raised %s: %s" % (si, describe(steps), type(ex).__name__, ex)))
                return
        # a fresh reader on the finished capture must see everything that was appended
        dd = env()["dd"]
        fresh = dd.DATADumpFile(io.BytesIO(cap.content()))
        tmp = []
        judge_op(fresh, ("all", None, None, True), stored, len(stored), "-", tmp, case, stats)
        cov["evaluations"] += 1
        cov["distinct_nontrivial"] += 1 if stored else 0
        for key, c, msg in tmp:
            what = ":".join(key.split(":")[1:-1])
            out.append(("C15:interleaved:%s:fresh-reader:%s" % (backend_key, what), case,
                        "after %s on one DATADumpFile (%s) a fresh reader of the capture: %s"
                        % (describe(steps), backend, msg)))
    finally:
        cap.close()


def describe(steps):
    def one(st):
        if st[0] == "msg":
            return "append_msg(%s)" % MENU_NAMES[st[1]]
        if st[0] == "all":
            return "append_all([%s])" % ", ".join(MENU_NAMES[x] for x in st[1])
        op = st[1]
        if op[0] == "msg":
            return "parse_msg(%d)" % op[1]
        return "parse_all()" if op[3] else "parse_all(%r, %r)" % (op[1], op[2])
    return "; ".join(one(st) for st in steps)


def work_interleaved(arg):
    backend, appends, mode, vary_r0 = arg
    env()
    out, stats = [], {"idx_beyond": {}, "skip_beyond": {}, "skip_at_end": {}}
    cov = {"evaluations": 0, "distinct_nontrivial": 0, "interleaved_histories": 0, "interleaved_reads": 0}
    directory = None
    if backend == "file":
        from vlib.runner import VERIF
        directory = os.path.join(VERIF, "build", "c15.%d" % os.getpid())
        os.makedirs(directory, exist_ok=True)
    try:
        k = len(appends)
        ns = []
        n = 0
        for a in appends:
            n += 1 if a[0] == "msg" else len(a[1])
            ns.append(n)
        # read alphabets: the last read step takes every kind of read; earlier ones too when mode == 'full'
        # r0, on the empty capture
        alph = [[None, ["all", None, None, True], ["msg", 0]] if vary_r0 else [None]]
        for i, n in enumerate(ns):
            alph.append(il_reads_full(n) if (mode == "full" or i == k - 1) else il_reads_small(n))
        for reads in itertools.product(*alph):
            if len(out) >= 5 * UNIT_LIMIT:
                cov["units_cut_short"] = 1
                break
            steps = []
            if reads[0] is not None:
                steps.append(["read", reads[0]])
            for a, r in zip(appends, reads[1:]):
                steps.append(a)
                if r is not None:
                    steps.append(["read", r])
            # first with the position forced to the end before each append: failures there are the reader's;
            # if that run is clean, the plain run: failures there come from where the append lands
            tmp = []
            run_interleaved(backend, directory, steps, tmp, cov, stats, at_end=True)
            if tmp:
                out += tmp
            else:
                run_interleaved(backend, directory, steps, out, cov, stats, at_end=False)
    finally:
        if directory:
            shutil.rmtree(directory, ignore_errors=True)
    cov["interleaved_%s_histories" % backend] = cov["interleaved_histories"]
    # shortest histories first, one per key
    out.sort(key=lambda v: (len(v[1]["steps"]), str(v[1]["steps"])))
    seen, keep = set(), []
    for v in out:
        if v[0] not in seen:
            seen.add(v[0])
            keep.append(v)
    return {"cov": cov, "viol": keep[:40], "nviol_extra": max(0, len(out) - len(keep[:40]))}


# ---------------------------------------------------------------------------
# cross-object leg: several DATADumpFile objects in ONE process (state shared between objects - class attributes,
# module globals - would make one capture's reads depend on another capture)

XO_PROFILES = [[0, 10, 5],           # Tx v0 148 (157 octets), Rx v1 NOPE (14), Rx v1 8-PSK (458)
               [8, 1, 2, 10],        # Rx v1 32QAM (754), Tx v1 444 (453), Rx v0 148 (159), Rx v1 NOPE (14)
               [10],                 # a single NOPE
               [3, 3, 9, 0, 7]]      # Rx v0 444 (455) x2, Rx v1 AQPSK (310), Tx v0 148, Rx v1 16QAM (606)
XO_LIMIT = 20


def xo_ops(n):
    ops = [("msg", i) for i in range(n + 1)]
    ops += [("all", sk, c, False) for sk in [None] + list(range(n + 1)) for c in (None, 1, 2)]
    ops.append(("all", None, None, True))
    return ops


def cross_object_leg(only_pos=None):
    """A fixed sequence, executed from a fresh process: per backend, capture 1 (one message-size profile) is written
    and read by index and by skip/count; capture 2 (other sizes / versions / NOPE) likewise through a second
    object while the first stays alive; capture 1 again; captures 3 and 4; capture 2 again; finally every
    capture through a new object on the same octets.  Every read is compared with what was stored.
    A violation is identified by its position in the sequence; replay runs the sequence again up to it."""
    env()
    from vlib.runner import VERIF
    out = []
    cov = {"evaluations": 0, "distinct_nontrivial": 0, "cross_object_reads": 0, "cross_object_objects": 0}
    stats = {"idx_beyond": {}, "skip_beyond": {}, "skip_at_end": {}}
    directory = os.path.join(VERIF, "build", "c15.%d" % os.getpid())
    os.makedirs(directory, exist_ok=True)
    pos = [0]
    caps = []

    class Done(Exception):
        pass

    def read_all(backend, ci, reader, stored, how):
        for op in xo_ops(len(stored)):
            tmp = []
            case = {"leg": "cross-object", "pos": pos[0]}
            nonempty = judge_op(reader, op, stored, len(stored), "-", tmp, case, stats)
            cov["evaluations"] += 1
            cov["cross_object_reads"] += 1
            if nonempty:
                cov["distinct_nontrivial"] += 1
            if only_pos is None or pos[0] == only_pos:
                for key, c, msg in tmp:
                    what = ":".join(key.split(":")[1:-1])
                    out.append(("C15:cross-object:%s:capture%d:%s" % (backend, ci + 1, what), case,
                                "read %d of the fixed multi-capture sequence (%s, capture %d = [%s], %s): %s"
                                % (pos[0], backend, ci + 1, ", ".join(MENU_NAMES[m] for m in XO_PROFILES[ci]), how, msg)))
            if (only_pos is not None and pos[0] >= only_pos) or len(out) >= XO_LIMIT:
                raise Done()
            pos[0] += 1
    try:
        for backend in ("bytesio", "file"):
            made = {}
            for ci in (0, 1, 0, 2, 3, 1, 0):
                if ci not in made:
                    cap = Capture(backend, directory, "capture%d.bin" % ci)
                    caps.append(cap)
                    stored = [stored_entry(m, p) for p, m in enumerate(XO_PROFILES[ci])]
                    msgs = [build_msg(e) for e in stored]
                    cap.d.append_all(msgs[:1])
                    for m in msgs[1:]:
                        cap.d.append_msg(m)
                    made[ci] = (cap, stored)
                    cov["cross_object_objects"] += 1
                    read_all(backend, ci, cap.d, stored, "the writing object, first visit")
                else:
                    cap, stored = made[ci]
                    read_all(backend, ci, cap.d, stored, "the same object, visited again after other captures")
            dd = env()["dd"]
            for ci in sorted(made):
                cap, stored = made[ci]
                cov["cross_object_objects"] += 1
                read_all(backend, ci, dd.DATADumpFile(io.BytesIO(cap.content())), stored, "a new object on the same octets")
    except Done:
        pass
    finally:
        for cap in caps:
            cap.close()
        shutil.rmtree(directory, ignore_errors=True)
    return {"cov": cov, "viol": out}


# ---------------------------------------------------------------------------
# re-append leg: ONE message object appended several times, changed in place in between

RA_KINDS = [0, 1, 2, 5, 8, 10]         # Tx v0 148, Tx v1 444, Rx v0 148, Rx v1 8-PSK, Rx v1 32QAM, Rx v1 NOPE
RA_MUTS = ["none", "item", "slice", "header", "rebind", "item+header", "fill"]
RA_APIS = ["append_msg", "append_all", "append_all-twice"]


def ra_snapshot(m):
    """plain-dict copy of the values the message object holds right now (the oracle's stored message)"""
    e = {"cls": type(m).__name__, "ver": m.ver, "fn": m.fn, "tn": m.tn}
    if e["cls"] == "TxMsg":
        e["pwr"] = m.pwr
        e["burst"] = bytes(m.burst)
        return e
    e.update(rssi=m.rssi, toa256=m.toa256)
    if m.ver >= 1:
        e.update(nope=bool(m.nope_ind), ci=m.ci)
        if not m.nope_ind:
            e.update(mod=m.mod_type.name, tsc_set=m.tsc_set, tsc=m.tsc)
    e["burst"] = None if m.burst is None else list(m.burst)
    if e["burst"] is not None:
        e["raw"] = bytes(x & 0xff for x in e["burst"])
    return e


def ra_mutate(m, mut, step):
    """change the message object in place; deterministic in (mut, step)"""
    tx = type(m).__name__ == "TxMsg"
    b = m.burst

    def other(v, j):
        if tx:
            return 1 - v
        return -v if v else 5 + j % 100
    for part in mut.split("+"):
        if part == "none" or (b is None and part in ("item", "slice", "fill", "rebind")):
            continue
        if part == "item":                       # single elements, the object stays the same
            for j in (0, len(b) // 2, len(b) - 1):
                b[j] = other(b[j], j + step)
        elif part == "slice":                    # slice assignment into the same object
            new = [other(x, j) for j, x in enumerate(b[10:40])]
            b[10:40] = bytearray(new) if tx else array('b', new)
        elif part == "fill":                     # the pre-allocated buffer refilled completely
            for j in range(len(b)):
                b[j] = ((j + step) & 1) if tx else (((j * 11 + step * 17) % 255) - 127)
        elif part == "rebind":                   # a new burst object
            new = [other(x, j + step) for j, x in enumerate(b)]
            m.burst = bytearray(new) if tx else array('b', new)
        elif part == "header":
            m.fn = (m.fn + 1000 + step) % HYPER
            m.tn = (m.tn + 3) % 8
            if tx:
                m.pwr = (m.pwr + 77) % 256
            else:
                m.rssi = -120 + (-m.rssi + 13 + step) % 74
                m.toa256 = -m.toa256 - 1
                if m.ver >= 1:
                    m.ci = max(-1280, min(1280, -m.ci + step + 1))
                    if not m.nope_ind:
                        m.tsc = (m.tsc + 5) % 8
        else:
            raise HarnessError("mutation %r" % part)


def run_reappend(backend, directory, kind, api, pre, muts, out, cov, stats):
    """build one message object; [gen_msg() once]; append; mutate; append; mutate; append; then every read"""
    cap = Capture(backend, directory)
    case = {"leg": "reappend", "backend": backend, "kind": kind, "api": api, "pre": pre, "muts": list(muts)}
    cov["reappend_histories"] += 1
    what_hist = "%s of one %s object%s with in-place changes %s between the appends (%s)" % (
        api, MENU_NAMES[kind], ", encoded once with gen_msg() before" if pre else "", list(muts), backend)
    stored = []
    try:
        m = build_msg(stored_entry(kind, 0))
        if type(m).__name__ == "TxMsg":
            m.burst = bytearray(m.burst)
        try:
            if pre:
                m.gen_msg()
            for step, mut in enumerate(["none"] + list(muts)):
                ra_mutate(m, mut, step)
                if api == "append_msg":
                    cap.d.append_msg(m)
                    stored.append(ra_snapshot(m))
                elif api == "append_all":
                    cap.d.append_all([m])
                    stored.append(ra_snapshot(m))
                else:
                    cap.d.append_all([m, m])
                    stored += [ra_snapshot(m), ra_snapshot(m)]
        except BaseException as ex:
            out.append(("C15:reappend:%s:append:raises-%s" % (backend, type(ex).__name__), case,
                        "%s: raised %s: %s" % (what_hist, type(ex).__name__, ex)))
            return
        n = len(stored)
        ops = [("all", None, None, True)] + [("msg", i) for i in range(n + 1)]
        ops += [("all", sk, c, False) for sk in [None] + list(range(n + 1)) for c in (None, 1, 2)]
        dd = env()["dd"]
        for reader, rname in ((cap.d, "same-object"), (dd.DATADumpFile(io.BytesIO(cap.content())), "fresh-reader")):
            for op in ops:
                tmp = []
                nonempty = judge_op(reader, op, stored, n, "-", tmp, case, stats)
                cov["evaluations"] += 1
                cov["reappend_reads"] += 1
                if nonempty:
                    cov["distinct_nontrivial"] += 1
                for key, c, msg in tmp:
                    what = ":".join(key.split(":")[1:-1])
                    out.append(("C15:reappend:%s:%s:%s" % (backend, "Tx" if kind in (0, 1) else "Rx", what), case,
                                "%s, %s: %s" % (what_hist, rname, msg)))
    finally:
        cap.close()


def work_reappend(arg):
    backend, kind, api = arg
    env()
    out, stats = [], {"idx_beyond": {}, "skip_beyond": {}, "skip_at_end": {}}
    cov = {"evaluations": 0, "distinct_nontrivial": 0, "reappend_histories": 0, "reappend_reads": 0}
    directory = None
    if backend == "file":
        from vlib.runner import VERIF
        directory = os.path.join(VERIF, "build", "c15.%d" % os.getpid())
        os.makedirs(directory, exist_ok=True)
    try:
        for pre in (False, True):
            for muts in itertools.product(RA_MUTS, repeat=2):
                if len(out) >= UNIT_LIMIT:
                    cov["units_cut_short"] = 1
                    break
                run_reappend(backend, directory, kind, api, pre, muts, out, cov, stats)
    finally:
        if directory:
            shutil.rmtree(directory, ignore_errors=True)
    seen, keep = set(), []
    for v in out:
        if v[0] not in seen:
            seen.add(v[0])
            keep.append(v)
    return {"cov": cov, "viol": keep[:40], "nviol_extra": max(0, len(out) - len(keep[:40]))}


def reappend_items():
    return [(b, k, a) for b in ("file", "bytesio") for k in RA_KINDS for a in RA_APIS]


def interleaved_items(quick):
    """(backend, append steps, read alphabet of the read points in between, vary r0)"""
    items = []
    for backend in ("file", "bytesio"):
        # one and two append steps over {append_msg(m), append_all([m, m+1])}, 3-entry menu: every read at every
        # read point, r0 on the empty capture varied
        opts = il_append_options(3, False)
        for a in opts:
            items.append((backend, [a], "full", True))
        for a in opts:
            for b in opts:
                items.append((backend, [a, b], "full", True))
        # thorough: two append steps over the 4-entry menu with every ordered pair for append_all
        if not quick:
            big = il_append_options(4, True)
            for a in big:
                for b in big:
                    if not (a in opts and b in opts):
                        items.append((backend, [a, b], "full", False))
        # three append steps: every read at the end, the short alphabet in between
        opts3 = opts
        if quick:
            opts3 = [opts[0], opts[1], opts[4]]          # append_msg(Tx), append_msg(NOPE), append_all([NOPE, 8-PSK])
        for combo in itertools.product(opts3, repeat=3):
            items.append((backend, [list(x) for x in combo], "small", False))
    return items


def histories(nmax):
    yield ()
    for k in range(1, nmax + 1):
        for h in itertools.product(range(NMENU), repeat=k):
            yield h


def run(ctx):
    nmax = 3 if ctx.quick else 4
    # first, in this process: do DATADumpFile objects influence each other?  If they do, what a work item of the
    # sweeps below observes depends on the captures its process handled before - its violations would be
    # meaningless and would not replay - so the sweeps are skipped.
    xo = cross_object_leg()
    ctx.merge(xo)
    if xo["viol"]:
        c = ctx.cov
        c["sweeps_skipped"] = 1
        c["rule"] = ("cross-object leg only (fixed sequence of reads over %d capture profiles x 2 backends through several "
                     "DATADumpFile objects in one process); it reported violations, i.e. a capture's reads depend on "
                     "other captures handled by the process, so the per-capture sweeps were not run" % len(XO_PROFILES))
        c["exhaustive"] = False
        return
    items = [(h, nmax, ctx.quick) for h in histories(nmax)]
    for r in ctx.pmap(work, items, chunksize=8 if ctx.quick else 32):
        ctx.merge(r)
    il = interleaved_items(ctx.quick)
    found = []
    for r in ctx.pmap(work_interleaved, il, chunksize=1):
        found += r.pop("viol")
        ctx.merge(r)
    # the shortest history per key over the whole run
    found.sort(key=lambda v: (len(v[1]["steps"]), str(v[1]["steps"]), v[0]))
    for v in found:
        ctx.violation(*v)
    ra = reappend_items()
    for r in ctx.pmap(work_reappend, ra, chunksize=1):
        ctx.merge(r)
    c = ctx.cov
    c["interleaved_work_items"] = len(il)
    c["reappend_work_items"] = len(ra)
    c["menu"] = NMENU
    c["max_history"] = nmax
    c["ops_per_image"] = len(ops_for(nmax))
    c["ops_per_image_reduced"] = len(ops_for(nmax, True))
    c["rule"] = ("all %d histories of <= %d messages over the %d-entry menu (header fields vary with the position), each "
                 "written by every call pattern (append_msg only / one append_all / append_all+append_msg / "
                 "append_msg+append_all); every truncation offset 0..len of every file image; on every image "
                 "parse_all(), parse_all(skip,count) for skip in {None,0..%d} x count in {None,1..%d}, parse_msg(i) for "
                 "i in 0..%d%s. A truncated image is a function of its octets, and the image of h cut inside or at the end "
                 "of record i equals the image of h[:i] cut there (prefix stability is verified for every history and "
                 "call pattern), so each distinct image is evaluated exactly once (in the unit of the shortest history "
                 "producing it, with the index ranges of the longest); call patterns producing identical octets are "
                 "read once. evaluations = read operations executed and judged, each (image, operation) pair once; "
                 "non-trivial = the oracle expects at least one message back (compared field by field incl. all burst "
                 "bits); partial_record_only = nothing is expected but the image ends in a partial record that must be "
                 "dropped silently" % (c["histories"], nmax, NMENU, nmax + 1, nmax + 1, nmax + 1,
                    " (%s: for cuts deeper than %d octets inside a record body the skip x count product is thinned to count "
                    "in {None,1} x every skip plus every count with skip None; cuts in the header, next to the header, next "
                    "to the record end and uncut images get the complete product)"
                    % ("all images" if ctx.quick else "images of 4-message histories cut inside the 4th record only - "
                       "every image of the <= 3-message histories gets the complete product", EDGE)))
    c["rule"] += ("; CROSS-OBJECT leg (run first, in one process): a fixed sequence over %d capture profiles (different message "
                  "sizes / versions / NOPE) x 2 backends: capture 1 written and read by index and skip/count, capture 2 "
                  "through a second object, capture 1 again, captures 3, 4, capture 2 again, capture 1 again, then each "
                  "through a new object on the same octets; every read judged (had it reported, the sweeps would have "
                  "been skipped)" % len(XO_PROFILES))
    c["rule"] += ("; RE-APPEND leg: ONE message object (%d kinds: Tx v0/v1, Rx v0, Rx v1 8-PSK / 32QAM / NOPE) is appended three "
                  "times (append_msg / append_all([m]) / append_all([m, m])) to a real file and to a BytesIO, optionally "
                  "encoded once with gen_msg() before, with every ordered pair of in-place changes from %s between the "
                  "appends (burst elements / a slice / the whole buffer changed in the same object, header fields "
                  "changed, burst re-bound); the oracle keeps a copy of the values current at each append; parse_all(), "
                  "parse_msg(i), parse_all(skip in {None,0..n}, count in {None,1,2}) through the writing object and a "
                  "fresh reader must return exactly those" % (len(RA_KINDS), RA_MUTS))
    c["rule"] += ("; INTERLEAVED leg: on one DATADumpFile object (a real file opened by path in a private directory under "
                  "/verif/build, and a BytesIO) every history r0, A1, r1[, A2, r2[, A3, r3]]: append steps from %s; read "
                  "steps r_i from {nothing, parse_msg(0..n+1), parse_all(), parse_all(skip in {None,0..n+1}, count in "
                  "{None,1,2,n+1})} at every read point for one and two append steps and at the last read point for "
                  "three append steps (read points in between: nothing, parse_msg(0), parse_msg(n-1), parse_all(), the "
                  "short last page parse_all(n-1,2), parse_all(0,1), the page past the end parse_all(n,1)); r0 on the "
                  "empty capture from {nothing, parse_all(), parse_msg(0)} (one and two append steps over the 3-entry "
                  "menu); every read is judged against the messages "
                  "appended so far and a fresh reader checks the finished capture; each history runs with the file position "
                  "forced to the end before every append (failures: key part reader-state) and, when that is clean, as "
                  "plain API use (failures: key part append-position)"
                  % ("{append_msg(m), append_all([m, m+1])} over a 3-entry menu (three append steps: 3 of these options)"
                     if ctx.quick else "{append_msg(m), append_all([m, m+1])} over a 3-entry menu for one to three append steps, "
                     "plus {append_msg(m), append_all([m, m'])} with every ordered pair over a 4-entry menu for two append "
                     "steps"))
    c["exhaustive"] = True
    ctx.assumptions += [
        "io.BytesIO stands for the capture file (short read at EOF, seek past EOF allowed), as in DESIGN.md",
        "a crash while writing leaves a prefix of the file (no torn or reordered blocks)",
        "for skip/idx at or beyond the number of completely stored messages [] / False / None are all accepted; "
        "observed returns are counted in coverage.returns_*",
        "burst contents and header values fixed per (menu entry, position); value coverage is C01's job",
    ]


def replay(ctx, case):
    if case.get("leg") == "cross-object":
        for v in cross_object_leg(only_pos=int(case["pos"]))["viol"]:
            ctx.violation(*v)
        return
    if case.get("leg") == "reappend":
        env()
        out, stats = [], {"idx_beyond": {}, "skip_beyond": {}, "skip_at_end": {}}
        cov = {"evaluations": 0, "distinct_nontrivial": 0, "reappend_histories": 0, "reappend_reads": 0}
        directory = None
        if case["backend"] == "file":
            from vlib.runner import VERIF
            directory = os.path.join(VERIF, "build", "c15.%d" % os.getpid())
            os.makedirs(directory, exist_ok=True)
        try:
            run_reappend(case["backend"], directory, int(case["kind"]), case["api"], bool(case["pre"]), case["muts"], out,
                         cov, stats)
        finally:
            if directory:
                shutil.rmtree(directory, ignore_errors=True)
        for v in out:
            ctx.violation(*v)
        return
    if case.get("leg") == "interleaved":
        env()
        out, stats = [], {"idx_beyond": {}, "skip_beyond": {}, "skip_at_end": {}}
        cov = {"evaluations": 0, "distinct_nontrivial": 0, "interleaved_histories": 0, "interleaved_reads": 0}
        directory = None
        if case["backend"] == "file":
            from vlib.runner import VERIF
            directory = os.path.join(VERIF, "build", "c15.%d" % os.getpid())
            os.makedirs(directory, exist_ok=True)
        try:
            run_interleaved(case["backend"], directory, case["steps"], out, cov, stats, bool(case.get("at_end")))
        finally:
            if directory:
                shutil.rmtree(directory, ignore_errors=True)
        for v in out:
            ctx.violation(*v)
        return
    hist = [int(x) for x in case["hist"]]
    nmax = int(case.get("nmax", 3))
    k = len(hist)
    chunks = dict(call_patterns(k) if k else [("empty", [])])[case["pattern"]]
    img, ends, stored = image_and_ends(hist, chunks)
    out = []
    if ends is None:
        out.append(("C15:append:not-prefix-stable:%s" % case["pattern"], case, "not prefix stable"))
    elif case.get("op") is not None:
        cut = int(case["cut"])
        op = case["op"]
        op = ("msg", int(op[1])) if op[0] == "msg" else ("all", op[1], op[2], bool(op[3]))
        dd = env()["dd"]
        f = dd.DATADumpFile(io.BytesIO(img[:cut]))
        avail = sum(1 for e in ends if e <= cut)
        stats = {"idx_beyond": {}, "skip_beyond": {}, "skip_at_end": {}}
        base = {"hist": hist, "pattern": case["pattern"], "nmax": nmax, "cut": cut, "op": list(op)}
        judge_op(f, op, stored, avail, classify_cut(cut, ends), out, base, stats)
    for v in out:
        ctx.violation(*v)

"""C05 - every TRXC command gets exactly one well-formed response with documented effect.

Explicit-state BFS over command histories on the real Application: from each of
8 seeded prior states every command of a ~130-entry alphabet (every verb, every
argument count, boundary argument values, with/without trailing NUL, two source
addresses, non-CMD datagrams) is fired in every state reachable within the depth
bound.  Replies are compared with the reference model on every transition; the
*effect* of the history is observed behaviourally in every state by a probe
script on a throw-away copy (NOMTXPOWER / MEASURE, POWERON status, a burst in
each direction with a freshly tuned peer: routing, header version, RSSI/ToA/C-I,
TA, attenuation, mute, drop), judged by the same model, once with every random
window at its lower and once at its upper end.

trxcon leg (replies accepted by trxcon's parser): see c05_trxcon.py.
"""
from vlib import explore
from vlib.appworld import AppWorld
from vlib.ref import trxmodel

LEVEL = "model_checking"
F1, F2, F3 = 935000, 890000, 947000
TGT, PEER = 0, 1
ALT_SRC = ("10.0.0.7", 4242)


def fh64():
    return "SETFH 1 0 " + " ".join("%d %d" % (F1 + 200 * k, F2 + 200 * k) for k in range(64))


def alphabet(tier):
    A = []

    def c(s, **kw):
        A.append(("ctrl", s, kw.get("src", 0), kw.get("nul", 1)))
    for s in ["POWERON", "POWEROFF", "POWERON 1", "POWEROFF 0", "POWERON 1 2",
              "RXTUNE %d" % F1, "RXTUNE %d" % F2, "TXTUNE %d" % F1, "TXTUNE %d" % F2, "RXTUNE", "TXTUNE",
              "RXTUNE %d %d" % (F1, F2), "TXTUNE 1 2 3",
              "MEASURE %d" % F1, "MEASURE %d" % F2, "MEASURE %d" % F3, "MEASURE", "MEASURE 1 2",
              "SETFH", "SETFH 5", "SETFH 5 1", "SETFH 5 1 %d" % F1, "SETFH 0 0 %d %d" % (F1, F2),
              "SETFH 5 1 %d %d %d %d" % (F1, F2, F2, F1), "SETFH 63 2 %d %d %d %d %d %d" % (F1, F2, F2, F1, F3, F3),
              "SETFH 5 1 %d %d %d" % (F1, F2, F2), fh64(),
              "SETFH 64 1 %d %d %d %d" % (F1, F2, F2, F1), "SETFH -1 0 %d %d" % (F1, F2),     # refused: nothing changes

              "SETFORMAT -1", "SETFORMAT 0", "SETFORMAT 1", "SETFORMAT 2", "SETFORMAT 15", "SETFORMAT 16", "SETFORMAT",
              "SETFORMAT 1 1",
              "SETPOWER 0", "SETPOWER 10", "SETPOWER", "SETPOWER 1 2", "NOMTXPOWER", "NOMTXPOWER 1",
              "RFMUTE 0", "RFMUTE 1", "RFMUTE 2", "RFMUTE", "RFMUTE 1 1",
              "SETTA 0", "SETTA 1", "SETTA 63", "SETTA -1", "SETTA 127", "SETTA -128", "SETTA", "SETTA 1 2",
              "FAKE_TOA 10 2", "FAKE_TOA -3 0", "FAKE_TOA 300", "FAKE_TOA -5", "FAKE_TOA", "FAKE_TOA 1 2 3", "FAKE_TOA 0 -1",
              "FAKE_RSSI -80 3", "FAKE_RSSI -80 0", "FAKE_RSSI -80 -1", "FAKE_RSSI 5", "FAKE_RSSI", "FAKE_RSSI 1 2 3",
              "FAKE_CI 90 5", "FAKE_CI -10 0", "FAKE_CI 7", "FAKE_CI", "FAKE_CI 1 2 3", "FAKE_CI 0 -2",
              "FAKE_DROP -1", "FAKE_DROP 0", "FAKE_DROP 1", "FAKE_DROP 2", "FAKE_DROP 1 -1", "FAKE_DROP 1 0",
              "FAKE_DROP 1 1", "FAKE_DROP 2 3", "FAKE_DROP -1 3", "FAKE_DROP", "FAKE_DROP 1 2 3",
              "FAKE_TRXC_DELAY 0", "FAKE_TRXC_DELAY 200", "FAKE_TRXC_DELAY", "FAKE_TRXC_DELAY -1",
              "SETSLOT 1 7", "SETSLOT 0 1 2 3", "ECHO", "HANDOVER 1 2", "NOHANDOVER 1 2", "SETRXGAIN 10", "ADJPOWER -2",
              "SETTSC 7", "SETBSIC 63", "RESET", "FOO_BAR 1 2 3"]:
        c(s)
    # reply goes to the actual sender; trailing NUL optional
    for s in ["POWERON", "POWEROFF", "RXTUNE %d" % F3, "MEASURE %d" % F1, "SETFORMAT 1", "NOMTXPOWER", "FAKE_DROP 1",
              "ECHO", "SETFH 0 0 %d %d" % (F1, F2)]:
        c(s, src=1)
        c(s, nul=0)
    for raw in [b"RSP POWERON 0\0", b"IND CLOCK 1\0", b"", b"XYZ", b"cmd POWERON\0", b" CMD POWERON\0", b"\0"]:
        A.append(("raw", raw.hex()))
    return A


ROOTS = {
    "idle": [],
    "tuned": ["RXTUNE %d" % F2, "TXTUNE %d" % F1],
    "running": ["RXTUNE %d" % F2, "TXTUNE %d" % F1, "POWERON"],
    "hopping": ["SETFH 5 1 %d %d %d %d" % (F2, F1, F1, F2), "POWERON"],
    "v1": ["SETFORMAT 1"],
    "muted": ["RXTUNE %d" % F2, "TXTUNE %d" % F1, "RFMUTE 1", "POWERON"],
    "drop-pending": ["RXTUNE %d" % F2, "TXTUNE %d" % F1, "FAKE_DROP 2 3", "POWERON"],
    "sim": ["RXTUNE %d" % F2, "TXTUNE %d" % F1, "FAKE_TOA 10 2", "FAKE_RSSI -80 3", "FAKE_CI 90 5", "SETTA 1", "SETPOWER 10", "SETFORMAT 1"],
}


class Spec:
    def __init__(self, tier, target=0, name="bts"):
        self.name = "C05/" + name
        self.defs = trxmodel.std_config([("C1", 5700, 1)])
        self.tgt = target
        self.alpha = alphabet(tier)
        self.choice_default = 0

    def build(self):
        return AppWorld(self.defs, choice_default=self.choice_default)

    def events(self, W, hist):
        return self.alpha

    def step(self, W, ev):
        W.outcome = None
        if ev[0] == "ctrl":
            _, s, src, nul = ev
            payload = ("CMD " + s + ("\0" if nul else "")).encode()
            v = W.ctrl(self.tgt, payload, ALT_SRC if src else None)
            out = getattr(W, "last_out", None)
            W.outcome = out[0][3][:40] if out else None
            return v
        if ev[0] == "raw":
            return W.ctrl(self.tgt, bytes.fromhex(ev[1]))
        if ev[0] == "pctrl":
            return W.ctrl(ev[1], ev[2])
        if ev[0] == "burst":
            _, i, fn = ev
            v = W.burst(i, fn, tn=fn % 8, pwr=2)
            v += W.handler_tick(fn)
            return v
        raise ValueError(ev)

    def canon(self, W):
        return W.canon()

    def probe(self, W, hist):
        W.nprobe = 0
        v = []
        for default in (0, 1):
            if default:
                self.choice_default = 1
                try:
                    W = explore._replay(self, hist)
                finally:
                    self.choice_default = 0
            v += self._probe_once(W, "hi" if default else "lo")
            if v:
                break
        return v

    def _probe_once(self, W, tag):
        m = W.model
        t = self.tgt
        script = [("pctrl", t, "NOMTXPOWER"), ("pctrl", t, "MEASURE %d" % F1), ("pctrl", t, "MEASURE %d" % F2),
                  ("pctrl", t, "POWERON")]
        for ev in script:
            r = self.step(W, ev)
            W.nprobe = getattr(W, "nprobe", 0) + 1
            if r:
                return [(c + "-probe", "probe[%s] %r: %s" % (tag, ev, msg)) for c, msg in r]
        mt = m.trx[t]
        if not mt.running or (mt.undefined & {"fh", "toa", "ci"}):
            return []
        for fn in (7, 9, 2715647):     # 7: not a multiple of the periods in the alphabet (a wrong period shows)
            txf, rxf = mt.freq(fn, 1), mt.freq(fn, 0)
            if txf is None or rxf is None:
                return []
            script = [("pctrl", PEER, "POWEROFF"), ("pctrl", PEER, "RXTUNE %d" % (txf // 1000)),
                      ("pctrl", PEER, "TXTUNE %d" % (rxf // 1000)), ("pctrl", PEER, "SETFORMAT %d" % (fn % 2)),
                      ("pctrl", PEER, "POWERON"), ("burst", t, fn), ("burst", PEER, fn)]
            for ev in script:
                r = self.step(W, ev)
                W.nprobe += 1
                if r:
                    return [(c + "-probe", "probe[%s] %r: %s" % (tag, ev, msg)) for c, msg in r]
        return []


def run(ctx):
    from vlib.props import c05_trxcon
    spec = Spec(ctx.tier)
    roots = [tuple(("ctrl", s, 0, 1) for s in cmds) for cmds in ROOTS.values()]
    # child running: POWERON of the tuned parent (the child is the target of a second, smaller run)
    depth = 2 if ctx.quick else 3
    explore.bfs(ctx, spec, max_depth=depth, label="bts", roots=roots, probe_final=True)
    spec2 = Spec(ctx.tier, target=2, name="child")
    croots = [(), (("pctrl", 0, "RXTUNE %d" % F2), ("pctrl", 0, "TXTUNE %d" % F1), ("pctrl", 0, "POWERON")),
              # hopping configured on the child, then a power cycle of its parent: the child has forgotten it
              (("pctrl", 2, "SETFH 5 1 %d %d %d %d" % (F2, F1, F1, F2)), ("pctrl", 0, "RXTUNE %d" % F2),
               ("pctrl", 0, "TXTUNE %d" % F1), ("pctrl", 0, "POWERON"), ("pctrl", 0, "POWEROFF"))]
    explore.bfs(ctx, spec2, max_depth=1 if ctx.quick else 2, label="child", roots=croots, probe_final=True)
    c = ctx.cov
    c["alphabet_size"] = len(spec.alpha)
    c["seeded_prior_states"] = len(roots) + len(croots)
    c["depth_from_each_seed"] = depth
    c["distinct_replies_observed"] = sum(r["distinct_outcomes"] for r in c["runs"])
    c05_trxcon.run(ctx)
    c["exhaustive"] = True
    c["evaluations"] = c["transitions"]
    c["distinct_nontrivial"] = c["states"]
    ctx.assumptions += ["well-formed commands only (integer arguments); malformed input is C14's subject",
                        "status of known verbs with an undocumented argument count is not judged (reply format and absence of effect are)",
                        "odd SETFH channel lists, negative MAIO: effect on forwarding not judged",
                        "exploration bounded to %d command(s) beyond each of the seeded prior states; all commands of the alphabet fired in every such state" % depth]


def replay(ctx, case):
    if case.get("trxcon"):
        from vlib.props import c05_trxcon
        return c05_trxcon.replay(ctx, case)
    name = case["spec"][4:]
    spec = Spec("thorough", target=2 if name == "child" else 0, name=name)
    W = spec.build()
    hist = [tuple(e) for e in case["hist"]]
    for k, ev in enumerate(hist):
        v = spec.step(W, ev)
        if v and k == len(hist) - 1 and not case.get("probe"):
            for c, m in v:
                ctx.violation("%s:%s_%s" % (ctx.prop, name, c), case, m)
    if case.get("probe"):
        for c, m in spec.probe(W, hist):
            ctx.violation("%s:%s_%s" % (ctx.prop, name, c), case, m)

"""C17 - TRXD PDU definitions (v0, v1, v2) have the documented structure.

Bounded-exhaustive exploration + differential, see DESIGN.md C17.

Seam   : trxd_proto.PDUv{0,1,2}{Rx,Tx}.to_bytes()/from_bytes(); data_msg.TxMsg/RxMsg as the
         second implementation for v0/v1 (gen_msg -> definition, definition -> parse_msg).
Oracle : the octet layout references vlib.ref.trxd (v0/v1) and vlib.ref.trxd_v2 (v2): plain
         byte arithmetic written from the layout description, nothing taken from the toolkit.

Part A (codec datagrams): every valid v0/v1 message of a compact enumeration (class x version x
  NOPE x modulation x TSC set x TSC x TN, wide fields at boundary values, 6-7 burst patterns,
  lengths 148/444/modulation length, legacy padding on/off for Rx) is encoded by data_msg and
  fed to the matching definition: accepted, every field identical, consumed = length,
  re-encoding reproduces the datagram; and back: the definition's encoding of the same values
  is parsed by data_msg to the same message.
Part B (definitions against the layout): for every class, field boundary products, every MTS
  octet (NOPE x 16 modulation codes x 8 TSC), TRXN 0..63, batch/shadow bits, every reserved bit
  set on receipt, all 15 wrong version nibbles, every burst length of another modulation,
  every truncation offset and trailing octets of a set of base PDUs, and for v2 every
  assignment of {15 legal codes, NOPE} to the first PDU and 0..3 (quick) / 0..4 (thorough)
  batched PDUs plus code sweeps for 5..8 batched PDUs.

Decided: MOD 11xx is AQPSK with two TSC-set bits (296 octets), so 1110/1111 must encode and
  decode like 1100/1101 in PDUv1Rx and PDUv2Rx/Tx incl. batched sub-PDUs; only 0111 is reserved.
Not decided by the statement (both outcomes accepted, the observed one is counted):
  version-0 Rx datagrams whose burst part is not 148, 150, 444 or 446 octets long.
"""
import itertools
from array import array

from vlib import world
from vlib.errors import HarnessError
from vlib.ref import trxd as R01
from vlib.ref import trxd_v2 as R2

LEVEL = "exploration"

HYPER = 2715648
PDU_NAMES = ("v0rx", "v0tx", "v1rx", "v1tx", "v2rx", "v2tx")
BYTES_KEYS = ("soft-bits", "hard-bits", "pad")
LEGAL = list(R2.LEGAL_CODES)                 # 15 legal MOD codes (TSC-set bits included); only 0111 is reserved
SLOTS = LEGAL + ["nope"]                     # what one PDU of a v2 datagram can be
LENS = (0, 148, 296, 444, 592, 740)

_env = {}
LIMIT = 20            # recorded violations (<= 3 per key) after which a work item stops: nothing is gained by going on
MAX_SEEN = 100000       # ... or this many violation instances of whatever key
MAX_BRIEF = 3         # batched PDUs written out in a message


class StopItem(Exception):
    """the work item has recorded LIMIT violations"""


class Budget(list):
    def __init__(self):
        list.__init__(self)
        self.seen = 0
        self.perkey = {}

    def append(self, v):
        self.seen += 1
        n = self.perkey.get(v[0], 0)
        if n < 3:
            self.perkey[v[0]] = n + 1
            list.append(self, v)
        if len(self) >= LIMIT or self.seen >= MAX_SEEN:
            raise StopItem()


_cur = {}


def _begin():
    """violation list and counters of the work item being executed (set by dispatch)"""
    if "out" not in _cur:
        _cur.update(out=Budget(), cov=new_cov())
    return _cur["out"], _cur["cov"]


def env():
    if not _env:
        world.install()
        import codec
        import data_msg
        import trxd_proto
        _env["codec"] = codec
        _env["dm"] = data_msg
        _env["tp"] = trxd_proto
        _env["pdu"] = {"v0rx": trxd_proto.PDUv0Rx(), "v0tx": trxd_proto.PDUv0Tx(), "v1rx": trxd_proto.PDUv1Rx(),
                       "v1tx": trxd_proto.PDUv1Tx(), "v2rx": trxd_proto.PDUv2Rx(), "v2tx": trxd_proto.PDUv2Tx()}
    return _env


# ---------------------------------------------------------------------------
# burst patterns

def hard_pat(pat, n):
    if pat == "zero":
        return bytes(n)
    if pat == "one":
        return b"\x01" * n
    if pat == "alt":
        return bytes(i & 1 for i in range(n))
    if pat == "ramp":
        return bytes(((i * 5 + (i >> 4)) >> 1) & 1 for i in range(n))
    pos = {"walk0": 0, "walkmid": n // 2, "walklast": n - 1}[pat]
    b = bytearray(n)
    if n:
        b[pos] = 1
    return bytes(b)


def soft_pat(pat, n):
    """signed soft bits -127..127"""
    if pat == "zero":
        return [127] * n
    if pat == "one":
        return [-127] * n
    if pat == "alt":
        return [(-127 if i & 1 else 127) for i in range(n)]
    if pat == "ramp":
        return [((i * 3 + 5) % 255) - 127 for i in range(n)]
    pos = {"walk0": 0, "walkmid": n // 2, "walklast": n - 1}[pat]
    b = [127] * n
    if n:
        b[pos] = -127
    return b


def octet_pat(pat, n, seed=0):
    """raw octets for the definitions (a Buf takes any octet)"""
    if pat == "zero":
        return bytes(n)
    if pat == "ff":
        return b"\xff" * n
    if pat == "alt":
        return bytes((0x7f if i & 1 else 0x80) for i in range(n))
    if pat == "ramp":
        return bytes((i * 37 + seed * 11 + 1) & 0xff for i in range(n))
    if pat == "bits":
        return bytes(((i * (seed + 3)) >> 1) & 1 for i in range(n))
    if pat == "walk":
        b = bytearray(n)
        if n:
            b[(seed * 53) % n] = 0xff
        return bytes(b)
    raise HarnessError("pattern %r" % pat)


# ---------------------------------------------------------------------------
# reference encoding / decoding in the definitions' field names

def _rx_hdr(ver, v):
    b = bytearray(R01.enc_common(ver, v["tn"], v["fn"]))
    b.append((-v["rssi"]) & 0xff)
    b += R01._be16s(v["toa256"])
    return b


def _v2_to_ref(direction, p):
    q = dict(p)
    q.pop("ver", None)
    q.pop("bpdu", None)
    q["bits"] = q.pop("soft-bits" if direction == "rx" else "hard-bits", b"")
    return q


def _v2_from_ref(direction, p):
    q = dict(p)
    if "bits" in q:
        q["soft-bits" if direction == "rx" else "hard-bits"] = q.pop("bits")
    return q


def ref_encode(pdu, v):
    if pdu in ("v0tx", "v1tx"):
        return R01.enc_tx(int(pdu[1]), v["tn"], v["fn"], v["pwr"], v["hard-bits"])
    if pdu == "v0rx":
        return bytes(_rx_hdr(0, v) + v["soft-bits"] + v.get("pad", b""))
    if pdu == "v1rx":
        b = _rx_hdr(1, v)
        b.append(R2.mts(v["nope"], v["mod"], v["tsc"]))
        b += R01._be16s(v["cir"])
        if not v["nope"]:
            b += v["soft-bits"]
        return bytes(b)
    d = pdu[2:]
    return R2.enc(d, _v2_to_ref(d, v), [_v2_to_ref(d, s) for s in v.get("bpdu", [])])


def ref_decode(pdu, data):
    """-> ('ok', dict) | ('err', why) | ('open', [acceptable dicts])   ('open' always allows rejection)"""
    data = bytes(data)
    ver = int(pdu[1])
    if pdu in ("v0tx", "v1tx"):
        d = R01.dec_tx(data)
        if d is None:
            return ("err", "short")
        if d["ver"] != ver:
            return ("err", "version")
        return ("ok", {"ver": ver, "tn": d["tn"], "fn": d["fn"], "pwr": d["pwr"], "hard-bits": d["bits"]})
    if pdu == "v0rx":
        if len(data) < 8:
            return ("err", "short")
        if data[0] >> 4 != 0:
            return ("err", "version")
        d = R01.dec_rx(data)
        base = {"ver": 0, "tn": d["tn"], "fn": d["fn"], "rssi": d["rssi"], "toa256": d["toa"]}
        r = d["usbits"]
        if len(r) < 148:
            return ("err", "short")
        if len(r) in (148, 150):
            return ("ok", dict(base, **{"soft-bits": r[:148], "pad": r[148:]}))
        if len(r) in (444, 446):
            return ("ok", dict(base, **{"soft-bits": r[:444], "pad": r[444:]}))
        alts = [dict(base, **{"soft-bits": r[:148], "pad": r[148:]})]
        if len(r) > 444:
            alts.append(dict(base, **{"soft-bits": r[:444], "pad": r[444:]}))
        return ("open", alts)
    if pdu == "v1rx":
        if len(data) < 11:
            return ("err", "short")
        if data[0] >> 4 != 1:
            return ("err", "version")
        d = R01.dec_rx(data)
        m = d["mts"]
        v = {"ver": 1, "tn": d["tn"], "fn": d["fn"], "rssi": d["rssi"], "toa256": d["toa"],
             "nope": m >> 7, "mod": (m >> 3) & 0xf, "tsc": m & 7, "cir": d["ci"]}
        r = d["usbits"]
        if v["nope"]:
            return ("ok", v) if not r else ("err", "tail")
        bl = R2.burst_len(v["mod"])
        if bl is None:
            return ("err", "reserved-mod")
        if len(r) != bl:
            return ("err", "short" if len(r) < bl else "tail")
        v["soft-bits"] = r
        return ("open", [v]) if v["mod"] in R2.OPEN_CODES else ("ok", v)
    d = pdu[2:]
    try:
        main, subs = R2.dec(d, data)
        v = _v2_from_ref(d, main)
        v["bpdu"] = [_v2_from_ref(d, s) for s in subs]
        res = ("ok", v)
    except R2.RefError as e:
        why = str(e).split()[0]
        res = ("err", {"version": "version", "reserved": "reserved-mod"}.get(why, "short"))
    if R2.uses_open_code(data, d):
        return ("open", [res[1]] if res[0] == "ok" else [])
    return res


# ---------------------------------------------------------------------------
# judging the definitions

def first_diff(a, b):
    if not isinstance(a, dict) or not isinstance(b, dict):
        return "value"
    for k in sorted(set(a) | set(b)):
        if k not in a:
            return "%s(missing)" % k
        if k not in b:
            return "%s(unexpected)" % k
        if k == "bpdu":
            if len(a[k]) != len(b[k]):
                return "bpdu(count)"
            for x, y in zip(a[k], b[k]):
                d = first_diff(x, y)
                if d:
                    return "bpdu." + d
        elif a[k] != b[k] or (isinstance(b[k], (bytes, bytearray)) != isinstance(a[k], (bytes, bytearray))):
            return k
    return None


def oversized(c, data):
    """a decoded batched-PDU list that cannot have come from `data`: flagged at once, never copied or compared"""
    bp = c.get("bpdu") if isinstance(c, dict) else None
    return isinstance(bp, list) and len(bp) > len(data) // 8


def copy_vals(v):
    c = dict(v)
    if "bpdu" in c:
        c["bpdu"] = [dict(s) for s in c["bpdu"]]
    return c


def judge_decode(pdu, data, tag, out, cov):
    """from_bytes() of one datagram against the layout reference."""
    e = env()
    P = e["pdu"][pdu]
    DecodeError = e["codec"].DecodeError
    data = bytes(data)
    verdict = ref_decode(pdu, data)
    case = {"k": "dec", "pdu": pdu, "data": data, "tag": tag}
    cov["evaluations"] += 1
    cov["dec_" + verdict[0]] += 1
    if verdict[0] != "open":
        cov["nontrivial_inputs"].add(hash((pdu, data)))
    got = n = None
    try:
        n = P.from_bytes(data)
        if oversized(P.c, data):
            out.append(("C17:%s:%s:runaway-result" % (pdu, tag), case,
                        "from_bytes() of a %d-octet datagram returned %d batched PDUs (a batched PDU has at least 8 "
                        "octets)" % (len(data), len(P.c["bpdu"]))))
            return
        got = copy_vals(P.c)
    except DecodeError:
        pass
    except BaseException as ex:
        out.append(("C17:%s:%s:raises-%s" % (pdu, tag, type(ex).__name__), case,
                    "from_bytes() raised %s instead of DecodeError" % root_cause(ex)))
        return
    if verdict[0] == "err":
        if got is not None:
            out.append(("C17:%s:%s:accepted-%s" % (pdu, tag, verdict[1]), case,
                        "from_bytes() accepted a %d-octet datagram the layout rejects (%s); decoded %s"
                        % (len(data), verdict[1], brief(got))))
        return
    if verdict[0] == "open":
        cov["open_accepted" if got is not None else "open_rejected"] += 1
        cov["open_%s_%s" % ("v0rx_odd_length" if pdu == "v0rx" else "mod_111x", "accepted" if got is not None else "rejected")] += 1
        if got is not None and not any(first_diff(got, a) is None for a in verdict[1]):
            out.append(("C17:%s:%s:open-misread" % (pdu, tag), case,
                        "from_bytes() accepted a datagram the statement leaves open but read it as %s" % brief(got)))
        return
    exp = verdict[1]
    if got is None:
        if pdu == "v0rx" and len(data) == 8 + 148 + 2:
            key = "C17:v0rx:legacy-pad:gmsk"
        else:
            key = "C17:%s:%s:rejected" % (pdu, tag)
        out.append((key, case, "from_bytes() rejected a well-formed %d-octet %s datagram (expected %s)"
                    % (len(data), pdu, brief(exp))))
        return
    d = first_diff(exp, got)
    if d:
        out.append(("C17:%s:%s:field-%s" % (pdu, tag, d), case,
                    "from_bytes(): field %s differs: expected %s, got %s" % (d, brief(exp), brief(got))))
        return
    if n != len(data):
        out.append(("C17:%s:%s:consumed" % (pdu, tag), case, "from_bytes() returned %r for %d octets" % (n, len(data))))
    # re-encoding the decoded content gives the canonical octets (reserved bits zero)
    canon = ref_encode(pdu, exp)
    try:
        again = bytes(P.to_bytes())
    except BaseException as ex:
        out.append(("C17:%s:%s:reencode-raises-%s" % (pdu, tag, type(ex).__name__), case,
                    "to_bytes() of the decoded content raised %s" % root_cause(ex)))
        return
    if again != canon:
        out.append(("C17:%s:%s:reencode" % (pdu, tag), case,
                    "to_bytes() of the decoded content differs from the canonical octets at offset %d"
                    % diff_at(again, canon)))


def judge_encode(pdu, vals, tag, out, cov):
    """to_bytes() of one content against the layout reference, then the datagram back through from_bytes()."""
    e = env()
    P = e["pdu"][pdu]
    case = {"k": "enc", "pdu": pdu, "vals": vals, "tag": tag}
    exp = ref_encode(pdu, vals)
    cov["evaluations"] += 1
    cov["enc"] += 1
    P.c = copy_vals(vals)
    try:
        b = bytes(P.to_bytes())
    except BaseException as ex:
        out.append(("C17:%s:%s:encode-raises-%s" % (pdu, tag, type(ex).__name__), case,
                    "to_bytes() raised %s" % root_cause(ex)))
        return exp
    if b != exp:
        out.append(("C17:%s:%s:encode-layout" % (pdu, tag), case,
                    "to_bytes() differs from the documented layout at offset %d (%d vs %d octets): got %s.., expected %s.."
                    % (diff_at(b, exp), len(b), len(exp), b[:16].hex(), exp[:16].hex())))
    judge_decode(pdu, exp, tag, out, cov)
    return exp


def diff_at(a, b):
    for i, (x, y) in enumerate(zip(a, b)):
        if x != y:
            return i
    return min(len(a), len(b))


def brief(v):
    if not isinstance(v, dict):
        return repr(v)
    o = {}
    for k, x in v.items():
        if isinstance(x, (bytes, bytearray)):
            o[k] = "<%d octets>" % len(x)
        elif k == "bpdu":
            o[k] = [brief(s) for s in x[:MAX_BRIEF]] + (["... %d more" % (len(x) - MAX_BRIEF)] if len(x) > MAX_BRIEF else [])
        else:
            o[k] = x
    return str(o)


# ---------------------------------------------------------------------------
# Part A: datagrams of the message codec

FN_Q = [0, 1, 0x123456, HYPER - 1]
PWR_Q = [0, 1, 128, 255]
RSSI_Q = [-47, -85, -120]
RSSI_T = [-47, -48, -85, -119, -120]
TOA_Q = [-32768, -1, 0, 32767]
TOA_T = [-32768, -32767, -1, 0, 1, 0x1234, 32767]
CI_Q = [-1280, -1, 0, 1280]
CI_T = [-1280, -1279, -1, 0, 1, 255, 1280]
HARD_PATS = ["zero", "one", "alt", "walk0", "walkmid", "walklast"]
SOFT_PATS = HARD_PATS + ["ramp"]
MODSETS = [(m, s) for m in R01.MODS for s in range(4 if m == "GMSK" else 2)]      # 14 (modulation, TSC set)


def judge_msg(spec, out, cov):
    """One valid message: data_msg encodes, the definition decodes (and back)."""
    e = env()
    dm = e["dm"]
    DecodeError = e["codec"].DecodeError
    ver, legacy = spec["ver"], spec.get("legacy", False)
    case = {"k": "msg", "spec": spec}
    cov["evaluations"] += 1
    cov["codec_datagrams"] += 1
    cov["nontrivial_inputs"].add(hash(("msg",) + tuple(sorted(spec.items()))))
    if spec["cls"] == "tx":
        pdu = "v%dtx" % ver
        m = dm.TxMsg(fn=spec["fn"], tn=spec["tn"], ver=ver)
        m.pwr = spec["pwr"]
        bits = hard_pat(spec["pat"], spec["bl"])
        m.burst = bytearray(bits)
        exp = {"ver": ver, "tn": spec["tn"], "fn": spec["fn"], "pwr": spec["pwr"], "hard-bits": bits}
        what = "bl=%d" % spec["bl"]
    else:
        pdu = "v%drx" % ver
        m = dm.RxMsg(fn=spec["fn"], tn=spec["tn"], ver=ver)
        m.rssi = spec["rssi"]
        m.toa256 = spec["toa"]
        exp = {"ver": ver, "tn": spec["tn"], "fn": spec["fn"], "rssi": spec["rssi"], "toa256": spec["toa"]}
        nope = spec.get("nope", False)
        sb = None
        if not nope:
            sb = soft_pat(spec["pat"], spec["bl"])
            m.burst = array('b', sb)
            exp["soft-bits"] = bytes(127 - s for s in sb)          # layout: 0 = certain '0' .. 254 = certain '1'
        if ver == 1:
            m.ci = spec["ci"]
            m.nope_ind = nope
            exp["cir"] = spec["ci"]
            if nope:
                exp.update(nope=1, mod=0, tsc=0)
            else:
                code, _, _ = R01.MODS[spec["mod"]]
                m.mod_type = dm.Modulation[R01.TK_NAME[spec["mod"]]]
                m.tsc_set = spec["tsc_set"]
                m.tsc = spec["tsc"]
                exp.update(nope=0, mod=code | spec["tsc_set"], tsc=spec["tsc"])
        else:
            exp["pad"] = b"\0\0" if legacy else b""
        what = "nope" if nope else "%s:bl=%d" % (spec.get("mod", "v0"), spec["bl"])
    try:
        d = bytes(m.gen_msg(legacy))
    except BaseException as ex:
        out.append(("C17:%s:codec-datagram:gen_msg-raises-%s" % (pdu, type(ex).__name__), case,
                    "data_msg refused a message inside the protocol ranges: %s" % root_cause(ex)))
        return
    P = e["pdu"][pdu]
    try:
        n = P.from_bytes(d)
        got = copy_vals(P.c)
    except DecodeError as ex:
        if pdu == "v0rx" and legacy and spec["bl"] == 148:
            key = "C17:v0rx:legacy-pad:gmsk"
        elif pdu == "v1rx" and spec.get("mod") == "GMSK_AB" and spec.get("tsc_set") == 1:
            key = "C17:v1rx:mts=0111"
        else:
            key = "C17:%s:codec-datagram:rejected:%s%s" % (pdu, what, ":legacy" if legacy else "")
        out.append((key, case, "%s.from_bytes() rejected the %d-octet datagram %s.. produced by data_msg for %s "
                    "(DecodeError: %s)" % (pdu, len(d), d[:12].hex(), brief(exp), root_cause(ex))))
        return
    except BaseException as ex:
        out.append(("C17:%s:codec-datagram:raises-%s" % (pdu, type(ex).__name__), case,
                    "from_bytes() raised %s on a datagram produced by data_msg" % root_cause(ex)))
        return
    dif = first_diff(exp, got)
    if dif:
        out.append(("C17:%s:codec-datagram:field-%s" % (pdu, dif), case,
                    "field %s of the data_msg datagram read differently: expected %s, got %s"
                    % (dif, brief(exp), brief(got))))
        return
    if n != len(d):
        out.append(("C17:%s:codec-datagram:consumed" % pdu, case, "from_bytes() returned %r for %d octets" % (n, len(d))))
    try:
        again = bytes(P.to_bytes())
    except BaseException as ex:
        again = None
        out.append(("C17:%s:codec-datagram:reencode-raises-%s" % (pdu, type(ex).__name__), case, root_cause(ex)))
    if again is not None and again != d:
        out.append(("C17:%s:codec-datagram:reencode" % pdu, case,
                    "re-encoding differs from the data_msg datagram at offset %d" % diff_at(again, d)))
    # the other direction: the definition encodes the same values, data_msg reads them
    P.c = copy_vals(exp)
    try:
        b = bytes(P.to_bytes())
    except BaseException as ex:
        out.append(("C17:%s:to-codec:encode-raises-%s" % (pdu, type(ex).__name__), case, root_cause(ex)))
        return
    if b != d:
        out.append(("C17:%s:to-codec:octets" % pdu, case,
                    "the definition encodes the message differently from data_msg at offset %d" % diff_at(b, d)))
    m2 = dm.TxMsg() if spec["cls"] == "tx" else dm.RxMsg()
    try:
        m2.parse_msg(bytearray(b))
    except BaseException as ex:
        out.append(("C17:%s:to-codec:parse-raises-%s" % (pdu, type(ex).__name__), case,
                    "data_msg rejected the definition's encoding: %s" % root_cause(ex)))
        return
    bad = None
    if (m2.ver, m2.fn, m2.tn) != (ver, spec["fn"], spec["tn"]):
        bad = "ver/fn/tn"
    elif spec["cls"] == "tx":
        if m2.pwr != spec["pwr"] or bytes(m2.burst) != bits:
            bad = "pwr/burst"
    else:
        if (m2.rssi, m2.toa256) != (spec["rssi"], spec["toa"]):
            bad = "rssi/toa256"
        elif (None if m2.burst is None else list(m2.burst)) != sb:
            bad = "burst"
        elif ver == 1:
            if m2.ci != spec["ci"] or bool(m2.nope_ind) != bool(spec.get("nope", False)):
                bad = "ci/nope"
            elif not spec.get("nope") and (getattr(m2.mod_type, "name", None) != R01.TK_NAME[spec["mod"]]
                                           or m2.tsc_set != spec["tsc_set"] or m2.tsc != spec["tsc"]):
                bad = "mts"
    if bad:
        out.append(("C17:%s:to-codec:field-%s" % (pdu, bad), case,
                    "data_msg reads %s of the definition's encoding differently" % bad))


def root_cause(ex):
    """deterministic text for an exception chain (the codec's errors carry object reprs with addresses)"""
    while ex.__cause__ is not None:
        ex = ex.__cause__
    txt = "%s(%s)" % (type(ex).__name__, ", ".join(str(a) for a in getattr(ex, "args", ())
                                                    if isinstance(a, (str, int, bytes))))
    return txt if len(txt) <= 160 else txt[:160] + "..."


def msg_specs(item, quick):
    kind = item[0]
    rssis, toas, cis = (RSSI_Q, TOA_Q, CI_Q) if quick else (RSSI_T, TOA_T, CI_T)
    if kind == "A-tx":
        _, ver, tn = item
        for fn, pwr, bl, pat in itertools.product(FN_Q, PWR_Q if quick else PWR_Q + [254, 127], (148, 444), HARD_PATS):
            yield {"cls": "tx", "ver": ver, "tn": tn, "fn": fn, "pwr": pwr, "bl": bl, "pat": pat}
    elif kind == "A-rx0":
        _, tn = item
        for fn, rssi, toa, bl, pat, legacy in itertools.product(FN_Q, rssis, toas, (148, 444), SOFT_PATS, (False, True)):
            yield {"cls": "rx", "ver": 0, "tn": tn, "fn": fn, "rssi": rssi, "toa": toa, "bl": bl, "pat": pat,
                   "legacy": legacy}
    elif kind == "A-rx1-nope":
        _, tn = item
        for fn, rssi, toa, ci, legacy in itertools.product(FN_Q, rssis, toas, cis, (False, True)):
            yield {"cls": "rx", "ver": 1, "tn": tn, "fn": fn, "rssi": rssi, "toa": toa, "ci": ci, "nope": True,
                   "legacy": legacy}
    elif kind == "A-rx1":
        _, mod, ts = item
        bl = R01.MODS[mod][2]
        i = 0
        # every TSC x TN x burst pattern x legacy flag, wide fields walking through their boundary sets
        for tsc, tn, pat, legacy in itertools.product(range(8), range(8), SOFT_PATS, (False, True)):
            i += 1
            yield {"cls": "rx", "ver": 1, "tn": tn, "fn": FN_Q[i % 4], "rssi": rssis[i % len(rssis)],
                   "toa": toas[(i // 4) % len(toas)], "ci": cis[(i // 3) % len(cis)], "mod": mod, "tsc_set": ts,
                   "tsc": tsc, "bl": bl, "pat": pat, "legacy": legacy}
        # complete product of the wide fields
        tscs_tns = [(5, 3)] if quick else [(t, (t * 3 + 1) % 8) for t in range(8)]
        for (tsc, tn), fn, rssi, toa, ci, pat in itertools.product(tscs_tns, FN_Q, rssis, toas, cis, ("alt", "ramp")):
            yield {"cls": "rx", "ver": 1, "tn": tn, "fn": fn, "rssi": rssi, "toa": toa, "ci": ci, "mod": mod,
                   "tsc_set": ts, "tsc": tsc, "bl": bl, "pat": pat, "legacy": False}


# ---------------------------------------------------------------------------
# Part B: the definitions against the layout

TN_ALL = list(range(8))
FN_B = [0, 1, HYPER - 1, 0x01020304, 0xffffffff]
RSSI_B = [0, -1, -47, -120, -128, -254, -255]
S16_B = [-32768, -32767, -1, 0, 1, 0x1234, 32767]
CIR_B = [-32768, -1280, -1, 0, 1280, 32767]
PWR_B = [0, 1, 0x7f, 0x80, 0xfe, 0xff]
SCPIR_B = [-128, -127, -1, 0, 1, 126, 127]
TRXN_B = [0, 1, 31, 32, 62, 63]


def v2_pdu(direction, idx, slot, first, variant=0):
    """A v2 (sub-)PDU whose every field depends on its index, so that a mixed-up or damaged
    batched PDU shows."""
    p = {"tn": (idx * 3 + 1 + variant) % 8, "batch": (idx + variant) & 1, "trxn": (idx * 21 + 5 + variant * 7) % 64,
         "nope": 1 if slot == "nope" else 0, "mod": 0 if slot == "nope" else slot, "tsc": (idx * 5 + 3 + variant) % 8}
    if first:
        p["fn"] = (0x01020304 + variant * 0x00010001) & 0xffffffff
    else:
        p["shadow"] = ((idx >> 1) ^ variant) & 1
    if direction == "rx":
        p["rssi"] = -((idx * 29 + 17 + variant) % 256)
        p["toa256"] = ((idx * 7919 + variant * 257 + 300) % 65536) - 32768
        p["cir"] = 1280 - idx * 311 - variant
    else:
        p["pwr"] = (idx * 53 + 9 + variant) % 256
        p["scpir"] = ((idx * 37 + 100 + variant) % 256) - 128
    if slot != "nope":
        bl = R2.burst_len(slot)
        key = "soft-bits" if direction == "rx" else "hard-bits"
        p[key] = octet_pat("ramp" if direction == "rx" else "bits", bl, idx + variant)
    return p


def v2_vals(direction, slots, variant=0):
    v = v2_pdu(direction, 0, slots[0], True, variant)
    v["bpdu"] = [v2_pdu(direction, i + 1, s, False, variant) for i, s in enumerate(slots[1:])]
    return v


def base_vals(pdu, slot=0, variant=0, k=0):
    """A representative content per class (slot: MOD code or 'nope' where the class has an MTS)."""
    if pdu in ("v0tx", "v1tx"):
        return {"tn": 3 + variant, "fn": 0x00112233, "pwr": 0x5a, "hard-bits": octet_pat("bits", (148, 444)[variant & 1], 2)}
    if pdu == "v0rx":
        return {"tn": 5, "fn": 0x00a1b2c3, "rssi": -77, "toa256": -1234,
                "soft-bits": octet_pat("ramp", (148, 444)[variant & 1], 3), "pad": (b"", b"\0\0")[(variant >> 1) & 1]}
    if pdu == "v1rx":
        v = {"tn": 6, "fn": 0x00010203, "rssi": -99, "toa256": 4321, "nope": 1 if slot == "nope" else 0,
             "mod": 0 if slot == "nope" else slot, "tsc": 5, "cir": -300}
        if slot != "nope":
            v["soft-bits"] = octet_pat("ramp", R2.burst_len(slot), 4 + variant)
        return v
    return v2_vals(pdu[2:], [slot] + [SLOTS[(i * 5 + 2 + variant) % len(SLOTS)] for i in range(k)], variant)


def work_fields(item):
    """B2: boundary products of the plain fields of one class."""
    _, pdu, quick = item
    out, cov = _begin()
    if pdu in ("v0tx", "v1tx"):
        for tn, fn, pwr, n in itertools.product(TN_ALL, FN_B, PWR_B, (0, 1, 148, 444, 445)):
            for pat in (("bits", "ff") if n in (148, 444) else ("ramp",)):
                judge_encode(pdu, {"tn": tn, "fn": fn, "pwr": pwr, "hard-bits": octet_pat(pat, n, tn)}, "fields", out, cov)
    elif pdu == "v0rx":
        for tn, fn, rssi, toa, n, pad in itertools.product(TN_ALL, FN_B, RSSI_B, S16_B, (148, 444), (b"", b"\0\0")):
            judge_encode(pdu, {"tn": tn, "fn": fn, "rssi": rssi, "toa256": toa, "pad": pad,
                               "soft-bits": octet_pat("ramp" if tn & 1 else "alt", n, tn)}, "fields", out, cov)
    elif pdu == "v1rx":
        for tn, fn, rssi, toa, cir in itertools.product(TN_ALL, FN_B, RSSI_B, S16_B, CIR_B):
            slot = SLOTS[(tn + rssi + cir) % len(SLOTS)]
            v = base_vals("v1rx", slot, tn)
            v.update(tn=tn, fn=fn, rssi=rssi, toa256=toa, cir=cir)
            judge_encode(pdu, v, "fields", out, cov)
    else:
        d = pdu[2:]
        # header fields: complete product TN x BATCH x TRXN(0..63), first PDU and one batched PDU (with SHADOW)
        for tn, batch, trxn, shadow in itertools.product(TN_ALL, (0, 1), range(64), (0, 1)):
            v = v2_vals(d, [SLOTS[(tn + trxn) % len(SLOTS)], SLOTS[(trxn * 3 + batch) % len(SLOTS)]], trxn & 3)
            if shadow == 0:
                v.update(tn=tn, batch=batch, trxn=trxn)
            else:
                v["bpdu"][0].update(tn=tn, batch=batch, trxn=trxn, shadow=1)
            judge_encode(pdu, v, "header", out, cov)
            v = v2_vals(d, [SLOTS[(tn + trxn) % len(SLOTS)], SLOTS[(trxn * 3 + batch) % len(SLOTS)]], trxn & 3)
            v["bpdu"][0].update(tn=tn, batch=batch, trxn=trxn, shadow=shadow)
            judge_encode(pdu, v, "header", out, cov)
        # level fields: complete product, in the first PDU and in the second of two batched PDUs
        if d == "rx":
            prod = itertools.product(RSSI_B, S16_B, CIR_B, FN_B)
        else:
            prod = itertools.product(PWR_B, SCPIR_B, [0], FN_B)
        for i, (a, b, c, fn) in enumerate(prod):
            for where in (0, 2):
                v = v2_vals(d, [SLOTS[i % len(SLOTS)], "nope", SLOTS[(i * 3 + 1) % len(SLOTS)]], i & 1)
                tgt = v if where == 0 else v["bpdu"][where - 1]
                if d == "rx":
                    tgt.update(rssi=a, toa256=b, cir=c)
                else:
                    tgt.update(pwr=a, scpir=b)
                v["fn"] = fn
                judge_encode(pdu, v, "fields", out, cov)
    return {"cov": cov, "viol": out[:30], "nviol_extra": max(0, len(out) - 30)}


def mts_targets(pdu):
    """positions of a PDU with an MTS octet: (k batched PDUs, index of the PDU that is varied)"""
    return [(0, 0)] if pdu == "v1rx" else [(0, 0), (1, 1), (2, 2), (2, 0)]


def build_with_mts(pdu, k, pos, nope, mod, tsc, blen, variant):
    """Datagram (reference encoding) whose PDU number `pos` has the given MTS bits and `blen` burst octets."""
    if pdu == "v1rx":
        v = base_vals("v1rx", 0, variant)
        v.update(nope=nope, mod=mod, tsc=tsc)
        v["soft-bits"] = octet_pat(("ramp", "zero", "ff")[variant % 3], blen, mod)
        b = bytearray(_rx_hdr(1, v))
        b.append(R2.mts(nope, mod, tsc))
        b += R01._be16s(v["cir"])
        return bytes(b + v["soft-bits"])
    d = pdu[2:]
    v = v2_vals(d, [SLOTS[(variant + 3 * i) % len(SLOTS)] for i in range(k + 1)], variant)
    parts = []
    for i, p in enumerate([v] + v["bpdu"]):
        q = _v2_to_ref(d, p)
        if i == pos:
            q.update(nope=0, mod=0, tsc=tsc)
            q["bits"] = b""
            hdr = bytearray(R2.enc_pdu(d, dict(q, nope=1), i == 0))
            hdr[2] = R2.mts(nope, mod, tsc)
            parts.append(bytes(hdr) + octet_pat(("ramp", "zero", "ff")[variant % 3], blen, mod))
        else:
            parts.append(R2.enc_pdu(d, q, i == 0))
    return b"".join(parts)


def work_mts(item):
    """B1 + B7: every MTS octet, with every candidate burst length, at every PDU position."""
    _, pdu, quick = item
    out, cov = _begin()
    for (k, pos) in mts_targets(pdu):
        for nope, mod, tsc in itertools.product((0, 1), range(16), range(8)):
            lens = sorted(set(LENS) | ({R2.burst_len(mod)} if R2.burst_len(mod) else set()))
            if not quick or tsc in (0, 7):
                bl = R2.burst_len(mod) or 0
                lens = sorted(set(lens) | {max(bl - 1, 0), bl + 1})
            for blen in lens:
                if nope and blen not in (0, 148) and tsc not in (0, 5):
                    continue
                data = build_with_mts(pdu, k, pos, nope, mod, tsc, blen, (tsc + mod) % 4)
                judge_decode(pdu, data, "mts:mod=%d%s" % (mod, ":nope" if nope else ""), out, cov)
                cov["mts_octets"].add((nope << 7) | (mod << 3) | tsc)
        # encoding direction: every legal code and NOPE at this position
        if pdu != "v1rx":
            for slot, tsc in itertools.product(SLOTS, range(8)):
                slots = [SLOTS[(tsc + 3 * i) % len(SLOTS)] for i in range(k + 1)]
                slots[pos] = slot
                v = v2_vals(pdu[2:], slots, tsc & 3)
                ([v] + v["bpdu"])[pos]["tsc"] = tsc
                judge_encode(pdu, v, "mts-enc", out, cov)
        else:
            for slot, tsc in itertools.product(SLOTS, range(8)):
                v = base_vals("v1rx", slot, tsc)
                v["tsc"] = tsc
                judge_encode(pdu, v, "mts-enc", out, cov)
    return {"cov": cov, "viol": out[:30], "nviol_extra": max(0, len(out) - 30)}


def reserved_bits(pdu, v):
    """(octet offset, bit mask) of every reserved bit in the reference encoding of v."""
    bits = [(0, 0x08)]
    if pdu in ("v2rx", "v2tx"):
        d = pdu[2:]
        off = 0
        for i, p in enumerate([v] + v["bpdu"]):
            if i == 0:
                bits.append((1, 0x40))
            else:
                bits += [(off, 1 << b) for b in (7, 6, 5, 4, 3)]
            if d == "tx":
                bits += [(off + o, 1 << b) for o in (5, 6, 7) for b in range(8)]
            off += len(R2.enc_pdu(d, _v2_to_ref(d, p), i == 0))
    return bits


def bases(pdu, quick):
    if pdu in ("v0tx", "v1tx"):
        return [base_vals(pdu, 0, v) for v in (0, 1)]
    if pdu == "v0rx":
        return [base_vals(pdu, 0, v) for v in range(4)]
    if pdu == "v1rx":
        return [base_vals(pdu, s, i) for i, s in enumerate(SLOTS)]
    res = [base_vals(pdu, s, i, k=i % 4) for i, s in enumerate(SLOTS)]
    res += [base_vals(pdu, "nope", 1, k=3), base_vals(pdu, 13, 2, k=2)]
    return res


def work_bits(item):
    """B3 reserved bits set on receipt, B4 version nibble, B5 truncation / trailing octets."""
    _, pdu, bi, quick = item
    out, cov = _begin()
    v = bases(pdu, quick)[bi]
    canon = ref_encode(pdu, v)
    verdict = ref_decode(pdu, canon)
    if verdict[0] != "ok":
        raise HarnessError("base PDU of %s is not well-formed per the reference: %r" % (pdu, verdict[:1]))
    e = env()
    P = e["pdu"][pdu]
    DecodeError = e["codec"].DecodeError
    # B3: every reserved bit alone, and all together; the reference ignores them, so must the definition
    rb = reserved_bits(pdu, v)
    allset = bytearray(canon)
    for off, mask in rb:
        allset[off] |= mask
    variants = [bytes(allset)]
    for off, mask in rb:
        b = bytearray(canon)
        b[off] |= mask
        variants.append(bytes(b))
    for data in variants:
        cov["evaluations"] += 1
        cov["reserved_bit_cases"] += 1
        case = {"k": "dec", "pdu": pdu, "data": data, "tag": "reserved-bits"}
        exp = ref_decode(pdu, data)
        if exp != verdict:
            raise HarnessError("reference does not ignore a reserved bit")
        judge_decode(pdu, data, "reserved-bits", out, cov)
    # B4: version nibble
    for nib in range(16):
        data = bytes([(canon[0] & 0x0f) | (nib << 4)]) + canon[1:]
        judge_decode(pdu, data, "version" if nib != int(pdu[1]) else "version-ok", out, cov)
        cov["version_cases"] += 1
    # B5: every truncation offset, 1 and 2 trailing octets (zero and 0xff)
    for cut in range(len(canon)):
        judge_decode(pdu, canon[:cut], "truncation", out, cov)
        cov["truncation_cases"] += 1
    for tail in (b"\x00", b"\xff", b"\x00\x00", b"\xff\x7f", b"\x00" * 8, b"\x00" * 12):
        judge_decode(pdu, canon + tail, "trailing", out, cov)
        cov["trailing_cases"] += 1
    return {"cov": cov, "viol": out[:30], "nviol_extra": max(0, len(out) - 30)}


def work_batch(item):
    """B6: v2 datagrams with batched PDUs: every assignment of SLOTS to the first PDU and k batched PDUs."""
    _, pdu, kind, a, b = item
    out, cov = _begin()
    d = pdu[2:]
    if kind == "product":               # a = slot index of the first PDU, b = k
        for combo in itertools.product(SLOTS, repeat=b):
            slots = [SLOTS[a]] + list(combo)
            judge_encode(pdu, v2_vals(d, slots, (a + b) & 3), "batch:k=%d" % b, out, cov)
            cov["batched_k%d" % b] += 1
    else:                               # sweep: a = k, b = position; every code at b over every uniform background,
        for c, bg in itertools.product(SLOTS, SLOTS):          # and the cyclic families
            slots = [bg] * (a + 1)
            slots[b] = c
            judge_encode(pdu, v2_vals(d, slots, b & 3), "batch:k=%d" % a, out, cov)
            cov["batched_k%d" % a] += 1
        if b == 0:
            for shift, stride in itertools.product(range(len(SLOTS)), (1, 3, 5)):
                slots = [SLOTS[(shift + stride * i) % len(SLOTS)] for i in range(a + 1)]
                judge_encode(pdu, v2_vals(d, slots, stride & 3), "batch:k=%d" % a, out, cov)
                cov["batched_k%d" % a] += 1
    return {"cov": cov, "viol": out[:30], "nviol_extra": max(0, len(out) - 30)}


def work_msgs(item):
    item, quick = item
    out, cov = _begin()
    sample = None
    for spec in msg_specs(item, quick):
        judge_msg(spec, out, cov)
        sample = spec
    res = {"cov": cov, "viol": out[:30], "nviol_extra": max(0, len(out) - 30)}
    if sample and item[0] == "A-rx1" and item[1:] == ("32QAM", 1):
        res["samples"] = [sample]
    return res


# ---------------------------------------------------------------------------
# Part A, object histories: one message object driven through state changes; whatever data_msg then encodes
# must be a datagram the matching definition accepts and reads like the layout

OH_STARTS = ["v1:GMSK", "v1:8PSK", "v1:32QAM", "v1:nope", "v0:148", "v0:444", "tx0:148", "tx1:444"]
OH_OPS = ["nope-on", "nope-off", "burst-none", "burst-mod", "burst-148", "ver-0", "ver-1", "mod-8PSK", "mod-none"]


def oh_start(start):
    dm = env()["dm"]
    kind, what = start.split(":")
    if kind.startswith("tx"):
        m = dm.TxMsg(fn=0x1234, tn=3, ver=int(kind[2]))
        m.pwr = 0x5a
        m.burst = bytearray(hard_pat("alt", int(what)))
        return m
    m = dm.RxMsg(fn=0x4321, tn=5, ver=int(kind[1]))
    m.rssi, m.toa256 = -77, -300
    if m.ver == 1:
        m.ci = 123
        if what == "nope":
            m.nope_ind = True
        else:
            m.mod_type = dm.Modulation[R01.TK_NAME[what]]
            m.tsc_set, m.tsc = 1, 6
            m.burst = array('b', soft_pat("ramp", R01.MODS[what][2]))
    else:
        m.burst = array('b', soft_pat("ramp", int(what)))
    return m


def oh_apply(m, op):
    dm = env()["dm"]
    tx = type(m).__name__ == "TxMsg"
    if op == "nope-on":
        m.nope_ind = True                      # nothing else is cleared
    elif op == "nope-off":
        m.nope_ind = False
    elif op == "burst-none":
        m.burst = None
    elif op == "burst-mod":
        mt = getattr(m, "mod_type", None)
        n = mt.bl if mt is not None else 148
        m.burst = bytearray(hard_pat("alt", n)) if tx else array('b', soft_pat("alt", n))
    elif op == "burst-148":
        m.burst = bytearray(hard_pat("one", 148)) if tx else array('b', soft_pat("one", 148))
    elif op == "ver-0":
        m.ver = 0
    elif op == "ver-1":
        m.ver = 1
        if not tx and m.ci is None:
            m.ci = -5
    elif op == "mod-8PSK":
        m.mod_type = dm.Modulation.Mod8PSK
        if not tx and m.tsc_set is None:
            m.tsc_set, m.tsc = 0, 2
    elif op == "mod-none":
        m.mod_type = None
    else:
        raise HarnessError("object-history op %r" % op)


def judge_objhist(start, ops, out, cov):
    """after every state change: if gen_msg() produces a datagram, the definition must accept it and read what the
    layout reads; (a message data_msg refuses produces no datagram and is none of C17's business)"""
    e = env()
    DecodeError = e["codec"].DecodeError
    m = oh_start(start)
    case = {"k": "objhist", "start": start, "ops": list(ops)}
    for i, op in enumerate(ops):
        oh_apply(m, op)
        for legacy in (False, True):
            if legacy and (type(m).__name__ == "TxMsg" or m.ver != 0):
                continue
            try:
                d = bytes(m.gen_msg(legacy))
            except Exception:
                cov["objhist_refused"] += 1
                continue
            cov["evaluations"] += 1
            cov["objhist_datagrams"] += 1
            cov["nontrivial_inputs"].add(hash(("objhist", d)))
            pdu = "v%d%s" % (d[0] >> 4, "tx" if type(m).__name__ == "TxMsg" else "rx")
            hist = "%s object after %s%s" % (start, list(ops[:i + 1]), ", legacy padding" if legacy else "")
            if pdu not in e["pdu"]:
                out.append(("C17:codec-history:unknown-version", case, "%s: data_msg emitted version %d" % (hist, d[0] >> 4)))
                continue
            P = e["pdu"][pdu]
            verdict = ref_decode(pdu, d)
            try:
                n = P.from_bytes(d)
                got = copy_vals(P.c)
            except DecodeError as ex:
                if pdu == "v1rx" and len(d) > 8 and (d[8] >> 3) == 7:
                    key = "C17:v1rx:mts=0111"
                else:
                    key = "C17:%s:codec-history:rejected%s" % (pdu, ":layout-%s" % verdict[1] if verdict[0] == "err" else "")
                out.append((key, case, "%s: data_msg emitted the %d-octet datagram %s.. which %s.from_bytes() rejects "
                            "(%s)%s" % (hist, len(d), d[:12].hex(), pdu, root_cause(ex),
                                        "; the layout does not admit it either: %s" % verdict[1] if verdict[0] == "err"
                                        else "")))
                continue
            except BaseException as ex:
                out.append(("C17:%s:codec-history:raises-%s" % (pdu, type(ex).__name__), case,
                            "%s: from_bytes() raised %s" % (hist, root_cause(ex))))
                continue
            if verdict[0] == "err":
                out.append(("C17:%s:codec-history:accepted-%s" % (pdu, verdict[1]), case,
                            "%s: data_msg emitted a %d-octet datagram the layout rejects (%s) and the definition "
                            "accepted it as %s" % (hist, len(d), verdict[1], brief(got))))
            elif verdict[0] == "ok":
                dif = first_diff(verdict[1], got)
                if dif:
                    out.append(("C17:%s:codec-history:field-%s" % (pdu, dif), case,
                                "%s: field %s read differently: layout %s, definition %s"
                                % (hist, dif, brief(verdict[1]), brief(got))))
                elif n != len(d):
                    out.append(("C17:%s:codec-history:consumed" % pdu, case, "%s: consumed %r of %d" % (hist, n, len(d))))


def work_objhist(item):
    _, start, quick = item
    out, cov = _begin()
    for k in (1, 2, 3):
        for ops in itertools.product(OH_OPS, repeat=k):
            judge_objhist(start, ops, out, cov)
            cov["objhist_histories"] += 1
    return {"cov": cov, "viol": out[:30], "nviol_extra": max(0, len(out) - 30)}


# ---------------------------------------------------------------------------
# history leg: the same definition objects (and fresh ones) used for one datagram after another

PDU_CLASS = {"v0rx": "PDUv0Rx", "v0tx": "PDUv0Tx", "v1rx": "PDUv1Rx", "v1tx": "PDUv1Tx", "v2rx": "PDUv2Rx",
             "v2tx": "PDUv2Tx"}


def history_contents(quick):
    """[(class, content)]: every class, v2 with 0..3 batched PDUs (two contents each), NOPE and burst PDUs"""
    d = []
    for pdu in ("v2rx", "v2tx"):
        for k in range(4):
            for variant in ((0,) if quick and k in (1, 3) else (0, 1)):
                slots = [SLOTS[(3 * k + 5 * i + 7 * variant) % len(SLOTS)] for i in range(k + 1)]
                if variant and k:
                    slots[-1] = "nope"
                d.append((pdu, v2_vals(pdu[2:], slots, variant)))
    for slot in (0, 5, "nope", 13):
        d.append(("v1rx", base_vals("v1rx", slot, 1)))
    for variant in range(4):
        d.append(("v0rx", base_vals("v0rx", 0, variant)))
    for pdu in ("v0tx", "v1tx"):
        for variant in (0, 1):
            d.append((pdu, base_vals(pdu, 0, variant)))
    return d


def history_pair(p1, v1, p2, v2, fresh, out, cov, case, sig):
    """decode d1, keep the result, decode d2: the second result is d2's content, the first one is unchanged;
    the same for to_bytes().  fresh=False: the process-wide definition objects; True: new objects for this pair.
    sig(which, signature) records how each content came out, so that the caller can tell a definition that is
    simply wrong for a content from one whose result depends on what it processed before."""
    e = env()
    if fresh:
        P1 = getattr(e["tp"], PDU_CLASS[p1])()
        P2 = P1 if (p1 == p2 and v1 is v2) else getattr(e["tp"], PDU_CLASS[p2])()
    else:
        P1, P2 = e["pdu"][p1], e["pdu"][p2]
    who = "%s-then-%s" % (p1, p2)
    b1, b2 = ref_encode(p1, v1), ref_encode(p2, v2)
    exp1, exp2 = ref_decode(p1, b1), ref_decode(p2, b2)
    if exp1[0] != "ok" or exp2[0] != "ok":
        raise HarnessError("history content is not well-formed per the reference")
    exp1, exp2 = exp1[1], exp2[1]
    cov["evaluations"] += 1
    cov["history_pairs"] += 1
    cov["history_pairs_fresh" if fresh else "history_pairs_shared"] += 1
    k1, k2 = len(v1.get("bpdu", [])), len(v2.get("bpdu", []))
    try:
        P1.from_bytes(b1)
        if oversized(P1.c, b1) or len(P1.c.get("bpdu", [])) > 64:
            sig(1, "dec:runaway:%d" % len(P1.c["bpdu"]))
            out.append(("C17:history:decode:runaway-result:%s" % who, case,
                        "first from_bytes(): %d batched PDUs decoded from a %d-octet datagram holding %d"
                        % (len(P1.c["bpdu"]), len(b1), k1)))
            return
        kept = dict(P1.c)                      # the nested list / dicts are the objects from_bytes() produced
        snap = copy_vals(kept)
        P2.from_bytes(b2)
        if oversized(P2.c, b2) or len(P2.c.get("bpdu", [])) > 64:
            sig(2, "dec:runaway:%d" % len(P2.c["bpdu"]))
            out.append(("C17:history:decode:runaway-result:%s" % who, case,
                        "from_bytes() of a datagram with %d batched PDUs after one with %d returned %d batched PDUs"
                        % (k2, k1, len(P2.c["bpdu"]))))
            return
        second = copy_vals(P2.c)
    except BaseException as ex:
        sig(2, "dec:raises-%s" % type(ex).__name__)
        out.append(("C17:history:decode:raises-%s:%s" % (type(ex).__name__, who), case,
                    "from_bytes(d1) then from_bytes(d2) raised %s" % root_cause(ex)))
        return
    d = first_diff(exp1, snap)
    sig(1, "dec:%s:%d" % (d or "ok", len(snap.get("bpdu", []))))
    if d:
        out.append(("C17:history:decode:first-result:%s:field-%s" % (who, d), case,
                    "first from_bytes(): expected %s, got %s" % (brief(exp1), brief(snap))))
        return
    d = first_diff(exp2, second)
    sig(2, "dec:%s:%d" % (d or "ok", len(second.get("bpdu", []))))
    if d:
        out.append(("C17:history:decode:second-result:%s:field-%s" % (who, d), case,
                    "from_bytes() of a %s datagram with %d batched PDUs after a %s datagram with %d: field %s differs; "
                    "expected %s, got %s" % (p2, k2, p1, k1, d, brief(exp2), brief(second))))
        return
    if "bpdu" in kept and len(kept["bpdu"]) > 64:
        d = "bpdu(count)"
    else:
        d = first_diff(snap, kept)
    if d:
        sig(0, "changed")
        out.append(("C17:history:decode:first-result-changed:%s:field-%s" % (who, d), case,
                    "the content decoded first (%s, %d batched PDUs) changed when the next datagram (%s, %d batched "
                    "PDUs) was decoded: field %s" % (p1, k1, p2, k2, d)))
        return
    # encoding
    try:
        P1.c = copy_vals(v1)
        o1 = P1.to_bytes()
        c1 = bytes(o1)
        P2.c = copy_vals(v2)
        o2 = P2.to_bytes()
    except BaseException as ex:
        sig(2, "enc:raises-%s" % type(ex).__name__)
        out.append(("C17:history:encode:raises-%s:%s" % (type(ex).__name__, who), case,
                    "to_bytes(c1) then to_bytes(c2) raised %s" % root_cause(ex)))
        return
    sig(1, "enc:%d:%d" % (len(c1), diff_at(c1, b1) if c1 != b1 else -1))
    if bytes(o1) != c1:
        sig(0, "changed")
    if c1 != b1 or bytes(o1) != c1:
        out.append(("C17:history:encode:first-result:%s" % who, case,
                    "first to_bytes() gave %d octets (canonical %d), differs at offset %d%s"
                    % (len(c1), len(b1), diff_at(c1, b1), "; the returned buffer changed afterwards" if bytes(o1) != c1
                       else "")))
        return
    sig(2, "enc:%d:%d" % (len(bytes(o2)), diff_at(bytes(o2), b2) if bytes(o2) != b2 else -1))
    if bytes(o2) != b2:
        out.append(("C17:history:encode:second-result:%s" % who, case,
                    "to_bytes() of a %s content with %d batched PDUs after a %s content with %d: %d octets, canonical %d, "
                    "differs at offset %d" % (p2, k2, p1, k1, len(bytes(o2)), len(b2), diff_at(bytes(o2), b2))))


def history_leg(quick, only_pair=None):
    """All ordered pairs (equal ones included) of the history contents, first through the process-wide definition
    objects, then through fresh objects per pair; Rx/Tx and v0/v1/v2 definitions alternate in this one process.
    The leg is a fixed sequence of calls starting from a fresh process, so a violation is replayed by running the
    sequence again up to its pair (only_pair).
    -> {'cov', 'viol', 'history_dependent'}: history_dependent is True when some content came out differently at
    different points of the sequence (or a kept result changed); when every wrong content is wrong in the same way
    every time, the definition is simply wrong for it and the contents are handed to the single-datagram judges."""
    out, cov = Budget(), new_cov()
    contents = history_contents(quick)
    sigs = {}
    flags = {"changed": False}
    idx = 0
    stop = False
    try:
        for fresh in (False, True):
            for i1, (p1, v1) in enumerate(contents):
                for i2, (p2, v2) in enumerate(contents):
                    def sig(which, s, i1=i1, i2=i2):
                        if which == 0:
                            flags["changed"] = True
                        else:
                            sigs.setdefault((i1 if which == 1 else i2, s[:3]), set()).add(s)
                    case = {"k": "hist", "quick": quick, "pair": idx, "fresh": fresh, "p1": p1, "p2": p2,
                            "k1": len(v1.get("bpdu", [])), "k2": len(v2.get("bpdu", []))}
                    n0 = len(out)
                    if only_pair is not None and idx == only_pair:
                        del out[:]
                        n0 = 0
                    history_pair(p1, v1, p2, v2, fresh, out, cov, case, sig)
                    if only_pair is not None and idx == only_pair:
                        return {"cov": dict(cov), "viol": list(out)[n0:], "history_dependent": True}
                    idx += 1
    except StopItem:
        cov["work_items_cut_short"] += 1
        if only_pair is not None:
            return {"cov": dict(cov), "viol": [v for v in out if v[1]["pair"] == only_pair], "history_dependent": True}
    cov["history_contents"] = len(contents)
    dependent = flags["changed"] or any(len(v) > 1 for v in sigs.values())
    viol = list(out)
    if viol and not dependent:
        # every wrong content is wrong the same way each time: report it through the single-datagram judges
        bad = sorted(set(i for (i, _), ss in sigs.items() if any(not (x.startswith("dec:ok") or x.endswith(":-1")) for x in ss)))
        viol = []
        for i in bad:
            p, v = contents[i]
            try:
                judge_encode(p, v, "history-content", viol, cov)
            except StopItem:
                pass
    return {"cov": dict(cov), "viol": viol, "history_dependent": bool(viol) and dependent}


class Counter(dict):
    def __missing__(self, k):
        return 0


def new_cov():
    c = Counter()
    c.update(evaluations=0, codec_datagrams=0, enc=0, dec_ok=0, dec_err=0, dec_open=0, open_accepted=0,
             open_rejected=0)
    c["mts_octets"] = set()
    c["nontrivial_inputs"] = set()
    return c


def dispatch(item):
    kind = item[0]
    out, cov = Budget(), new_cov()
    _cur.update(out=out, cov=cov)
    try:
        if kind == "A":
            r = work_msgs(item[1:])
        elif kind == "objhist":
            r = work_objhist(item)
        elif kind == "fields":
            r = work_fields(item)
        elif kind == "mts":
            r = work_mts(item)
        elif kind == "bits":
            r = work_bits(item)
        elif kind == "batch":
            r = work_batch(item)
        else:
            raise HarnessError("work item %r" % (item,))
    except StopItem:
        cov["work_items_cut_short"] += 1
        r = {"cov": cov, "viol": list(out)[:30]}
    r["nviol_extra"] = max(0, out.seen - len(r["viol"]))
    r["cov"] = dict(r["cov"])
    return r


def work_items(quick):
    items = []
    for ver in (0, 1):
        for tn in range(8):
            items.append(("A", ("A-tx", ver, tn), quick))
    for tn in range(8):
        items.append(("A", ("A-rx0", tn), quick))
        items.append(("A", ("A-rx1-nope", tn), quick))
    for mod, ts in MODSETS:
        items.append(("A", ("A-rx1", mod, ts), quick))
    for start in OH_STARTS:
        items.append(("objhist", start, quick))
    for pdu in PDU_NAMES:
        items.append(("fields", pdu, quick))
        for bi in range(len(bases(pdu, quick))):
            items.append(("bits", pdu, bi, quick))
    for pdu in ("v1rx", "v2rx", "v2tx"):
        items.append(("mts", pdu, quick))
    kfull = 3 if quick else 4
    for pdu in ("v2rx", "v2tx"):
        for k in range(kfull + 1):
            for a in range(len(SLOTS)):
                items.append(("batch", pdu, "product", a, k))
        if not quick:
            for k in range(kfull + 1, 9):
                for pos in range(k + 1):
                    items.append(("batch", pdu, "sweep", k, pos))
    return items


def run(ctx):
    # history leg first, in this process: if one decode / encode depends on an earlier one, the verdicts of the
    # single-datagram legs (and their replays, which run one case in a fresh process) would mean nothing
    h = history_leg(ctx.quick)
    ctx.merge(h)
    if h["history_dependent"]:
        c = ctx.cov
        c["stateless_legs_skipped"] = 1
        c["distinct_nontrivial"] = c.get("history_pairs", 0)
        c["nontrivial_inputs"] = c["distinct_nontrivial"]
        c["mts_octets"] = 0
        c["rule"] = ("history leg only (ordered pairs of %d contents over all six definitions, through shared and fresh "
                     "definition objects); it reported violations, i.e. results of the definitions depend on earlier "
                     "calls, so the single-datagram legs were not run" % c.get("history_contents", 0))
        c["exhaustive"] = False
        return
    items = work_items(ctx.quick)
    # big items first
    order = sorted(range(len(items)), key=lambda i: -(items[i][0] == "batch" and items[i][2] == "product") * items[i][-1])
    items = [items[i] for i in order]
    for r in ctx.pmap(dispatch, items, chunksize=1):
        ctx.merge(r)
    c = ctx.cov
    c["distinct_nontrivial"] = len(c["nontrivial_inputs"])
    c["work_items"] = len(items)
    kfull = 3 if ctx.quick else 4
    c["rule"] = ("A: every valid v0/v1 message of the enumeration {Tx: ver x TN x FN x PWR boundary sets x 148/444 x 6 "
                 "patterns; Rx v0: TN x FN x RSSI x ToA boundary product x 148/444 x 7 patterns x legacy on/off; Rx v1: "
                 "14 (modulation, TSC set) x 8 TSC x 8 TN x 7 patterns x legacy flag with the wide fields walking "
                 "through their boundary sets, plus the complete FN x RSSI x ToA x C/I boundary product per (modulation, "
                 "TSC set)%s; NOPE: TN x FN x RSSI x ToA x C/I product} is encoded by data_msg, decoded by the matching "
                 "definition and compared field by field, re-encoded, and encoded by the definition and parsed by "
                 "data_msg; object histories: one message object (8 starting states) driven through every sequence of "
                 "<= 3 state changes from {NOPE flag on/off without clearing anything, burst removed / re-bound, version "
                 "switched, modulation changed / removed}: whenever gen_msg() then emits a datagram the matching "
                 "definition must accept it and read what the layout reads. B: per class, complete boundary products of the plain fields (TN 0..7, TRXN 0..63, "
                 "BATCH/SHADOW, FN, RSSI, ToA, C/I, PWR, SCPIR), all 256 MTS octets x candidate burst lengths at every "
                 "PDU position (first, 1st and 2nd batched), every reserved bit set alone and together, all 16 version "
                 "nibbles, every truncation offset and 6 trailing-octet strings of %d base PDUs, and for v2 every "
                 "assignment of {15 legal MOD codes, NOPE} to the first PDU and 0..%d batched PDUs%s. Each case is "
                 "compared with the layout reference (vlib.ref.trxd, vlib.ref.trxd_v2). HISTORY leg (run first, in one "
                 "process): all ordered pairs (d1, d2) of %d contents (v2 Rx/Tx with 0..3 batched PDUs, v1 Rx burst / "
                 "NOPE, v0 Rx 148/444 with and without padding, v0/v1 Tx), through the process-wide definition objects "
                 "and through fresh ones: from_bytes(d1), keep, from_bytes(d2) - second result = d2's content, first "
                 "result unchanged; likewise to_bytes(). A work item stops after %d recorded violations. non-trivial = distinct codec "
                 "messages + distinct (class, datagram) decode inputs the reference decides (accept or reject), "
                 "counted over the whole run by hash; cases the statement leaves open (odd v0 "
                 "lengths) are only required not to crash or misread"
                 % ("" if ctx.quick else " and TSC", sum(len(bases(p, ctx.quick)) for p in PDU_NAMES), kfull,
                    "" if ctx.quick else "; for 5..8 batched PDUs every code at every position over every uniform "
                    "background plus 48 cyclic assignments", c.get("history_contents", 0), LIMIT))
    c["exhaustive"] = True
    ctx.assumptions += [
        "MOD codes 11xx are AQPSK with two TSC-set bits (TRXD description: '1 1 X X AQPSK, 4 TSC sets'; the MTS class "
        "documents the whole 11xx branch as AQPSK): 1110/1111 must encode/decode with a 296-octet burst in PDUv1Rx and "
        "PDUv2Rx/Tx incl. batched sub-PDUs; only 0111 is reserved. data_msg has no AQPSK TSC set 2/3, so the "
        "message-codec leg does not produce these codes",
        "version-0 Rx burst parts of a length other than 148/150/444/446 are not decided by the statement: rejection "
        "and the natural reading are both accepted (coverage.open_accepted/open_rejected)",
        "legacy padding is a TRX->L1 feature: Tx datagrams are never padded (DESIGN.md C17 domain decision)",
        "contents whose burst length contradicts their MOD bits are not encoded (the statement does not say whether "
        "to_bytes() must refuse them)",
        "burst octets: 6-7 patterns per length, not all contents",
    ]


def _unhex(v):
    if isinstance(v, dict):
        return {k: (bytes.fromhex(x) if k in BYTES_KEYS and isinstance(x, str) else _unhex(x)) for k, x in v.items()}
    if isinstance(v, list):
        return [_unhex(x) for x in v]
    return v


def replay(ctx, case):
    out, cov = [], new_cov()
    if case["k"] == "msg":
        judge_msg(case["spec"], out, cov)
    elif case["k"] == "objhist":
        judge_objhist(case["start"], case["ops"], out, cov)
    elif case["k"] == "dec":
        judge_decode(case["pdu"], bytes.fromhex(case["data"]), case["tag"], out, cov)
    elif case["k"] == "enc":
        judge_encode(case["pdu"], _unhex(case["vals"]), case["tag"], out, cov)
    elif case["k"] == "hist":
        out = history_leg(bool(case["quick"]), only_pair=int(case["pair"]))["viol"]
    else:
        raise HarnessError("unknown case kind %r" % case.get("k"))
    for v in out:
        ctx.violation(*v)

"""C10 - forwarded bursts carry faithful bits and correct simulated radio metadata.

Bounded-exhaustive enumeration on the real Application (fake fabric): complete
product of sender settings (SETPOWER, SETTA) x recipient settings (FAKE_TOA,
FAKE_RSSI, FAKE_CI bases/thresholds) x header-version pairs x both ends of every
random window, each with a representative burst set and burst attenuations;
plus, at default settings for every version pair, the complete burst set (every
training sequence of every burst type x payload patterns, the toolkit's own
burst generator outputs, 444-bit bursts, a walking 1 and walking 0 through every
bit position).  The datagram on the recipient's L1 DATA port is decoded with the
reference layout (vlib/ref/trxd.py) and compared with the reference model.
"""
import itertools

from vlib import world
from vlib.appworld import AppWorld
from vlib.ref import trxmodel, trxd

LEVEL = "exploration"
F1, F2 = 935000, 890000
SND, RCV = 0, 1

PREFIX = [(SND, "RXTUNE %d" % F2), (SND, "TXTUNE %d" % F1), (RCV, "RXTUNE %d" % F1), (RCV, "TXTUNE %d" % F2)]


def pat(n, kind):
    if kind == "zeros":
        return [0] * n
    if kind == "ones":
        return [1] * n
    return [k & 1 for k in range(n)]


def mk_nb(tsc, kind):
    b = pat(148, kind)
    b[61:87] = [int(c) for c in trxmodel.NB_TSC[tsc]]
    return bytes(b)


def mk_ab(tsc, kind):
    b = pat(148, kind)
    b[8:49] = [int(c) for c in trxmodel.AB_TSC[tsc]]
    return bytes(b)


def mk_sb(tsc, kind):
    b = pat(148, kind)
    b[42:106] = [int(c) for c in trxmodel.SB_TSC[tsc]]
    return bytes(b)


def rep_bursts():
    return [("NB3", mk_nb(3, "alt")), ("AB5", mk_ab(5, "zeros")), ("SB2", mk_sb(2, "ones")),
            ("E444", bytes(pat(444, "alt"))), ("FB", bytes(148)), ("NB0", mk_nb(0, "ones"))]


def full_bursts():
    out = []
    for kind in ("zeros", "ones", "alt"):
        for t in range(8):
            out.append(("NB%d/%s" % (t, kind), mk_nb(t, kind)))
            out.append(("AB%d/%s" % (t, kind), mk_ab(t, kind)))
        for t in range(4):
            out.append(("SB%d/%s" % (t, kind), mk_sb(t, kind)))
        out.append(("E444/%s" % kind, bytes(pat(444, kind))))
        out.append(("G148/%s" % kind, bytes(pat(148, kind))))
    for n in (148, 444):
        for i in range(n):
            b = [0] * n
            b[i] = 1
            out.append(("walk1/%d/%d" % (n, i), bytes(b)))
            b = [1] * n
            b[i] = 0
            out.append(("walk0/%d/%d" % (n, i), bytes(b)))
    return out


def generator_bursts():
    """the toolkit's own generator, its random payload bits replaced by enumerated patterns"""
    world.install()
    import rand_burst_gen
    import gsm_shared
    g = rand_burst_gen.RandBurstGen()
    out = []
    bad = []
    for ts in list(gsm_shared.TrainingSeqGMSK):
        for d in (0, 1, 2):
            if d == 2:
                world.chooser.reset([k & 1 for k in range(200)], default=0)
            else:
                world.chooser.reset((), default=d)
            fn = {"NORMAL": g.gen_nb, "ACCESS": g.gen_ab, "SYNC": g.gen_sb}[ts.bt.name]
            b = bytes(fn(tsc=ts))
            out.append(("gen/%s/%d" % (ts.name, d), b))
            # the planted sequence must be the specification's sequence for (burst type, TSC)
            tab, off = {"NORMAL": (trxmodel.NB_TSC, 61), "ACCESS": (trxmodel.AB_TSC, 8), "SYNC": (trxmodel.SB_TSC, 42)}[ts.bt.name]
            want = tab[ts.tsc]
            got = "".join(str(x) for x in b[off:off + len(want)])
            if len(b) != 148 or got != want:
                bad.append((ts.name, got, want, len(b)))
    world.chooser.reset()
    out.append(("gen/fb", bytes(g.gen_fb())))
    out.append(("gen/db", bytes(g.gen_db())))
    return out, bad


SND_SET = [("SETPOWER %d" % p, "SETTA %d" % ta) for p in (0, 10) for ta in (0, 1, 63, -1, 127)]
TOA_SET = ["FAKE_TOA %d %d" % (b, t) for b in (-3, 0, 300) for t in (0, 2)]
RSSI_SET = [None, "FAKE_RSSI -80 0", "FAKE_RSSI -80 3"]
CI_SET = ["FAKE_CI %d %d" % (b, t) for b in (90, -10) for t in (0, 5)]
ATTS = [0, 1, 60]


def run_config(arg):
    (snd, toa, rssi, ci, vs, vr, default, mute), bursts, atts = arg[:3]
    late_fmt = arg[3] if len(arg) > 3 else 0
    defs = trxmodel.std_config()
    W = AppWorld(defs, choice_default=default)
    viol = []
    cov = {"evaluations": 0, "delivered": 0, "tsc_judged": 0, "tsc_ambiguous_or_absent": 0, "suppressed_out_of_range": 0}
    cmds = list(PREFIX) + [(SND, c) for c in snd] + [(RCV, toa)]
    if rssi:
        cmds.append((RCV, rssi))
    cmds += [(RCV, ci)]
    fmt = [(SND, "SETFORMAT %d" % vs), (RCV, "SETFORMAT %d" % vr)]
    if mute:
        cmds.append((SND if mute == 1 else RCV, "RFMUTE 1"))
    if late_fmt == 0:
        cmds += fmt + [(RCV, "POWERON"), (SND, "POWERON")]
    elif late_fmt == 1:
        # header version (re)negotiated while running: first the other version, power on, then the final one
        cmds += [(SND, "SETFORMAT %d" % (1 - vs)), (RCV, "SETFORMAT %d" % (1 - vr)), (RCV, "POWERON"), (SND, "POWERON")] + fmt
    else:
        # negotiated, power cycled, simulation parameters changed while running
        cmds += fmt + [(RCV, "POWERON"), (SND, "POWERON"), (RCV, "POWEROFF"), (SND, "POWEROFF"), (RCV, "POWERON"), (SND, "POWERON"),
                       (SND, snd[0]), (SND, snd[1]), (RCV, toa), (RCV, ci),
                       (RCV, "FAKE_TOA 7"), (RCV, "FAKE_CI -3"), (RCV, "FAKE_RSSI 2"), (RCV, "FAKE_TOA -2")]
    cfgname = "v%dv%d%s" % (vs, vr, "" if not late_fmt else "/order%d" % late_fmt)
    for i, c in cmds:
        v = W.ctrl(i, c)
        if v:
            return {"cov": cov, "viol": [("C10:setup:%s" % v[0][0], {"cfg": arg[0], "burst": None}, "%s: %s" % (c, v[0][1]))]}
    fn = 100
    outcomes = set()
    for (name, bits), att in itertools.product(bursts, atts):
        fn += 1
        v = W.data(SND, trxd.enc_tx(vs, fn % 8, fn, att, bits))
        v += W.handler_tick(fn)
        cov["evaluations"] += 1
        out = W.last_out
        if out:
            cov["delivered"] += 1
            d = trxd.dec_rx(out[0][3])
            if d:
                outcomes.add((d["rssi"], d["toa"], d.get("ci"), d.get("mod"), d.get("tsc"), len(d["usbits"])))
        else:
            cov["suppressed_out_of_range"] += 1
        if len(bits) == 148:
            ts = trxmodel.training_seq(bits)
            cov["tsc_judged" if ts[0] == "one" else "tsc_ambiguous_or_absent"] += 1
        if v:
            kind = name.split("/")[0].rstrip("0123456789")
            viol.append(("C10:%s:%s:%s" % (cfgname, kind, v[0][0]),
                         {"cfg": list(arg[0]), "burst": name, "bits": bits.hex(), "att": att, "fn": fn, "order": late_fmt},
                         "cfg %r burst %s att %d: %s" % (arg[0], name, att, v[0][1])))
            if len(viol) > 5:
                break
    cov["outcomes"] = outcomes
    return {"cov": cov, "viol": viol}


def run(ctx):
    reps = rep_bursts()
    gen, bad = generator_bursts()
    for name, got, want, n in bad:
        ctx.violation("C10:generator:%s" % name, {"gen": name},
                      "burst generator plants %s (len %d) for %s, specification sequence is %s" % (got, n, name, want))
    items = []
    versions = [(0, 0), (0, 1), (1, 0), (1, 1)]
    toas = TOA_SET if not ctx.quick else TOA_SET[:1] + TOA_SET[3:]
    for snd, toa, rssi, ci, (vs, vr), d in itertools.product(SND_SET, toas, RSSI_SET, CI_SET, versions, (0, 1)):
        items.append(((snd, toa, rssi, ci, vs, vr, d, 0), reps, ATTS))
    # the same settings applied in other orders relative to POWERON (re-negotiation while running, power cycle)
    # (ToA settings here: a fixed value and two windows - the relative FAKE_TOA / FAKE_CI / FAKE_RSSI forms that follow in
    # order 2 must move a window that was configured with a non-zero threshold)
    for snd, toa, (vs, vr), d, order in itertools.product(SND_SET[::3], [TOA_SET[0], TOA_SET[3], TOA_SET[5]], versions, (0, 1), (1, 2)):
        items.append(((snd, toa, RSSI_SET[2], CI_SET[1], vs, vr, d, 0), reps, ATTS[:2], order))
    nprod = len(items)
    full = full_bursts() + gen
    if ctx.quick:
        # every burst at default settings for the v1 recipient (carries all fields) and v0 recipient; thorough: all pairs
        fullv = [(0, 1), (1, 0)]
    else:
        fullv = versions
    base = (SND_SET[0], "FAKE_TOA 0 0", None, "FAKE_CI 90 0")
    for (vs, vr) in fullv:
        chunk = 120
        for k in range(0, len(full), chunk):
            items.append((base + (vs, vr, 0, 0), full[k:k + chunk], [0]))
    for r in ctx.pmap(run_config, items, chunksize=4):
        ctx.merge(r)
    from vlib.props import c03_sched
    c03_sched.run(ctx, family="metadata")
    c = ctx.cov
    c["configurations"] = nprod
    c["bursts_in_full_set"] = len(full)
    c["generator_outputs_checked"] = len(gen)
    c["distinct_nontrivial"] = len(c["outcomes"]) if isinstance(c.get("outcomes"), set) else c.get("outcomes", 0)
    c["distinct_outcomes"] = c.pop("outcomes")
    c["rule"] = ("complete product SETPOWER{0,10} x SETTA{0,1,63,-1,127} x FAKE_TOA x FAKE_RSSI{off,-80/0,-80/3} x FAKE_CI x versions(0/1)^2 x "
                 "window end {low,high}, each with %d representative bursts x attenuation {0,1,60}; the full burst set (%d bursts incl. the "
                 "generator's outputs and walking bits) at default settings for %d version pair(s); distinct_nontrivial = distinct decoded "
                 "(rssi, toa, ci, modulation, tsc, length) tuples observed" % (len(reps), len(full), len(fullv)))
    c["exhaustive"] = True
    ctx.sample({"cfg": items[0][0], "bursts": [n for n, _ in reps], "att": ATTS})
    ctx.assumptions += ["random windows explored at both ends (choice points), not every interior value",
                        "TSC judged only when exactly one known training sequence is present at its burst type's position",
                        "training sequence constants carried by the harness (cross-checked once with trxcon's tables)"]


def replay(ctx, case):
    if case.get("sched"):
        from vlib.props import c03_sched
        return c03_sched.replay(ctx, case)
    if "gen" in case:
        gen, bad = generator_bursts()
        for name, got, want, n in bad:
            if name == case["gen"]:
                ctx.violation("C10:generator:%s" % name, case, "generator plants %s, specification %s" % (got, want))
        return
    cfg = tuple(tuple(x) if isinstance(x, list) else x for x in case["cfg"])
    bits = bytes.fromhex(case["bits"]) if case.get("bits") is not None else b""
    # re-run the whole configuration up to the burst (frame numbers are part of the case)
    arg = (cfg, [(case["burst"], bits)], [case["att"]], case.get("order", 0))
    r = run_config(arg)
    for v in r["viol"]:
        ctx.violation(v[0], case, v[2])

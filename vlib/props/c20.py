"""C20 - Mobile Allocation decoding selects exactly the flagged cell channels.

Seam: `gsm48_decode_mobile_alloc` of layer23 src/common/sysinfo.c.  sysinfo.c cannot be
compiled as a whole in the sandbox (libosmo-gprs / modern libosmocore are absent), so the
definition of the function is cut out of the CURRENT $VERIF_REPO tree at run time with a
comment/string-aware brace matcher, together with the FREQ_TYPE_* macros (layer23 sysinfo.h)
and struct gsm_sysinfo_freq (the tree's libosmocore osmocom/gsm/gsm48_ie.h), and compiled
with a prelude that only turns LOGP into a no-op (csrc/drv_c20.c).  Slice not found ->
HarnessError (exit 2), never a verdict.

Space (bounded-exhaustive, enumerated completely inside the driver):
  cell allocations: every subset of {0,1,2,511,512,1022,1023} and the ranges 1..m for
      m in {0,1,7,8,9,15,16,17,63,64,65,124}, each with and without ARFCN 0
      (thorough: the same range sizes also starting at 500 and ending at 1023);
  bitmap length 0..9; ALL bitmaps for len <= 2; for len 3..9 every single bit, every
      prefix/suffix of ones, all-ones, both alternating patterns (thorough: every pair and,
      up to len 8, every triple of bits; plus ALL 2^24 three-octet bitmaps for the allocations
      3..m+2 with m in {1,8,9,16,17,23,24,25}, with and without ARFCN 0);
  si4 in {0,1}; two initial mask backgrounds (clean / other flag bits incl. stale HOPP set):
      all four (si4, background) combinations, except for the 65536 two-octet bitmaps and the
      2^24 three-octet bitmaps, which run with (si4=0, clean) and (si4=1, noisy).

A death of the driver (ASan/UBSan/signal) is a violation with the concrete input: the driver keeps
the case it is executing and its counters in a MAP_SHARED progress file; the Python side records
the case, restarts the driver at the next index (at most 40 deaths per allocation) and re-executes
the dying process once with symbolization for the message.  replay() of such a case re-executes
that same driver process (same enumeration and start index, hence same heap layout); the stack
area the function uses is pre-filled with 0xA5 so that reads of uninitialised locals are
deterministic as well.

Oracle: reference decoder written from 3GPP TS 44.018 10.5.2.21 (bit i <-> i-th channel of
the cell allocation ordered ascending with ARFCN 0 last; LSB of the LAST octet is bit 0; a
set bit beyond the allocation ends decoding): exact list, <= 64 entries, -EINVAL for
len > 8 with nothing written, HOPP flag side effect for si4, and no sanitizer report
(ASan + UBSan without vla-bound; freq[1024], ma[len], hopping[64], hopp_len are separate
exact-size heap blocks).  The driver's C reference is cross-checked against an independent
Python formulation (big-integer reading of the bitmap) on every dumped case.
"""
import json
import os
import re
import struct

from vlib import cbuild
from vlib.errors import HarnessError

LEVEL = "exploration"

SYSINFO_C = "src/common/sysinfo.c"
SYSINFO_H = "include/osmocom/bb/common/sysinfo.h"
GSM48_IE_H = "include/osmocom/gsm/gsm48_ie.h"
FUNC = "gsm48_decode_mobile_alloc"

EINVAL = 22

KNAMES = ["evaluations", "distinct_nontrivial", "expect_einval", "empty_bitmap",
          "stopped_by_bit_beyond_allocation", "lists_of_64", "lists_with_arfcn0", "max_list_len",
          "driver_violations", "dumped_for_python_reference", "channels_decoded_total", "cases_len0",
          "nonempty_lists"]
PROG_FMT = "<QQQ%dQ4B12s" % len(KNAMES)

# enumeration runs do not symbolize sanitizer reports (0.15 s per death); the first case of every
# violation class is re-run once in `single` mode with symbolization for the message
ENUM_ENV = {"ASAN_OPTIONS": "detect_leaks=0:abort_on_error=0:exitcode=99:symbolize=0",
            "UBSAN_OPTIONS": "print_stacktrace=0:halt_on_error=1:exitcode=98:symbolize=0"}
_exe = None
_bdir = None
_tier = None


# ------------------------------------------------------------------------------------------------
# slicing
# ------------------------------------------------------------------------------------------------
def code_mask(src):
    """mask[i] is True where src[i] is code (not inside a comment, string or char literal)."""
    n = len(src)
    mask = [True] * n
    i = 0
    while i < n:
        c = src[i]
        if c == "/" and i + 1 < n and src[i + 1] == "*":
            j = src.find("*/", i + 2)
            j = n if j < 0 else j + 2
            for k in range(i, j):
                mask[k] = False
            i = j
        elif c == "/" and i + 1 < n and src[i + 1] == "/":
            j = i
            while j < n and src[j] != "\n":
                if src[j] == "\\" and j + 1 < n and src[j + 1] == "\n":
                    j += 1
                j += 1
            for k in range(i, j):
                mask[k] = False
            i = j
        elif c == '"' or c == "'":
            j = i + 1
            while j < n and src[j] != c:
                if src[j] == "\\":
                    j += 1
                if j < n and src[j] == "\n":
                    break
                j += 1
            j = min(n, j + 1)
            for k in range(i + 1, j - 1):
                mask[k] = False
            i = j
        else:
            i += 1
    return mask


def _match(src, mask, pos, open_c, close_c):
    """pos points at open_c (code); returns the index of the matching close_c."""
    depth = 0
    i = pos
    n = len(src)
    while i < n:
        if mask[i]:
            if src[i] == open_c:
                depth += 1
            elif src[i] == close_c:
                depth -= 1
                if depth == 0:
                    return i
        i += 1
    return -1


def _skip_ws(src, mask, i):
    n = len(src)
    while i < n and (not mask[i] or src[i].isspace()):
        i += 1
    return i


def slice_function(src, name):
    """Text of the *definition* of function `name` (storage class / return type included)."""
    mask = code_mask(src)
    for m in re.finditer(r"\b%s\b" % re.escape(name), src):
        if not mask[m.start()]:
            continue
        i = _skip_ws(src, mask, m.end())
        if i >= len(src) or src[i] != "(":
            continue
        close = _match(src, mask, i, "(", ")")
        if close < 0:
            continue
        j = _skip_ws(src, mask, close + 1)
        if j >= len(src) or src[j] != "{":
            continue                      # a call or a prototype
        end = _match(src, mask, j, "{", "}")
        if end < 0:
            continue
        # must be at file scope: brace depth 0 in front of the name
        depth = 0
        for k in range(m.start()):
            if mask[k]:
                if src[k] == "{":
                    depth += 1
                elif src[k] == "}":
                    depth -= 1
        if depth != 0:
            continue
        # walk back to the end of the previous top-level construct
        k = m.start() - 1
        while k >= 0:
            if mask[k] and src[k] in ";}":
                break
            if mask[k] and src[k] == "\n":
                # a preprocessor line ends the walk as well
                ls = src.rfind("\n", 0, k) + 1
                if src[ls:k].lstrip().startswith("#"):
                    break
            k -= 1
        return src[k + 1:end + 1].strip("\n") + "\n"
    return None


def slice_macros(src, prefix):
    mask = code_mask(src)
    out = []
    pos = 0
    lines = src.split("\n")
    i = 0
    offs = []
    for ln in lines:
        offs.append(pos)
        pos += len(ln) + 1
    while i < len(lines):
        ln = lines[i]
        m = re.match(r"\s*#\s*define\s+(%s\w*)\b" % re.escape(prefix), ln)
        if m and mask[offs[i] + ln.index("#")]:
            text = ln
            while text.rstrip().endswith("\\") and i + 1 < len(lines):
                i += 1
                text += "\n" + lines[i]
            out.append((m.group(1), text))
        i += 1
    return out


def slice_struct(src, tag):
    mask = code_mask(src)
    for m in re.finditer(r"\bstruct\s+%s\b" % re.escape(tag), src):
        if not mask[m.start()]:
            continue
        j = _skip_ws(src, mask, m.end())
        if j >= len(src) or src[j] != "{":
            continue
        end = _match(src, mask, j, "{", "}")
        if end < 0:
            continue
        semi = end
        while semi < len(src) and not (mask[semi] and src[semi] == ";"):
            semi += 1
        if semi >= len(src):
            continue
        return src[m.start():semi + 1] + "\n"
    return None


def make_slice():
    def rd(path):
        try:
            with open(path, encoding="utf-8", errors="replace") as f:
                return f.read()
        except OSError as e:
            raise HarnessError("C20 slice: cannot read %s: %s" % (path, e))
    c_path = os.path.join(cbuild.L23, SYSINFO_C)
    h_path = os.path.join(cbuild.L23, SYSINFO_H)
    ie_path = os.path.join(cbuild.LIBOSMO, GSM48_IE_H)
    fn = slice_function(rd(c_path), FUNC)
    if not fn:
        raise HarnessError("C20 slice: definition of %s not found in %s" % (FUNC, c_path))
    macros = slice_macros(rd(h_path), "FREQ_TYPE_")
    names = [n for n, _ in macros]
    if "FREQ_TYPE_SERV" not in names or "FREQ_TYPE_HOPP" not in names:
        raise HarnessError("C20 slice: FREQ_TYPE_SERV / FREQ_TYPE_HOPP not found in %s" % h_path)
    st = slice_struct(rd(ie_path), "gsm_sysinfo_freq")
    if not st:
        raise HarnessError("C20 slice: struct gsm_sysinfo_freq not found in %s" % ie_path)
    text = ("/* GENERATED from %s - do not keep */\n" % cbuild.REPO
            + "/* --- %s --- */\n" % h_path + "\n".join(t for _, t in macros) + "\n"
            + "/* --- %s --- */\n" % ie_path + st
            + "/* --- %s --- */\n" % c_path + fn)
    return text


def build(bdir):
    with open(os.path.join(bdir, "c20_slice.inc"), "w") as f:
        f.write(make_slice())
    return cbuild.compile(bdir, "drv_c20", [os.path.join(cbuild.CSRC, "drv_c20.c")],
                          ["-I", bdir, "-fno-sanitize=vla-bound"])


# ------------------------------------------------------------------------------------------------
# the space
# ------------------------------------------------------------------------------------------------
SPECIAL = (0, 1, 2, 511, 512, 1022, 1023)
RANGE_SIZES = (0, 1, 7, 8, 9, 15, 16, 17, 63, 64, 65, 124)


def cell_allocations(quick):
    seen, out = set(), []

    def add(s, tag):
        t = tuple(sorted(set(s)))
        if t not in seen:
            seen.add(t)
            out.append((t, tag))
    for bits in range(1 << len(SPECIAL)):
        add([a for k, a in enumerate(SPECIAL) if bits & (1 << k)], "subset")
    for m in RANGE_SIZES:
        for st in ([1] if quick else [1, 500, 1024 - m]):
            if st < 1 or st + m > 1024:
                continue
            r = list(range(st, st + m))
            add(r, "range")
            add(r + [0], "range")
    return out


def structural_bitmaps(length, quick):
    """(dumped, others): byte strings of `length` octets; bit i of the IE = LSB-first from the last octet."""
    nb = 8 * length

    def frm(v):
        return v.to_bytes(length, "big")
    dumped, seen = [], set()

    def add(lst, v):
        b = frm(v)
        if b not in seen:
            seen.add(b)
            lst.append(b)
    for i in range(nb):
        add(dumped, 1 << i)                      # every single bit
    for k in range(nb + 1):
        add(dumped, (1 << k) - 1)                # prefix of ones (low channels), incl. empty and all-ones
        add(dumped, ((1 << nb) - 1) ^ ((1 << k) - 1))   # suffix of ones
    alt = int.from_bytes(b"\x55" * length, "big")
    add(dumped, alt)
    add(dumped, alt << 1 & ((1 << nb) - 1))
    others = []
    if not quick:
        for i in range(nb):
            for j in range(i + 1, nb):
                add(others, (1 << i) | (1 << j))
        if length <= 8:
            for i in range(nb):
                for j in range(i + 1, nb):
                    for k in range(j + 1, nb):
                        add(others, (1 << i) | (1 << j) | (1 << k))
    return dumped, others


FULL3_SIZES = (1, 8, 9, 16, 17, 23, 24, 25)


def write_specs(bdir, quick):
    """-> (items, nbm, cas): items = list of (spec_path, ca_index, allocation)"""
    cas = cell_allocations(quick)
    main = os.path.join(bdir, "spec_main.txt")
    nbm = {"all_main": 0, "all_main_cases": 0, "structural": 0, "full3_units": 0}
    with open(main, "w") as f:
        for ca, _ in cas:
            f.write("C %d %s\n" % (len(ca), " ".join(map(str, ca))))
        for length in (0, 1, 2):
            # all four (si4, background) variants for len 0/1; for the 65536 two-octet bitmaps the
            # variants (si4=0, clean) and (si4=1, noisy) - both si4 values, both backgrounds
            f.write("S %d\n" % (15 if length < 2 else 9))
            f.write("A %d\n" % length)
            nbm["all_main"] += 1 << (8 * length)
            nbm["all_main_cases"] += (1 << (8 * length)) * (4 if length < 2 else 2)
        f.write("S 15\n")
        for length in range(3, 10):
            d, o = structural_bitmaps(length, quick)
            for b in d:
                f.write("B %d %s\n" % (length, b.hex()))
            for b in o:
                f.write("b %d %s\n" % (length, b.hex()))
            nbm["structural"] += len(d) + len(o)
    items = [(main, i, ca) for i, (ca, _) in enumerate(cas)]
    if not quick:
        # ALL 3-octet bitmaps for allocations around the 8/16/24-bit boundaries, (si4, bg) in {(0,0), (1,1)}
        full3 = os.path.join(bdir, "spec_full3.txt")
        sel = []
        for m in FULL3_SIZES:
            # ranges starting at ARFCN 3: none of them is in the main list, so every (allocation, bitmap)
            # pair of the run stays distinct
            sel.append(tuple(range(3, 3 + m)))
            sel.append(tuple([0] + list(range(3, 3 + m))))
        if set(sel) & set(ca for ca, _ in cas):
            raise HarnessError("C20: full3 allocations overlap the main list")
        with open(full3, "w") as f:
            for ca in sel:
                f.write("C %d %s\n" % (len(ca), " ".join(map(str, ca))))
            f.write("S 9\n")
            f.write("A 3\n")
        items = [(full3, i, ca) for i, ca in enumerate(sel)] + items      # big units first
        nbm["full3_units"] = len(sel)
    return items, nbm, cas


# ------------------------------------------------------------------------------------------------
# Python reference (independent formulation: the bitmap is one big-endian integer)
# ------------------------------------------------------------------------------------------------
def ref_decode(ca, ma):
    """-> (rc, list or None)"""
    if len(ma) > 8:
        return -EINVAL, None
    order = sorted(a for a in set(ca) if a != 0) + ([0] if 0 in ca else [])
    v = int.from_bytes(ma, "big") if ma else 0
    out = []
    i = 0
    while v >> i:
        if (v >> i) & 1:
            if i >= len(order):
                break
            out.append(order[i])
        i += 1
    return 0, out


def _kind_from_death(rc, err):
    m = re.search(r"ERROR: AddressSanitizer: ([A-Za-z0-9_-]+)", err)
    if m:
        return "asan-" + m.group(1)
    m = re.search(r"runtime error: ([^\n]*)", err)
    if m or rc == 98:
        return "ubsan"
    if rc < 0:
        return "signal-%d" % (-rc)
    return "died-rc%d" % rc


def _asan_summary(err):
    """Deterministic digest of a sanitizer report: no addresses, pids or build paths."""
    out = []
    for l in err.splitlines():
        l = l.strip()
        m = re.match(r"==\d+==ERROR: AddressSanitizer: (\S+)", l)
        if m:
            out.append("AddressSanitizer: " + m.group(1))
            continue
        m = re.match(r"((?:READ|WRITE) of size \d+)", l)
        if m:
            out.append(m.group(1))
            continue
        m = re.match(r"#([0-2]) 0x[0-9a-f]+ in (\S+) (\S+)", l)
        if m:
            out.append("#%s %s %s" % (m.group(1), m.group(2), os.path.basename(m.group(3))))
            continue
        m = re.search(r"([^/\s]+:\d+):\d+: runtime error: (.*)", l)
        if m:
            out.append("UBSan %s: %s" % (m.group(1), m.group(2)))
    return " | ".join(out[:6])[:600]


def _read_progress(path):
    """-> dict or None: the case the driver was executing when it died, and its counters so far"""
    try:
        with open(path, "rb") as f:
            raw = f.read(struct.calcsize(PROG_FMT))
        fields = struct.unpack(PROG_FMT, raw)
    except (OSError, struct.error):
        return None
    n = len(KNAMES)
    if fields[0] != 0xC20C20C20:
        return None
    clen = fields[3 + n]
    return {"valid": fields[1], "idx": fields[2], "cnt": fields[3:3 + n], "len": clen,
            "si4": fields[4 + n], "bg": fields[5 + n], "ma": fields[-1][:clen]}


def _rerun_death(exe, bdir, spec, case):
    """Re-execute the driver process that died (same spec, allocation and start index - hence the same
    heap layout and call history) with symbolization.  -> (kind, message) or (None, why)"""
    prog = os.path.join(bdir, "prog.rerun.%d" % os.getpid())
    rc, out, err = cbuild.run(exe, ["enum", spec, case["ca_index"], case["start"], prog])
    err = err.decode(errors="replace")
    pr = _read_progress(prog)
    try:
        os.unlink(prog)
    except OSError:
        pass
    if rc in (0, 1) and any(l.startswith("{") for l in out.decode(errors="replace").splitlines()):
        return None, "driver survived"
    if pr is None or not pr["valid"] or pr["idx"] != case["idx"]:
        return None, "driver died elsewhere (rc=%s, progress=%r)" % (rc, pr)
    kind = _kind_from_death(rc, err)
    return kind, ("cell allocation %s, bitmap %s (len %d), si4=%s: driver killed (rc=%d) inside %s: %s"
                  % (_short(case["ca"]), case["ma"], case["len"], case["si4"], rc, FUNC, _asan_summary(err)))


def _parse_v(line):
    parts = line.split()
    kind = parts[1]
    kv = {}
    for p in parts[2:]:
        if "=" in p:
            k, v = p.split("=", 1)
            kv.setdefault(k, v)
    return kind, kv


def _check_r(line, ca, res):
    """Cross-check one dumped result of the implementation, and the driver's verdict on it, against the
    Python reference.  -> (consistent, info)"""
    p = line.split()
    idx, length, mah, si4, bg, rc, n, lst = int(p[1]), int(p[2]), p[3], int(p[4]), int(p[5]), int(p[6]), int(p[7]), p[8]
    hoppsum, othersum, touched, flagged = int(p[9]), int(p[10]), int(p[11]), int(p[12])
    ma = b"" if mah == "-" else bytes.fromhex(mah)
    wrc, want = ref_decode(ca, ma)
    got = [] if lst == "-" else [int(x) for x in lst.split(",")]
    ok = (rc == wrc) and (wrc != 0 or (n == len(want) and got == want))
    if ok and wrc != 0:
        ok = (n == 0xEE and not touched)        # rejected: hopp_len sentinel, hopping[] and masks untouched
    if ok and wrc == 0:
        if othersum != 0:
            ok = False                  # a bit other than HOPP changed
        if si4 and hoppsum != sum(a + 1 for a in want):
            ok = False                  # HOPP not exactly on the decoded channels
        if not si4:
            ok = ok and hoppsum == _bg_hoppsum(bg)
    res["pyref_checked"] += 1
    return ok == (not flagged), (idx, length, mah, si4, bg, rc, got, wrc, want, flagged)


_bgsum = {}


def _bg_hoppsum(bg):
    """sum(i+1) over the ARFCNs whose initial mask has HOPP set (background 1 = hash noise, see drv_c20.c)"""
    if bg not in _bgsum:
        hopp, serv = _freq_type("FREQ_TYPE_HOPP"), _freq_type("FREQ_TYPE_SERV")
        t = 0
        if bg:
            for i in range(1024):
                noise = (((i * 2654435761) & 0xffffffff) >> 13) & 0xff & ~serv
                if noise & hopp:
                    t += i + 1
        _bgsum[bg] = t
    return _bgsum[bg]


_ft = {}


def _freq_type(name):
    if not _ft:
        with open(os.path.join(cbuild.L23, SYSINFO_H), encoding="utf-8", errors="replace") as f:
            for n, text in slice_macros(f.read(), "FREQ_TYPE_"):
                # the value of the macro's replacement list as a constant expression (0x08, (1 << 3), 1 << 3, ...)
                expr = " ".join(text.split()[2:]).split("/*")[0].split("//")[0].strip()
                if expr and re.fullmatch(r"[0-9a-fA-FxX<>|&()+\s]+", expr):
                    try:
                        _ft[n] = int(eval(expr, {"__builtins__": {}}, {}))
                    except Exception:
                        pass
    if name not in _ft:
        raise HarnessError("C20: %s is not a plain integer macro in %s" % (name, SYSINFO_H))
    return _ft[name]


MAX_DEATHS_PER_UNIT = 40


def _unit(arg):
    """Run the driver over one cell allocation, restarting after every death."""
    spec, ca_index, ca = arg
    cov = {k: 0 for k in KNAMES}
    res = {"pyref_checked": 0}
    viol, samples = [], []
    crashes = 0
    aborted = 0
    pyref_disagree = []
    start = 0
    prog = os.path.join(_bdir, "prog.%s.%d.%d" % (os.path.basename(spec), ca_index, os.getpid()))
    while True:
        rc, out, err = cbuild.run(_exe, ["enum", spec, ca_index, start, prog], env=ENUM_ENV)
        out = out.decode(errors="replace")
        err = err.decode(errors="replace")
        js = None
        for line in out.splitlines():
            if line.startswith("V "):
                kind, kv = _parse_v(line)
                case = {"ca": list(ca), "len": int(kv["len"]), "ma": kv["ma"], "si4": int(kv["si4"]), "bg": int(kv["bg"])}
                viol.append(("C20:len=%s:%s" % (kv["len"], kind), case,
                             "cell allocation %s, bitmap %s (len %s), si4=%s: %s" % (_short(ca), kv["ma"], kv["len"], kv["si4"], line[2:])))
            elif line.startswith("R "):
                consistent, info = _check_r(line, ca, res)
                if not consistent:
                    pyref_disagree.append(info)
            elif line.startswith("{"):
                js = json.loads(line)
        if js is not None and rc in (0, 1):
            for k in KNAMES:
                if k == "max_list_len":
                    cov[k] = max(cov[k], js[k])
                else:
                    cov[k] += js[k]
            break
        # the driver died: the progress file tells the case and the counts so far
        pr = _read_progress(prog)
        if pr is None or not pr["valid"]:
            raise HarnessError("C20 driver died outside a case (rc=%s, spec=%s ca=%d start=%d, progress=%r):\n%s"
                               % (rc, spec, ca_index, start, pr, err[-2500:]))
        idx, clen = pr["idx"], pr["len"]
        for i, k in enumerate(KNAMES):
            if k == "max_list_len":
                cov[k] = max(cov[k], pr["cnt"][i])
            else:
                cov[k] += pr["cnt"][i]
        crashes += 1
        kind = _kind_from_death(rc, err)
        case = {"ca": list(ca), "len": clen, "ma": pr["ma"].hex() if clen else "-", "si4": pr["si4"], "bg": pr["bg"],
                "mode": "enum", "tier": _tier, "spec": os.path.basename(spec), "ca_index": ca_index,
                "start": start, "idx": idx}
        viol.append(("C20:len=%d:%s" % (clen, kind), case, None))      # message made by _rerun_death()
        start = idx + 1
        if crashes >= MAX_DEATHS_PER_UNIT:
            aborted = 1         # every death is already a recorded violation; do not grind through thousands
            break
    try:
        os.unlink(prog)
    except OSError:
        pass
    for info in pyref_disagree:
        raise HarnessError("C20: the driver's oracle and the Python reference disagree "
                           "(ca=%s idx=%d len=%d ma=%s si4=%d bg=%d rc=%d got=%s; python: rc=%d %s; driver flagged=%d)"
                           % ((_short(ca),) + info))
    cov["driver_deaths"] = crashes
    cov["units_aborted_after_%d_deaths" % MAX_DEATHS_PER_UNIT] = aborted
    cov["pyref_checked"] = res["pyref_checked"]
    if ca_index % 40 == 3:
        samples.append({"cell_allocation": _short(ca), "cases": cov["evaluations"], "deaths": crashes})
    return {"cov": cov, "viol": viol, "samples": samples}


def _short(ca):
    ca = list(ca)
    if len(ca) <= 10:
        return str(ca)
    return "[%s, ... %d more ..., %s]" % (", ".join(map(str, ca[:4])), len(ca) - 6, ", ".join(map(str, ca[-2:])))


def run(ctx):
    global _exe, _bdir, _tier
    b = cbuild.builddir("c20")
    try:
        _bdir = b
        _tier = ctx.tier
        _exe = build(b)
        items, nbm, cas = write_specs(b, ctx.quick)
        tot = {k: 0 for k in KNAMES}
        tot["driver_deaths"] = 0
        tot["pyref_checked"] = 0
        ab = "units_aborted_after_%d_deaths" % MAX_DEATHS_PER_UNIT
        tot[ab] = 0
        for r in ctx.pmap(_unit, items):
            for k, v in r["cov"].items():
                if k == "max_list_len":
                    tot[k] = max(tot[k], v)
                else:
                    tot[k] += v
            for key, case, msg in r["viol"]:
                if msg is None:
                    if key in ctx._vkeys:
                        ctx.n_violations += 1
                        continue
                    kind, msg = _rerun_death(_exe, b, os.path.join(b, case["spec"]), case)
                    if kind is None or "C20:len=%d:%s" % (case["len"], kind) != key:
                        raise HarnessError("C20: death of the driver (%s) on %r does not reproduce: %s" % (key, case, msg))
                ctx.violation(key, case, msg)
            ctx.merge({"samples": r["samples"]})
        c = ctx.cov
        c.update(tot)
        c["cell_allocations"] = len(cas)
        c["driver_units"] = len(items)
        c["bitmaps_exhaustive_per_allocation"] = nbm["all_main"]
        c["bitmaps_structural_per_allocation"] = nbm["structural"]
        c["allocations_with_all_3_octet_bitmaps"] = nbm["full3_units"]
        c["bitmap_lengths"] = 10
        planned = len(cas) * (nbm["all_main_cases"] + nbm["structural"] * 4) + nbm["full3_units"] * (1 << 24) * 2
        c["evaluations_planned"] = planned
        c["exhaustive"] = (tot["evaluations"] == planned)
        if tot["evaluations"] != planned and not tot[ab]:
            raise HarnessError("C20: %d cases executed, %d planned" % (tot["evaluations"], planned))
        c["rule"] = ("cases = (cell allocation) x (bitmap length 0..9) x (bitmap: all for len<=2, structural set for len 3..9"
                     + ("" if ctx.quick else ", pairs/triples, all 3-octet bitmaps for range allocations")
                     + ") x si4 x mask background, each executed once on the tree's function; a (allocation, bitmap) pair is "
                     "non-trivial when len <= 8, the allocation is non-empty and at least one bit is set (the decoder "
                     "must select a channel or stop at a bit beyond the allocation); pairs are distinct by construction")
        ctx.sample({"ca": [0, 1, 2], "ma": "05", "len": 1, "expected": [1, 0]})
        ctx.sample({"ca": [1, 2], "ma": "06", "len": 1, "expected": [2], "note": "bit 2 is beyond the allocation: decoding ends"})
        ctx.assumptions += [
            "function slice: only gsm48_decode_mobile_alloc is compiled (text cut out of the current sysinfo.c); its two call sites are not executed",
            "LOGP is a no-op; UBSan vla-bound is off (uint16_t f[len << 3] with len == 0 is a zero-length VLA, not a buffer access)",
            "x86-64 host build, gcc -O1 -fsanitize=address,undefined",
        ]
    finally:
        cbuild.cleanup(b)


def replay(ctx, case):
    b = cbuild.builddir("c20r")
    try:
        exe = build(b)
        ca = [int(x) for x in case["ca"]]
        length = int(case["len"])
        mah = case["ma"] if length else "-"
        if case.get("mode") == "enum":
            # a death: re-execute the very driver process (same enumeration, same start index)
            write_specs(b, case["tier"] == "quick")
            spec = os.path.join(b, os.path.basename(case["spec"]))
            if not os.path.exists(spec):
                raise HarnessError("C20 replay: unknown spec %r" % case["spec"])
            kind, msg = _rerun_death(exe, b, spec, case)
            if kind is not None:
                ctx.violation("C20:len=%d:%s" % (length, kind), case, msg)
            return
        rc, out, err = cbuild.run(exe, ["single", case["si4"], case["bg"], length, mah, len(ca)] + ca)
        out = out.decode(errors="replace")
        err = err.decode(errors="replace")
        done = False
        res = {"pyref_checked": 0}
        for line in out.splitlines():
            if line.startswith("V "):
                kind, kv = _parse_v(line)
                ctx.violation("C20:len=%s:%s" % (kv["len"], kind), case,
                              "cell allocation %s, bitmap %s (len %s), si4=%s: %s" % (_short(ca), kv["ma"], kv["len"], kv["si4"], line[2:]))
            elif line.startswith("R "):
                consistent, info = _check_r(line, ca, res)
                if not consistent:
                    raise HarnessError("C20 replay: driver oracle and Python reference disagree: %r" % (info,))
            elif line.startswith("{"):
                done = True
        if not done:
            ctx.violation("C20:len=%d:%s" % (length, _kind_from_death(rc, err)), case,
                          "cell allocation %s, bitmap %s (len %d), si4=%s: driver killed (rc=%d) inside %s: %s"
                          % (_short(ca), mah, length, case["si4"], rc, FUNC, _asan_summary(err)))
    finally:
        cbuild.cleanup(b)

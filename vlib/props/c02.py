"""C02 - virtual Um routing: bursts reach exactly the tuned, running peers.

Explicit-state BFS over configuration histories {tune(rx,tx), SETFH(variant),
POWERON, POWEROFF} addressed to each transceiver of the real Application; the
reachable set is exhausted.  In EVERY reached state EVERY running, tuned
transceiver transmits one burst for each frame number of a probe set (throw-away
copy of the state) and the set of datagrams on all L1-side DATA ports is
compared with the reference model (reference hopping generator of TS 45.002).
Header versions / mute flags do not influence who receives; the BFS is repeated
for several fixed assignments of them.
"""
from vlib import explore
from vlib.appworld import AppWorld
from vlib.ref import trxmodel

LEVEL = "model_checking"
F1, F2, F3 = 935000, 890000, 947000

TUNES = [(F1, F2), (F2, F1), (F1, F1)]
# (hsn, maio, [(rx,tx)...])
FHS = [
    (0, 0, [(F1, F2), (F2, F1)]),
    (5, 1, [(F1, F2), (F2, F1), (F3, F3)]),
    (5, 0, [(F2, F1), (F1, F2)]),
    (0, 1, [(F2, F1), (F1, F2), (F1, F1)]),
    (63, 2, [(F1, F2), (F2, F1), (F3, F1), (F1, F3), (F2, F2)]),
    (17, 0, [(F2, F1)]),
]
PROBE_FN_Q = [0, 1, 2, 3, 4, 5, 51, 52, 1325, 1326, 2715646, 2715647]
PROBE_FN_T = sorted(set(list(range(0, 12)) + [25, 26, 50, 51, 52, 102, 103, 1325, 1326, 1327, 84863, 84864, 2715646, 2715647]))


def fh_cmd(v):
    hsn, maio, ma = FHS[v]
    return "SETFH %d %d %s" % (hsn, maio, " ".join("%d %d" % p for p in ma))


class Spec:
    def __init__(self, name, extra, ntune, nfh, assign, tier, trim=(), fns=None, fhset=None, rxonly=()):
        self.name = "C02/" + name
        self.defs = trxmodel.std_config(extra)
        self.assign = assign        # list of (ver, muted) per transceiver
        self.fns = fns or (PROBE_FN_Q if tier == "quick" else PROBE_FN_T)
        self.alpha = []
        for i in range(len(self.defs)):
            small = i in trim
            self.alpha += [("on", i), ("off", i)]
            self.alpha += [("tune", i, k) for k in range(1 if small else ntune)]
            self.alpha += [("fh", i, k) for k in ((fhset or range(nfh))[:1] if small else (fhset or range(nfh)))]
            if i in rxonly:
                # only the receive frequency: a child switched on through its parent listens without ever
                # having been given a transmit frequency
                self.alpha.append(("rxtune", i, 0))

    def build(self):
        W = AppWorld(self.defs)
        for i, (ver, muted) in enumerate(self.assign):
            v = []
            if ver:
                v += W.ctrl(i, "SETFORMAT %d" % ver)
            if muted:
                v += W.ctrl(i, "RFMUTE 1")
            assert not v, v
        return W

    def events(self, W, hist):
        return self.alpha

    def step(self, W, ev):
        k = ev[0]
        if k == "on":
            return W.ctrl(ev[1], "POWERON")
        if k == "off":
            return W.ctrl(ev[1], "POWEROFF")
        if k == "tune":
            rx, tx = TUNES[ev[2]]
            return W.ctrl(ev[1], "RXTUNE %d" % rx) + W.ctrl(ev[1], "TXTUNE %d" % tx)
        if k == "rxtune":
            return W.ctrl(ev[1], "RXTUNE %d" % TUNES[ev[2]][0])
        if k == "fh":
            return W.ctrl(ev[1], fh_cmd(ev[2]))
        raise ValueError(ev)

    def canon(self, W):
        return W.canon()

    def probe(self, W, hist):
        W.nprobe = 0
        m = W.model
        vs = []
        deliveries = 0
        for i, t in enumerate(m.trx):
            if not t.running or not t.ready:
                continue
            for fn in self.fns:
                v = W.burst(i, fn, tn=(fn + i) % 8, pwr=i)
                if W.last_id is None:
                    v.append(("not-accepted", "running transceiver %s did not accept a burst per the reference (harness)" % t.d.name))
                v += W.handler_tick(fn)
                W.nprobe += 1
                deliveries += len(W.last_out)
                if v:
                    return [(c + "-probe", "sender %s fn=%d: %s" % (t.d.name, fn, msg)) for c, msg in v]
        # second phase: the same frames again after a POWEROFF / re-tune / POWERON cycle of every hopping
        # transceiver (whatever was remembered per frame number while hopping must be forgotten)
        cyc = [i for i, t in enumerate(m.trx) if t.running and t.fh is not None][:2]
        for i in cyc:
            for c in ("POWEROFF", "RXTUNE %d" % TUNES[i % 2][0], "TXTUNE %d" % TUNES[i % 2][1], "POWERON"):
                v = W.ctrl(i, c)
                if v:
                    return [(v[0][0] + "-probe", "power cycle of %s: %s" % (m.trx[i].d.name, v[0][1]))]
        if cyc:
            for i, t in enumerate(m.trx):
                if not t.running or not t.ready:
                    continue
                # first the very last frame number used before the cycle (anything remembered "for the
                # current frame" would still be keyed on it), then the first few again
                for fn in [self.fns[-1]] + list(self.fns[:5]):
                    v = W.burst(i, fn, tn=(fn + i) % 8, pwr=i)
                    v += W.handler_tick(fn)
                    W.nprobe += 1
                    deliveries += len(W.last_out)
                    if v:
                        return [(c + "-probe", "after power cycle of %s, sender %s fn=%d: %s"
                                 % ([m.trx[k].d.name for k in cyc], t.d.name, fn, msg)) for c, msg in v]
        # third phase: new hopping parameters while running, then the *same* frame number again (whatever a
        # transceiver remembers about "the current frame" must not outlive its hopping configuration)
        for i in [i for i, t in enumerate(m.trx) if t.running and t.ready][:2]:
            # (the last step also changes the number of channels from 3 to 5, i.e. the width of the T' mask)
            for k, fhv in enumerate((0, 2, 1, 4, "refused")):
                # (last: a SETFH that is refused - HSN 64 - leaves the configuration in force untouched)
                v = W.ctrl(i, fh_cmd(fhv) if fhv != "refused" else "SETFH 64 0 %d %d %d %d" % (F1, F2, F2, F1))
                if v:
                    return [(v[0][0] + "-probe", "re-SETFH of %s: %s" % (m.trx[i].d.name, v[0][1]))]
                for j, t in enumerate(m.trx):
                    if not t.running or not t.ready:
                        continue
                    # (the frame order alternates, so that the first frame after a SETFH is the last one before it)
                    fns = (self.fns[-1], self.fns[1]) if k % 2 == 0 else (self.fns[1], self.fns[-1])
                    if k == 3:
                        fns = fns + tuple(self.fns[2:8])
                    for fn in fns:
                        v = W.burst(j, fn, tn=(fn + j) % 8, pwr=j)
                        v += W.handler_tick(fn)
                        W.nprobe += 1
                        deliveries += len(W.last_out)
                        if v:
                            return [(c + "-probe", "after re-SETFH #%d (%s) of %s without power cycle, sender %s fn=%d again: %s"
                                     % (k + 1, fh_cmd(fhv) if fhv != "refused" else "SETFH 64 ... (refused)", m.trx[i].d.name, t.d.name, fn, msg)) for c, msg in v]
        W.outcome = deliveries
        return vs


def specs(tier):
    out = []
    child = [("C1", 5700, 1)]
    if tier == "quick":
        out.append(Spec("3trx/v0", child, 2, 2, [(0, 0)] * 3, tier))
        out.append(Spec("3trx/mixed", child, 2, 2, [(1, 0), (0, 0), (1, 1)], tier, trim=(2,)))
        out.append(Spec("3trx/first-rx-muted", child, 1, 1, [(0, 1), (0, 0), (0, 0)], tier, rxonly=(2,)))
        out.append(Spec("2trx/single-channel-ma", [], 2, 2, [(0, 0), (0, 0)], tier, fhset=(5, 0)))
    else:
        out.append(Spec("2trx/single-channel-ma", [], 3, 3, [(0, 0), (1, 0)], tier, fhset=(5, 0, 1)))
        out.append(Spec("3trx/first-rx-muted", child, 2, 2, [(0, 1), (0, 0), (0, 0)], tier, rxonly=(2,)))
        out.append(Spec("3trx/first-rx-muted-v1", child, 1, 2, [(1, 1), (1, 0), (1, 0)], tier))
        out.append(Spec("3trx/v0", child, 2, 4, [(0, 0)] * 3, tier))
        out.append(Spec("3trx/v1", child, 2, 2, [(1, 0)] * 3, tier))
        out.append(Spec("3trx/mixed", child, 2, 2, [(1, 0), (0, 0), (1, 1)], tier, trim=(2,)))
        out.append(Spec("4trx/extra", child + [("X", 7700, 0)], 2, 2, [(0, 0), (1, 0), (0, 0), (1, 0)], tier, trim=(2, 3)))
        out.append(Spec("5trx/extra+mschild", child + [("X", 7700, 0), ("M1", 6700, 1)], 1, 1,
                        [(0, 0), (1, 0), (0, 0), (1, 0), (0, 0)], tier, trim=(0, 1, 2, 3, 4), fns=PROBE_FN_Q))
        out.append(Spec("2trx/allfh", [], 3, 6, [(0, 0), (1, 0)], tier))
    return out


def run(ctx):
    for spec in specs(ctx.tier):
        explore.bfs(ctx, spec, max_depth=60, label=spec.name[4:])
    from vlib.props import c03_sched
    c03_sched.run(ctx, family="routing")
    c = ctx.cov
    c["exhaustive"] = all(r["frontier_exhausted"] for r in c["runs"])
    c["probe_bursts"] = sum(r["probes"] for r in c["runs"])
    c["evaluations"] = c["transitions"] + c["probe_bursts"]
    c["distinct_nontrivial"] = c["states"]
    ctx.assumptions += ["clock handler called directly with the probe burst's frame number",
                        "transceivers running without any tuning (children switched on through their parent) are not judged",
                        "default attenuation so that RSSI/ToA stay in range"]


def replay(ctx, case):
    if case.get("sched"):
        from vlib.props import c03_sched
        return c03_sched.replay(ctx, case)
    name = case["spec"][4:]
    spec = None
    for tier in ("quick", "thorough"):
        for s in specs(tier):
            if s.name == case["spec"] and (spec is None or tier == ctx.tier):
                spec = s
    W = spec.build()
    hist = [tuple(e) for e in case["hist"]]
    for k, ev in enumerate(hist):
        v = spec.step(W, ev)
        if v and k == len(hist) - 1 and not case.get("probe"):
            for c, m in v:
                ctx.violation("%s:%s_%s" % (ctx.prop, name, c), case, m)
    if case.get("probe"):
        for c, m in spec.probe(W, hist):
            ctx.violation("%s:%s_%s" % (ctx.prop, name, c), case, m)

"""C14, trxcon leg: no datagram arriving on trxcon's control or data socket makes its
transceiver interface crash or touch memory out of bounds.

The tree's src/host/trxcon/src/trx_if.c is compiled unmodified (ASan + UBSan) behind
csrc/drv_trxcon.c.  Exhaustive fault enumeration: for every command type trxcon
can emit, the command is issued on a fresh trx instance and every entry of a
response mutation catalogue (every truncation of the valid reply, header octets ->
{00,7F,80,FF}, verb only, no status, non-numeric / negative / huge status, MEASURE
without results, over-long, empty, foreign verbs, reply without a pending command,
duplicate reply) is fed to the real trx_ctrl_read_cb, followed by a valid reply, a
timer expiry and a state query; every datagram length 0..520 with three fill
patterns, all version nibbles, frame numbers beyond the hyperframe and header
octet faults go to the real trx_data_rx_cb.  Oracle: the process survives, no
sanitizer report; the interface either continues or terminates cleanly.
"""
import os

from vlib import cbuild
from vlib import trxcon_drv

OCT = [0x00, 0x7f, 0x80, 0xff]
CMDS = ["RESET", "POWERON", "POWEROFF", "MEASURE 1", "SETFREQ_H0 1", "SETFREQ_H1 5 1 3 1 2 3", "SETSLOT 1 TCH_F", "SETTA 3"]


def valid_reply(cmd):
    """cmd: bytes 'CMD VERB args\\0' -> the reply a transceiver would send"""
    body = cmd.rstrip(b"\0")
    toks = body.split(b" ")
    verb, args = toks[1], toks[2:]
    r = b"RSP " + verb + b" 0"
    if args:
        r += b" " + b" ".join(args)
    if verb == b"MEASURE":
        r += b" -60"
    return r + b"\0", verb


def rsp_mutants(reply, verb):
    out = []
    for n in range(len(reply)):
        out.append(("trunc%d" % n, reply[:n]))
    for pos in range(min(8, len(reply))):
        for o in OCT:
            out.append(("oct%d=%02x" % (pos, o), reply[:pos] + bytes([o]) + reply[pos + 1:]))
    v = verb
    fixed = [("RSP", b"RSP"), ("RSPsp", b"RSP "), ("RSPnul", b"RSP\0"), ("verb-only", b"RSP " + v), ("verb-only-nul", b"RSP " + v + b"\0"),
             ("verb-sp", b"RSP " + v + b" "), ("verb-sp-nul", b"RSP " + v + b" \0"), ("status-abc", b"RSP " + v + b" abc\0"),
             ("status-neg", b"RSP " + v + b" -1\0"), ("status-huge", b"RSP " + v + b" 99999999999999999999\0"),
             ("status-one", b"RSP " + v + b" 1\0"), ("status-only", b"RSP " + v + b" 0\0"), ("status-nonul", b"RSP " + v + b" 0"),
             ("verb-prefix", b"RSP " + v[:3] + b" 0\0"), ("verb-longer", b"RSP " + v + b"X 0\0"), ("lower", b"rsp " + v.lower() + b" 0\0"),
             ("other-verb", b"RSP ECHO 0\0" if v != b"ECHO" else b"RSP POWERON 0\0"), ("ind", b"IND CLOCK 5\0"), ("cmd", b"CMD " + v + b"\0"),
             ("empty", b""), ("nul", b"\0"), ("nuls", bytes(16)), ("ff", b"\xff" * 16),
             ("long1022", (b"RSP " + v + b" 0 " + b"7" * 1100)[:1022]), ("long1023", (b"RSP " + v + b" 0 " + b"7" * 1100)[:1023]),
             ("long1024", (b"RSP " + v + b" 0 " + b"7" * 1100)[:1024]), ("long2000", (b"RSP " + v + b" 0 " + b"7" * 2100)[:2000]),
             ("longverb", b"RSP " + b"V" * 1500), ("meas-noresult", b"RSP MEASURE 0\0"), ("meas-onearg", b"RSP MEASURE 0 935200\0"),
             ("meas-abc", b"RSP MEASURE 0 abc def\0"), ("meas-zero", b"RSP MEASURE 0 0 0\0"), ("meas-huge", b"RSP MEASURE 0 4294967295 2147483648\0"),
             ("meas-short", b"RSP MEASURE 0 9\0"), ("meas-13", b"RSP MEASURE 0"), ("meas-14", b"RSP MEASURE 0 ")]
    return out + fixed


def data_mutants():
    out = []
    for n in range(0, 521):
        for name, fill in (("z", 0x00), ("f", 0xff), ("p", None)):
            b = bytes((i * 37 + 11) & 0xff for i in range(n)) if fill is None else bytes([fill]) * n
            out.append(("len%d%s" % (n, name), b))
    base = bytes([3]) + (1234).to_bytes(4, "big") + bytes([60, 0, 5]) + bytes(127 for _ in range(148))
    for nib in range(16):
        for ln in (8, 156, 158, 452, 454, 512):
            b = (bytes([(nib << 4) | 3]) + base[1:] + bytes(400))[:ln]
            out.append(("ver%d/%d" % (nib, ln), b))
    for fn in (2715647, 2715648, 0x7fffffff, 0x80000000, 0xffffffff):
        out.append(("fn%x" % fn, base[:1] + fn.to_bytes(4, "big") + base[5:]))
        out.append(("fn%x+pad" % fn, base[:1] + fn.to_bytes(4, "big") + base[5:] + b"\0\0"))
    for pos in range(8):
        for o in OCT:
            out.append(("oct%d=%02x" % (pos, o), base[:pos] + bytes([o]) + base[pos + 1:]))
    return out


def family(name):
    return name.rstrip("0123456789").split("=")[0].split("/")[0]


def _ctrl_cases(exe):
    d = trxcon_drv.Driver(exe)
    learned = d.cases([["fresh", "cmd " + c] for c in CMDS])
    cases, meta = [], []
    for c, res in zip(CMDS, learned):
        r = res[1]
        if r.get("died") or not r.get("sent"):
            meta.append((c, None, None, "cmd"))
            cases.append(["fresh", "cmd " + c, "state"])
            continue
        cmd = bytes.fromhex(r["sent"][0])
        reply, verb = valid_reply(cmd)
        for name, m in rsp_mutants(reply, verb):
            cases.append(["fresh", "cmd " + c, "rsp " + (m.hex() or "-"), "state", "rsp " + reply.hex(), "timeout", "state"])
            meta.append((c, name, m, "rsp"))
        # without any pending command, and a duplicate of the valid reply
        cases.append(["fresh", "rsp " + reply.hex(), "state", "timeout"])
        meta.append((c, "no-pending", reply, "rsp0"))
        cases.append(["fresh", "cmd " + c, "rsp " + reply.hex(), "rsp " + reply.hex(), "state", "timeout", "rsp " + reply.hex()])
        meta.append((c, "duplicate", reply, "rspdup"))
    return cases, meta


def run(ctx):
    c = ctx.cov
    b = cbuild.builddir("c14trx")
    try:
        exe = trxcon_drv.build(b)
        cases, meta = _ctrl_cases(exe)
        n = ctx.nproc
        chunks = [(exe, cases[i::n]) for i in range(n)]
        results = [None] * len(cases)
        for k, res in enumerate(ctx.pmap(_run_cases, chunks)):
            for j, r in enumerate(res):
                results[k + j * n] = r
        outcomes = {}
        deaths = 0
        for idx, ((cmd, name, m, kind), res) in enumerate(zip(meta, results)):
            died = [x for x in res if x.get("died")]
            oc = "died" if died else ("terminated" if any(x.get("terminated") for x in res) else
                                      ("accepted" if any(x.get("dequeued") for x in res[:3]) else "ignored"))
            outcomes[oc] = outcomes.get(oc, 0) + 1
            if died:
                deaths += 1
                x = died[0]
                ctx.violation("C14:trxcon:ctrl:%s:%s" % (family(name or "cmd"), x.get("how")),
                              {"leg": "trxcon", "kind": "ctrl", "cmd": cmd, "mutant": name, "lines": cases[idx]},
                              "trxcon control socket: after 'cmd %s' the datagram %r (%s) kills trx_if.c: %s"
                              % (cmd, (m or b"")[:40], name, x.get("report", "")[:400]))
        c["trxcon_ctrl_cases"] = len(cases)
        c["trxcon_ctrl_outcomes"] = outcomes
        # data socket
        dm = data_mutants()
        dchunks = [(exe, dm[i::n]) for i in range(n)]
        dres = [None] * len(dm)
        for k, res in enumerate(ctx.pmap(_run_data, dchunks)):
            for j, r in enumerate(res):
                dres[k + j * n] = r
        douts = {}
        for (name, p), r in zip(dm, dres):
            oc = "died" if r.get("died") else ("indication" if r.get("ind") else "rejected rc=%s" % r.get("rc"))
            douts[oc] = douts.get(oc, 0) + 1
            if r.get("died"):
                deaths += 1
                ctx.violation("C14:trxcon:data:%s:%s" % (family(name), r.get("how")),
                              {"leg": "trxcon", "kind": "data", "mutant": name, "lines": ["fresh", "rxdata " + (p.hex() or "-")]},
                              "trxcon data socket: datagram %s (%d octets) kills trx_if.c: %s" % (name, len(p), r.get("report", "")[:400]))
        c["trxcon_data_cases"] = len(dm)
        c["trxcon_data_outcomes"] = douts
        c["trxcon_deaths"] = deaths
        c["trxcon_leg"] = "ran"
        c["evaluations"] = c.get("evaluations", 0) + len(cases) + len(dm)
        c["mutants"] = c.get("mutants", 0) + len(cases) + len(dm)
        ctx.sample({"trxcon_case": cases[len(cases) // 3]})
        ctx.assumptions += ["trxcon leg: trx_if.c compiled unmodified against the repo's trxcon headers and the tree's embedded libosmocore; "
                            "fsm/socket/select of the system libosmocore replaced by a ~300-line stand-in; AF_UNIX datagram socketpairs"]
    finally:
        cbuild.cleanup(b)


def _run_cases(arg):
    exe, cases = arg
    return trxcon_drv.Driver(exe).cases(cases)


def _run_data(arg):
    exe, muts = arg
    d = trxcon_drv.Driver(exe)
    return d.batch(["rxdata " + (p.hex() or "-") for _, p in muts])


def replay(ctx, case):
    b = cbuild.builddir("c14trxr")
    try:
        exe = trxcon_drv.build(b)
        res = trxcon_drv.Driver(exe).cases([case["lines"]])[0]
        for x in res:
            if x.get("died"):
                ctx.violation("C14:trxcon:%s:%s:%s" % (case["kind"], family(case.get("mutant") or "cmd"), x.get("how")), case,
                              "driver died: %s" % x.get("report", "")[:400])
                break
    finally:
        cbuild.cleanup(b)

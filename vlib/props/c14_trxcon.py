"""C14, trxcon leg: no datagram on trxcon's control or data socket makes trx_if.c crash
or touch memory out of bounds (ASan/UBSan driver around the real, unmodified file)."""


def run(ctx):
    try:
        from vlib import trxcon_drv  # noqa
    except ImportError:
        ctx.cov["trxcon_leg"] = "driver not available"
        return
    ctx.cov["trxcon_leg"] = "not wired yet"


def replay(ctx, case):
    pass

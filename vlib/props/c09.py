"""C09 - clock source: consecutive frame numbers, one per frame, no accumulated drift.

The real CLCKGen.start/_worker/send_clck_ind/stop run under a virtual monotonic
clock; the worker body is executed by the harness, every Event.wait() is a
decision point (wake-up lateness, or a stop() arriving during the wait) and the
frame handler consumes a scripted amount of virtual time.  ALL scripts up to
length L over the duration x lateness alphabet are executed (a prefix tree walk:
each script is one run of the real worker), for several start frames, indication
periods and link sets, with stop()/start() inserted at every position.

Oracle: reference clock (deadlines anchored at start; an overrun fires at once
and re-anchors; never more than one immediate tick) with integer nanoseconds.
"""
import itertools

from vlib import world

LEVEL = "model_checking"
HYPER = 2715648
NOMINAL = 4615000

_env = {}


def env():
    if not _env:
        world.install()
        import clck_gen
        import udp_link
        _env["clck_gen"] = clck_gen
        _env["udp_link"] = udp_link
    return _env


class Run:
    """One execution of the real generator under a script.
    script: list of steps; step = ("t", dur_ns, late_ns)            tick: wait completes `late` after the deadline, handler takes `dur`
                                  ("stopwait", frac)                 stop() arrives during the wait after frac of the timeout
                                  ("stopnow",)                       stop() arrived while the handler ran: next wait returns at once
    Every stop is followed by start() (restart) if steps remain."""

    def __init__(self, start, period, nlinks, eager=False):
        """eager: the extreme schedule in which the new worker thread runs (to the end of the script)
        BEFORE the caller of start() gets the processor back"""
        self.eager = eager
        e = env()
        fab = world.new_fabric()
        self.fab = fab
        self.links = [e["udp_link"].UDPLink("127.0.0.1", 5800 + 10 * k, "0.0.0.0", 5700 + 10 * k) for k in range(nlinks)]
        self.gen = e["clck_gen"].CLCKGen(self.links, clck_start=start, ind_period=period)
        self.gen.clck_handler = self.handler
        self.calls = []        # (fn, t_ns, epoch)
        self.sent = []         # (t_ns, port, payload, epoch)
        self.epoch = 0
        self.start_times = []
        self.script = []
        self.pos = 0
        self.cur_dur = 0
        self.exc = None

    def handler(self, fn):
        for d in self.fab.reset_out():
            self.sent.append((world.clock.ns, d[2], d[3], self.epoch))
        self.calls.append((fn, world.clock.ns, self.epoch))
        world.clock.ns += self.cur_dur

    def wait_hook(self, event, timeout):
        # called by the worker: `timeout` seconds until the next deadline
        if self.pos >= len(self.script):
            event.flag = True           # script exhausted: stop() arrives right now
            self.stop_kind = "end"
            return True
        st = self.script[self.pos]
        self.pos += 1
        tns = int(round(timeout * 1e9))
        if st[0] == "t":
            world.clock.ns += tns + st[2]
            self.cur_dur = st[1]
            return False
        if st[0] == "stopwait":
            world.clock.ns += int(tns * st[1])
            event.flag = True
            self.stop_kind = "stopwait"
            return True
        raise ValueError(st)

    def execute(self, script):
        self.script = list(script)
        self.pos = 0
        world.FakeEvent.wait_hook = self.wait_hook
        try:
            stuck = 0
            while True:
                before = self.pos
                self.start_times.append(world.clock.ns)
                if self.eager:
                    ran = []

                    def on_start(th):
                        ran.append(th)
                        th.run_body()
                    world.FakeThread.on_start_default = on_start
                    try:
                        self.gen.start()
                    finally:
                        world.FakeThread.on_start_default = None
                    if not ran:
                        raise RuntimeError("start() did not start a thread")
                else:
                    self.gen.start()
                    th = self.gen._thread
                    if not th.started:
                        raise RuntimeError("start() did not start a thread")
                    th.run_body()
                for d in self.fab.reset_out():
                    self.sent.append((world.clock.ns, d[2], d[3], self.epoch))
                self.gen.stop()
                if self.gen.running:
                    raise RuntimeError("running after stop()")
                self.epoch += 1
                if self.pos >= len(self.script):
                    break
                stuck = stuck + 1 if self.pos == before else 0
                if stuck >= 2:
                    raise RuntimeError("restarted generator does not tick (worker returned without waiting)")
        except Exception as ex:            # noqa
            self.exc = "%s: %s" % (type(ex).__name__, ex)
        finally:
            world.FakeEvent.wait_hook = None


def reference(script, T, start, period, nlinks, t0):
    """-> (calls [(fn, t, epoch)], inds [(t, link index, fn, epoch)])"""
    calls, inds = [], []
    now = t0
    epoch = 0
    i = 0
    n = len(script)
    while True:
        fn = start
        deadline = now          # anchored at (re)start
        stopped = False
        while not stopped:
            deadline += T
            if now > deadline:
                deadline = now   # overrun: fire at once, re-anchor
            if i >= n:
                stopped = True   # stop arrives at the beginning of this wait
                break
            st = script[i]
            i += 1
            if st[0] == "stopwait":
                now += int((deadline - now) * st[1])
                stopped = True
                break
            fire = deadline + st[2]
            now = fire
            if fn % period == 0:
                for k in range(nlinks):
                    inds.append((fire, k, fn, epoch))
            calls.append((fn, fire, epoch))
            now += st[1]
            fn = (fn + 1) % HYPER
        epoch += 1
        if i >= n:
            break
    return calls, inds


def check_script(script, T, start, period, nlinks, eager=False):
    r = Run(start, period, nlinks, eager)
    t0 = world.clock.ns
    r.execute(script)
    if r.exc:
        return "exception", "script %r: %s" % (script, r.exc), r
    calls, inds = reference(script, T, start, period, nlinks, t0)
    if [(c[0], c[2]) for c in r.calls] != [(c[0], c[2]) for c in calls]:
        return "frame-sequence", "script %r: handler saw frames %r, expected %r" % (
            script, [(c[0], c[2]) for c in r.calls], [(c[0], c[2]) for c in calls]), r
    for k, (a, b) in enumerate(zip(r.calls, calls)):
        if a[1] != b[1]:
            return "tick-time", "script %r: tick %d (fn %d) fired at t0+%d ns, reference t0+%d ns (T=%d)" % (
                script, k, a[0], a[1] - t0, b[1] - t0, T), r
    want = sorted((t, 5800 + 10 * k, ("IND CLOCK %u" % fn).encode() + b"\0", ep) for t, k, fn, ep in inds)
    got = sorted(r.sent)
    if got != want:
        return "indications", "script %r start=%d period=%d links=%d: sent %r, expected %r" % (
            script, start, period, nlinks, got[:6], want[:6]), r
    return None, None, r


def calibrate():
    r = Run(0, 1, 1)
    t0 = world.clock.ns
    r.execute([("t", 0, 0), ("t", 0, 0), ("t", 0, 0)])
    if r.exc or len(r.calls) != 3:
        return None, "calibration failed: %r %r" % (r.exc, r.calls)
    T = r.calls[0][1] - t0
    return T, None


def alphabet(T, tier):
    durs = [0, T // 2, T - 1, T, T + 1, (5 * T) // 2]
    lates = [0, (3 * T) // 10]
    return [("t", d, l) for d in durs for l in lates]


def work_prefix(arg):
    """all scripts of length L that start with the given first steps (and, being runs, all their prefixes)"""
    prefix, L, T, start, period, nlinks, tier = arg
    A = alphabet(T, tier)
    cov = {"scripts": 0, "ticks": 0}
    viol = []
    states = set()
    for rest in itertools.product(A, repeat=L - len(prefix)):
        script = list(prefix) + list(rest)
        cls, msg, r = check_script(script, T, start, period, nlinks)
        cov["scripts"] += 1
        cov["ticks"] += len(r.calls)
        t0 = r.start_times[0] if r.start_times else 0
        for k, c in enumerate(r.calls):
            states.add((c[0], (c[1] - t0) - (k + 1) * T))
        if cls and len(viol) < 3:
            viol.append(("C09:%s" % cls, {"script": script, "T": T, "start": start, "period": period, "links": nlinks}, msg))
    cov["states"] = states
    return {"cov": cov, "viol": viol}


def work_config(arg):
    T, start, period, nlinks, L, tier = arg
    return work_prefix(((), L, T, start, period, nlinks, tier))


def work_stop(arg):
    """stop()/start() inserted at every position of every script of length <= L, then 2 more ticks"""
    T, L, start, period, nlinks, tier = arg
    A = alphabet(T, tier)
    cov = {"scripts": 0, "ticks": 0, "restarts": 0}
    viol = []
    states = set()
    stops = [("stopwait", 0.0), ("stopwait", 0.4), ("stopwait", 1.0)]
    for n in range(0, L + 1):
        for body in itertools.product(A, repeat=n):
            for st in stops:
                for tail in itertools.product(A[:4] + A[-2:], repeat=2):
                    script = list(body) + [st] + list(tail)
                    for eager in (False, True):
                        cls, msg, r = check_script(script, T, start, period, nlinks, eager)
                        cov["scripts"] += 1
                        cov["ticks"] += len(r.calls)
                        cov["restarts"] += 1
                        if cls and len(viol) < 3:
                            viol.append(("C09:restart:%s%s" % ("worker-first:" if eager else "", cls),
                                         {"script": script, "T": T, "start": start, "period": period,
                                          "links": nlinks, "eager": eager}, msg))
    cov["states"] = states
    return {"cov": cov, "viol": viol}


def bystander(T, start_a, start_b, nticks_before, nticks_after):
    """Two generator objects in one process: while B's worker sits in Event.wait(), A is started, ticks and is
    stopped (all inside B's wait, as another thread would do it).  B was never stopped: its wait must not be
    cut short and it goes on ticking.  -> None | message"""
    e = env()
    fab = world.new_fabric()
    la = [e["udp_link"].UDPLink("127.0.0.1", 5800, "0.0.0.0", 5700)]
    lb = [e["udp_link"].UDPLink("127.0.0.1", 5900, "0.0.0.0", 5701)]
    A = e["clck_gen"].CLCKGen(la, clck_start=start_a, ind_period=1)
    B = e["clck_gen"].CLCKGen(lb, clck_start=start_b, ind_period=1)
    calls = {"A": [], "B": []}
    A.clck_handler = lambda fn: calls["A"].append(fn)
    B.clck_handler = lambda fn: calls["B"].append(fn)
    st = {"phase": "B", "b_waits": 0, "a_waits": 0, "cut_short": False, "done_a": False}

    def hook(event, timeout):
        tns = int(round(timeout * 1e9))
        if st["phase"] == "A":
            st["a_waits"] += 1
            if st["a_waits"] > nticks_before:
                event.flag = True          # stop() of A arrives now
                return True
            world.clock.ns += tns
            return False
        st["b_waits"] += 1
        if st["b_waits"] == 2 and not st["done_a"]:
            # B is waiting: meanwhile A lives its whole life
            st["done_a"] = True
            event.woken = False
            st["phase"] = "A"
            A.start()
            A._thread.run_body()
            A.stop()
            st["phase"] = "B"
            if event.woken or event.flag:
                st["cut_short"] = True
                return True
        if st["b_waits"] > 2 + nticks_after:
            event.flag = True
            return True
        world.clock.ns += tns
        return False

    world.FakeEvent.wait_hook = hook
    try:
        B.start()
        B._thread.run_body()
        running_mid = B.running
        B.stop()
    except Exception as ex:            # noqa
        return "exception %s: %s" % (type(ex).__name__, ex)
    finally:
        world.FakeEvent.wait_hook = None
    want_b = [(start_b + k) % HYPER for k in range(1 + nticks_after + 1)]
    want_a = [(start_a + k) % HYPER for k in range(nticks_before)]
    if st["cut_short"]:
        return ("generator B (started, never stopped) was woken out of its wait by stop() of another generator object: its "
                "handler saw the frames %r, expected %r" % (calls["B"], want_b))
    if calls["B"] != want_b or calls["A"] != want_a:
        return "two generators in one process: A saw %r (expected %r), B saw %r (expected %r)" % (calls["A"], want_a, calls["B"], want_b)
    return None


def run(ctx):
    T, err = calibrate()
    c = ctx.cov
    if err:
        ctx.violation("C09:calibration", {"script": [], "T": 0, "start": 0, "period": 1, "links": 1}, err)
        c.update(states=1, transitions=1, traces_validated_against_impl=1)
        return
    c["frame_period_ns_measured"] = T
    if abs(T - NOMINAL) >= 1000:
        ctx.violation("C09:period", {"script": [["t", 0, 0]], "T": T, "start": 0, "period": 1, "links": 1},
                      "frame period is %d ns, nominal 4 615 000 ns" % T)
    L = 5 if ctx.quick else 6
    A = alphabet(T, ctx.tier)
    items = [((a, b), L, T, 2715646, 2, 2, ctx.tier) for a in A for b in A]
    for r in ctx.pmap(work_prefix, items, chunksize=2):
        ctx.merge(r)
    cfgs = [(T, s, p, n, 2 if ctx.quick else 3, ctx.tier) for s in (0, 1, 2715646, 2715647) for p in (1, 2, 51, 102) for n in (0, 1, 2)]
    # periods that do not divide the hyperframe, started shortly before the wrap so that the script crosses it
    cfgs += [(T, s, p, 1, 4 if ctx.quick else 5, ctx.tier) for s in (2715645, 2715647, 5) for p in (100, 7, 3, 1000)]
    for r in ctx.pmap(work_config, cfgs):
        ctx.merge(r)
    stops = [(T, 2 if ctx.quick else 3, s, p, 1, ctx.tier) for s in (0, 2715647) for p in (1, 2)]
    for r in ctx.pmap(work_stop, stops):
        ctx.merge(r)
    nby = 0
    for sa, sb, nb, na in itertools.product((0, 2715647), (1000, 2715646), (0, 1, 3), (1, 2)):
        msg = bystander(T, sa, sb, nb, na)
        nby += 1
        if msg:
            ctx.violation("C09:two-generators", {"bystander": [sa, sb, nb, na], "script": [], "T": T, "start": sa, "period": 1, "links": 1}, msg)
    c["two_generator_scenarios"] = nby
    c["script_length"] = L
    c["alphabet"] = len(A)
    c["states"] = len(c["states"]) if isinstance(c.get("states"), set) else c.get("states", 0)
    c["transitions"] = c["ticks"]
    c["traces_validated_against_impl"] = c["scripts"]
    c["evaluations"] = c["scripts"]
    c["distinct_nontrivial"] = c["states"]
    c["exhaustive"] = True
    ctx.sample({"script": [["t", T // 2, 0], ["t", (5 * T) // 2, 0], ["t", 0, (3 * T) // 10]], "start": 2715646, "period": 2, "links": 2})
    ctx.assumptions += ["virtual monotonic clock; the worker body runs synchronously under the harness, Event.wait() is the only blocking point",
                        "frame period taken from the first undisturbed interval (must be within 1 us of 4.615 ms), then exact linearity is required",
                        "states = distinct (frame number, phase offset from the ideal grid) pairs observed",
                        "thread start is explored in its two extreme schedules: the caller of start() continues first (default) or the "
                        "new worker runs first until it stops (stop/restart scripts)"]


def replay(ctx, case):
    script = [tuple(s) for s in case["script"]]
    T = case["T"]
    if not T:
        T, err = calibrate()
        if err:
            ctx.violation("C09:calibration", case, err)
        return
    T2, err = calibrate()
    if err:
        ctx.violation("C09:calibration", case, err)
        return
    if abs(T2 - NOMINAL) >= 1000:
        ctx.violation("C09:period", case, "frame period is %d ns" % T2)
    if case.get("bystander"):
        msg = bystander(T2, *case["bystander"])
        if msg:
            ctx.violation("C09:two-generators", case, msg)
        return
    cls, msg, r = check_script(script, T2, case["start"], case["period"], case["links"], case.get("eager", False))
    if cls:
        pfx = "C09:restart:" if any(s[0] == "stopwait" for s in script) else "C09:"
        if case.get("eager"):
            pfx += "worker-first:"
        ctx.violation(pfx + cls, case, msg)

"""C09 - clock source: consecutive frame numbers, one per frame, no accumulated drift.

The real CLCKGen.start/_worker/send_clck_ind/stop run under a virtual monotonic
clock; the worker body is executed by the harness, every Event.wait() is a
decision point (wake-up lateness, or a stop() arriving during the wait) and the
frame handler consumes a scripted amount of virtual time.  ALL scripts up to
length L over the duration x lateness alphabet are executed (a prefix tree walk:
each script is one run of the real worker), for several start frames, indication
periods and link sets, with stop()/start() inserted at every position.

Oracle: reference clock (deadlines anchored at start; an overrun fires at once
and re-anchors; never more than one immediate tick) with integer nanoseconds.
"""
import itertools

from vlib import world

LEVEL = "model_checking"
HYPER = 2715648
NOMINAL = 4615000

_env = {}


def env():
    if not _env:
        world.install()
        import clck_gen
        import udp_link
        _env["clck_gen"] = clck_gen
        _env["udp_link"] = udp_link
    return _env


class Run:
    """One execution of the real generator under a script.
    script: list of steps; step = ("t", dur_ns, late_ns)            tick: wait completes `late` after the deadline, handler takes `dur`
                                  ("stopwait", frac)                 stop() arrives during the wait after frac of the timeout
                                  ("stopnow",)                       stop() arrived while the handler ran: next wait returns at once
    Every stop is followed by start() (restart) if steps remain."""

    def __init__(self, start, period, nlinks, eager=False):
        """eager: the extreme schedule in which the new worker thread runs (to the end of the script)
        BEFORE the caller of start() gets the processor back"""
        self.eager = eager
        e = env()
        fab = world.new_fabric()
        self.fab = fab
        self.links = [e["udp_link"].UDPLink("127.0.0.1", 5800 + 10 * k, "0.0.0.0", 5700 + 10 * k) for k in range(nlinks)]
        self.gen = e["clck_gen"].CLCKGen(self.links, clck_start=start, ind_period=period)
        self.gen.clck_handler = self.handler
        self.calls = []        # (fn, t_ns, epoch)
        self.sent = []         # (t_ns, port, payload, epoch)
        self.epoch = 0
        self.start_times = []
        self.script = []
        self.pos = 0
        self.cur_dur = 0
        self.exc = None

    def handler(self, fn):
        for d in self.fab.reset_out():
            self.sent.append((world.clock.ns, d[2], d[3], self.epoch))
        self.calls.append((fn, world.clock.ns, self.epoch))
        world.clock.ns += self.cur_dur

    def wait_hook(self, event, timeout):
        # called by the worker: `timeout` seconds until the next deadline
        if self.pos >= len(self.script):
            event.flag = True           # script exhausted: stop() arrives right now
            self.stop_kind = "end"
            return True
        st = self.script[self.pos]
        self.pos += 1
        tns = int(round(timeout * 1e9))
        if st[0] == "t":
            world.clock.ns += tns + st[2]
            self.cur_dur = st[1]
            return False
        if st[0] == "stopwait":
            world.clock.ns += int(tns * st[1])
            event.flag = True
            self.stop_kind = "stopwait"
            return True
        raise ValueError(st)

    def execute(self, script):
        self.script = list(script)
        self.pos = 0
        world.FakeEvent.wait_hook = self.wait_hook
        try:
            stuck = 0
            while True:
                before = self.pos
                self.start_times.append(world.clock.ns)
                if self.eager:
                    ran = []

                    def on_start(th):
                        ran.append(th)
                        th.run_body()
                    world.FakeThread.on_start_default = on_start
                    try:
                        self.gen.start()
                    finally:
                        world.FakeThread.on_start_default = None
                    if not ran:
                        raise RuntimeError("start() did not start a thread")
                else:
                    self.gen.start()
                    th = self.gen._thread
                    if not th.started:
                        raise RuntimeError("start() did not start a thread")
                    th.run_body()
                for d in self.fab.reset_out():
                    self.sent.append((world.clock.ns, d[2], d[3], self.epoch))
                self.gen.stop()
                if self.gen.running:
                    raise RuntimeError("running after stop()")
                self.epoch += 1
                if self.pos >= len(self.script):
                    break
                stuck = stuck + 1 if self.pos == before else 0
                if stuck >= 2:
                    raise RuntimeError("restarted generator does not tick (worker returned without waiting)")
        except Exception as ex:            # noqa
            self.exc = "%s: %s" % (type(ex).__name__, ex)
        finally:
            world.FakeEvent.wait_hook = None


def reference(script, T, start, period, nlinks, t0):
    """-> (calls [(fn, t, epoch)], inds [(t, link index, fn, epoch)])"""
    calls, inds = [], []
    now = t0
    epoch = 0
    i = 0
    n = len(script)
    while True:
        fn = start
        deadline = now          # anchored at (re)start
        stopped = False
        while not stopped:
            deadline += T
            if now > deadline:
                deadline = now   # overrun: fire at once, re-anchor
            if i >= n:
                stopped = True   # stop arrives at the beginning of this wait
                break
            st = script[i]
            i += 1
            if st[0] == "stopwait":
                now += int((deadline - now) * st[1])
                stopped = True
                break
            fire = deadline + st[2]
            now = fire
            if fn % period == 0:
                for k in range(nlinks):
                    inds.append((fire, k, fn, epoch))
            calls.append((fn, fire, epoch))
            now += st[1]
            fn = (fn + 1) % HYPER
        epoch += 1
        if i >= n:
            break
    return calls, inds


def check_script(script, T, start, period, nlinks, eager=False):
    r = Run(start, period, nlinks, eager)
    t0 = world.clock.ns
    r.execute(script)
    if r.exc:
        return "exception", "script %r: %s" % (script, r.exc), r
    calls, inds = reference(script, T, start, period, nlinks, t0)
    if [(c[0], c[2]) for c in r.calls] != [(c[0], c[2]) for c in calls]:
        return "frame-sequence", "script %r: handler saw frames %r, expected %r" % (
            script, [(c[0], c[2]) for c in r.calls], [(c[0], c[2]) for c in calls]), r
    for k, (a, b) in enumerate(zip(r.calls, calls)):
        if a[1] != b[1]:
            return "tick-time", "script %r: tick %d (fn %d) fired at t0+%d ns, reference t0+%d ns (T=%d)" % (
                script, k, a[0], a[1] - t0, b[1] - t0, T), r
    want = sorted((t, 5800 + 10 * k, ("IND CLOCK %u" % fn).encode() + b"\0", ep) for t, k, fn, ep in inds)
    got = sorted(r.sent)
    if got != want:
        return "indications", "script %r start=%d period=%d links=%d: sent %r, expected %r" % (
            script, start, period, nlinks, got[:6], want[:6]), r
    return None, None, r


def calibrate():
    r = Run(0, 1, 1)
    t0 = world.clock.ns
    r.execute([("t", 0, 0), ("t", 0, 0), ("t", 0, 0)])
    if r.exc or len(r.calls) != 3:
        return None, "calibration failed: %r %r" % (r.exc, r.calls)
    T = r.calls[0][1] - t0
    return T, None


def alphabet(T, tier):
    durs = [0, T // 2, T - 1, T, T + 1, (5 * T) // 2]
    lates = [0, (3 * T) // 10]
    return [("t", d, l) for d in durs for l in lates]


def work_prefix(arg):
    """all scripts of length L that start with the given first steps (and, being runs, all their prefixes)"""
    prefix, L, T, start, period, nlinks, tier = arg
    A = alphabet(T, tier)
    cov = {"scripts": 0, "ticks": 0}
    viol = []
    states = set()
    for rest in itertools.product(A, repeat=L - len(prefix)):
        script = list(prefix) + list(rest)
        cls, msg, r = check_script(script, T, start, period, nlinks)
        cov["scripts"] += 1
        cov["ticks"] += len(r.calls)
        t0 = r.start_times[0] if r.start_times else 0
        for k, c in enumerate(r.calls):
            states.add((c[0], (c[1] - t0) - (k + 1) * T))
        if cls and len(viol) < 3:
            viol.append(("C09:%s" % cls, {"script": script, "T": T, "start": start, "period": period, "links": nlinks}, msg))
    cov["states"] = states
    return {"cov": cov, "viol": viol}


def work_config(arg):
    T, start, period, nlinks, L, tier = arg
    return work_prefix(((), L, T, start, period, nlinks, tier))


def work_stop(arg):
    """stop()/start() inserted at every position of every script of length <= L, then 2 more ticks"""
    T, L, start, period, nlinks, tier = arg
    A = alphabet(T, tier)
    cov = {"scripts": 0, "ticks": 0, "restarts": 0}
    viol = []
    states = set()
    stops = [("stopwait", 0.0), ("stopwait", 0.4), ("stopwait", 1.0)]
    for n in range(0, L + 1):
        for body in itertools.product(A, repeat=n):
            for st in stops:
                for tail in itertools.product(A[:4] + A[-2:], repeat=2):
                    script = list(body) + [st] + list(tail)
                    for eager in (False, True):
                        cls, msg, r = check_script(script, T, start, period, nlinks, eager)
                        cov["scripts"] += 1
                        cov["ticks"] += len(r.calls)
                        cov["restarts"] += 1
                        if cls and len(viol) < 3:
                            viol.append(("C09:restart:%s%s" % ("worker-first:" if eager else "", cls),
                                         {"script": script, "T": T, "start": start, "period": period,
                                          "links": nlinks, "eager": eager}, msg))
    cov["states"] = states
    return {"cov": cov, "viol": viol}


def bystander(T, start_a, start_b, nticks_before, nticks_after):
    """Two generator objects in one process: while B's worker sits in Event.wait(), A is started, ticks and is
    stopped (all inside B's wait, as another thread would do it).  B was never stopped: its wait must not be
    cut short and it goes on ticking.  -> None | message"""
    e = env()
    fab = world.new_fabric()
    la = [e["udp_link"].UDPLink("127.0.0.1", 5800, "0.0.0.0", 5700)]
    lb = [e["udp_link"].UDPLink("127.0.0.1", 5900, "0.0.0.0", 5701)]
    A = e["clck_gen"].CLCKGen(la, clck_start=start_a, ind_period=1)
    B = e["clck_gen"].CLCKGen(lb, clck_start=start_b, ind_period=1)
    calls = {"A": [], "B": []}
    A.clck_handler = lambda fn: calls["A"].append(fn)
    B.clck_handler = lambda fn: calls["B"].append(fn)
    st = {"phase": "B", "b_waits": 0, "a_waits": 0, "cut_short": False, "done_a": False}

    def hook(event, timeout):
        tns = int(round(timeout * 1e9))
        if st["phase"] == "A":
            st["a_waits"] += 1
            if st["a_waits"] > nticks_before:
                event.flag = True          # stop() of A arrives now
                return True
            world.clock.ns += tns
            return False
        st["b_waits"] += 1
        if st["b_waits"] == 2 and not st["done_a"]:
            # B is waiting: meanwhile A lives its whole life
            st["done_a"] = True
            event.woken = False
            st["phase"] = "A"
            A.start()
            A._thread.run_body()
            A.stop()
            st["phase"] = "B"
            if event.woken or event.flag:
                st["cut_short"] = True
                return True
        if st["b_waits"] > 2 + nticks_after:
            event.flag = True
            return True
        world.clock.ns += tns
        return False

    world.FakeEvent.wait_hook = hook
    try:
        B.start()
        B._thread.run_body()
        running_mid = B.running
        B.stop()
    except Exception as ex:            # noqa
        return "exception %s: %s" % (type(ex).__name__, ex)
    finally:
        world.FakeEvent.wait_hook = None
    want_b = [(start_b + k) % HYPER for k in range(1 + nticks_after + 1)]
    want_a = [(start_a + k) % HYPER for k in range(nticks_before)]
    if st["cut_short"]:
        return ("generator B (started, never stopped) was woken out of its wait by stop() of another generator object: its "
                "handler saw the frames %r, expected %r" % (calls["B"], want_b))
    if calls["B"] != want_b or calls["A"] != want_a:
        return "two generators in one process: A saw %r (expected %r), B saw %r (expected %r)" % (calls["A"], want_a, calls["B"], want_b)
    return None


class _Kill(BaseException):
    pass


def overlap(T, start, k_stop, dur, frac, n_after):
    """stop() arriving WHILE the frame handler of tick k_stop is still busy (for `dur` ns; the stop() call is made
    after frac*dur of it), followed by start().  The worker runs in a real OS thread here; one baton makes exactly
    one of {caller, workers} run at a time and the caller's side is a discrete-event scheduler over the virtual
    clock: a worker yields in Event.wait() (wake-up = its deadline, or at once when the event is set) and inside the
    long handler call (wake-up = end of the call); Thread.join(timeout) pumps that scheduler until the thread has
    ended or the timeout has passed on the virtual clock.  -> None | message"""
    import _thread
    import threading
    e = env()
    world.new_fabric()
    links = [e["udp_link"].UDPLink("127.0.0.1", 5800, "0.0.0.0", 5700)]
    gen = e["clck_gen"].CLCKGen(links, clck_start=start, ind_period=1)
    clock = world.clock
    main_gate = world.real_allocate_lock()
    main_gate.acquire()
    S = {"workers": [], "cur": None, "kill": False, "epoch": 0, "calls": [], "long_done": False, "exc": None, "steps": 0}

    def pump(until=None, deadline=None):
        while True:
            if until is not None and until.finished:
                return
            live = [w for w in S["workers"] if not w.finished]
            if not live:
                if deadline is not None:
                    clock.ns = max(clock.ns, deadline)
                return

            def eff(w):
                if w.waiting_on is not None and w.waiting_on.flag:
                    return clock.ns
                return max(w.wake, clock.ns)
            w = min(live, key=lambda x: (eff(x), x.epoch))
            t = eff(w)
            if deadline is not None and t > deadline:
                clock.ns = deadline
                return
            S["steps"] += 1
            if S["steps"] > 200000:
                raise RuntimeError("no progress: a worker neither ends nor lets the virtual clock pass")
            clock.ns = t
            S["cur"] = w
            w.gate.release()
            if not main_gate.acquire(True, 300):
                raise RuntimeError("the worker thread did not come back to a yield point (Event.wait / handler) within 300 s of real time")
            S["cur"] = None

    class W(world.FakeThread):
        def start(self):
            world.FakeThread.start(self)
            self.gate = world.real_allocate_lock()
            self.gate.acquire()
            self.wake = clock.ns
            self.waiting_on = None
            self.finished = False
            self.epoch = S["epoch"]
            S["workers"].append(self)
            _thread.start_new_thread(self._boot, ())

        def _boot(self):
            self.gate.acquire()
            # logging asks threading.current_thread(); a thread it does not know would be wrapped in a _DummyThread,
            # whose constructor goes through the (replaced) threading.Thread - register a known object instead
            me = _thread.get_ident()
            threading._active[me] = threading.main_thread()
            try:
                if not S["kill"]:
                    self.target(*self.args, **self.kwargs)
            except _Kill:
                pass
            except BaseException as ex:      # noqa
                S["exc"] = "%s: %s" % (type(ex).__name__, ex)
            finally:
                threading._active.pop(me, None)
                self.finished = True
                self.alive = False
                main_gate.release()

        def yield_(self, wake, ev=None):
            self.wake = wake
            self.waiting_on = ev
            main_gate.release()
            self.gate.acquire()
            self.waiting_on = None
            if S["kill"]:
                raise _Kill()

        def join(self, timeout=None):
            deadline = None if timeout is None else clock.ns + int(round(timeout * 1e9))
            pump(until=self, deadline=deadline)
            self.joined = True

        def is_alive(self):
            return self.started and not self.finished

    def hook(event, timeout):
        w = S["cur"]
        w.yield_(clock.ns + int(round((timeout or 0) * 1e9)), event)
        return event.flag

    def handler(fn):
        w = S["cur"]
        S["calls"].append((fn, clock.ns, w.epoch))
        if w.epoch == 0 and not S["long_done"] and sum(1 for c in S["calls"] if c[2] == 0) == k_stop + 1:
            S["long_done"] = True
            w.yield_(clock.ns + dur)

    gen.clck_handler = handler
    world.FakeEvent.wait_hook = hook
    saved_thread = threading.Thread
    threading.Thread = W
    msg = None
    try:
        t0 = clock.ns
        gen.start()
        pump(deadline=t0 + (k_stop + 1) * T)
        before = list(S["calls"])
        clock.ns += int(dur * frac)
        t_call = clock.ns
        gen.stop()
        t_ret = clock.ns
        running_after_stop = gen.running
        n_at_ret = len(S["calls"])
        S["epoch"] = 1
        ts = clock.ns
        gen.start()
        # observe until n_after ticks after the restart AND until 3 ticks after the end of the overlapped handler call
        # (a worker that stop() did not wait for wakes up there)
        t_end = t0 + (k_stop + 1) * T + dur
        t_obs = max(ts + n_after * T, t_end + 3 * T) + T // 2
        n_obs = (t_obs - ts) // T
        pump(deadline=t_obs)
        after = S["calls"][n_at_ret:]
        gen.stop()
        n_final = len(S["calls"])
        pump(deadline=clock.ns + 3 * T)
        late = S["calls"][n_final:]
        want_before = [((start + i) % HYPER, t0 + (i + 1) * T, 0) for i in range(k_stop + 1)]
        want_after = [((start + i) % HYPER, ts + (i + 1) * T) for i in range(n_obs)]
        where = ("stop() called %.3f ms into a handler call of %.3f ms (tick %d), then start()"
                 % (int(dur * frac) / 1e6, dur / 1e6, k_stop))
        if S["exc"]:
            msg = "%s: worker died: %s" % (where, S["exc"])
        elif before != want_before:
            msg = "%s: before the stop the handler saw %r, expected %r" % (where, before, want_before)
        elif running_after_stop:
            msg = "%s: generator still running after stop() returned" % where
        elif [(c[0], c[1]) for c in after] != want_after:
            bad = next((i for i, (c, w) in enumerate(zip(after, want_after)) if (c[0], c[1]) != w), min(len(after), len(want_after)))
            after, want_after = after[max(0, bad - 1):bad + 3], want_after[max(0, bad - 1):bad + 3]
            where += " [first difference at call #%d after the restart]" % bad
            msg = ("%s: after the restart at t=%.3f ms the handler must be called once per frame period with the frames %r at "
                   "%r ms; it was called with (frame, ms, worker generation) %r (the handler call that stop() overlapped "
                   "ended at t=%.3f ms, stop() returned at t=%.3f ms)"
                   % (where, (ts - t0) / 1e6, [w[0] for w in want_after], [round((w[1] - t0) / 1e6, 3) for w in want_after],
                      [(c[0], round((c[1] - t0) / 1e6, 3), c[2]) for c in after], (t_end - t0) / 1e6, (t_ret - t0) / 1e6))
        elif late:
            msg = "%s: handler called after the final stop() had returned: %r" % (where, late)
        elif t_ret < t_call:
            msg = "%s: virtual clock went backwards" % where
    except Exception as ex:            # noqa
        msg = "stop() during a handler call of %.3f ms (tick %d): %s: %s" % (dur / 1e6, k_stop, type(ex).__name__, ex)
    finally:
        threading.Thread = saved_thread
        world.FakeEvent.wait_hook = None
        S["kill"] = True
        for w in S["workers"]:
            if not w.finished:
                w.gate.release()
                main_gate.acquire()
    return msg


def overlap_cases(T, tier):
    durs = [T // 2, 3 * T, 1500 * 1000 * 1000, 12 * 1000 * 1000 * 1000]
    if tier != "quick":
        durs += [T + 1, 10 * T, 400 * 1000 * 1000, 70 * 1000 * 1000 * 1000]
    ks = (0, 1, 3) if tier == "quick" else (0, 1, 2, 3, 7)
    return [(s, k, d, f, 3) for s in (0, 2715647) for k in ks for d in durs for f in (0.0, 0.5, 0.99)]


def run(ctx):
    T, err = calibrate()
    c = ctx.cov
    if err:
        ctx.violation("C09:calibration", {"script": [], "T": 0, "start": 0, "period": 1, "links": 1}, err)
        c.update(states=1, transitions=1, traces_validated_against_impl=1)
        return
    c["frame_period_ns_measured"] = T
    if abs(T - NOMINAL) >= 1000:
        ctx.violation("C09:period", {"script": [["t", 0, 0]], "T": T, "start": 0, "period": 1, "links": 1},
                      "frame period is %d ns, nominal 4 615 000 ns" % T)
    L = 5 if ctx.quick else 6
    A = alphabet(T, ctx.tier)
    items = [((a, b), L, T, 2715646, 2, 2, ctx.tier) for a in A for b in A]
    for r in ctx.pmap(work_prefix, items, chunksize=2):
        ctx.merge(r)
    cfgs = [(T, s, p, n, 2 if ctx.quick else 3, ctx.tier) for s in (0, 1, 2715646, 2715647) for p in (1, 2, 51, 102) for n in (0, 1, 2)]
    # periods that do not divide the hyperframe, started shortly before the wrap so that the script crosses it
    cfgs += [(T, s, p, 1, 4 if ctx.quick else 5, ctx.tier) for s in (2715645, 2715647, 5) for p in (100, 7, 3, 1000)]
    for r in ctx.pmap(work_config, cfgs):
        ctx.merge(r)
    stops = [(T, 2 if ctx.quick else 3, s, p, 1, ctx.tier) for s in (0, 2715647) for p in (1, 2)]
    for r in ctx.pmap(work_stop, stops):
        ctx.merge(r)
    # indication periods that do not divide the hyperframe: started at (and one before) the last multiple of the period
    # below the wrap and run, undisturbed, through the wrap and two further periods
    nwrap = 0
    for p in (7, 13, 100, 1000):
        last = (HYPER - 1) // p * p
        for s in (last, last - 1):
            n = (HYPER - s) + 2 * p + 2
            script = [("t", 0, 0)] * n
            cls, msg, r = check_script(script, T, s, p, 1)
            nwrap += 1
            c["scripts"] = c.get("scripts", 0) + 1
            c["ticks"] = c.get("ticks", 0) + len(r.calls)
            if cls:
                ctx.violation("C09:wrap-period:%s" % cls, {"script": [["t", 0, 0]], "repeat": n, "T": T, "start": s, "period": p, "links": 1},
                              msg.replace(repr(script), "%d x ('t', 0, 0)" % n))
    c["indication_wrap_runs"] = nwrap
    nby = 0
    for sa, sb, nb, na in itertools.product((0, 2715647), (1000, 2715646), (0, 1, 3), (1, 2)):
        msg = bystander(T, sa, sb, nb, na)
        nby += 1
        if msg:
            ctx.violation("C09:two-generators", {"bystander": [sa, sb, nb, na], "script": [], "T": T, "start": sa, "period": 1, "links": 1}, msg)
    c["two_generator_scenarios"] = nby
    nov = 0
    for case in overlap_cases(T, ctx.tier):
        msg = overlap(T, *case)
        nov += 1
        if msg:
            ctx.violation("C09:stop-during-handler", {"overlap": list(case), "script": [], "T": T, "start": case[0], "period": 1, "links": 1}, msg)
    c["stop_during_handler_scenarios"] = nov
    c["script_length"] = L
    c["alphabet"] = len(A)
    c["states"] = len(c["states"]) if isinstance(c.get("states"), set) else c.get("states", 0)
    c["transitions"] = c["ticks"]
    c["traces_validated_against_impl"] = c["scripts"]
    c["evaluations"] = c["scripts"]
    c["distinct_nontrivial"] = c["states"]
    c["exhaustive"] = True
    ctx.sample({"script": [["t", T // 2, 0], ["t", (5 * T) // 2, 0], ["t", 0, (3 * T) // 10]], "start": 2715646, "period": 2, "links": 2})
    ctx.assumptions += ["virtual monotonic clock; the worker body runs synchronously under the harness, Event.wait() is the only blocking point",
                        "frame period taken from the first undisturbed interval (must be within 1 us of 4.615 ms), then exact linearity is required",
                        "states = distinct (frame number, phase offset from the ideal grid) pairs observed",
                        "thread start is explored in its two extreme schedules: the caller of start() continues first (default) or the "
                        "new worker runs first until it stops (stop/restart scripts)"]


def replay(ctx, case):
    script = [tuple(s) for s in case["script"]]
    T = case["T"]
    if not T:
        T, err = calibrate()
        if err:
            ctx.violation("C09:calibration", case, err)
        return
    T2, err = calibrate()
    if err:
        ctx.violation("C09:calibration", case, err)
        return
    if abs(T2 - NOMINAL) >= 1000:
        ctx.violation("C09:period", case, "frame period is %d ns" % T2)
    if case.get("repeat"):
        script = script * int(case["repeat"])
        cls, msg, r = check_script(script, T2, case["start"], case["period"], case["links"])
        if cls:
            ctx.violation("C09:wrap-period:%s" % cls, case, msg.replace(repr(script), "%d x ('t', 0, 0)" % len(script)))
        return
    if case.get("overlap"):
        msg = overlap(T2, *case["overlap"])
        if msg:
            ctx.violation("C09:stop-during-handler", case, msg)
        return
    if case.get("bystander"):
        msg = bystander(T2, *case["bystander"])
        if msg:
            ctx.violation("C09:two-generators", case, msg)
        return
    cls, msg, r = check_script(script, T2, case["start"], case["period"], case["links"], case.get("eager", False))
    if cls:
        pfx = "C09:restart:" if any(s[0] == "stopwait" for s in script) else "C09:"
        if case.get("eager"):
            pfx += "worker-first:"
        ctx.violation(pfx + cls, case, msg)

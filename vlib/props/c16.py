"""C16 - declarative codec: encode and decode are mutually inverse and length-exact.

Bounded-exhaustive exploration over a definition grammar (programs x inputs), DESIGN.md C16.

Seam    : codec.Envelope subclasses generated from descriptions (Uint/Int family, Buf, Spare,
          BitFieldSet/BitField/BitField.Spare, Envelope.f() nesting, Sequence.f(), the
          get_len / get_pres / get_val callbacks), driven through Envelope.to_bytes() /
          from_bytes() only.
Programs: ALL definitions of a bounded grammar (nothing is sampled):
   env  - envelopes of 0..3 (quick) / 0..4 (thorough) atoms from a 29-entry menu (15 integer
          kinds, fixed buffers, spares, a buffer whose length is an earlier Uint8, a trailing
          flexible buffer, a flag bit-field set + fields that are optional on that flag, two
          further bit-field sets (LSB first with a fixed part, explicit len with padding), a
          fixed-length nested envelope, a trailing flexible nested envelope, a trailing sequence);
   bfs  - a BitFieldSet between two integer fields: every composition of 8 bits, every
          composition of 16/24/32 bits into <= 4 parts (quick: 24/32 into <= 3), both bit
          orders, and per composition the variants plain / one part spare / one part fixed /
          explicit len one octet larger than the bit sum / last part dropped (automatic len
          rounds up);
   nest - nested envelopes of depth 2 and 3 (fixed len, length taken from an earlier field,
          trailing flexible) with fields before/after the nested part at every level;
   seq  - a Sequence of a 2-field item (25 pairs + a tag-length-value item), trailing or with
          its octet length in an earlier field, holding 0..3 elements.
Inputs  : for every definition the complete product of every field's boundary set
          {min, min+1, pattern 0xA5.., max-1, max}; where that product exceeds a stated cap the
          3-value sets {min, pattern, max} (then {min, max}) are used instead (the size used is
          counted per program in the evidence); plus, one field at a time, min-1 / max+1 /
          fixed buffers one octet short or long, and for decoding every truncation, trailing
          octets with length checking on and off, every single-bit flip of a fixed-value part,
          every reserved / padding bit set, over-wide bit-field values with all-zero and
          all-one neighbours.
Oracle  : a generic reference packer/unpacker written from the descriptions (bit strings and
          per-octet arithmetic, no struct / int.to_bytes): to_bytes(v) = reference octets;
          from_bytes(octets) = v (+ derived length fields and fixed parts); consumed = declared
          length; to_bytes(from_bytes(b)) = canonical b; every datagram the reference rejects
          raises DecodeError, every unencodable value EncodeError, nothing else.
"""
import itertools

from vlib import world
from vlib.errors import HarnessError

LEVEL = "exploration"

_env = {}


def env():
    if not _env:
        world.install()
        import codec
        _env["codec"] = codec
    return _env


# ---------------------------------------------------------------------------
# description language -> reference packer / unpacker

class RefErr(Exception):
    pass


def int_range(f):
    n = 8 * f["len"]
    return (-(1 << (n - 1)), (1 << (n - 1)) - 1) if f["sg"] else (0, (1 << n) - 1)


def r_int_enc(f, val):
    if not isinstance(val, int) or isinstance(val, bool):
        raise RefErr("type")
    q, r = divmod(val - f["off"], f["mul"])
    if r:
        raise RefErr("inexact")
    lo, hi = int_range(f)
    if q < lo or q > hi:
        raise RefErr("range")
    if q < 0:
        q += 1 << (8 * f["len"])
    octs = [(q >> (8 * i)) & 0xff for i in range(f["len"])]          # least significant octet first
    if f["bo"] == "big":
        octs.reverse()
    return bytes(octs)


def r_int_dec(f, data):
    octs = list(data)
    if f["bo"] == "big":
        octs.reverse()
    q = 0
    for i, o in enumerate(octs):
        q += o << (8 * i)
    if f["sg"] and q >= 1 << (8 * f["len"] - 1):
        q -= 1 << (8 * f["len"])
    return q * f["mul"] + f["off"]


def bits_len(f):
    return f.get("len") or -(-sum(p[1] for p in f["parts"]) // 8)


def bits_parts(f):
    """parts from the most significant end of the blob; LSB first 'is basically reversed order'
    (codec.py), unused bits of an over-long set stay at the least significant end"""
    return f["parts"][::-1] if f.get("order") in ("lsb", "little") else f["parts"]


def r_bits_enc(f, vals):
    s = ""
    for name, bl, fixed in bits_parts(f):
        if fixed is not None:
            v = fixed
        elif name is None:
            v = 0
        else:
            v = vals[name]
            if not isinstance(v, int):
                raise RefErr("type")
        s += format(v % (1 << bl), "0%db" % bl)               # over-wide values lose their upper bits
    total = 8 * bits_len(f)
    s += "0" * (total - len(s))
    return bytes(int(s[i:i + 8], 2) for i in range(0, total, 8))


def r_bits_dec(f, data, vals):
    s = "".join(format(o, "08b") for o in data)
    pos = 0
    for name, bl, fixed in bits_parts(f):
        v = int(s[pos:pos + bl], 2)
        pos += bl
        if name is not None:
            if fixed is not None and v != fixed:
                raise RefErr("fixed")
            vals[name] = v


def by_name(descs, name):
    for f in descs:
        if f.get("n") == name:
            return f
    raise HarnessError("no field %r" % name)


_memo = {}          # (id(field description), value) -> reference octets / decoded value; cleared per program


def r_pack_field(descs, f, vals):
    t = f["t"]
    if t == "int":
        if "derive" in f:
            kind, tgt = f["derive"]
            v = len(vals[tgt]) if kind == "len" else len(r_pack_field(descs, by_name(descs, tgt), vals))
        else:
            v = vals[f["n"]]
        k = (id(f), v)
        b = _memo.get(k)
        if b is None:
            b = _memo[k] = r_int_enc(f, v)
        return b
    if t == "buf":
        b = vals[f["n"]]
        if not isinstance(b, (bytes, bytearray)):
            raise RefErr("type")
        if f.get("len") and len(b) != f["len"]:
            raise RefErr("buflen")
        return bytes(b)
    if t == "spare":
        return bytes([f.get("fill", 0)]) * (vals[f["lref"]] if "lref" in f else f["len"])
    if t == "bits":
        k = (id(f), tuple([vals[p[0]] for p in f["parts"] if p[0] is not None and p[2] is None]))
        b = _memo.get(k)
        if b is None:
            b = _memo[k] = r_bits_enc(f, vals)
        return b
    if t == "env":
        b = r_pack(f["fields"], vals[f["n"]])
        if f.get("len") and len(b) != f["len"]:
            raise RefErr("envlen")
        return b
    if t == "seq":
        return b"".join(r_pack(f["item"], e) for e in vals[f["n"]])
    raise HarnessError("field type %r" % t)


def r_pack(descs, vals):
    out = []
    for f in descs:
        if "opt" in f and not vals[f["opt"]]:
            continue
        out.append(r_pack_field(descs, f, vals))
    return b"".join(out)


def r_unpack(descs, data, check_len):
    """-> (vals, consumed); raises RefErr('short' | 'tail' | 'fixed')"""
    vals = {}
    off = 0
    for f in descs:
        if "opt" in f and not vals[f["opt"]]:
            continue
        rest = len(data) - off
        t = f["t"]
        if t == "bits":
            n = bits_len(f)
        elif "lref" in f:
            n = vals[f["lref"]]
        elif f.get("len"):
            n = f["len"]
        else:
            n = rest
        if n > rest:
            raise RefErr("short")
        chunk = data[off:off + n]
        off += n
        if t == "int":
            k = (id(f), chunk)
            v = _memo.get(k)
            if v is None:
                v = _memo[k] = r_int_dec(f, chunk)
            vals[f["n"]] = v
        elif t == "buf":
            vals[f["n"]] = bytes(chunk)
        elif t == "bits":
            k = (id(f), chunk)
            v = _memo.get(k)
            if v is None:
                v = {}
                r_bits_dec(f, chunk, v)            # raises RefErr on a fixed-value mismatch (not memoised)
                _memo[k] = v
            vals.update(v)
        elif t == "env":
            vals[f["n"]] = r_unpack(f["fields"], chunk, True)[0]
        elif t == "seq":
            items, o = [], 0
            while o < len(chunk):
                iv, used = r_unpack(f["item"], chunk[o:], False)
                if used == 0:
                    raise HarnessError("zero-length sequence item")
                items.append(iv)
                o += used
            vals[f["n"]] = items
    if check_len and off != len(data):
        raise RefErr("tail")
    return vals, off


def segments(descs, vals):
    """[(field description, reference octets)] of the top level, for attributing a difference"""
    out = []
    for f in descs:
        if "opt" in f and not vals[f["opt"]]:
            continue
        out.append((f, r_pack_field(descs, f, vals)))
    return out


# ---------------------------------------------------------------------------
# description -> codec objects

def make_env_class(descs, shared=None):
    """shared: {share key -> Envelope instance}; nested envelope fields carrying the same "share" key are built
    from ONE Envelope object (inner.f(name1), inner.f(name2)), at whatever level they occur"""
    C = env()["codec"]
    objs, fields = {}, []
    if shared is None:
        shared = {}
    for i, f in enumerate(descs):
        t = f["t"]
        if t == "int":
            o = getattr(C, f["cls"])(f["n"], **f.get("kw", {}))
        elif t == "buf":
            o = C.Buf(f["n"], len=f["len"]) if f.get("len") else C.Buf(f["n"])
        elif t == "spare":
            kw = {"filler": bytes([f["fill"]])} if "fill" in f else {}
            if f.get("len"):
                kw["len"] = f["len"]
            o = C.Spare(f["n"], **kw)               # without len: length from the get_len callback set below
        elif t == "bits":
            kw = {}
            if f.get("len"):
                kw["len"] = f["len"]
            if f.get("order"):
                kw["order"] = f["order"]
            parts = []
            for name, bl, fixed in f["parts"]:
                if name is None:
                    parts.append(C.BitField.Spare(bl))
                elif fixed is None:
                    parts.append(C.BitField(name, bl))
                else:
                    parts.append(C.BitField(name, bl, val=fixed))
            o = C.BitFieldSet(set=tuple(parts), **kw)
        elif t == "env":
            if f.get("share") in shared:
                inner = shared[f["share"]]
            else:
                inner = make_env_class(f["fields"], shared)()
                if "share" in f:
                    shared[f["share"]] = inner
            o = inner.f(f["n"], len=f["len"]) if f.get("len") else inner.f(f["n"])
        elif t == "seq":
            o = C.Sequence(item=make_env_class(f["item"], shared)()).f(f["n"])
        else:
            raise HarnessError("field type %r" % t)
        if "lref" in f:
            o.get_len = (lambda v, _d, k=f["lref"]: v[k])
        if "opt" in f:
            o.get_pres = (lambda v, k=f["opt"]: bool(v[k]))
        objs[f.get("n", i)] = o
        fields.append(o)
    for f in descs:
        if "derive" in f:
            kind, tgt = f["derive"]
            if kind == "len":
                objs[f["n"]].get_val = (lambda v, k=tgt: len(v[k]))
            else:
                objs[f["n"]].get_val = (lambda v, fo=objs[tgt]: len(fo.to_bytes(v)))
    return type("GenEnvelope", (C.Envelope,), {"STRUCT": tuple(fields)})


# ---------------------------------------------------------------------------
# atoms of the grammar

#        name      class       len bo        signed off mul constructor kw
INTS = {
    "U8": ("Uint", 1, "big", False, 0, 1, {}),
    "U16BE": ("Uint16BE", 2, "big", False, 0, 1, {}),
    "U16LE": ("Uint16LE", 2, "little", False, 0, 1, {}),
    "U32BE": ("Uint32BE", 4, "big", False, 0, 1, {}),
    "U32LE": ("Uint32LE", 4, "little", False, 0, 1, {}),
    "I8": ("Int", 1, "big", True, 0, 1, {}),
    "I16BE": ("Int16BE", 2, "big", True, 0, 1, {}),
    "I16LE": ("Int16LE", 2, "little", True, 0, 1, {}),
    "I32BE": ("Int32BE", 4, "big", True, 0, 1, {}),
    "I32LE": ("Int32LE", 4, "little", True, 0, 1, {}),
    "U24": ("Uint", 3, "big", False, 0, 1, {"len": 3}),
    "I40": ("Int", 5, "big", True, 0, 1, {"len": 5}),
    "U64": ("Uint", 8, "big", False, 0, 1, {"len": 8}),
    "U8om": ("Uint", 1, "big", False, 7, 4, {"offset": 7, "mult": 4}),
    "I8neg": ("Int", 1, "big", True, 0, -1, {"mult": -1}),
    "U16LEom": ("Uint16LE", 2, "little", False, -100, 3, {"offset": -100, "mult": 3}),
    "U8neg": ("Uint", 1, "big", False, 0, -1, {"mult": -1}),
}
ENV_INTS = ["U8", "U16BE", "U16LE", "U32BE", "U32LE", "I8", "I16BE", "I16LE", "I32BE", "I32LE", "U24", "I40", "U64",
            "U8om", "I8neg"]
ENV_ATOMS = ENV_INTS + ["B1", "B4", "S1", "S3", "SpareL", "BufL", "BufFlex", "FLG", "OptU16", "OptB2", "OptBFS", "OptBFS16L",
                        "OptS2", "OptNEST", "OptSEQ", "OptLV", "BFS16L", "BFS24P", "NEST", "NESTF", "SEQ"]
TRAILING_ONLY = ("BufFlex", "NESTF", "SEQ", "OptSEQ")


def int_desc(kind, name):
    cls, ln, bo, sg, off, mul, kw = INTS[kind]
    return {"t": "int", "n": name, "cls": cls, "len": ln, "bo": bo, "sg": sg, "off": off, "mul": mul, "kw": dict(kw),
            "kind": kind}


def atom(kind, i, st):
    """field description(s) of atom `kind` at position i; st tracks what later atoms may refer to.
    None if the atom cannot stand here (the definition would not be well-formed)."""
    n = "f%d" % i
    if kind in INTS:
        d = int_desc(kind, n)
        if kind == "U8":
            st["u8"].append(d)
        return [d]
    if kind == "B1":
        return [{"t": "buf", "n": n, "len": 1, "kind": kind}]
    if kind == "B4":
        return [{"t": "buf", "n": n, "len": 4, "kind": kind}]
    if kind == "S1":
        return [{"t": "spare", "n": n, "len": 1, "kind": kind}]
    if kind == "S3":
        return [{"t": "spare", "n": n, "len": 3, "fill": 0xaa, "kind": kind}]
    if kind == "SpareL":
        # variable-length padding: 0..4 filler octets, the length is the value of an earlier Uint8
        if not st["u8"]:
            return None
        ld = st["u8"].pop()
        ld["vals"] = [0, 1, 2, 3, 4]
        ld["kind"] = "U8(padlen)"
        return [{"t": "spare", "n": n, "lref": ld["n"], "fill": 0x2b, "kind": kind}]
    if kind == "BufL":
        if not st["u8"]:
            return None
        ld = st["u8"].pop()
        ld["derive"] = ["len", n]
        ld["kind"] = "U8(length)"
        return [{"t": "buf", "n": n, "lref": ld["n"], "kind": kind}]
    if kind == "BufFlex":
        return [{"t": "buf", "n": n, "len": 0, "kind": kind}]
    if kind == "FLG":
        st["flag"] = "g%d" % i
        return [{"t": "bits", "parts": [["g%d" % i, 1, None], [None, 3, None], ["v%d" % i, 4, None]], "kind": kind}]
    if kind == "OptU16":
        if not st.get("flag"):
            return None
        d = int_desc("U16BE", n)
        d.update(opt=st["flag"], kind=kind)
        return [d]
    if kind == "OptB2":
        if not st.get("flag"):
            return None
        return [{"t": "buf", "n": n, "len": 2, "opt": st["flag"], "kind": kind}]
    if kind == "OptLV":
        # a length field and the buffer it drives, BOTH optional behind the same flag
        if not st.get("flag"):
            return None
        ld = int_desc("U8", "l%d" % i)
        ld.update(opt=st["flag"], derive=["len", n], kind="OptLV(length)")
        return [ld, {"t": "buf", "n": n, "lref": ld["n"], "opt": st["flag"], "kind": kind}]
    # every field class also occurs with a presence callback (keyed on the nearest earlier flag)
    if kind in ("OptBFS", "OptBFS16L", "OptS2", "OptNEST", "OptSEQ"):
        if not st.get("flag"):
            return None
        if kind == "OptBFS":
            d = {"t": "bits", "parts": [["a%d" % i, 3, None], ["b%d" % i, 5, None]]}
        elif kind == "OptBFS16L":
            d = {"t": "bits", "order": "lsb", "parts": [["a%d" % i, 6, None], [None, 2, None], ["c%d" % i, 8, 0x5a]]}
        elif kind == "OptS2":
            d = {"t": "spare", "n": n, "len": 2, "fill": 0x77}
        elif kind == "OptNEST":
            d = {"t": "env", "n": n, "len": 3, "fields": [int_desc("U8", "x"), int_desc("I16LE", "y")]}
        else:
            d = {"t": "seq", "n": n, "len": 0, "item": [int_desc("U8", "t"), int_desc("U16BE", "u")]}
        d.update(opt=st["flag"], kind=kind)
        return [d]
    if kind == "BFS16L":
        return [{"t": "bits", "order": "lsb", "kind": kind,
                 "parts": [["a%d" % i, 3, None], ["b%d" % i, 9, None], ["c%d" % i, 4, 0b1010]]}]
    if kind == "BFS24P":
        return [{"t": "bits", "len": 3, "order": "msb", "kind": kind, "parts": [["a%d" % i, 5, None], ["b%d" % i, 6, None]]}]
    if kind == "BFS8":
        return [{"t": "bits", "kind": kind, "parts": [["a%d" % i, 4, None], ["b%d" % i, 4, None]]}]
    if kind == "NEST":
        return [{"t": "env", "n": n, "len": 3, "kind": kind, "fields": [int_desc("U8", "x"), int_desc("I16LE", "y")]}]
    if kind == "NESTF":
        return [{"t": "env", "n": n, "len": 0, "kind": kind,
                 "fields": [int_desc("U8", "x"), {"t": "buf", "n": "y", "len": 0, "kind": "BufFlex"}]}]
    if kind == "SEQ":
        return [{"t": "seq", "n": n, "len": 0, "kind": kind, "item": [int_desc("U8", "t"), int_desc("U16BE", "u")]}]
    raise HarnessError("atom %r" % kind)


def env_desc(kinds):
    st = {"u8": [], "flag": None}
    descs = []
    for i, k in enumerate(kinds):
        if k in TRAILING_ONLY and i != len(kinds) - 1:
            return None
        a = atom(k, i, st)
        if a is None:
            return None
        descs += a
    return descs


def compositions(total, maxparts):
    def rec(rem, k):
        if rem == 0:
            yield []
            return
        if k == 0:
            return
        for first in range(1, rem + 1):
            for rest in rec(rem - first, k - 1):
                yield [first] + rest
    return list(rec(total, maxparts))


def pattern(bits):
    return 0xa5a5a5a5a5a5a5a5a5 & ((1 << bits) - 1)


def bfs_desc(prog):
    _, total, widths, order, variant, vi = prog
    parts = [["p%d" % i, w, None] for i, w in enumerate(widths)]
    d = {"t": "bits", "order": order, "parts": parts, "kind": "bits%d:%s:%s" % (total, order, variant)}
    if variant == "spare":
        parts[vi][0] = None
    elif variant == "fixed":
        parts[vi][2] = pattern(widths[vi]) | (1 if widths[vi] == 1 else 0)
    elif variant == "fixed0":
        parts[vi][2] = 0
    elif variant == "pad":
        d["len"] = total // 8 + 1
    elif variant == "droplast":
        parts.pop()
    elif variant != "plain":
        raise HarnessError("bfs variant %r" % variant)
    if order == "default":
        del d["order"]
    # the neighbours keep one value in the product (0xa5 / 0xa5a5: a 1 and a 0 next to the set on either side is
    # covered by the two bit orders); the over-wide cases run with all-zero and all-one neighbours as well
    return [dict(int_desc("U8", "pre"), hold=True), d, dict(int_desc("U16BE", "post"), hold=True)]


NEST_MENU = ["U8", "U16LE", "I8neg", "B1", "BFS8"]


def nest_desc(prog):
    """['nest', [[pre, mode, post], ...outer to inner...], [a, b]]"""
    _, levels, (a, b) = prog
    st = {"u8": [], "flag": None}
    if not nest_ok(prog):
        return None
    inner = atom(a, 90, st)
    if b is not None:
        inner += atom(b, 91, st)
    for depth, (pre, mode, post) in reversed(list(enumerate(levels))):
        st = {"u8": [], "flag": None}
        i0 = depth * 10
        fields = atom(pre, i0, st)
        nd = {"t": "env", "n": "n%d" % depth, "fields": inner, "kind": "nested:" + mode}
        if mode == "fix":
            nd["len"] = len(r_pack(inner, pattern_vals(inner)))
        elif mode == "ref":
            ld = int_desc("U8", "l%d" % depth)
            ld["derive"] = ["enclen", nd["n"]]
            ld["kind"] = "U8(length)"
            fields.append(ld)
            nd["lref"] = ld["n"]
            nd["len"] = 0
        elif mode == "flex":
            nd["len"] = 0
        else:
            raise HarnessError("nest mode %r" % mode)
        fields.append(nd)
        if post is not None:
            fields += atom(post, i0 + 2, st)
        inner = fields
    return inner


def seq_desc(prog):
    """['seq', pre, mode, [k1, k2] | 'TLV']"""
    _, pre, mode, item = prog
    st = {"u8": [], "flag": None}
    if item == "TLV":
        ist = {"u8": [], "flag": None}
        it = atom("U8", 50, ist) + atom("U8", 51, ist) + atom("BufL", 52, ist)
    else:
        ist = {"u8": [], "flag": None}
        it = atom(item[0], 50, ist) + atom(item[1], 51, ist)
    fields = atom(pre, 0, st) if pre else []
    sd = {"t": "seq", "n": "s", "len": 0, "item": it, "kind": "sequence:" + mode, "_full": True}
    if mode == "ref":
        ld = int_desc("U16BE", "l")            # up to 3 x 257 octets of elements
        ld["derive"] = ["enclen", "s"]
        ld["kind"] = "U16BE(length)"
        fields.append(ld)
        sd["lref"] = "l"
        fields.append(sd)
        fields += atom("U16BE", 2, st)
    else:
        fields.append(sd)
    return fields


ALIAS_PROGRAMS = ["two-fields", "three-fields", "two-fields-flex", "seq-item-shared", "nested-shared",
                  "seq-nested-ref", "seq-nested-fix", "seq-in-shared",
                  # an optional bit-field set inside a nested envelope / inside a sequence item
                  "opt-bits-nested-flex", "opt-bits-nested-ref", "opt-bits-seq-item",
                  # an optional length field + the optional buffer it drives, one and two nesting levels down
                  "opt-lv-nested-flex", "opt-lv-nested-ref", "opt-lv-seq-item", "opt-lv-nested2"]


def alias_desc(prog):
    """definitions in which one Envelope object serves several fields / several sequence elements"""
    name = prog[1]

    def inner():
        return [int_desc("U8", "x"), int_desc("I16LE", "y")]

    def nest(n, share="S", ln=3, fields=None):
        return {"t": "env", "n": n, "len": ln, "fields": fields or inner(), "share": share, "kind": "shared-envelope"}
    if name == "two-fields":
        return [nest("a"), int_desc("U8", "m"), nest("b")]
    if name == "three-fields":
        return [nest("a"), nest("b"), nest("c")]
    if name == "two-fields-flex":
        return [nest("a"), nest("b", ln=0)]
    if name == "seq-item-shared":
        return [int_desc("U8", "pre"),
                {"t": "seq", "n": "s", "len": 0, "item": [nest("p"), nest("q")], "kind": "sequence-of-shared", "_full": True}]
    if name == "nested-shared":
        def mid():
            return [int_desc("U8", "h"), nest("i"), nest("j")]
        return [nest("o1", "T", 7, mid()), nest("o2", "T", 7, mid())]
    if name == "seq-nested-ref":
        ld = int_desc("U8", "l")
        ld["derive"] = ["enclen", "n"]
        ld["kind"] = "U8(length)"
        nd = {"t": "env", "n": "n", "len": 0, "lref": "l", "kind": "nested-in-sequence",
              "fields": [int_desc("U8", "x"), {"t": "buf", "n": "y", "len": 0, "kind": "BufFlex"}]}
        return [{"t": "seq", "n": "s", "len": 0, "item": [ld, nd], "kind": "sequence-of-nested", "_full": True}]
    if name == "seq-nested-fix":
        nd = {"t": "env", "n": "n", "len": 3, "fields": inner(), "kind": "nested-in-sequence"}
        return [{"t": "seq", "n": "s", "len": 0, "item": [int_desc("U8", "t"), nd], "kind": "sequence-of-nested",
                 "_full": True}]
    if name == "seq-in-shared":
        def holder():
            return [int_desc("U8", "c"),
                    {"t": "seq", "n": "s", "len": 0, "kind": "sequence-in-shared", "item": [int_desc("U8", "t"),
                                                                                         int_desc("U16BE", "u")]}]
        ld = int_desc("U8", "l")
        ld["derive"] = ["enclen", "a"]
        ld["kind"] = "U8(length)"
        return [ld, {"t": "env", "n": "a", "len": 0, "lref": "l", "fields": holder(), "share": "H",
                     "kind": "shared-envelope"},
                {"t": "env", "n": "b", "len": 0, "fields": holder(), "share": "H", "kind": "shared-envelope"}]
    if name.startswith("opt-bits"):
        def flagged(i):
            return [{"t": "bits", "parts": [["g%d" % i, 1, None], [None, 2, None], ["v%d" % i, 5, None]], "kind": "FLG"},
                    {"t": "bits", "order": "lsb", "parts": [["a%d" % i, 3, None], ["b%d" % i, 5, None]], "opt": "g%d" % i,
                     "kind": "OptBFS(nested)"}]
        if name == "opt-bits-nested-flex":
            return [int_desc("U8", "pre"), {"t": "env", "n": "n", "len": 0, "fields": flagged(1) + [int_desc("U8", "z")],
                                           "kind": "nested:flex"}]
        if name == "opt-bits-nested-ref":
            ld = int_desc("U8", "l")
            ld["derive"] = ["enclen", "n"]
            ld["kind"] = "U8(length)"
            return [ld, {"t": "env", "n": "n", "len": 0, "lref": "l", "fields": flagged(1), "kind": "nested:ref"},
                    int_desc("U16BE", "post")]
        if name == "opt-bits-seq-item":
            return [int_desc("U8", "pre"), {"t": "seq", "n": "s", "len": 0, "item": flagged(2), "kind": "sequence-of-optional",
                                           "_full": True}]
    if name.startswith("opt-lv"):
        def flagged_lv(i):
            ld = int_desc("U8", "l%d" % i)
            ld.update(opt="g%d" % i, derive=["len", "d%d" % i], kind="OptLV(length)")
            return [{"t": "bits", "parts": [["g%d" % i, 1, None], [None, 2, None], ["v%d" % i, 5, None]], "kind": "FLG"},
                    ld, {"t": "buf", "n": "d%d" % i, "lref": "l%d" % i, "opt": "g%d" % i, "kind": "OptLV(nested)"}]
        if name == "opt-lv-nested-flex":
            return [int_desc("U8", "pre"), {"t": "env", "n": "n", "len": 0, "fields": flagged_lv(1) + [int_desc("U8", "z")],
                                           "kind": "nested:flex"}]
        if name == "opt-lv-nested-ref":
            ld = int_desc("U16BE", "l")
            ld["derive"] = ["enclen", "n"]
            ld["kind"] = "U16BE(length)"
            return [ld, {"t": "env", "n": "n", "len": 0, "lref": "l", "fields": flagged_lv(1), "kind": "nested:ref"},
                    int_desc("U16BE", "post")]
        if name == "opt-lv-seq-item":
            return [int_desc("U8", "pre"), {"t": "seq", "n": "s", "len": 0, "item": flagged_lv(2), "kind": "sequence-of-optional",
                                           "_full": True}]
        if name == "opt-lv-nested2":
            inner = {"t": "env", "n": "m", "len": 0, "fields": flagged_lv(3), "kind": "nested:flex"}
            return [int_desc("U8", "pre"), {"t": "env", "n": "n", "len": 0, "fields": [int_desc("U8", "h"), inner],
                                           "kind": "nested:flex"}]
    raise HarnessError("alias program %r" % (prog,))


def make_desc(prog):
    if prog[0] == "alias":
        return alias_desc(prog)
    if prog[0] == "env":
        return env_desc(prog[1])
    if prog[0] == "bfs":
        return bfs_desc(prog)
    if prog[0] == "nest":
        return nest_desc(prog)
    if prog[0] == "seq":
        return seq_desc(prog)
    raise HarnessError("program %r" % (prog,))


# ---------------------------------------------------------------------------
# boundary sets

def uniq(xs):
    out = []
    for x in xs:
        if x not in out:
            out.append(x)
    return out


def int_values(f, size):
    if "vals" in f:
        v = f["vals"]
        return list(v) if size == 5 else ([v[0], v[len(v) // 2], v[-1]] if size == 3 else [v[0], v[-1]])
    lo, hi = int_range(f)
    p = pattern(8 * f["len"])
    if f["sg"] and p > hi:
        p -= 1 << (8 * f["len"])
    raws = [lo, lo + 1, p, hi - 1, hi] if size == 5 else ([lo, p, hi] if size == 3 else [lo, hi])
    return uniq([q * f["mul"] + f["off"] for q in raws])


def buf_values(f, size):
    n = f.get("len", 0)
    if "lref" in f:
        lens = [0, 1, 3, 254, 255] if size == 5 else ([0, 3, 255] if size == 3 else [0, 255])
        return [bytes((i * 7 + ln) & 0xff for i in range(ln)) for ln in lens]
    if n:
        pat = bytes((0xa5, 0x5a, 0xc3, 0x3c)[i % 4] for i in range(n))
        lo, lo1 = bytes(n), bytes(n - 1) + b"\x01"
        hi, hi1 = b"\xff" * n, b"\xff" * (n - 1) + b"\xfe"
        return uniq([lo, lo1, pat, hi1, hi] if size == 5 else ([lo, pat, hi] if size == 3 else [lo, hi]))
    vs = [b"", b"\x00", b"\xa5\x5a\xc3", b"\xff\xff", bytes(range(1, 8))]
    return vs if size == 5 else ([b"", b"\xa5\x5a\xc3", b"\xff\xff"] if size == 3 else [b"", b"\xff\xff"])


def part_values(bl, size):
    hi = (1 << bl) - 1
    return uniq([0, 1, pattern(bl), hi - 1, hi] if size == 5 else ([0, pattern(bl), hi] if size == 3 else [0, hi]))


def seq_values(f, size):
    """element lists with 0..3 elements"""
    a5 = list(assignments(f["item"], 5))
    a3 = list(assignments(f["item"], 3))
    a2 = list(assignments(f["item"], 2))
    if f.get("_full"):
        # seq programs: no element; one element x every item assignment (5-value sets); two elements over the
        # 3-value item assignments (over the 2-value ones when there are more than 9); three elements over the
        # 2-value item assignments (over {first, last} of them when there are more than 4)
        pairs = a3 if len(a3) <= 9 else a2
        triples = a2 if len(a2) <= 4 else [a2[0], a2[-1]]
        out = [[]] + [[e] for e in a5] + [[x, y] for x in pairs for y in pairs]
        out += [[x, y, z] for x in triples for y in triples for z in triples]
        return out
    emin, epat, emax = a3[0], a3[len(a3) // 2], a3[-1]
    vs = [[], [emin], [epat], [epat, emax], [emax, emin, epat]]           # shortest first, longest last
    return vs if size == 5 else ([[], [epat, emax], [emax, emin, epat]] if size == 3 else [[], [emax, emin, epat]])


def slots(descs, size, prefix=(), inherited=None):
    """[(path, values, opt flag path or None)] - one slot per value the caller supplies; the values inside an
    optional nested envelope depend on that envelope's flag"""
    out = []
    for f in descs:
        t = f["t"]
        opt = prefix + (f["opt"],) if "opt" in f else inherited
        if t == "int":
            if f.get("hold"):
                out.append((prefix + (f["n"],), [pattern(8 * f["len"])], opt))
            elif "derive" not in f:
                out.append((prefix + (f["n"],), int_values(f, size), opt))
        elif t == "buf":
            out.append((prefix + (f["n"],), buf_values(f, size), opt))
        elif t == "bits":
            for name, bl, fixed in f["parts"]:
                if name is not None and fixed is None:
                    out.append((prefix + (name,), part_values(bl, size), opt))
        elif t == "env":
            out += slots(f["fields"], size, prefix + (f["n"],), opt)
        elif t == "seq":
            out.append((prefix + (f["n"],), seq_values(f, size), opt))
    return out


def prune_absent(descs, vals):
    """remove what an absent optional field would hold (nested envelopes: the whole sub-dict)"""
    for f in descs:
        if "opt" in f and not vals.get(f["opt"]):
            if f["t"] == "bits":
                for name, bl, fixed in f["parts"]:
                    vals.pop(name, None)
            elif "n" in f:
                vals.pop(f["n"], None)
        elif f["t"] == "env" and isinstance(vals.get(f["n"]), dict):
            prune_absent(f["fields"], vals[f["n"]])
    return vals


def set_path(vals, path, v):
    d = vals
    for k in path[:-1]:
        d = d.setdefault(k, {})
    d[path[-1]] = v


def get_path(vals, path):
    d = vals
    for k in path:
        d = d[k]
    return d


def del_path(vals, path):
    d = vals
    for k in path[:-1]:
        d = d[k]
    d.pop(path[-1], None)


def skeleton(descs):
    """nested dicts for nested envelopes without any slot of their own"""
    v = {}
    for f in descs:
        if f["t"] == "env":
            v[f["n"]] = skeleton(f["fields"])
    return v


def assignments(descs, size):
    sl = slots(descs, size)
    for combo in itertools.product(*[range(len(s[1])) for s in sl]):
        vals = skeleton(descs)
        skip = False
        for (path, values, opt), ci in zip(sl, combo):
            set_path(vals, path, values[ci])
        for (path, values, opt), ci in zip(sl, combo):
            if opt is not None and not get_path(vals, opt):
                if ci != 0:
                    skip = True          # an absent field has no value: one representative only
                    break
                del_path(vals, path)
        if not skip:
            yield prune_absent(descs, vals)


def diagonal(descs, size=5):
    """size assignments in which every field walks through its boundary set"""
    sl = slots(descs, size)
    out = []
    for i in range(size):
        vals = skeleton(descs)
        for path, values, opt in sl:
            set_path(vals, path, values[i % len(values)])
        for path, values, opt in sl:
            if opt is not None and not get_path(vals, opt):
                del_path(vals, path)
        prune_absent(descs, vals)
        if vals not in out:
            out.append(vals)
    return out


def pattern_vals(descs):
    sl = slots(descs, 3)
    vals = skeleton(descs)
    for path, values, opt in sl:
        set_path(vals, path, values[len(values) // 2])
    # flags on: optional fields present in the pattern assignment
    for path, values, opt in sl:
        if opt is not None:
            set_path(vals, opt, 1)
    return vals


def deep_copy(v):
    if isinstance(v, dict):
        return {k: deep_copy(x) for k, x in v.items()}
    if isinstance(v, list):
        return [deep_copy(x) for x in v]
    return v


def driving_slots(descs, prefix=()):
    """paths of the values that decide a length or a presence: a length field read by a callback, a buffer whose
    length goes into a derived length field, a presence flag, a flexible buffer, a sequence"""
    refs = set(f["lref"] for f in descs if "lref" in f) | set(f["opt"] for f in descs if "opt" in f)
    out = []
    for f in descs:
        t = f["t"]
        if t == "int" and f["n"] in refs and "derive" not in f:
            out.append(prefix + (f["n"],))
        elif t == "buf" and ("lref" in f or not f.get("len")):
            out.append(prefix + (f["n"],))
        elif t == "bits":
            out += [prefix + (p[0],) for p in f["parts"] if p[0] in refs]
        elif t == "seq":
            out.append(prefix + (f["n"],))
        elif t == "env":
            out += driving_slots(f["fields"], prefix + (f["n"],))
    return out


def extreme_assignments(descs, limit):
    """[] when nothing in the definition has a variable length / presence; otherwise up to `limit` assignments:
    every driving value smallest, every driving value largest, then one of them largest at a time; all other
    fields hold their pattern value"""
    drv = driving_slots(descs)
    if not drv:
        return []
    sl = slots(descs, 5)
    byp = {path: (values, opt) for path, values, opt in sl}
    drv = [p for p in drv if p in byp]

    def build(maxed):
        vals = skeleton(descs)
        for path, values, opt in sl:
            if path in drv:
                set_path(vals, path, values[-1] if path in maxed else values[0])
            else:
                set_path(vals, path, values[len(values) // 2])
        for path, values, opt in sl:
            if opt is not None and not get_path(vals, opt):
                del_path(vals, path)
        return prune_absent(descs, vals)
    out = []
    for maxed in [()] + [tuple(drv)] + [(p,) for p in drv]:
        v = build(maxed)
        if v not in out:
            out.append(v)
    return out[:limit]


def foreign_buffer(v, path=""):
    """(path, type name) of the first decoded leaf that is neither an int nor a bytes / bytearray object"""
    if isinstance(v, dict):
        for k, x in v.items():
            r = foreign_buffer(x, "%s/%s" % (path, k))
            if r:
                return r
    elif isinstance(v, list):
        for i, x in enumerate(v[:8]):
            r = foreign_buffer(x, "%s/%d" % (path, i))
            if r:
                return r
    elif type(v) not in (int, bytes, bytearray):
        return (path, type(v).__name__)
    return None


def freeze(v):
    """deep copy with every buffer turned into bytes (a view into somebody else's memory is read NOW)"""
    if isinstance(v, dict):
        return {k: freeze(x) for k, x in v.items()}
    if isinstance(v, list):
        return [freeze(x) for x in v]
    if isinstance(v, int):
        return v
    return bytes(v)


def has_buf(descs):
    return any(f["t"] == "buf" or (f["t"] == "env" and has_buf(f["fields"])) or (f["t"] == "seq" and has_buf(f["item"]))
               for f in descs)


def has_nested(descs):
    return any(f["t"] in ("env", "seq") for f in descs)


def shared_object(v):
    """(type name, paths) if one dict / list object occurs twice inside the decoded content, else None"""
    seen = {}

    def walk(x, path):
        if isinstance(x, (dict, list)):
            if id(x) in seen:
                return (type(x).__name__, "%s and %s" % (seen[id(x)], path))
            seen[id(x)] = path
            it = x.items() if isinstance(x, dict) else enumerate(x)
            for k, y in it:
                r = walk(y, "%s/%s" % (path, k))
                if r:
                    return r
        return None
    return walk(v, "")


def subset(a, b):
    """every value the caller supplied comes back"""
    if isinstance(a, dict):
        return isinstance(b, dict) and all(k in b and subset(x, b[k]) for k, x in a.items())
    if isinstance(a, list):
        return isinstance(b, list) and len(a) == len(b) and all(subset(x, y) for x, y in zip(a, b))
    return a == b


# ---------------------------------------------------------------------------
# judging one program

PROG_LIMIT = 20
PROG_SEEN = 2000
CHUNK_LIMIT = 60


class StopProg(Exception):
    pass


def runaway(c, nbytes):
    """a decoded list that cannot have come from nbytes octets (every sequence element takes at least one)"""
    if isinstance(c, dict):
        return any(runaway(x, nbytes) for x in c.values())
    if isinstance(c, list):
        return len(c) > nbytes or any(runaway(x, nbytes) for x in c[:8])
    return False


class Judge:
    def __init__(self, prog, size, ndiag=5):
        self.prog = prog
        self.size = size
        self.ndiag = ndiag
        self.nextreme = 4 if ndiag <= 3 else 6
        self.out = []
        self.seen = 0
        self.perkey = {}
        self.cov = {"programs": 1, "assignments": 0, "error_cases": 0, "truncations": 0, "trailing": 0,
                    "illegal_values": 0, "fixed_flips": 0, "noncanonical": 0, "overwide": 0, "evaluations": 0,
                    "octets_encoded": 0, "valid_prefixes": 0, "length_lies": 0, "history_pairs": 0, "history_pairs_ordered": 0,
                    "programs_order_complete": 0, "programs_cut_short": 0}
        self.case = {"prog": prog, "size": size, "ndiag": ndiag}

    def viol(self, law, kind, msg):
        """<= 3 instances per key; the program is abandoned after PROG_LIMIT recorded / PROG_SEEN seen violations
        (nothing is gained by enumerating on, and the code under test may be running away)"""
        key = "C16:%s:%s" % (law, kind)
        self.seen += 1
        n = self.perkey.get(key, 0)
        if n < 3:
            self.perkey[key] = n + 1
            if len(msg) > 1500:
                msg = msg[:1500] + " ... (%d characters)" % len(msg)
            self.out.append((key, self.case, "%s: %s" % (self.prog_name(), msg)))
        if len(self.out) >= PROG_LIMIT or self.seen >= PROG_SEEN:
            raise StopProg()

    def prog_name(self):
        return "definition %s" % (self.prog,)

    def run(self):
        try:
            return self.run_all()
        except StopProg:
            self.cov["programs_cut_short"] = 1
            return self

    def run_all(self):
        _memo.clear()
        descs = make_desc(self.prog)
        if descs is None:
            raise HarnessError("ill-formed program generated: %r" % (self.prog,))
        self.descs = descs
        self.nested = has_nested(descs)
        self.has_buf = has_buf(descs)
        self.struct_kind = "flat" if not self.nested else (self.prog[1] if self.prog[0] == "alias" else self.prog[0])
        C = env()["codec"]
        cls = make_env_class(descs)
        self.E = cls()
        self.E0 = cls(check_len=False)
        self.DecodeError, self.EncodeError = C.DecodeError, C.EncodeError
        for vals in assignments(descs, self.size):
            self.roundtrip(vals)
        diag = diagonal(descs)
        if self.ndiag < len(diag):
            diag = [diag[i] for i in sorted(set((0, len(diag) // 2, len(diag) - 1)))][:self.ndiag]
        for vals in diag:
            self.decode_faults(vals)
        pv = pattern_vals(descs)
        self.illegal_values(pv)
        self.bitfield_faults(pv)
        self.history(diag)
        return self

    def history(self, diag):
        """one definition object used repeatedly: what an earlier call returned must not change afterwards and a
        later call must not depend on an earlier one.
        decode b1, keep the values (the top-level dict is the envelope's own content and is cleared by design, so
        a shallow copy of it is kept: every nested dict / list / buffer in it is the object from_bytes() produced),
        decode b2, compare; the same for the octets returned by to_bytes().
        Every definition: consecutive diagonal assignments.  Definitions with a length / presence callback, a
        flexible part or a sequence: ALL ordered pairs (equal ones included) of a small assignment set holding the
        extreme lengths (everything shortest, everything longest, one part longest at a time)."""
        n = len(diag)
        for i in range(n if n > 2 else n - 1):
            v1, v2 = diag[i], diag[(i + 1) % n]
            if v1 != v2:
                self.history_pair(v1, v2, "history_pairs")
        small = extreme_assignments(self.descs, self.nextreme)
        if small:
            self.cov["programs_order_complete"] = 1
            for v1 in small:
                for v2 in small:
                    self.history_pair(v1, v2, "history_pairs_ordered")

    def history_pair(self, v1, v2, counter):
        E = self.E
        b1, b2 = r_pack(self.descs, v1), r_pack(self.descs, v2)
        self.cov[counter] += 1
        self.cov["evaluations"] += 1
        ok = True
        try:
            E.from_bytes(b1)
            kept = dict(E.c)
            snap = deep_copy(kept)
            E.from_bytes(b2)
            second = deep_copy(E.c)
        except Exception as ex:
            ok = False
            self.viol("aliasing:decode-history-raises-" + type(ex).__name__, self.struct_kind,
                      "from_bytes(%s) then from_bytes(%s) with the same definition raised %s"
                      % (b1.hex(), b2.hex(), root_cause(ex)))
        if ok:
            exp2 = r_unpack(self.descs, b2, True)[0]
            if kept != snap:
                self.viol("aliasing:decode-history", self.struct_kind,
                          "values decoded from %s changed from %r to %r when the same definition decoded %s"
                          % (b1.hex(), snap, kept, b2.hex()))
            elif second != exp2:
                self.viol("aliasing:decode-history-second", self.struct_kind,
                          "second decode with the same definition: from_bytes(%s) after from_bytes(%s) = %r, expected %r"
                          % (b2.hex(), b1.hex(), second, exp2))
            else:
                E.c = kept
                try:
                    again = bytes(E.to_bytes())
                except Exception as ex:
                    again = None
                    self.viol("aliasing:reencode-raises-" + type(ex).__name__, self.struct_kind, root_cause(ex))
                if again is not None and again != b1:
                    self.viol("aliasing:reencode-history", self.struct_kind,
                              "re-encoding the kept first result gives %s, expected %s" % (again.hex(), b1.hex()))
        # the caller's input buffer is reused: decode from a bytearray, keep the values, refill the bytearray in
        # place (next datagram, then zeros): the values must not change and must still re-encode to b1
        try:
            if not self.has_buf:
                raise StopIteration()            # no buffer-valued field: nothing could share memory with the input
            buf = bytearray(b1)
            E.from_bytes(buf)
            kept = dict(E.c)
            snap = freeze(kept)
            for fill in ((b2 + bytes(len(b1)))[:len(b1)], bytes(len(b1)), bytes(b ^ 0xff for b in b1)):
                buf[:] = fill
            changed = freeze(kept) != snap
            again = None
            if not changed:
                E.c = kept
                again = bytes(E.to_bytes())
        except StopIteration:
            pass
        except Exception as ex:
            self.viol("aliasing:input-buffer-raises-" + type(ex).__name__, self.struct_kind,
                      "from_bytes(bytearray %s), refill of the bytearray, re-encode: raised %s" % (b1.hex(), root_cause(ex)))
        else:
            if changed:
                self.viol("aliasing:input-buffer", self.struct_kind,
                          "values decoded from a bytearray holding %s changed from %r to %r when the caller refilled "
                          "that bytearray in place" % (b1.hex(), snap, freeze(kept)))
            elif again != b1:
                self.viol("aliasing:input-buffer-reencode", self.struct_kind,
                          "values decoded from a bytearray holding %s re-encode to %s after the bytearray was refilled"
                          % (b1.hex(), again.hex()))
        try:
            E.c = deep_copy(v1)
            o1 = E.to_bytes()
            c1 = bytes(o1)
            E.c = deep_copy(v2)
            o2 = E.to_bytes()
        except Exception as ex:
            self.viol("aliasing:encode-history-raises-" + type(ex).__name__, self.struct_kind,
                      "to_bytes(%r) then to_bytes(%r) with the same definition raised %s" % (v1, v2, root_cause(ex)))
            return
        if bytes(o1) != c1 or bytes(o2) != b2 or c1 != b1:
            self.viol("aliasing:encode-history", self.struct_kind,
                      "to_bytes(%r) then to_bytes(%r) with the same definition returned %s then %s (first one now %s), "
                      "canonical %s then %s" % (v1, v2, c1.hex(), bytes(o2).hex(), bytes(o1).hex(), b1.hex(), b2.hex()))

    # -- helpers ----------------------------------------------------------
    def culprit_enc(self, vals, got, exp):
        pos = 0
        i = next((i for i, (x, y) in enumerate(zip(got, exp)) if x != y), min(len(got), len(exp)))
        for f, seg in segments(self.descs, vals):
            if i < pos + len(seg):
                return f.get("kind", f["t"])
            pos += len(seg)
        return "length"

    def culprit_dec(self, exp, got):
        for f in self.descs:
            names = [p[0] for p in f["parts"] if p[0]] if f["t"] == "bits" else [f["n"]]
            for n in names:
                if (n in exp) != (n in got) or (n in exp and exp[n] != got[n]):
                    return f.get("kind", f["t"])
        return "extra-key"

    def field_at(self, vals, offset):
        pos = 0
        for f, seg in segments(self.descs, vals):
            if offset < pos + len(seg):
                return f.get("kind", f["t"])
            pos += len(seg)
        return "end"

    def decode(self, E, data):
        """-> ('ok', vals, consumed) | ('err',) | ('exc', name)"""
        try:
            n = E.from_bytes(data)
            if self.nested and runaway(E.c, len(data)):
                return ("exc", "runaway-result")          # never copied, compared or printed
            return ("ok", E.c, n)
        except self.DecodeError:
            return ("err",)
        except Exception as ex:
            return ("exc", type(ex).__name__)

    # -- laws -------------------------------------------------------------
    def roundtrip(self, vals):
        self.cov["assignments"] += 1
        self.cov["evaluations"] += 1
        try:
            ref = r_pack(self.descs, vals)
            exp, used = r_unpack(self.descs, ref, True)
        except RefErr as e:
            raise HarnessError("reference cannot handle its own assignment %r of %r: %s" % (vals, self.prog, e))
        if used != len(ref) or not subset(vals, exp):
            raise HarnessError("reference is not self-inverse on %r of %r" % (vals, self.prog))
        self.cov["octets_encoded"] += len(ref)
        E = self.E
        E.c = dict(vals)
        try:
            b = bytes(E.to_bytes())
        except Exception as ex:
            self.viol("encode-raises-" + type(ex).__name__, "any", "to_bytes() of in-range values %r raised %s"
                      % (vals, root_cause(ex)))
            return
        if b != ref:
            self.viol("encode-layout", self.culprit_enc(vals, b, ref),
                      "to_bytes(%r) = %s, reference %s" % (vals, b.hex(), ref.hex()))
        r = self.decode(E, ref)
        if r[0] != "ok":
            self.viol("decode-rejected" if r[0] == "err" else "decode-raises-" + r[1], "any",
                      "from_bytes(%s) failed, expected %r" % (ref.hex(), exp))
            return
        bad = foreign_buffer(r[1])
        if bad is not None:
            self.viol("aliasing:buffer-type", self.struct_kind,
                      "from_bytes(%s): the decoded value at %s is a %s, not a bytes / bytearray object of its own"
                      % (ref.hex(), bad[0], bad[1]))
        if self.nested:
            dup = shared_object(r[1])
            if dup is not None:
                self.viol("aliasing:shared-object", self.struct_kind,
                          "from_bytes(%s): the decoded content holds one %s object in two places (%s); content %r, "
                          "expected %r" % (ref.hex(), dup[0], dup[1], r[1], exp))
        if r[1] != exp:
            self.viol("decode-value", self.culprit_dec(exp, r[1]),
                      "from_bytes(%s) = %r, expected %r" % (ref.hex(), r[1], exp))
            return
        if r[2] != len(ref):
            self.viol("consumed", "check_len", "from_bytes() returned %r for %d octets" % (r[2], len(ref)))
        try:
            again = bytes(E.to_bytes())          # E.c is the decoded content
        except Exception as ex:
            self.viol("reencode-raises-" + type(ex).__name__, "any", "to_bytes() of the decoded content %r raised %s"
                      % (exp, root_cause(ex)))
            return
        if again != ref:
            self.viol("reencode", self.culprit_enc(vals, again, ref),
                      "to_bytes(from_bytes(%s)) = %s" % (ref.hex(), again.hex()))

    def compare_decode(self, E, check_len, data, law, kind):
        """decode `data` with the codec and the reference; they must agree"""
        self.cov["evaluations"] += 1
        try:
            exp = r_unpack(self.descs, data, check_len)
        except RefErr:
            exp = None
        r = self.decode(E, data)
        if r[0] == "exc":
            self.viol("%s:raises-%s" % (law, r[1]), kind, "from_bytes(%s) raised %s instead of DecodeError"
                      % (data.hex(), r[1]))
        elif exp is None and r[0] == "ok":
            self.viol("%s:accepted" % law, kind, "from_bytes(%s) returned %r (consumed %r); the definition does not "
                      "admit these octets" % (data.hex(), r[1], r[2]))
        elif exp is not None and r[0] == "err":
            self.viol("%s:rejected" % law, kind, "from_bytes(%s) raised DecodeError; the definition reads %r"
                      % (data.hex(), exp[0]))
        elif exp is not None:
            if r[1] != exp[0]:
                self.viol("%s:value" % law, kind, "from_bytes(%s) = %r, expected %r" % (data.hex(), r[1], exp[0]))
            elif r[2] != exp[1]:
                self.viol("%s:consumed" % law, kind, "from_bytes(%s) consumed %r octets, declared length %d"
                          % (data.hex(), r[2], exp[1]))
        return exp

    def decode_faults(self, vals):
        ref = r_pack(self.descs, vals)
        # every truncation (a prefix may be a valid shorter message when the definition ends in a flexible part)
        for cut in range(len(ref)):
            exp = self.compare_decode(self.E, True, ref[:cut], "truncation", self.field_at(vals, cut))
            self.cov["truncations"] += 1
            self.cov["error_cases" if exp is None else "valid_prefixes"] += 1
        # trailing octets: rejected when length checking is on, left alone (consumed = declared length) when off
        for tail in (b"\x00", b"\xa5\x5a\xc3"):
            exp = self.compare_decode(self.E, True, ref + tail, "trailing", "check_len=on")
            self.compare_decode(self.E0, False, ref + tail, "trailing", "check_len=off")
            self.cov["trailing"] += 2
            self.cov["error_cases"] += 1 if exp is None else 0
        self.compare_decode(self.E0, False, ref, "trailing", "check_len=off")
        # a length field that says one octet less / more than what follows (top level; whatever the reference
        # reads - an error, or the neighbouring octets shifted - the codec must read the same)
        pos = 0
        for f, seg in segments(self.descs, vals):
            if f["t"] == "int" and "derive" in f:
                cur = r_int_dec(f, seg)
                for lie in (cur - 1, cur + 1):
                    try:
                        enc = r_int_enc(f, lie)
                    except RefErr:
                        continue
                    self.cov["length_lies"] += 1
                    exp = self.compare_decode(self.E, True, ref[:pos] + enc + ref[pos + len(seg):], "length-field",
                                              f.get("kind", "int"))
                    self.cov["error_cases"] += 1 if exp is None else 0
            pos += len(seg)

    def int_slots(self, descs, prefix=()):
        for f in descs:
            if f["t"] == "int" and "derive" not in f:
                yield prefix + (f["n"],), f
            elif f["t"] == "buf" and f.get("len"):
                yield prefix + (f["n"],), f
            elif f["t"] == "env":
                yield from self.int_slots(f["fields"], prefix + (f["n"],))

    def illegal_values(self, pv):
        """one field at a time: min-1, max+1, a buffer one octet short / long -> EncodeError"""
        cands = []
        for path, f in self.int_slots(self.descs):
            if f["t"] == "int":
                lo, hi = int_range(f)
                bad = [(lo - 1) * f["mul"] + f["off"], (hi + 1) * f["mul"] + f["off"]]
            else:
                bad = [bytes(f["len"] - 1), bytes(f["len"] + 1)]
            cands += [(path, f, b) for b in bad]
        # sequence elements: illegal value in the first / last element
        for f in self.descs:
            if f["t"] == "seq":
                for ipath, fi in self.int_slots(f["item"]):
                    lo, hi = int_range(fi) if fi["t"] == "int" else (0, 0)
                    bad = ([(lo - 1) * fi["mul"] + fi["off"], (hi + 1) * fi["mul"] + fi["off"]] if fi["t"] == "int"
                           else [bytes(fi["len"] - 1), bytes(fi["len"] + 1)])
                    for b in bad:
                        cands.append(((f["n"], -1) + ipath, fi, b))
        for path, f, bad in cands:
            vals = deep_copy(pv)
            if len(path) > 1 and path[1] == -1:                     # inside the last element of a sequence
                if not vals[path[0]]:
                    vals[path[0]] = [pattern_vals(by_name(self.descs, path[0])["item"])]
                set_path(vals[path[0]][-1], path[2:], bad)
            else:
                set_path(vals, path, bad)
            self.cov["illegal_values"] += 1
            self.cov["error_cases"] += 1
            self.cov["evaluations"] += 1
            try:
                r_pack(self.descs, vals)
                raise HarnessError("reference accepts the illegal value %r in %r" % (bad, self.prog))
            except RefErr:
                pass
            self.E.c = vals
            kind = f.get("kind", f["t"])
            try:
                b = self.E.to_bytes()
                self.viol("illegal-value:accepted", kind, "to_bytes() encoded the out-of-range value %r of field %s as %s"
                          % (bad, "/".join(str(p) for p in path), bytes(b).hex()))
            except self.EncodeError:
                pass
            except Exception as ex:
                self.viol("illegal-value:raises-" + type(ex).__name__, kind,
                          "to_bytes() raised %s instead of EncodeError for value %r" % (type(ex).__name__, bad))

    def bits_fields(self, descs, prefix=()):
        off_fields = []
        for f in descs:
            if f["t"] == "bits":
                off_fields.append((prefix, f))
        return off_fields

    def bitfield_faults(self, pv):
        """top-level bit-field sets: fixed-part bit flips, spare / padding bits set, over-wide values"""
        ref = r_pack(self.descs, pv)
        exp = r_unpack(self.descs, ref, True)[0]
        flags = set(f["opt"] for f in self.descs if "opt" in f)
        pos = 0
        for f, seg in segments(self.descs, pv):
            start = pos
            pos += len(seg)
            if f["t"] == "spare":
                # spare octets carry anything on receipt
                for fillv in (0x00, 0xff, 0x5a):
                    data = ref[:start] + bytes([fillv]) * len(seg) + ref[pos:]
                    self.noncanonical(data, ref, exp, f)
                continue
            if f["t"] != "bits":
                continue
            total = 8 * len(seg)
            bitpos = 0
            layout = []
            for name, bl, fixed in bits_parts(f):
                layout.append((name, bl, fixed, bitpos))
                bitpos += bl
            if bitpos < total:
                layout.append((None, total - bitpos, None, bitpos))          # padding of an over-long set
            for name, bl, fixed, bp in layout:
                masks = [1 << (total - 1 - (bp + j)) for j in range(bl)]
                if name is None:
                    # reserved bits: each alone and all together -> same values, canonical re-encoding
                    for m in masks + ([sum(masks)] if bl > 1 else []):
                        blob = int.from_bytes(seg, "big") | m
                        data = ref[:start] + blob.to_bytes(len(seg), "big") + ref[pos:]
                        self.noncanonical(data, ref, exp, f)
                elif fixed is not None:
                    for m in masks + ([sum(masks)] if bl > 1 else []):
                        blob = int.from_bytes(seg, "big") ^ m
                        data = ref[:start] + blob.to_bytes(len(seg), "big") + ref[pos:]
                        self.cov["fixed_flips"] += 1
                        self.cov["error_cases"] += 1
                        self.compare_decode(self.E, True, data, "fixed-mismatch", f.get("kind", "bits"))
                elif name in flags:
                    continue        # the definition's own get_pres callback looks at the supplied (untruncated) value
                else:
                    hi = (1 << bl) - 1
                    wides = [(w, None) for w in (hi + 1, (hi + 1) | pattern(bl), (1 << (bl + 3)) - 1, (1 << 40) | 1,
                                                 (hi + 1) * 3 + hi)]
                    holds = [h for h in self.descs if h.get("hold")]
                    if holds:
                        wides += [(w, nb) for w in ((1 << (bl + 3)) - 1, (hi + 1) | pattern(bl)) for nb in (0, 1)]
                    for wide, nb in wides:
                        vals = deep_copy(pv)
                        vals[name] = wide
                        expw = dict(exp)
                        if nb is not None:
                            for h in holds:
                                vals[h["n"]] = expw[h["n"]] = int_range(h)[nb]
                        self.cov["overwide"] += 1
                        self.cov["evaluations"] += 1
                        want = r_pack(self.descs, vals)
                        self.E.c = vals
                        try:
                            b = bytes(self.E.to_bytes())
                        except Exception as ex:
                            self.viol("overwide:raises-" + type(ex).__name__, f.get("kind", "bits"),
                                      "to_bytes() raised %s for the over-wide value %#x of a %d-bit field"
                                      % (type(ex).__name__, wide, bl))
                            continue
                        if b != want:
                            self.viol("overwide:layout", f.get("kind", "bits"),
                                      "over-wide value %#x of %d-bit field %s: to_bytes() = %s, expected %s (value "
                                      "truncated to its width, neighbours intact)" % (wide, bl, name, b.hex(), want.hex()))
                            continue
                        r = self.decode(self.E, b)
                        e2 = dict(expw)
                        e2[name] = wide & hi
                        if r[0] != "ok" or r[1] != e2:
                            self.viol("overwide:decode", f.get("kind", "bits"),
                                      "over-wide value %#x of %d-bit field %s decodes to %r, expected %r"
                                      % (wide, bl, name, r[1:], e2))

    def noncanonical(self, data, ref, exp, f):
        self.cov["noncanonical"] += 1
        self.cov["evaluations"] += 1
        kind = f.get("kind", f["t"])
        r = self.decode(self.E, data)
        if r[0] != "ok":
            self.viol("reserved-bits:rejected" if r[0] == "err" else "reserved-bits:raises-" + r[1], kind,
                      "from_bytes(%s) failed although only reserved bits differ from %s" % (data.hex(), ref.hex()))
            return
        if r[1] != exp or r[2] != len(data):
            self.viol("reserved-bits:value", kind, "from_bytes(%s) = %r, expected %r" % (data.hex(), r[1], exp))
            return
        try:
            again = bytes(self.E.to_bytes())
        except Exception as ex:
            self.viol("reserved-bits:reencode-raises-" + type(ex).__name__, kind, root_cause(ex))
            return
        if again != ref:
            self.viol("reserved-bits:reencode", kind, "re-encoding %s gives %s, canonical %s"
                      % (data.hex(), again.hex(), ref.hex()))


def root_cause(ex):
    """deterministic text for an exception chain (the codec's errors carry object reprs with addresses)"""
    while ex.__cause__ is not None:
        ex = ex.__cause__
    return "%s(%s)" % (type(ex).__name__, ", ".join(str(a) for a in getattr(ex, "args", ())
                                                     if isinstance(a, (str, int, bytes))))


def judge_prog(prog, size, ndiag=5):
    return Judge(prog, size, ndiag).run()


def pick_size(prog, maxsize, cap):
    """largest boundary-set size in {5, 3, 2} (<= maxsize) whose complete product has <= cap assignments"""
    if prog[0] == "seq":
        return maxsize
    descs = make_desc(prog)
    for size in (5, 3, 2):
        if size > maxsize:
            continue
        n = 1
        for _, values, _ in slots(descs, size):
            n *= len(values)
        if n <= cap:
            return size
    return 2


# ---------------------------------------------------------------------------
# program enumeration

def env_programs(maxlen, menu=ENV_ATOMS):
    yield ["env", []]
    for k in range(1, maxlen + 1):
        for kinds in itertools.product(menu, repeat=k):
            if any(x in TRAILING_ONLY for x in kinds[:-1]):
                continue
            if env_desc(kinds) is None:
                continue
            yield ["env", list(kinds)]


def bfs_programs(quick):
    """quick   : 8 bits - every composition, 4 order spellings, every variant; 16/24/32 bits - compositions into
                 <= 3 parts with every variant, 16 bits into 4 parts plain only.
       thorough: 16 bits into <= 4 parts with every variant; 24/32 bits into <= 4 parts, the 4-part ones with the
                 spare / fixed part at the first or last position only."""
    for total in (8, 16, 24, 32):
        for widths in compositions(total, 8 if total == 8 else 4):
            k = len(widths)
            for order in ("msb", "lsb") + (("default", "little") if total == 8 else ()):
                if quick and total > 8 and k == 4:
                    if total == 16:
                        yield ["bfs", total, widths, order, "plain", 0]
                    continue
                if order in ("default", "little") and quick:
                    yield ["bfs", total, widths, order, "plain", 0]        # alternative spellings of msb / lsb
                    continue
                yield ["bfs", total, widths, order, "plain", 0]
                yield ["bfs", total, widths, order, "pad", 0]
                if k >= 2:
                    yield ["bfs", total, widths, order, "droplast", 0]
                    positions = range(k) if (total <= 16 or k < 4) else (0, k - 1)
                    for i in positions:
                        yield ["bfs", total, widths, order, "spare", i]
                        yield ["bfs", total, widths, order, "fixed", i]
                    if total <= 16:
                        for i in range(k):
                            yield ["bfs", total, widths, order, "fixed0", i]


def nest_programs(quick, small=True):
    """(program, boundary set size): depth 2 with {min, pattern, max}; depth 3 over the 3-atom level menu with
    {min, max} (quick) / {min, pattern, max} (thorough), and in thorough over the 5-atom menu with {min, max}."""
    menu = NEST_MENU[:3] if small else NEST_MENU
    posts = [None, "U8"] if small else [None, "U8", "I16BE"]
    inner_b = [None] + menu + ["BufFlex"]

    def level_opts():
        for pre in menu:
            for mode in ("fix", "ref", "flex"):
                for post in (posts if mode != "flex" else [None]):
                    yield [pre, mode, post]
    lv = list(level_opts())
    for depth in (1, 2):
        for levels in itertools.product(lv, repeat=depth):
            # a flexible nested envelope must be the tail of everything around it
            for a in menu:
                for b in inner_b:
                    prog = ["nest", [list(x) for x in levels], [a, b]]
                    if nest_ok(prog):
                        yield prog


def nest_ok(prog):
    """a fixed `len` needs constant-size content; a flexible nested envelope must be the last field"""
    _, levels, (a, b) = prog
    variable = b == "BufFlex"
    for pre, mode, post in levels:
        if mode == "fix" and variable:
            return False
        if mode == "flex" and post is not None:
            return False
    return True


SEQ_MENU = ["U8", "U16BE", "I16LE", "B1", "BFS8"]


def seq_programs(quick):
    items = [[a, b] for a in SEQ_MENU for b in SEQ_MENU] + ["TLV"]
    items += [["U8", "NEST"], ["NEST", "U16BE"], ["NEST", "NEST"]]       # items holding a nested envelope
    for pre in (None, "U8", "U16LE"):
        for mode in ("flex", "ref"):
            for item in items:
                yield ["seq", pre, mode, item]


def shape_of(prog):
    if prog[0] == "alias":
        return ("alias", prog[1])
    if prog[0] == "env":
        return ("env",) + tuple(sorted(prog[1]))
    if prog[0] == "bfs":
        return ("bfs", prog[1], len(prog[2]), prog[3], prog[4])
    if prog[0] == "nest":
        return ("nest",) + tuple(m for _, m, _ in prog[1]) + (prog[2][1] == "BufFlex",)
    return ("seq", prog[2], "TLV" if prog[3] == "TLV" else tuple(sorted(prog[3])))


CAP_QUICK = 1300
CAP_THOROUGH_3 = 4000
CAP_THOROUGH_4 = 600
NOCAP = 1 << 40


def all_programs(quick):
    """[(program, largest boundary set size, cap on the number of assignments)]"""
    progs = []
    for p in env_programs(3):
        progs.append((p, 5, CAP_QUICK if quick else CAP_THOROUGH_3))
    if not quick:
        for kinds in itertools.product(ENV_ATOMS, repeat=4):
            if any(x in TRAILING_ONLY for x in kinds[:-1]) or env_desc(kinds) is None:
                continue
            progs.append((["env", list(kinds)], 5, CAP_THOROUGH_4))
    for p in bfs_programs(quick):
        progs.append((p, 5, NOCAP))
    seen = set()
    for p in nest_programs(quick, small=True):
        seen.add(repr(p))
        progs.append((p, 3 if (len(p[1]) == 1 or not quick) else 2, NOCAP))
    if not quick:
        for p in nest_programs(quick, small=False):
            if repr(p) not in seen:
                progs.append((p, 3 if len(p[1]) == 1 else 2, NOCAP))
    seqs = [(p, 5, NOCAP) for p in seq_programs(quick)]
    seqs += [(["alias", n], 5, 4000) for n in ALIAS_PROGRAMS]
    return seqs + progs                      # the most expensive definitions first (they get a work chunk each)


def work(chunk):
    cov = {}
    out = []
    sample = None
    chunk, quick = chunk
    for prog, maxsize, cap in chunk:
        if len(out) >= CHUNK_LIMIT:
            cov["programs_skipped_after_violations"] = cov.get("programs_skipped_after_violations", 0) + 1
            continue
        size = pick_size(prog, maxsize, cap)
        ndiag = 3 if (quick or (prog[0] == "env" and len(prog[1]) == 4)) else 5
        j = judge_prog(prog, size, ndiag)
        cov["programs_set%d" % size] = cov.get("programs_set%d" % size, 0) + 1
        for k, v in j.cov.items():
            cov[k] = cov.get(k, 0) + v
        kind = "programs_" + prog[0]
        cov[kind] = cov.get(kind, 0) + 1
        out += j.out[:6]
        if sample is None and prog[0] == "env" and len(prog[1]) == 3 and "BufL" in prog[1] and "FLG" in prog[1]:
            sample = {"program": prog, "assignments": j.cov["assignments"], "error_cases": j.cov["error_cases"]}
    res = {"cov": cov, "viol": out[:60], "nviol_extra": max(0, len(out) - 60)}
    if sample:
        res["samples"] = [sample]
    return res


WEIGHT = {"S1": 1, "S3": 1, "FLG": 10, "BFS16L": 25, "BFS24P": 25, "NEST": 25, "NESTF": 25}


def cost(p):
    """rough number of assignments, for balancing the work chunks only"""
    prog, size, cap = p
    if prog[0] == "env":
        n = 1
        for k in prog[1]:
            n *= WEIGHT.get(k, 5)
        return min(n, cap) + 40
    if prog[0] == "bfs":
        return min(5 ** min(len(prog[2]), 4), 256 if prog[1] == 8 else 625) + 60
    if prog[0] == "nest":
        return size ** (2 * len(prog[1]) + 2) * 2
    return 1 << 30          # seq / alias programs: a work chunk each


# ---------------------------------------------------------------------------
# presence callbacks that do not return a bool

PRES_MENU = [True, False, 1, 0, None, "", "x", 0.0, [], (0,)]
PRES_KINDS = ("U8", "U16BE", "I16LE", "Buf2")


def presence_case(kind, g, oval, t, check_len):
    """Envelope(g: Uint8, o: <kind> with get_pres = PRES_MENU[g], t: Uint8).  The declared type of get_pres is
    Callable[[dict], bool]; whatever a definition's callback returns, the encoder and the decoder must read it the same
    way: the encoding is the reference encoding with or without the optional field, decoding it raises nothing,
    consumes all of it and returns the optional value iff the encoder emitted it.  -> None | message"""
    C = env()["codec"]
    mk = {"U8": lambda: C.Uint("o"), "U16BE": lambda: C.Uint16BE("o"), "I16LE": lambda: C.Int16LE("o"),
          "Buf2": lambda: C.Buf("o", len=2)}[kind]
    o = mk()
    o.get_pres = lambda v: PRES_MENU[v["g"]]
    E = type("PresEnvelope", (C.Envelope,), {"STRUCT": (C.Uint("g"), o, C.Uint("t"))})
    if kind == "U8":
        ob = bytes([oval])
    elif kind == "U16BE":
        ob = bytes([oval >> 8, oval & 0xff])
    elif kind == "I16LE":
        u = oval & 0xffff
        ob = bytes([u & 0xff, u >> 8])
    else:
        ob = bytes(oval)
        oval = bytes(oval)
    what = "Envelope(Uint8 g, %s o present-if %r, Uint8 t) g=%d o=%r t=%d check_len=%s" % (kind, PRES_MENU[g], g, oval, t, check_len)
    e = E(check_len=check_len)
    e["g"], e["o"], e["t"] = g, oval, t
    try:
        enc = e.to_bytes()
    except Exception as ex:            # noqa
        return "%s: to_bytes raises %s: %s" % (what, type(ex).__name__, root_cause(ex))
    with_o, without_o = bytes([g]) + ob + bytes([t]), bytes([g, t])
    if enc not in (with_o, without_o):
        return "%s: encoded as %s, neither %s (field present) nor %s (absent)" % (what, enc.hex(), with_o.hex(), without_o.hex())
    emitted = enc == with_o
    d = E(check_len=check_len)
    try:
        n = d.from_bytes(enc)
    except Exception as ex:            # noqa
        return ("%s: the encoder %s the optional field (%s) but decoding that encoding raises %s: %s"
                % (what, "emitted" if emitted else "omitted", enc.hex(), type(ex).__name__, root_cause(ex)))
    want = {"g": g, "t": t}
    if emitted:
        want["o"] = oval
    if n != len(enc) or dict(d.c) != want:
        return ("%s: the encoder %s the optional field (%s); decoding consumed %d of %d octets and returned %r, expected %r"
                % (what, "emitted" if emitted else "omitted", enc.hex(), n, len(enc), dict(d.c), want))
    return None


def presence_values(kind):
    return {"U8": [0, 1, 0xA5, 255], "U16BE": [0, 1, 0xA5C3, 65535], "I16LE": [-32768, -1, 0, 0x5AC3, 32767],
            "Buf2": [[0, 0], [0xA5, 0xC3], [255, 255]]}[kind]


def presence_leg(ctx):
    n = 0
    for kind in PRES_KINDS:
        for g in range(len(PRES_MENU)):
            for oval in presence_values(kind):
                for t in (0, 0xA5, 255):
                    for cl in (True, False):
                        n += 1
                        msg = presence_case(kind, g, oval, t, cl)
                        if msg:
                            ctx.violation("C16:presence-result:%s:%s" % (kind, type(PRES_MENU[g]).__name__),
                                          {"presence": [kind, g, oval, t, cl]}, msg)
    return n


def run(ctx):
    progs = all_programs(ctx.quick)
    shapes = set(shape_of(p[0]) for p in progs)
    # chunks of roughly equal cost, in a deterministic order
    chunks, cur, acc = [], [], 0
    target = 40000 if ctx.quick else 250000
    for p in progs:
        cur.append(p)
        acc += cost(p)
        if acc >= target:
            chunks.append(cur)
            cur, acc = [], 0
    if cur:
        chunks.append(cur)
    ndiag = "3" if ctx.quick else "5 (4-atom envelopes: 3)"
    for r in ctx.pmap(work, [(ch, ctx.quick) for ch in chunks], chunksize=1):
        ctx.merge(r)
    c = ctx.cov
    c["presence_result_cases"] = presence_leg(ctx)
    c["shapes"] = len(shapes)
    c["distinct_nontrivial"] = c["assignments"] + c["error_cases"]
    c["work_chunks"] = len(chunks)
    c["rule"] = ("all definitions of the grammar, each generated once: (env) envelopes of 0..%d atoms over the %d-atom menu "
                 "(flexible parts last, a length-referencing buffer needs an earlier unbound Uint8, an optional field an "
                 "earlier flag); (bfs) a BitFieldSet between two integer fields: %s, variants plain / explicit len +1 / last "
                 "part dropped / spare at a position / fixed value at a position; (nest) nested envelopes of depth 2..3 with "
                 "fix / length-from-field / flexible nesting at every level and fields before and after; (seq) sequences "
                 "of 26 two-field items x 3 prefixes x {trailing, length-prefixed}. Per definition the complete product of "
                 "every field's boundary set {min, min+1, 0xA5.. pattern, max-1, max}; when the product exceeds the cap "
                 "(%s) the sets {min, pattern, max}, then {min, max} are used (coverage.programs_set5/3/2); nest programs "
                 "use {min, pattern, max} (depth 3%s: {min, max}); sequences hold 0 elements, 1 element x all item "
                 "assignments, 2 elements over the 3-value item assignments (2-value when more than 9), 3 elements over "
                 "the 2-value item assignments ({first,last} when more than 4). Then, for %s diagonal assignments, every truncation "
                 "offset and 2 trailing strings with length checking on and off; for the pattern assignment min-1/max+1 "
                 "of every integer, fixed buffers one octet short/long, every single-bit flip of fixed bit-field parts, "
                 "every reserved/padding bit set, 5-9 over-wide values per bit-field. programs = definitions, assignments "
                 "= value assignments round-tripped against the reference packer, error_cases = inputs that must raise "
                 "DecodeError/EncodeError; non-trivial = assignments + error cases (distinct by construction)"
                 % (3 if ctx.quick else 4, len(ENV_ATOMS),
                    ("every composition of 8 bits (4 order spellings), of 16/24/32 bits into <= 3 parts with every variant "
                     "and of 16 bits into 4 parts plain, orders msb/lsb") if ctx.quick else
                    ("every composition of 8 bits (4 order spellings) and of 16/24/32 bits into <= 4 parts, orders msb/lsb "
                     "(24/32 bits in 4 parts: spare/fixed part first or last only)"),
                    "%d assignments" % CAP_QUICK if ctx.quick else
                    "%d assignments up to 3 atoms, %d for 4 atoms" % (CAP_THOROUGH_3, CAP_THOROUGH_4),
                    "" if ctx.quick else " over the 5-atom level menu", ndiag))
    c["exhaustive"] = True
    ctx.assumptions += [
        "LSB-first is 'basically reversed order' (codec.py): for an explicit len larger than the bit sum the unused "
        "bits are the least significant ones in both orders",
        "integer values that are not offset + k*mult, inconsistent supplied length fields (length fields are derived "
        "with get_val, as in the toolkit's own definitions) and missing/ill-typed values are outside the statement",
        "Envelope.check() hooks and definition-time ProtocolError are not exercised",
    ]


def replay(ctx, case):
    if case.get("presence"):
        kind, g, oval, t, cl = case["presence"]
        msg = presence_case(kind, int(g), oval, int(t), bool(cl))
        if msg:
            ctx.violation("C16:presence-result:%s:%s" % (kind, type(PRES_MENU[int(g)]).__name__), case, msg)
        return
    prog = case["prog"]
    j = judge_prog(_listify(prog), int(case["size"]), int(case.get("ndiag", 5)))
    for v in j.out:
        ctx.violation(*v)


def _listify(p):
    return [(_listify(x) if isinstance(x, (list, tuple)) else x) for x in p]

"""C18 - burst-loss simulation (FAKE_DROP / RFMUTE) drops exactly the requested bursts.

Explicit-state BFS: events are FAKE_DROP (one- and two-argument forms, legal and
illegal values) to the receiver, RFMUTE on either side, and one transmitted burst
(arrival on the sender's DATA socket + the clock handler for that frame) for a
set of frame numbers.  Repeated for the four header-version pairs.  Oracle: the
reference model's drop budget (a *set* of admissible budgets where mute and a
pending drop overlap, because the statement does not say whether a muted burst
uses up budget).
"""
from vlib import explore
from vlib.appworld import AppWorld
from vlib.ref import trxmodel

LEVEL = "model_checking"
F1, F2 = 935000, 890000


class Spec:
    def __init__(self, vs, vr, tier):
        self.name = "C18/v%d->v%d" % (vs, vr)
        self.vs, self.vr = vs, vr
        self.defs = trxmodel.std_config()
        ns = [-1, 0, 1, 2, 3] if tier == "quick" else [-1, 0, 1, 2, 3, 4]
        ps = [-1, 0, 1, 2, 3] if tier == "quick" else [-1, 0, 1, 2, 3, 51]
        self.fns = [0, 1, 2, 3, 4, 6, 2715647] if tier == "quick" else [0, 1, 2, 3, 4, 6, 51, 102, 2715647]
        self.alpha = [("ctrl", 1, "FAKE_DROP %d" % n) for n in ns]
        self.alpha += [("ctrl", 1, "FAKE_DROP %d %d" % (n, p)) for n in ns for p in ps]
        self.alpha += [("ctrl", i, "RFMUTE %d" % x) for i in (0, 1) for x in (0, 1)]
        self.alpha += [("burst", fn) for fn in self.fns]
        self.prefix = [(0, "RXTUNE %d" % F2), (0, "TXTUNE %d" % F1), (1, "RXTUNE %d" % F1), (1, "TXTUNE %d" % F2),
                       (0, "SETFORMAT %d" % vs), (1, "SETFORMAT %d" % vr), (0, "POWERON"), (1, "POWERON")]
        if vs != vr:
            # the sender's timing advance applies to a forwarded burst, not to the NOPE indication that replaces one
            self.prefix.insert(4, (0, "SETTA 3"))

    def build(self):
        W = AppWorld(self.defs)
        for i, c in self.prefix:
            v = W.ctrl(i, c)
            assert not v, v
        return W

    def events(self, W, hist):
        return self.alpha

    def step(self, W, ev):
        W.outcome = None
        if ev[0] == "ctrl":
            v = W.ctrl(ev[1], ev[2])
            W.outcome = W.last_out[0][3] if getattr(W, "last_out", None) else None
            return v
        fn = ev[1]
        v = W.burst(0, fn, tn=fn % 8, pwr=fn % 4)
        if W.last_id is None:
            v.append(("not-accepted", "reference did not accept the probe burst (harness error)"))
        v += W.handler_tick(fn)
        out = W.last_out
        W.outcome = ("none" if not out else ("nope" if len(out[0][3]) == 11 else "burst"), len(out))
        return v

    def canon(self, W):
        return W.canon()


class Spec3:
    """Two receivers on the sender's frequency (BTS and its child) and one sender (MS): loss simulation of
    one receiver must not leak into what the other one gets (per-recipient budget and mute)."""
    def __init__(self, v1, v2, tier):
        self.name = "C18/2rx/v%d,v%d" % (v1, v2)
        self.defs = trxmodel.std_config([("C1", 5700, 1)])
        self.alpha = []
        for r in (0, 2):
            self.alpha += [("ctrl", r, "FAKE_DROP %d" % n) for n in (0, 1, 2)]
            self.alpha += [("ctrl", r, "RFMUTE %d" % x) for x in (0, 1)]
        self.alpha += [("ctrl", 0, "FAKE_DROP 1 2"), ("ctrl", 2, "FAKE_DROP 2 2")]
        self.alpha += [("ctrl", 1, "RFMUTE %d" % x) for x in (0, 1)]          # the sender's own mute
        self.alpha += [("burst", fn) for fn in ((0, 1, 2) if tier == "quick" else (0, 1, 2, 3, 2715647))]
        self.prefix = [(1, "RXTUNE %d" % F2), (1, "TXTUNE %d" % F1), (0, "RXTUNE %d" % F1), (0, "TXTUNE %d" % F2),
                       (2, "RXTUNE %d" % F1), (2, "TXTUNE %d" % F2), (0, "SETFORMAT %d" % v1), (2, "SETFORMAT %d" % v2),
                       (0, "POWERON"), (1, "POWERON")]

    def build(self):
        W = AppWorld(self.defs)
        for i, c in self.prefix:
            v = W.ctrl(i, c)
            assert not v, v
        return W

    def events(self, W, hist):
        return self.alpha

    def step(self, W, ev):
        W.outcome = None
        if ev[0] == "ctrl":
            return W.ctrl(ev[1], ev[2])
        fn = ev[1]
        v = W.burst(1, fn, tn=fn % 8, pwr=fn % 4)
        if W.last_id is None:
            v.append(("not-accepted", "reference did not accept the probe burst (harness error)"))
        v += W.handler_tick(fn)
        W.outcome = tuple(sorted((o[2], len(o[3])) for o in W.last_out))
        return v

    def canon(self, W):
        return W.canon()


def run(ctx):
    allout = set()
    for vs in (0, 1):
        for vr in (0, 1):
            spec = Spec(vs, vr, ctx.tier)
            r = explore.bfs(ctx, spec, max_depth=30, label="v%dv%d" % (vs, vr))
            allout |= {(spec.name,) + o for o in r["outcomes"]}
    for v1, v2 in ((0, 0), (1, 1), (0, 1), (1, 0)):
        spec = Spec3(v1, v2, ctx.tier)
        r = explore.bfs(ctx, spec, max_depth=30, label="2rx_v%dv%d" % (v1, v2))
        allout |= {(spec.name,) + o for o in r["outcomes"]}
    from vlib.props import c03_sched
    c03_sched.run(ctx, family="drop")
    c = ctx.cov
    c["exhaustive"] = all(r["frontier_exhausted"] for r in c["runs"])
    c["distinct_outcomes"] = len(allout)
    c["evaluations"] = c["transitions"]
    c["distinct_nontrivial"] = c["states"]
    ctx.assumptions += ["clock handler called directly with the burst's own frame number",
                        "whether a burst suppressed by RF mute consumes FAKE_DROP budget is left open (set-valued reference)"]


def replay(ctx, case):
    if case.get("sched"):
        from vlib.props import c03_sched
        return c03_sched.replay(ctx, case)
    if case["spec"].startswith("C18/2rx/"):
        v1, v2 = int(case["spec"][9]), int(case["spec"][12])
        spec = Spec3(v1, v2, "thorough")
        W = spec.build()
        hist = [tuple(e) for e in case["hist"]]
        for k, ev in enumerate(hist):
            v = spec.step(W, ev)
            if v and k == len(hist) - 1:
                for c, m in v:
                    ctx.violation("%s:2rx_v%dv%d_%s" % (ctx.prop, v1, v2, c), case, m)
        return
    vs, vr = int(case["spec"][5]), int(case["spec"][9])
    spec = Spec(vs, vr, "thorough")
    W = spec.build()
    hist = [tuple(e) for e in case["hist"]]
    for k, ev in enumerate(hist):
        v = spec.step(W, ev)
        if v and k == len(hist) - 1:
            for c, m in v:
                ctx.violation("%s:v%dv%d_%s" % (ctx.prop, vs, vr, c), case, m)

"""C01 - TRXD messages survive encode/decode unchanged.

Bounded-exhaustive enumeration (DESIGN.md C01) over the shared generator vlib/trxd_enum.py.
Seam: TxMsg/RxMsg.gen_msg(legacy) -> parse_msg() on a FRESH object of the same class (tree under test).
Oracle: field-by-field equality with the *case description* (not with the encoder object), restricted to
the fields the header version carries:
    common  ver, fn, tn
    tx      pwr, every hard bit
    rx v0   rssi, toa256, every soft bit                     (no modulation / TSC / C-I / NOPE on v0)
    rx v1   rssi, toa256, nope flag, C/I, modulation, TSC set, TSC, every soft bit
    rx v1 NOPE  rssi, toa256, C/I, nope flag, burst is None  (modulation / TSC not carried)
A v0 message generated with the two legacy padding octets must decode to the same message (all attributes)
as the one generated without them.  Auxiliary leg "tables": the soft-bit translation -127..127 <-> 254..0
is the identity on that range, and the hard/soft helpers keep polarity (0 <-> positive, 1 <-> negative).
"""
from array import array

from vlib import world
from vlib import trxd_enum as E

LEVEL = "exploration"

_env = {}


def env():
    if not _env:
        world.install()
        import data_msg
        _env["dm"] = data_msg
        _env["mods"] = {k: data_msg.Modulation[v] for k, v in E.TK_NAME.items()}
        _env["masters"] = {}
    return _env


def master(e, c):
    """expected burst for comparison (never handed to the code under test): bytes (tx) / array('b') (rx)"""
    return E.burst_values(c) if c["cls"] == "tx" else E.burst_array(c)


def first_diff(a, b):
    a, b = list(a), list(b)
    if len(a) != len(b):
        return "length %d != %d" % (len(a), len(b))
    for i, (x, y) in enumerate(zip(a, b)):
        if x != y:
            return "first difference at bit %d: decoded %r, sent %r" % (i, x, y)
    return "equal"


def burst_equal(pb, exp, cls):
    if pb is None:
        return False
    if cls == "tx":
        return bytes(pb) == exp
    if type(pb) is array:
        return pb == exp
    return list(pb) == list(exp)


RX_ATTRS = ("ver", "fn", "tn", "rssi", "toa256", "mod_type", "nope_ind", "tsc_set", "tsc", "ci")
TX_ATTRS = ("ver", "fn", "tn", "pwr")


def check_case(e, c, stat=None):
    """Round trip of one case.  -> list of (key, msg).  stat (dict) receives counters."""
    dm = e["dm"]
    cls, ver = c["cls"], c["ver"]
    nope = cls == "rx" and ver == 1 and c["nope"]
    pre = "C01:%s:v%d%s" % (cls, ver, ":nope" if nope else "")
    out = []
    try:
        data = E.build_tk(dm, c).gen_msg(c["legacy"])
    except Exception as ex:
        return [("%s:gen-raises-%s" % (pre, type(ex).__name__),
                 "gen_msg(legacy=%s) raised %s(%s) on a valid message" % (c["legacy"], type(ex).__name__, ex))]
    p = dm.TxMsg() if cls == "tx" else dm.RxMsg()
    try:
        # as data_if.py hands it over: bytes for Tx, bytearray for Rx
        p.parse_msg(bytes(data) if cls == "tx" else bytearray(data))
    except Exception as ex:
        return [("%s:parse-raises-%s" % (pre, type(ex).__name__),
                 "parse_msg() raised %s(%s) on the toolkit's own encoding %s" % (type(ex).__name__, ex, bytes(data[:12]).hex()))]
    nf = 3

    def cmp(field, got, exp):
        if got != exp:
            out.append(("%s:%s" % (pre, field), "%s: sent %r, decoded %r (header octets %s)" % (field, exp, got, bytes(data[:11]).hex())))

    cmp("ver", p.ver, ver)
    cmp("fn", p.fn, c["fn"])
    cmp("tn", p.tn, c["tn"])
    if cls == "tx":
        cmp("pwr", p.pwr, c["pwr"])
        nf += 1
    else:
        cmp("rssi", p.rssi, c["rssi"])
        cmp("toa256", p.toa256, c["toa"])
        nf += 2
        if ver == 1:
            cmp("nope_ind", p.nope_ind, c["nope"])
            cmp("ci", p.ci, c["ci"])
            nf += 2
            if not nope:
                if p.mod_type is not e["mods"][c["mod"]]:
                    out.append((pre + ":mod_type", "mod_type: sent %s, decoded %r" % (E.TK_NAME[c["mod"]], p.mod_type)))
                cmp("tsc_set", p.tsc_set, c["tsc_set"])
                cmp("tsc", p.tsc, c["tsc"])
                nf += 3
    nbits = 0
    if c["bl"] is None:
        if p.burst is not None:
            out.append((pre + ":burst", "NOPE.ind sent without burst, decoded burst of %d bits" % len(p.burst)))
    else:
        exp = master(e, c)
        nbits = c["bl"]
        if not burst_equal(p.burst, exp, cls):
            out.append((pre + ":burst", "burst %r (%d bits): %s" % (c["burst"], c["bl"],
                        "decoded None" if p.burst is None else first_diff(p.burst, exp))))
    nrt = 1
    if ver == 0 and c["legacy"]:
        # the same message without the two padding octets must decode to the same message
        nrt = 2
        try:
            data2 = E.build_tk(dm, c).gen_msg(False)
            q = dm.TxMsg() if cls == "tx" else dm.RxMsg()
            q.parse_msg(bytes(data2) if cls == "tx" else bytearray(data2))
        except Exception as ex:
            out.append(("%s:legacy:unpadded-raises-%s" % (pre, type(ex).__name__), "unpadded twin failed: %s" % ex))
        else:
            for a in (TX_ATTRS if cls == "tx" else RX_ATTRS):
                if getattr(p, a) != getattr(q, a):
                    out.append(("%s:legacy:%s" % (pre, a), "%s: padded decodes to %r, unpadded to %r"
                                % (a, getattr(p, a), getattr(q, a))))
            if (p.burst is None) != (q.burst is None) or (p.burst is not None and list(p.burst) != list(q.burst)):
                out.append((pre + ":legacy:burst", "burst: padded and unpadded encodings decode differently (%s)"
                            % ("None vs not None" if (p.burst is None) != (q.burst is None) else first_diff(p.burst, q.burst))))
            if len(data) == len(data2):
                out.append((pre + ":legacy:no-padding", "gen_msg(legacy=True) on v0 is as long as gen_msg(False): %d octets" % len(data)))
    if stat is not None:
        stat["roundtrips"] += nrt
        stat["fields_compared"] += nf
        stat["burst_bits_compared"] += nbits
    return out


def check_tables(e):
    """auxiliary leg on the translation helpers used by gen/parse (and by trans()); -> list of (key, msg)"""
    Msg = e["dm"].Msg
    out = []
    s = array('b', range(-127, 128))
    u = Msg.sbit2usbit(s)
    bad = [(s[i], u[i]) for i in range(255) if u[i] != 127 - s[i]]
    if bad or len(u) != 255:
        out.append(("C01:tables:sbit2usbit", "soft bit -> unsigned soft bit is not 127 - s on -127..127: (s, got) %r" % bad[:8]))
    back = Msg.usbit2sbit(array('B', range(254, -1, -1)))
    bad = [(254 - i, back[i]) for i in range(255) if back[i] != s[i]]
    if bad or len(back) != 255:
        out.append(("C01:tables:usbit2sbit", "unsigned soft bit -> soft bit is not 127 - u on 0..254: (u, got) %r" % bad[:8]))
    rt = Msg.usbit2sbit(Msg.sbit2usbit(s))
    if list(rt) != list(s):
        out.append(("C01:tables:softbit-identity", "usbit2sbit(sbit2usbit(s)) != s for %r"
                    % [(a, b) for a, b in zip(s, rt) if a != b][:8]))
    h = Msg.sbit2ubit(s)
    bad = [(s[i], h[i]) for i in range(255) if s[i] != 0 and h[i] != (1 if s[i] < 0 else 0)]
    if bad or len(h) != 255:
        out.append(("C01:tables:sbit2ubit", "soft -> hard bit does not follow the sign (negative = 1): (s, got) %r" % bad[:8]))
    sb = Msg.ubit2sbit(bytearray([0, 1, 1, 0]))
    if not (len(sb) == 4 and sb[0] > 0 and sb[3] > 0 and sb[1] < 0 and sb[2] < 0):
        out.append(("C01:tables:ubit2sbit", "hard -> soft bit polarity: 0,1,1,0 -> %r (expected +,-,-,+)" % list(sb)))
    elif list(Msg.sbit2ubit(sb)) != [0, 1, 1, 0]:
        out.append(("C01:tables:hardbit-identity", "sbit2ubit(ubit2sbit(b)) != b: %r" % list(Msg.sbit2ubit(sb))))
    return out


def work(chunk):
    e = env()
    stat = {"roundtrips": 0, "fields_compared": 0, "burst_bits_compared": 0}
    by_class, by_group = {}, {}
    viol, vkeys, nviol = [], set(), 0
    keys, good = set(), set()
    sample = None
    n = 0
    sweep = chunk[3] if chunk[0] == "sweep" else None
    for c in E.cases(chunk):
        n += 1
        r = check_case(e, c, stat)
        # inside a sweep chunk the cases differ in the swept field only
        k = c[sweep] if sweep else E.case_key(c)
        keys.add(k)
        kl = E.class_of(c)
        by_class[kl] = by_class.get(kl, 0) + 1
        by_group[c["grp"]] = by_group.get(c["grp"], 0) + 1
        if sample is None:
            sample = c
        if not r or not any("-raises-" in x[0] for x in r):
            good.add(k)
        for key, msg in r:
            nviol += 1
            if key not in vkeys:
                vkeys.add(key)
                viol.append((key, c, msg))
    cov = dict(stat, evaluations=n, distinct_cases=len(keys), distinct_nontrivial=len(good),
               by_class=by_class, by_group=by_group, chunks=1)
    return {"cov": cov, "viol": viol, "nviol_extra": nviol - len(viol), "samples": [sample] if sample else []}


def work_tables(_):
    e = env()
    r = check_tables(e)
    return {"cov": {"table_checks": 6, "table_entries_checked": 255 * 4 + 4},
            "viol": [(k, {"leg": "tables"}, m) for k, m in r]}


def run(ctx):
    ch = E.chunks(ctx.tier)
    if len(set(map(tuple, ch))) != len(ch):
        from vlib.errors import HarnessError
        raise HarnessError("duplicate chunk descriptors")
    order = sorted(range(len(ch)), key=lambda i: -E.chunk_cost(ch[i]))      # heavy chunks first (stable, deterministic)
    seen = set()
    for r in ctx.pmap(work, [ch[i] for i in order]):
        sm = r.pop("samples", [])
        ctx.merge(r)
        for x in sm:                      # one sample per (class, group) instead of the first six
            k = (E.class_of(x), x["grp"])
            if k not in seen:
                seen.add(k)
                ctx.sample(x)
    for r in ctx.pmap(work_tables, [0]):
        ctx.merge(r)
    c = ctx.cov
    c["points"] = len(E.points())
    c["fn_values_quick_set"] = len(E.fn_quick_set())
    c["rule"] = (E.rule(ctx.tier) + " One evaluation = build the toolkit object from the case, gen_msg(legacy), parse_msg() on a "
                 "fresh object, compare every carried field and every burst bit with the case (v0+legacy: additionally against the "
                 "decoding of the unpadded twin). Non-trivial = the toolkit encoded the case and parsed its own encoding, so that "
                 "fields were actually compared (distinct by case key = all message fields + burst pattern + legacy flag).")
    c["exhaustive"] = True
    ctx.assumptions += ["joint products of wide fields are not enumerated (one wide field at a time at 3 base points)",
                        "burst contents are the stated pattern families, not {0,1}^n / [-127,127]^n",
                        "FN 2^24-1 and 2^24 of the design's quick set are invalid frame numbers and left to C13"]


def replay(ctx, case):
    e = env()
    if case.get("leg") == "tables":
        for k, m in check_tables(e):
            ctx.violation(k, case, m)
        return
    for k, m in check_case(e, case):
        ctx.violation(k, case, m)

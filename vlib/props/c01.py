"""C01 - TRXD messages survive encode/decode unchanged.

Bounded-exhaustive enumeration (DESIGN.md C01) over the shared generator vlib/trxd_enum.py.
Seam: TxMsg/RxMsg.gen_msg(legacy) -> parse_msg() on a FRESH object of the same class (tree under test).
Oracle: field-by-field equality with the *case description* (not with the encoder object), restricted to
the fields the header version carries:
    common  ver, fn, tn
    tx      pwr, every hard bit
    rx v0   rssi, toa256, every soft bit                     (no modulation / TSC / C-I / NOPE on v0)
    rx v1   rssi, toa256, nope flag, C/I, modulation, TSC set, TSC, every soft bit
    rx v1 NOPE  rssi, toa256, C/I, nope flag, burst is None  (modulation / TSC not carried)
A v0 message generated with the two legacy padding octets must decode to the same message (all attributes)
as the one generated without them.
History leg (keys C01:history:...): per work item ONE long-lived decoder object and ONE long-lived encoder object per
class.  Every message of a base / burst chunk and every 8th of a sweep (same shape throughout; every 32nd of an all-FN
sweep) is additionally parsed into the long-lived decoder (after whatever it parsed before) and
must decode equal to the message just as on a fresh object; after every case of a base chunk, every 8th case of a burst-pattern
chunk and every 32nd case of a sweep a "twin" (another valid message of different shape: rx v1 burst <-> NOPE.ind without burst, tx / rx v0 the
other burst length) is encoded through the long-lived encoder with its fields reassigned - same octets as from a new
object - and decoded by the long-lived decoder; the buffer an earlier gen_msg() returned must be unchanged after the next
gen_msg() on the same or on another object (aliasing).
In-place edits (every case of a base chunk, every 64th of a burst-pattern chunk, every 256th of a sweep): ONE message
object encodes the case, is edited in place (burst element flipped at first / middle / last position, whole burst
slice-assigned, fn, tn, pwr / rssi, toa256, ci, tsc, tsc_set reassigned; the burst container is never replaced) and
encodes again after every edit; every new encoding must decode (fresh object) to what the object now holds
(C01:history:*:enc-after-inplace-change:<edit>); a decoder object used before parses the encoding, re-encodes
(…:reencode-after-parse), gets its parsed burst and fn edited in place and re-encodes (…:reencode-after-inplace-change).
Acceptance-driven leg (keys C01:accepted:...): the valid set is taken from the toolkit's own validate().  Candidates
slightly beyond the protocol ranges (rx v1: every member of the toolkit's Modulation enum x TSC set 0..4 x TSC 0..8 x
NOPE x burst length {148, 296, 444, 592, 740, own, None}; tx / rx v0: burst length {None, 0, 147..150, 443..447};
boundary-1 / boundary / boundary+1 of fn, tn, pwr, rssi, toa256, ci one at a time and as a 4-value product) are built;
every candidate validate() ACCEPTS must survive gen_msg() -> parse_msg() (fresh object) in every carried field and every
burst bit; rejected candidates are only counted.
Auxiliary leg "tables": the soft-bit translation -127..127 <-> 254..0
is the identity on that range, and the hard/soft helpers keep polarity (0 <-> positive, 1 <-> negative).
"""
import itertools
from array import array

from vlib import world
from vlib import trxd_enum as E

LEVEL = "exploration"

_env = {}


def env():
    if not _env:
        world.install()
        import data_msg
        _env["dm"] = data_msg
        _env["mods"] = {k: data_msg.Modulation[v] for k, v in E.TK_NAME.items()}
        _env["masters"] = {}
    return _env


def master(e, c):
    """expected burst for comparison (never handed to the code under test): bytes (tx) / array('b') (rx)"""
    return E.burst_values(c) if c["cls"] == "tx" else E.burst_array(c)


def first_diff(a, b):
    a, b = list(a), list(b)
    if len(a) != len(b):
        return "length %d != %d" % (len(a), len(b))
    for i, (x, y) in enumerate(zip(a, b)):
        if x != y:
            return "first difference at bit %d: decoded %r, sent %r" % (i, x, y)
    return "equal"


def burst_equal(pb, exp, cls):
    if pb is None:
        return False
    if cls == "tx":
        return bytes(pb) == exp
    if type(pb) is array:
        return pb == exp
    return list(pb) == list(exp)


RX_ATTRS = ("ver", "fn", "tn", "rssi", "toa256", "mod_type", "nope_ind", "tsc_set", "tsc", "ci")
TX_ATTRS = ("ver", "fn", "tn", "pwr")


def compare_fields(e, c, p, data, pre):
    """decoder object p (after it parsed `data`, the encoding of case c) against the case, restricted to the fields
    the header version carries.  -> ([(key, msg)], fields compared, burst bits compared)"""
    cls, ver = c["cls"], c["ver"]
    nope = cls == "rx" and ver == 1 and c["nope"]
    out = []
    nf = 3

    def cmp(field, got, exp):
        if got != exp:
            out.append(("%s:%s" % (pre, field), "%s: sent %r, decoded %r (header octets %s)" % (field, exp, got, bytes(data[:11]).hex())))

    cmp("ver", p.ver, ver)
    cmp("fn", p.fn, c["fn"])
    cmp("tn", p.tn, c["tn"])
    if cls == "tx":
        cmp("pwr", p.pwr, c["pwr"])
        nf += 1
    else:
        cmp("rssi", p.rssi, c["rssi"])
        cmp("toa256", p.toa256, c["toa"])
        nf += 2
        if ver == 1:
            cmp("nope_ind", p.nope_ind, c["nope"])
            cmp("ci", p.ci, c["ci"])
            nf += 2
            if not nope:
                if p.mod_type is not e["mods"][c["mod"]]:
                    out.append((pre + ":mod_type", "mod_type: sent %s, decoded %r" % (E.TK_NAME[c["mod"]], p.mod_type)))
                cmp("tsc_set", p.tsc_set, c["tsc_set"])
                cmp("tsc", p.tsc, c["tsc"])
                nf += 3
    nbits = 0
    if c["bl"] is None:
        if p.burst is not None:
            out.append((pre + ":burst", "NOPE.ind sent without burst, decoded burst of %d bits" % len(p.burst)))
    else:
        exp = master(e, c)
        nbits = c["bl"]
        if not burst_equal(p.burst, exp, cls):
            out.append((pre + ":burst", "burst %r (%d bits): %s" % (c["burst"] if c["burst"][0] != "raw" else "(edited in place)", c["bl"],
                        "decoded None" if p.burst is None else first_diff(p.burst, exp))))
    return out, nf, nbits


def check_case(e, c, stat=None):
    """Round trip of one case.  -> list of (key, msg).  stat (dict) receives counters."""
    dm = e["dm"]
    cls, ver = c["cls"], c["ver"]
    nope = cls == "rx" and ver == 1 and c["nope"]
    pre = "C01:%s:v%d%s" % (cls, ver, ":nope" if nope else "")
    out = []
    e["last_buf"] = e["last_snap"] = None
    try:
        data = E.build_tk(dm, c).gen_msg(c["legacy"])
    except Exception as ex:
        return [("%s:gen-raises-%s" % (pre, type(ex).__name__),
                 "gen_msg(legacy=%s) raised %s(%s) on a valid message" % (c["legacy"], type(ex).__name__, ex))]
    e["last_buf"] = data                # the object gen_msg() returned (aliasing checks) ...
    e["last_snap"] = bytes(data)        # ... and what it held at that moment
    p = dm.TxMsg() if cls == "tx" else dm.RxMsg()
    try:
        # as data_if.py hands it over: bytes for Tx, bytearray for Rx
        p.parse_msg(bytes(data) if cls == "tx" else bytearray(data))
    except Exception as ex:
        return [("%s:parse-raises-%s" % (pre, type(ex).__name__),
                 "parse_msg() raised %s(%s) on the toolkit's own encoding %s" % (type(ex).__name__, ex, bytes(data[:12]).hex()))]
    o, nf, nbits = compare_fields(e, c, p, data, pre)
    out += o
    nrt = 1
    if ver == 0 and c["legacy"]:
        # the same message without the two padding octets must decode to the same message
        nrt = 2
        try:
            data2 = E.build_tk(dm, c).gen_msg(False)
            q = dm.TxMsg() if cls == "tx" else dm.RxMsg()
            q.parse_msg(bytes(data2) if cls == "tx" else bytearray(data2))
        except Exception as ex:
            out.append(("%s:legacy:unpadded-raises-%s" % (pre, type(ex).__name__), "unpadded twin failed: %s" % ex))
        else:
            for a in (TX_ATTRS if cls == "tx" else RX_ATTRS):
                if getattr(p, a) != getattr(q, a):
                    out.append(("%s:legacy:%s" % (pre, a), "%s: padded decodes to %r, unpadded to %r"
                                % (a, getattr(p, a), getattr(q, a))))
            if (p.burst is None) != (q.burst is None) or (p.burst is not None and list(p.burst) != list(q.burst)):
                out.append((pre + ":legacy:burst", "burst: padded and unpadded encodings decode differently (%s)"
                            % ("None vs not None" if (p.burst is None) != (q.burst is None) else first_diff(p.burst, q.burst))))
            if len(data) == len(data2):
                out.append((pre + ":legacy:no-padding", "gen_msg(legacy=True) on v0 is as long as gen_msg(False): %d octets" % len(data)))
    if stat is not None:
        stat["roundtrips"] += nrt
        stat["fields_compared"] += nf
        stat["burst_bits_compared"] += nbits
    return out


# ---------------------------------------------------------------------------------------------
# history: long-lived decoder / encoder objects and aliasing of returned buffers

def twin(c):
    """another VALID message of the same class and version that differs in shape, visited right after c so that the
    long-lived objects alternate: rx v1 burst <-> NOPE.ind (no burst), tx / rx v0: the other burst length"""
    if c["cls"] == "rx" and c["ver"] == 1:
        if c["nope"]:
            mod = c["mod"] or "GMSK"
            return dict(c, nope=False, mod=mod, tsc_set=c["tsc_set"] or 0, tsc=c["tsc"] or 0, bl=E.MOD_BL[mod], burst=["ramp"], grp="twin")
        return dict(c, nope=True, bl=None, burst=None, grp="twin")
    return dict(c, bl=444 if c["bl"] == 148 else 148, burst=["alt"] if c["cls"] == "tx" else ["ramp"], grp="twin")


SWEEP_TWIN_EVERY = 32
BURST_EVERY = 8             # burst-pattern chunks keep one shape per burst length: every 8th case
SWEEP_REUSE_EVERY = 8       # in sweeps (same shape throughout) every 8th case also goes through the long-lived object(s)


def seq_chunk(chunk):
    """message sequence of a chunk: ("case", c) for every enumerated case, followed by ("twin", twin(c)) after every case
    of a base chunk, every 8th case of a burst-pattern chunk and every 32nd case of a sweep"""
    every = SWEEP_TWIN_EVERY if chunk[0] == "sweep" else (BURST_EVERY if chunk[0] == "burst" else 1)
    allfn = chunk[0] == "sweep" and chunk[4] == "all"
    for i, c in enumerate(E.cases(chunk)):
        # every case of a base / burst chunk, every 8th of a sweep (same shape throughout), every 32nd of an all-FN sweep
        # also goes through the long-lived objects
        yield ("case" if i % (every if allfn else (SWEEP_REUSE_EVERY if chunk[0] == "sweep" else 1)) == 0 else "case-fresh-only"), c
        if i % every == 0:
            yield "twin", twin(c)


class History:
    """Per work item: ONE long-lived decoder object and ONE long-lived encoder object per class.
      * every message of the sequence is parsed into the long-lived decoder as well; what it then holds must equal
        the message just as for a fresh object (C01:history:<cls>:v<ver>[:nope]:<field>);
      * twins are encoded through the long-lived encoder (fields reassigned) and through a fresh object: same octets
        (C01:history:...:enc-reuse);
      * the buffer returned by an earlier gen_msg() must not change when gen_msg() runs again, on the same or on another
        object (C01:history:...:enc-aliasing)."""

    def __init__(self, e):
        self.e = e
        dm = e["dm"]
        self.dec = {"tx": dm.TxMsg(), "rx": dm.RxMsg()}
        self.enc = {"tx": dm.TxMsg(), "rx": dm.RxMsg()}
        self.prev = None                              # (buffer object, snapshot, label) of the previous gen_msg() of any object
        self.enc_prev = {"tx": None, "rx": None}      # same, of the previous gen_msg() of the long-lived encoder
        self.ring = []                                # the two messages before the current one
        self.cov = {"hist_messages": 0, "hist_twins": 0, "hist_reused_decodes": 0, "hist_reused_encodes": 0,
                    "hist_aliasing_checks": 0, "hist_burst_to_noburst": 0, "hist_noburst_to_burst": 0,
                    "hist_length_changes": 0, "hist_fields_compared": 0, "hist_minimised": 0, "hist_not_minimised": 0}
        self.last_bl = {"tx": -1, "rx": -1}

    def process(self, kind, m, buf=None, snap=None):
        """-> ([(key, msg)], history = list of [kind, message])"""
        e = self.e
        dm = e["dm"]
        cls, ver = m["cls"], m["ver"]
        nope = cls == "rx" and ver == 1 and m["nope"]
        fam = "C01:history:%s:v%d" % (cls, ver)
        out = []
        cov = self.cov
        cov["hist_messages"] += 1
        hist = self.ring + [[kind, m]]
        self.ring = hist[-2:]
        def gen(obj):
            """gen_msg() of the code under test; its exceptions become violations, not harness errors"""
            try:
                b_ = obj.gen_msg(m["legacy"])
                return b_, bytes(b_)
            except Exception as ex:
                out.append(("%s:gen-raises-%s" % (fam, type(ex).__name__), "gen_msg() raised %s(%s) on a valid message"
                            % (type(ex).__name__, str(ex)[:200])))
                return None, None

        if kind == "twin" or buf is None:
            src = E.build_tk(dm, m)
            fresh, fresh_snap = gen(src)
            if fresh is None:
                return out, hist
            if kind == "twin":
                cov["hist_twins"] += 1
                cov["hist_reused_encodes"] += 1
                enc = self.enc[cls]
                for a in (TX_ATTRS if cls == "tx" else RX_ATTRS) + ("burst",):
                    setattr(enc, a, getattr(src, a))
                buf, snap = gen(enc)
                if buf is None:
                    return out, hist
                if snap != fresh_snap:
                    out.append((fam + ":enc-reuse", "an encoder object used before emits %s..., a new object %s... for the same message"
                                % (snap[:12].hex(), fresh_snap[:12].hex())))
                ep = self.enc_prev[cls]
                if ep is not None:
                    cov["hist_aliasing_checks"] += 1
                    if bytes(ep[0]) != ep[1]:
                        out.append(("%s:enc-aliasing" % ep[2], "the buffer gen_msg() returned earlier changed when gen_msg() ran again on the "
                                    "same object: was %s..., now %s..." % (ep[1][:12].hex(), bytes(ep[0][:12]).hex())))
                self.enc_prev[cls] = (buf, snap, fam)
            else:
                buf, snap = fresh, fresh_snap
        if self.prev is not None:
            cov["hist_aliasing_checks"] += 1
            if bytes(self.prev[0]) != self.prev[1]:
                out.append(("%s:enc-aliasing" % self.prev[2], "the buffer gen_msg() returned for the previous message changed when gen_msg() "
                            "ran for the next one: was %s..., now %s..." % (self.prev[1][:12].hex(), bytes(self.prev[0][:12]).hex())))
        self.prev = (buf, snap, fam)
        p = self.dec[cls]
        cov["hist_reused_decodes"] += 1
        try:
            # decode what gen_msg() returned at the moment it returned it (snap); a later change of the returned object is
            # the aliasing check's business
            p.parse_msg(snap if cls == "tx" else bytearray(snap))
        except Exception as ex:
            out.append(("%s:parse-raises-%s" % (fam, type(ex).__name__), "parse_msg() on a decoder object used before raised %s(%s)"
                        % (type(ex).__name__, ex)))
            return out, hist
        o, nf, _ = compare_fields(e, m, p, snap, fam + (":nope" if nope else ""))
        cov["hist_fields_compared"] += nf
        out += o
        bl = m["bl"] or 0
        last = self.last_bl[cls]
        if last >= 0:
            if last > 0 and bl == 0:
                cov["hist_burst_to_noburst"] += 1
            elif last == 0 and bl > 0:
                cov["hist_noburst_to_burst"] += 1
            elif last != bl:
                cov["hist_length_changes"] += 1
        self.last_bl[cls] = bl
        return out, hist


def inplace_visit(e, c):
    """One message object encodes case c, is then edited IN PLACE step by step (E.inplace_plan: burst element at first /
    middle / last position, whole burst content by slice assignment, header fields; the burst container is never
    replaced) and encodes again after every edit; each new encoding is decoded by a fresh object and must equal the
    message the object now describes.  Then a decoder object used before parses the encoding of c, re-encodes (must
    decode equal to c), has its PARSED burst and fn edited in place, and re-encodes again.
    -> (round trips made, [(key, msg)])"""
    dm = e["dm"]
    cls, ver, legacy = c["cls"], c["ver"], c["legacy"]
    fam = "C01:history:%s:v%d" % (cls, ver)
    out = []
    n = [0]

    def rt(obj, what, nc, label):
        n[0] += 1
        try:
            data = obj.gen_msg(legacy)
            q = dm.TxMsg() if cls == "tx" else dm.RxMsg()
            q.parse_msg(bytes(data) if cls == "tx" else bytearray(data))
        except Exception as ex:
            out.append(("%s:%s:raises-%s" % (fam, what, type(ex).__name__), "after in-place edit '%s': %s(%s)" % (label, type(ex).__name__, ex)))
            return
        o, _, _ = compare_fields(e, nc, q, data, "x")
        if o:
            out.append(("%s:%s:%s" % (fam, what, label), "after the in-place edit '%s' of the same object its encoding no longer decodes to "
                        "what the object holds: %s" % (label, "; ".join(m for _, m in o)[:400])))

    try:
        m = E.build_tk(dm, c)
        data0 = bytes(m.gen_msg(legacy))    # snapshot at once: what gen_msg() returned may be overwritten later (aliasing)
    except Exception:
        return 0, []                # reported by the plain round trip
    steps = list(E.inplace_plan(c))
    for label, op, nc in steps:
        E.apply_inplace(m, op)
        rt(m, "enc-after-inplace-change", nc, label)
        if out:                     # later edits build on this one: report the first edit that breaks, not its echoes
            break
    p = dm.TxMsg() if cls == "tx" else dm.RxMsg()
    try:
        t = E.build_tk(dm, twin(c)).gen_msg(legacy)
        p.parse_msg(bytes(t) if cls == "tx" else bytearray(t))
        p.parse_msg(bytes(data0) if cls == "tx" else bytearray(data0))
    except Exception:
        return n[0], out
    rt(p, "reencode-after-parse", c, "none")
    cur = c
    if c["bl"] is not None:
        if p.burst is None or len(p.burst) != c["bl"]:
            if not out:
                out.append(("%s:reencode-after-parse:burst-shape" % fam, "a used decoder object parsed the encoding of a message with %d "
                            "burst bits and holds %s" % (c["bl"], "no burst" if p.burst is None else "%d bits" % len(p.burst))))
            return n[0], out
        label, op, cur = steps[0]
        E.apply_inplace(p, op)
        rt(p, "reencode-after-inplace-change", cur, label)
    if out:
        return (n[0] if isinstance(n, list) else n), out
    cur = dict(cur, fn=(c["fn"] + 1) % E.HYPER)
    p.fn = cur["fn"]
    rt(p, "reencode-after-inplace-change", cur, "fn")
    return n[0], out


def unexpected(leg, ex):
    """violation for an exception that escaped a leg: the code under test (or a consequence of its misbehaviour) must never
    turn into a harness error"""
    return ("C01:unexpected-exception:%s:%s" % (leg, type(ex).__name__),
            "%s(%s) escaped the %s leg while handling a valid message" % (type(ex).__name__, str(ex)[:200], leg))


def replay_history(e, hist):
    H = History(e)
    r = []
    for kind, m in hist:
        r, _ = H.process(kind, m)
    return r


def history_viol(e, H, key, msg, hist, chunk, n):
    for h in (hist[-2:], hist):
        if any(k == key for k, _ in replay_history(e, h)):
            H.cov["hist_minimised"] += 1
            return (key, {"leg": "history", "msgs": h}, msg)
    H.cov["hist_not_minimised"] += 1
    return (key, {"leg": "history-seq", "chunk": chunk, "n": n}, msg)


# ---------------------------------------------------------------------------------------------
# acceptance-driven leg: the valid set is what the toolkit's own validate() accepts

FN_B = (-1, 0, 1, E.HYPER - 2, E.HYPER - 1, E.HYPER, E.HYPER + 1)
TN_B = (-1, 0, 1, 6, 7, 8)
PWR_B = (-1, 0, 1, 254, 255, 256)
RSSI_B = (-121, -120, -119, -48, -47, -46)
TOA_B = (-32769, -32768, -32767, 32766, 32767, 32768)
CI_B = (-1281, -1280, -1279, 1279, 1280, 1281)
V0_LENS_B = (None, 0, 147, 148, 149, 150, 443, 444, 445, 446, 447)
V1_LENS_B = (148, 296, 444, 592, 740)
ACC_SLICES = 16


def candidates(dm):
    """Candidate messages slightly BEYOND the protocol ranges, in a fixed order (plain dicts; 'mod' is the name of a member
    of the toolkit's own Modulation enum, so that members added to it are covered too):
      A  rx v1: every Modulation member x TSC set 0..4 x TSC 0..8 x NOPE x burst length {148, 296, 444, 592, 740, the
         member's own, None} x legacy x 3 base points of the wide fields
      B  tx v0/v1 and rx v0: burst length {None, 0, 147..150, 443..447} x legacy x TN 0..7 x 3 base points
      C  boundary-1 / boundary / boundary+1 of fn, tn, pwr | rssi, toa256, ci one at a time at every base point of the
         representative shapes (tx v0/v1, rx v0 148/444, rx v1 per modulation, rx v1 NOPE), and the complete product of
         {min-1, min, max, max+1} of all of them at the mid base point of four shapes"""
    mods = list(dm.Modulation.__members__)
    for b in range(3):
        B = E.BASES[b]
        w = {"fn": B["fn"], "rssi": B["rssi"], "toa": B["toa"], "ci": B["ci"], "tn": (2, 5, 7)[b]}
        for mod in mods:
            own = dm.Modulation[mod].bl
            lens = list(V1_LENS_B) + ([own] if own not in V1_LENS_B else []) + [None]
            for ts in range(5):
                for tsc in range(9):
                    for nope in (False, True):
                        for bl in lens:
                            for legacy in (False, True):
                                yield dict(w, grp="A", cls="rx", ver=1, legacy=legacy, nope=nope, mod=mod, tsc_set=ts, tsc=tsc, bl=bl)
    for b in range(3):
        B = E.BASES[b]
        for bl in V0_LENS_B:
            for legacy in (False, True):
                for tn in range(8):
                    for ver in (0, 1):
                        yield dict(grp="B", cls="tx", ver=ver, legacy=legacy, tn=tn, fn=B["fn"], pwr=B["pwr"], bl=bl)
                    yield dict(grp="B", cls="rx", ver=0, legacy=legacy, tn=tn, fn=B["fn"], rssi=B["rssi"], toa=B["toa"], ci=None,
                               nope=False, mod=None, tsc_set=None, tsc=None, bl=bl)
    shapes = [dict(cls="tx", ver=0, bl=148), dict(cls="tx", ver=1, bl=444),
              dict(cls="rx", ver=0, bl=148, nope=False, mod=None, tsc_set=None, tsc=None),
              dict(cls="rx", ver=0, bl=444, nope=False, mod=None, tsc_set=None, tsc=None)]
    shapes += [dict(cls="rx", ver=1, bl=dm.Modulation[m].bl, nope=False, mod=m, tsc_set=1, tsc=5) for m in mods]
    shapes += [dict(cls="rx", ver=1, bl=None, nope=True, mod=None, tsc_set=None, tsc=None)]
    for sh in shapes:
        tx = sh["cls"] == "tx"
        sets = [("fn", FN_B), ("tn", TN_B)] + ([("pwr", PWR_B)] if tx else [("rssi", RSSI_B), ("toa", TOA_B), ("ci", CI_B)])
        for b in range(3):
            B = E.BASES[b]
            base = dict(sh, grp="C", legacy=bool(b & 1), tn=(2, 5, 7)[b], fn=B["fn"])
            if tx:
                base["pwr"] = B["pwr"]
            else:
                base.update(rssi=B["rssi"], toa=B["toa"], ci=B["ci"])
            for f, vals in sets:
                for v in vals:
                    c = dict(base)
                    c[f] = v
                    yield c
    for sh in (shapes[0], shapes[2], shapes[4], shapes[-1]):
        tx = sh["cls"] == "tx"
        sets = [("fn", FN_B), ("tn", TN_B)] + ([("pwr", PWR_B)] if tx else [("rssi", RSSI_B), ("toa", TOA_B), ("ci", CI_B)])
        names = [f for f, _ in sets]
        for combo in itertools.product(*[(v[0], v[1], v[-2], v[-1]) for _, v in sets]):
            yield dict(sh, grp="C-product", legacy=False, **dict(zip(names, combo)))


def build_candidate(dm, c):
    """toolkit object for a candidate (fields may be out of range); -> (object, expected burst as list or None)"""
    bl = c["bl"]
    if c["cls"] == "tx":
        m = dm.TxMsg(fn=c["fn"], tn=c["tn"], ver=c["ver"])
        m.pwr = c["pwr"]
        bits = None if bl is None else [i & 1 for i in range(bl)]
        if bits is not None:
            m.burst = bytearray(bits)
        return m, bits
    m = dm.RxMsg(fn=c["fn"], tn=c["tn"], ver=c["ver"])
    m.rssi, m.toa256, m.ci, m.nope_ind = c["rssi"], c["toa"], c["ci"], c["nope"]
    m.mod_type = None if c["mod"] is None else dm.Modulation[c["mod"]]
    m.tsc_set, m.tsc = c["tsc_set"], c["tsc"]
    bits = None if bl is None else [(i % 255) - 127 for i in range(bl)]
    if bits is not None:
        m.burst = array('b', bits)
    return m, bits


def check_accepted(e, c):
    """-> (status, [(key, msg)]); status: 'rejected' | 'accepted' | 'other-exception'.  A candidate the toolkit's own
    validate() accepts must survive gen_msg(legacy) -> parse_msg() on a fresh object in every field its version carries."""
    dm = e["dm"]
    cls, ver = c["cls"], c["ver"]
    m, bits = build_candidate(dm, c)
    try:
        m.validate()
    except ValueError:
        return "rejected", []
    except Exception:
        return "other-exception", []          # C13's business
    nope = cls == "rx" and ver == 1 and c["nope"]
    pre = "C01:accepted:%s:v%d%s" % (cls, ver, ":nope" if nope else "")
    try:
        data = m.gen_msg(c["legacy"])
    except Exception as ex:
        return "accepted", [("%s:gen-raises-%s" % (pre, type(ex).__name__), "validate() accepts the message, gen_msg() raises %s(%s)"
                             % (type(ex).__name__, ex))]
    p = dm.TxMsg() if cls == "tx" else dm.RxMsg()
    try:
        p.parse_msg(bytes(data) if cls == "tx" else bytearray(data))
    except Exception as ex:
        return "accepted", [("%s:parse-raises-%s" % (pre, type(ex).__name__), "validate() accepts the message (%s), parse_msg() of its "
                             "own encoding raises %s(%s)" % (_cdesc(c), type(ex).__name__, ex))]
    out = []

    def cmp(field, got, exp):
        if got != exp:
            out.append(("%s:%s" % (pre, field), "%s: the accepted message (%s) has %r, its own encoding %s... decodes to %r"
                        % (field, _cdesc(c), exp, bytes(data[:11]).hex(), got)))

    cmp("ver", p.ver, ver)
    cmp("fn", p.fn, c["fn"])
    cmp("tn", p.tn, c["tn"])
    if cls == "tx":
        cmp("pwr", p.pwr, c["pwr"])
    else:
        cmp("rssi", p.rssi, c["rssi"])
        cmp("toa256", p.toa256, c["toa"])
        if ver == 1:
            cmp("nope_ind", p.nope_ind, c["nope"])
            cmp("ci", p.ci, c["ci"])
            if not nope:
                if p.mod_type is not dm.Modulation[c["mod"]]:
                    out.append((pre + ":mod_type", "mod_type: the accepted message (%s) has %s, its own encoding %s... decodes to %r"
                                % (_cdesc(c), c["mod"], bytes(data[:11]).hex(), p.mod_type)))
                cmp("tsc_set", p.tsc_set, c["tsc_set"])
                cmp("tsc", p.tsc, c["tsc"])
    if bits is None or (nope and not bits):
        if p.burst is not None and len(p.burst):
            out.append((pre + ":burst", "accepted without burst, decoded burst of %d bits" % len(p.burst)))
    elif p.burst is None or list(p.burst) != bits:
        out.append((pre + ":burst", "burst of the accepted message (%s): %s" % (_cdesc(c), "decoded None" if p.burst is None
                                                                               else first_diff(p.burst, bits))))
    return "accepted", out


def _cdesc(c):
    return " ".join("%s=%s" % (k, c[k]) for k in ("ver", "mod", "tsc_set", "tsc", "nope", "bl", "legacy", "fn", "tn", "pwr", "rssi", "toa", "ci")
                    if c.get(k) is not None)


def table_valid(c):
    """is the candidate inside the protocol ranges of the property text (informative counter only)"""
    if not (0 <= c["fn"] < E.HYPER and 0 <= c["tn"] <= 7):
        return False
    if c["cls"] == "tx":
        return 0 <= c["pwr"] <= 255 and c["bl"] in (148, 444)
    if not (-120 <= c["rssi"] <= -47 and -32768 <= c["toa"] <= 32767):
        return False
    if c["ver"] == 0:
        return c["bl"] in (148, 444)
    if c["ci"] is None or not -1280 <= c["ci"] <= 1280:
        return False
    if c["nope"]:
        return c["bl"] is None
    name = E_FROM_TK.get(c["mod"])
    return (name is not None and 0 <= c["tsc_set"] < E.MOD_NSETS[name] and 0 <= c["tsc"] <= 7 and c["bl"] == E.MOD_BL[name])


E_FROM_TK = {v: k for k, v in E.TK_NAME.items()}


def work_accepted(i):
    e = env()
    cov = {"accept_candidates": 0, "accept_accepted": 0, "accept_rejected": 0, "accept_other_exception": 0,
           "accept_accepted_beyond_table": 0, "accept_rejected_inside_table": 0, "accept_by_group": {}, "accept_accepted_by_class": {}}
    viol, vkeys, nviol = [], set(), 0
    sample = None
    for n, c in enumerate(candidates(e["dm"])):
        if n % ACC_SLICES != i:
            continue
        cov["accept_candidates"] += 1
        cov["accept_by_group"][c["grp"]] = cov["accept_by_group"].get(c["grp"], 0) + 1
        try:
            st, r = check_accepted(e, c)
        except Exception as ex:
            st, r = "other-exception", [unexpected("accepted", ex)]
        tv = table_valid(c)
        if st == "accepted":
            cov["accept_accepted"] += 1
            kl = E.class_of(c)
            cov["accept_accepted_by_class"][kl] = cov["accept_accepted_by_class"].get(kl, 0) + 1
            if sample is None:
                sample = c
            if not tv:
                cov["accept_accepted_beyond_table"] += 1
        elif st == "rejected":
            cov["accept_rejected"] += 1
            if tv:
                cov["accept_rejected_inside_table"] += 1
        else:
            cov["accept_other_exception"] += 1
        for key, msg in r:
            nviol += 1
            if key not in vkeys:
                vkeys.add(key)
                viol.append((key, {"leg": "accepted", "cand": c}, msg))
    return {"cov": cov, "viol": viol, "nviol_extra": nviol - len(viol), "samples": [sample] if sample else []}


def check_tables(e):
    """auxiliary leg on the translation helpers used by gen/parse (and by trans()); -> list of (key, msg)"""
    Msg = e["dm"].Msg
    out = []
    s = array('b', range(-127, 128))
    u = Msg.sbit2usbit(s)
    bad = [(s[i], u[i]) for i in range(255) if u[i] != 127 - s[i]]
    if bad or len(u) != 255:
        out.append(("C01:tables:sbit2usbit", "soft bit -> unsigned soft bit is not 127 - s on -127..127: (s, got) %r" % bad[:8]))
    back = Msg.usbit2sbit(array('B', range(254, -1, -1)))
    bad = [(254 - i, back[i]) for i in range(255) if back[i] != s[i]]
    if bad or len(back) != 255:
        out.append(("C01:tables:usbit2sbit", "unsigned soft bit -> soft bit is not 127 - u on 0..254: (u, got) %r" % bad[:8]))
    rt = Msg.usbit2sbit(Msg.sbit2usbit(s))
    if list(rt) != list(s):
        out.append(("C01:tables:softbit-identity", "usbit2sbit(sbit2usbit(s)) != s for %r"
                    % [(a, b) for a, b in zip(s, rt) if a != b][:8]))
    h = Msg.sbit2ubit(s)
    bad = [(s[i], h[i]) for i in range(255) if s[i] != 0 and h[i] != (1 if s[i] < 0 else 0)]
    if bad or len(h) != 255:
        out.append(("C01:tables:sbit2ubit", "soft -> hard bit does not follow the sign (negative = 1): (s, got) %r" % bad[:8]))
    sb = Msg.ubit2sbit(bytearray([0, 1, 1, 0]))
    if not (len(sb) == 4 and sb[0] > 0 and sb[3] > 0 and sb[1] < 0 and sb[2] < 0):
        out.append(("C01:tables:ubit2sbit", "hard -> soft bit polarity: 0,1,1,0 -> %r (expected +,-,-,+)" % list(sb)))
    elif list(Msg.sbit2ubit(sb)) != [0, 1, 1, 0]:
        out.append(("C01:tables:hardbit-identity", "sbit2ubit(ubit2sbit(b)) != b: %r" % list(Msg.sbit2ubit(sb))))
    return out


def work(chunk):
    e = env()
    H = History(e)
    stat = {"roundtrips": 0, "fields_compared": 0, "burst_bits_compared": 0}
    by_class, by_group = {}, {}
    viol, vkeys, nviol = [], set(), 0
    keys, good = set(), set()
    sample = None
    n = 0
    ninpl = [0, 0]
    sweep = chunk[3] if chunk[0] == "sweep" else None
    for i, (kind, c) in enumerate(seq_chunk(chunk)):
        buf = snap = None
        if kind != "twin":
            n += 1
            try:
                r = check_case(e, c, stat)
                buf, snap = e["last_buf"], e["last_snap"]
            except Exception as ex:
                r = [unexpected("case", ex)]
            # inside a sweep chunk the cases differ in the swept field only
            k = c[sweep] if sweep else E.case_key(c)
            keys.add(k)
            kl = E.class_of(c)
            by_class[kl] = by_class.get(kl, 0) + 1
            by_group[c["grp"]] = by_group.get(c["grp"], 0) + 1
            if sample is None:
                sample = c
            if not r or not any("-raises-" in x[0] for x in r):
                good.add(k)
            for key, msg in r:
                nviol += 1
                if key not in vkeys:
                    vkeys.add(key)
                    viol.append((key, c, msg))
        if kind != "case-fresh-only":       # history step right after the plain round trip, before anything else encodes
            try:
                hr, hist = H.process(kind, c, buf, snap)
            except Exception as ex:
                hr, hist = [unexpected("history", ex)], None
            for key, msg in hr:
                nviol += 1
                if key in vkeys:
                    continue
                vkeys.add(key)
                try:
                    if hist is None:
                        raise ValueError
                    viol.append(history_viol(e, H, key, msg, hist, chunk, i))
                except Exception:
                    viol.append((key, {"leg": "history-seq", "chunk": chunk, "n": i}, msg))
        if kind != "twin" and E.inplace_here(chunk, n - 1):
            try:
                ne, ir = inplace_visit(e, c)
            except Exception as ex:
                ne, ir = 0, [unexpected("inplace", ex)]
            ninpl[0] += 1
            ninpl[1] += ne
            for key, msg in ir:
                nviol += 1
                if key not in vkeys:
                    vkeys.add(key)
                    viol.append((key, {"leg": "inplace", "case": c}, msg))
    cov = dict(stat, evaluations=n, distinct_cases=len(keys), distinct_nontrivial=len(good),
               by_class=by_class, by_group=by_group, chunks=1, hist_inplace_visits=ninpl[0], hist_inplace_roundtrips=ninpl[1])
    cov.update(H.cov)
    return {"cov": cov, "viol": viol, "nviol_extra": nviol - len(viol), "samples": [sample] if sample else []}


def work_tables(_):
    e = env()
    try:
        r = check_tables(e)
    except Exception as ex:
        r = [unexpected("tables", ex)]
    return {"cov": {"table_checks": 6, "table_entries_checked": 255 * 4 + 4},
            "viol": [(k, {"leg": "tables"}, m) for k, m in r]}


def run(ctx):
    ch = E.chunks(ctx.tier)
    if len(set(map(tuple, ch))) != len(ch):
        from vlib.errors import HarnessError
        raise HarnessError("duplicate chunk descriptors")
    order = sorted(range(len(ch)), key=lambda i: -E.chunk_cost(ch[i]))      # heavy chunks first (stable, deterministic)
    seen = set()
    for r in ctx.pmap(work, [ch[i] for i in order]):
        sm = r.pop("samples", [])
        ctx.merge(r)
        for x in sm:                      # one sample per (class, group) instead of the first six
            k = (E.class_of(x), x["grp"])
            if k not in seen:
                seen.add(k)
                ctx.sample(x)
    for r in ctx.pmap(work_tables, [0]):
        ctx.merge(r)
    for i, r in enumerate(ctx.pmap(work_accepted, list(range(ACC_SLICES)))):
        sm = r.pop("samples", [])
        ctx.merge(r)
        if i == 0:
            ctx.cov["accept_example_accepted"] = sm[0] if sm else None
    c = ctx.cov
    c["points"] = len(E.points())
    c["fn_values_quick_set"] = len(E.fn_quick_set())
    c["rule"] = (E.rule(ctx.tier) + " One evaluation = build the toolkit object from the case, gen_msg(legacy), parse_msg() on a "
                 "fresh object, compare every carried field and every burst bit with the case (v0+legacy: additionally against the "
                 "decoding of the unpadded twin). Non-trivial = the toolkit encoded the case and parsed its own encoding, so that "
                 "fields were actually compared (distinct by case key = all message fields + burst pattern + legacy flag). "
                 "History leg (hist_* counters, not part of evaluations/distinct_nontrivial): per work item one long-lived decoder and "
                 "one long-lived encoder object per class; every message of a base/burst chunk, every 8th of a sweep (32nd of an all-FN "
                 "sweep) is also parsed into the long-lived decoder and "
                 "compared field by field; after every case of a base chunk, every 8th case of a burst-pattern chunk and every 32nd case of a sweep a twin message of "
                 "different shape (rx v1 burst <-> NOPE.ind, tx / rx v0 other burst length) is encoded through the long-lived encoder "
                 "(octets must equal a new object's) and decoded by the long-lived decoder; previously returned buffers must stay "
                 "unchanged (aliasing). In-place edits (hist_inplace_*): at every case of a base chunk, every 64th of a burst-pattern "
                 "chunk and every 256th of a sweep one object encodes, is edited in place (burst element first/middle/last, burst "
                 "slice-assigned, fn, tn, pwr/rssi, toa256, ci, tsc, tsc_set) and re-encodes after every edit, each encoding round-"
                 "tripped through a fresh decoder against the edited message; a used decoder object parses, re-encodes, gets its parsed "
                 "burst and fn edited in place and re-encodes likewise. Acceptance-driven leg (accept_* counters, not part of "
                 "evaluations): candidates slightly beyond the protocol ranges (rx v1: every Modulation member x TSC set 0..4 x TSC "
                 "0..8 x NOPE x burst length {148,296,444,592,740,own,None} x legacy x 3 base points; tx/rx v0: burst length {None,0,"
                 "147..150,443..447} x legacy x TN x 3 base points; boundary-1/boundary/boundary+1 of fn,tn,pwr,rssi,toa256,ci one at "
                 "a time and as product of {min-1,min,max,max+1}); every candidate the toolkit's validate() accepts is round-tripped "
                 "and compared in every carried field and burst bit, rejected ones are counted. Work items, not worker processes, own these objects, so results do not depend on scheduling.")
    c["exhaustive"] = True
    ctx.assumptions += ["joint products of wide fields are not enumerated (one wide field at a time at 3 base points)",
                        "burst contents are the stated pattern families, not {0,1}^n / [-127,127]^n",
                        "FN 2^24-1 and 2^24 of the design's quick set are invalid frame numbers and left to C13"]


def _replay(ctx, case):
    e = env()
    if case.get("leg") == "tables":
        for k, m in check_tables(e):
            ctx.violation(k, case, m)
        return
    if case.get("leg") == "accepted":
        for k, m in check_accepted(e, case["cand"])[1]:
            ctx.violation(k, case, m)
        return
    if case.get("leg") == "inplace":
        for k, m in inplace_visit(e, case["case"])[1]:
            ctx.violation(k, case, m)
        return
    if case.get("leg") == "history":
        for k, m in replay_history(e, case["msgs"]):
            ctx.violation(k, case, m)
        return
    if case.get("leg") == "history-seq":
        H = History(e)
        for i, (kind, c) in enumerate(seq_chunk(case["chunk"])):
            if kind == "case-fresh-only":
                continue
            try:
                hr, _ = H.process(kind, c)
            except Exception as ex:
                hr = [unexpected("history", ex)]
            if i == case["n"]:
                for k, m in hr:
                    ctx.violation(k, case, m)
                break
        return
    for k, m in check_case(e, case):
        ctx.violation(k, case, m)


def replay(ctx, case):
    leg = case.get("leg", "case")
    try:
        _replay(ctx, case)
    except Exception as ex:
        k, m = unexpected({"history-seq": "history"}.get(leg, leg), ex)
        ctx.violation(k, case, m)

"""C03, schedule part: the socket thread (one or two of {arrival(f), arrival(f+1),
POWEROFF, POWERON} dispatched by the real main loop) races the clock thread (one
clck_handler(f)).  Every interleaving at shared-access granularity up to a
preemption bound is executed on the real Application (vlib/sched.py); afterwards
two sequential drain ticks bring every burst to a terminal fate.

Oracle: the observation (datagrams per phase, stale reports, replies) must equal
the reference model's result for SOME sequential order of the operations
(tick placed at any position among the socket operations) - brute-force
linearizability against the fate model.
"""
import gc
import itertools

from vlib import sched, world
from vlib.appworld import AppWorld
from vlib.errors import HarnessError
from vlib.ref import trxmodel, trxd

F1, F2, F3, F4 = 935000, 890000, 936000, 937000
F = 1000            # frame of the racing tick
OPS = ["arr0", "arr1", "off", "on"]
QUEUES = {"empty": [], "f": [0], "f,f+1": [0, 1], "f-1,f": [-1, 0], "f,f+1,f+2": [0, 1, 2]}


def bits_for(tag):
    return bytes(((k * 5 + tag) >> 1) & 1 for k in range(148))


def op_payload(op, seq):
    """-> (socket kind, payload, transceiver index)"""
    if op == "arr0":
        return ("data", trxd.enc_tx(0, 2, F, 3, bits_for(10 + seq)), 0)
    if op == "arr1":
        return ("data", trxd.enc_tx(0, 3, F + 1, 4, bits_for(20 + seq)), 0)
    if op == "off":
        return ("ctrl", b"CMD POWEROFF\0", 0)
    if op == "on":
        return ("ctrl", b"CMD POWERON\0", 0)
    if op == "msoff":
        return ("ctrl", b"CMD POWEROFF\0", 1)
    if op == "mson":
        return ("ctrl", b"CMD POWERON\0", 1)
    if op == "msfh":
        return ("ctrl", ("CMD SETFH 0 0 %d %d %d %d\0" % (F3, F3, F4, F4)).encode(), 1)
    if op == "mstune":
        return ("ctrl", ("CMD RXTUNE %d\0" % F1).encode(), 1)
    if op.startswith("msfmt"):
        return ("ctrl", ("CMD SETFORMAT %s\0" % op[5:]).encode(), 1)
    if op == "msrssi":
        return ("ctrl", b"CMD FAKE_RSSI -75 2\0", 1)
    if op == "mstoa":
        return ("ctrl", b"CMD FAKE_TOA 50 3\0", 1)
    if op == "msci":
        return ("ctrl", b"CMD FAKE_CI 40 4\0", 1)
    if op == "msta":
        return ("ctrl", b"CMD SETTA 3\0", 0)
    if op.startswith("msdrop"):
        return ("ctrl", ("CMD FAKE_DROP %s\0" % op[6:].replace("_", " ")).encode(), 1)
    if op.startswith("msmute"):
        return ("ctrl", ("CMD RFMUTE %s\0" % op[6:]).encode(), 1)
    if op.startswith("btsmute"):
        return ("ctrl", ("CMD RFMUTE %s\0" % op[7:]).encode(), 0)
    raise ValueError(op)


PREFIX = [(0, "RXTUNE %d" % F2), (0, "TXTUNE %d" % F1), (1, "RXTUNE %d" % F1), (1, "TXTUNE %d" % F2),
          (1, "POWERON"), (0, "POWERON")]
# recipient that hops elsewhere but still remembers an older fixed tuning to the sender's frequency
PREFIX_MSHOP = [(0, "RXTUNE %d" % F2), (0, "TXTUNE %d" % F1), (1, "RXTUNE %d" % F1), (1, "TXTUNE %d" % F2),
                (1, "SETFH 0 0 %d %d %d %d" % (F3, F3, F4, F4)), (1, "POWERON"), (0, "POWERON")]
PREFIX_MSOFF = [(0, "RXTUNE %d" % F2), (0, "TXTUNE %d" % F1), (1, "RXTUNE %d" % F1), (1, "TXTUNE %d" % F2),
                (0, "POWERON")]
PREFIX_DROP1 = PREFIX + [(1, "FAKE_DROP 1")]
PREFIX_DROP2P2 = PREFIX + [(1, "FAKE_DROP 2 2")]
PREFIX_V1DROP1 = PREFIX[:4] + [(1, "SETFORMAT 1")] + PREFIX[4:] + [(1, "FAKE_DROP 1")]
PREFIX_V1 = PREFIX[:4] + [(1, "SETFORMAT 1")] + PREFIX[4:]
PREFIX_MUTEDROP1 = PREFIX + [(1, "FAKE_DROP 1"), (1, "RFMUTE 1")]
PREFIXES = {"mutedrop1": PREFIX_MUTEDROP1, "v1mutedrop1": None, "v1": PREFIX_V1, "std": PREFIX, "mshop": PREFIX_MSHOP, "msoff": PREFIX_MSOFF, "drop1": PREFIX_DROP1, "drop2p2": PREFIX_DROP2P2,
            "v1drop1": PREFIX_V1DROP1}
PREFIXES["v1mutedrop1"] = PREFIX_V1 + [(1, "FAKE_DROP 1"), (1, "RFMUTE 1")]
DRAIN = [("c", 0, b"CMD POWERON\0"), ("t", F + 1), ("t", F + 2)]


class Scenario:
    def __init__(self, ops, queue, start_off=False, prefix="std", clock="handler"):
        """clock: what the clock thread runs - "handler" = Application.clck_handler(F) (the frame handler only) or
        "ind" = CLCKGen.send_clck_ind() of the started generator (clock indications to the links + the handler);
        with "ind" a Thread.join() of the generator thread really waits for the clock thread's body."""
        self.ops = ops
        self.queue = queue
        self.start_off = start_off
        self.prefix = prefix
        self.clock = clock
        self.name = "%s|q=%s%s%s%s" % ("+".join(ops), queue, "|off" if start_off else "", "" if prefix == "std" else "|" + prefix,
                                       "" if clock == "handler" else "|" + clock)
        self.defs = trxmodel.std_config()

    # -- reference: all sequential orders -----------------------------------------------
    def linearizations(self):
        """the candidate positions of the tick among the socket operations; with clock="ind" a tick is two
        steps - the clock indications to the links, then the frame handler - and a socket operation may
        fall between them (a transceiver powered on or off 'during' a frame may or may not get that
        frame's indication), so candidates are pairs (position of IND step, position of handler step)"""
        n = len(self.ops)
        if self.clock == "ind":
            return [(a, b) for a in range(n + 1) for b in range(a, n + 1)]
        return list(range(n + 1))

    def try_order(self, pos, obs):
        """Replays the reference model with the tick at position `pos` and matches the observation
        phase by phase (the model's drop budget evolves with what was observed).  -> None | reason"""
        m = trxmodel.RefApp(self.defs, ind_period=1 if self.clock == "ind" else 0, clck_start=F)
        for i, c in PREFIXES[self.prefix]:
            m.ctrl(i, ("CMD " + c + "\0").encode(), ("127.0.0.1", self.defs[i].ctrl + 100))
        for k, d in enumerate(QUEUES[self.queue]):
            m.data(0, trxd.enc_tx(0, 1, F + d, 1, bits_for(k)))
        if self.start_off:
            m.ctrl(0, b"CMD POWEROFF\0", ("127.0.0.1", 5801))
        ctrl_ports = {d.ctrl + 100 for d in self.defs}
        out0, stale0 = obs[0]
        replies = []
        seq = list(self.ops)
        clck_ports = {d.clck + 100 for d in self.defs if d.clck is not None}
        if isinstance(pos, tuple):
            pi, ph = pos
            order = seq[:pi] + ["IND"] + seq[pi:ph] + ["TICK"] + seq[ph:]
            m.ind_period = 0
        else:
            order = seq[:pos] + ["TICK"] + seq[pos:]
        si = 0
        for o in order:
            if o == "IND":
                want = ("IND CLOCK %u" % F).encode() + b"\0"
                e = [trxmodel.Exp(self.defs[i].clck + 100, self.defs[i].addr, [(lambda p, w=want: p == w, None)], "IND CLOCK %d" % F)
                     for i in m.links]
                mm = trxmodel.match(e, [x for x in out0 if x[2] in clck_ports], m)
                if mm:
                    return mm
            elif o == "TICK":
                e, st = self._mtick(m, F)
                if len(st) != stale0:
                    return "stale %d vs %d" % (stale0, len(st))
                mm = trxmodel.match(e, [x for x in out0 if x[2] not in ctrl_ports and
                                        (not isinstance(pos, tuple) or x[2] not in clck_ports)], m) if e is not None else None
                if mm:
                    return mm
            else:
                kind, pl, ti = op_payload(o, si)
                si += 1
                if kind == "ctrl":
                    replies += m.ctrl(ti, pl, ("127.0.0.1", self.defs[ti].ctrl + 100))
                else:
                    m.data(ti, pl)
        mm = trxmodel.match(replies, [x for x in out0 if x[2] in ctrl_ports], m)
        if mm:
            return mm
        # the drain ticks call the frame handler directly - except in the clock-generator scenarios, where they
        # are complete ticks (indications to the links as the generator sees them now, then the handler)
        m.ind_period = 1 if self.clock == "ind" else 0
        for st_, (out, ost) in zip(DRAIN, obs[1:]):
            if st_[0] == "c":
                e = m.ctrl(st_[1], st_[2], ("127.0.0.1", self.defs[st_[1]].ctrl + 100))
                nst = 0
            else:
                e, st = self._mtick(m, st_[1])
                nst = len(st)
            if nst != ost:
                return "drain: stale %d vs %d" % (ost, nst)
            mm = trxmodel.match(e, out, m) if e is not None else None
            if mm:
                return "drain: " + mm
        return None

    @staticmethod
    def _mtick(m, fn):
        m.fn, m.clock_running = fn, True
        e, st = m.tick()
        return e, st

    # -- implementation under the scheduler ---------------------------------------------
    def execute(self, choices, first):
        world.install()
        # finalizers of earlier worlds (UDPLink.__del__ is toolkit code and would be traced) must not
        # run at GC-chosen moments inside a scheduled thread: collect here, keep the collector off meanwhile
        gc.disable()
        _SHARED["n"] = _SHARED.get("n", 0) + 1
        if _SHARED["n"] % 20 == 1:
            gc.collect()
        holder = {}
        world.TrivialLock.lock_factory = lambda: holder["s"].make_lock()
        s = sched.Scheduler(frozenset())
        holder["s"] = s
        try:
            W = AppWorld(self.defs, ind_period=1 if self.clock == "ind" else 0, clck_start=F)
        finally:
            world.TrivialLock.lock_factory = None
        W.model = None
        app, fab = W.app, W.fab
        for i, c in PREFIXES[self.prefix]:
            fab.inject(self.defs[i].ctrl, ("CMD " + c + "\0").encode(), ("127.0.0.1", self.defs[i].ctrl + 100))
            world.pump(app)
        for k, d in enumerate(QUEUES[self.queue]):
            fab.inject(self.defs[0].data, trxd.enc_tx(0, 1, F + d, 1, bits_for(k)), ("127.0.0.1", 5802))
            world.pump(app)
        if self.start_off:
            fab.inject(self.defs[0].ctrl, b"CMD POWEROFF\0", ("127.0.0.1", 5801))
            world.pump(app)
        fab.reset_out()
        world.capture.reset()
        if "names" not in _SHARED:
            # the same, complete name set in every process: everything reachable from the application plus
            # the object kinds that only exist transiently (queued messages, hopping parameters)
            import data_msg
            import gsm_shared
            m1, m2 = data_msg.TxMsg(fn=0, tn=0, burst=bytearray(148)), data_msg.RxMsg(fn=0, tn=0)
            m1.pwr = 0
            m2.rssi = m2.toa256 = m2.ci = m2.tsc = m2.tsc_set = 0
            _SHARED["names"] = sched.shared_names([app, m1, m2, gsm_shared.HoppingParams(0, 0, [(1, 1)])])
        s.shared = _SHARED["names"]

        def sock_thread():
            for si, o in enumerate(self.ops):
                kind, pl, ti = op_payload(o, si)
                port = self.defs[ti].ctrl if kind == "ctrl" else self.defs[ti].data
                fab.inject(port, pl, ("127.0.0.1", port + 100))
                world.pump(app)

        def clck_thread():
            if self.clock == "ind":
                if not hasattr(app.clck_gen, "clck_src"):
                    app.clck_gen.clck_src = F        # generator never started in this scenario: nothing would tick
                app.clck_gen.send_clck_ind()
            else:
                app.clck_handler(F)

        world.FakeThread.on_join = (lambda th: s.join_wait(1)) if self.clock == "ind" else None
        try:
            pts = s.execute([sock_thread, clck_thread], choices, first=first)
        finally:
            world.FakeThread.on_join = None
        obs = []
        out = fab.reset_out()
        recs = world.capture.reset()
        obs.append((out, sum(1 for lv, msg in recs if "Stale TRXD message" in msg)))
        for st_ in DRAIN:
            if s.deadlock or s.errors:
                obs.append(([], 0))       # threads are stuck holding locks / died: nothing more can be driven
                continue
            if st_[0] == "c":
                fab.inject(self.defs[st_[1]].ctrl, st_[2], ("127.0.0.1", self.defs[st_[1]].ctrl + 100))
                world.pump(app)
            elif self.clock == "ind":
                app.clck_gen.clck_src = st_[1]
                app.clck_gen.send_clck_ind()
            else:
                app.clck_handler(st_[1])
            out = fab.reset_out()
            recs = world.capture.reset()
            obs.append((out, sum(1 for lv, msg in recs if "Stale TRXD message" in msg)))
        return pts, obs, list(s.errors), s.deadlock

    def judge(self, obs, errors, deadlock, lins):
        if deadlock:
            return "deadlock", "no enabled thread while some are unfinished"
        if errors:
            return "exception", "exception left a thread: %r" % (errors,)
        why = []
        for pos in lins:
            r = self.try_order(pos, obs)
            if r is None:
                return None, pos
            why.append("tick@%s: %s" % (pos, r))
        return "not-linearizable", "observation matches no sequential order of the operations: " + " || ".join(why)[:1500]


def scenarios(tier):
    if tier == "quick":
        basic = [Scenario(["arr0"], "f"), Scenario(["off"], "f,f+1")]
    else:
        basic = [Scenario([o], q) for o in ("arr0", "off") for q in ("f", "f,f+1")]
    others = []
    for q in QUEUES:
        for o in OPS:
            sc = Scenario([o], q, start_off=(o == "on"))
            if not any(b.name == sc.name for b in basic):
                others.append(sc)
        for a, b in itertools.product(OPS, OPS):
            others.append(Scenario([a, b], q, start_off=(a == "on")))
    return basic, others


def drop_scenarios(tier):
    """C18 under schedules: a FAKE_DROP / RFMUTE command to the recipient (or RFMUTE to the sender) racing the
    tick that forwards a burst to it; the following two ticks forward two more bursts and show the budget."""
    out = []
    q = "f,f+1,f+2"
    for prefix in ("drop1", "drop2p2", "v1drop1", "std"):
        for op in ("msdrop2", "msdrop0", "msdrop1_2", "msdrop1_3", "msmute1", "btsmute1"):
            out.append(Scenario([op], q, prefix=prefix))
    out.append(Scenario(["msmute1", "msmute0"], q, prefix="drop1"))
    # the recipient is muted with a drop pending and gets unmuted while the burst is on its way: whichever way the
    # race goes, the burst is suppressed (muted) or dropped (budget)
    out.append(Scenario(["msmute0"], q, prefix="mutedrop1"))
    out.append(Scenario(["msmute0"], q, prefix="v1mutedrop1"))
    out.append(Scenario(["msdrop2", "msdrop0"], q, prefix="std"))
    return out


def clock_scenarios(tier):
    """C12 under schedules: power commands racing one tick of the started clock generator (clock indications
    to the links + frame handler); POWEROFF of the last running clock owner stops the generator and joins
    its thread while the tick is in progress."""
    out = []
    for q in ("f", "empty"):
        out.append(Scenario(["off"], q, prefix="msoff", clock="ind"))
        out.append(Scenario(["msoff", "off"], q, clock="ind"))
        out.append(Scenario(["off", "msoff"], q, clock="ind"))
        out.append(Scenario(["off"], q, clock="ind"))
        out.append(Scenario(["off", "on"], q, prefix="msoff", clock="ind"))
        out.append(Scenario(["mson"], q, prefix="msoff", clock="ind"))
        out.append(Scenario(["msoff"], q, clock="ind"))
    # the MS is the (hopping) recipient of the burst the tick forwards while it is switched off: whatever the
    # race does to the burst, the clock thread must survive and the BTS keep its clock indications
    out.append(Scenario(["msoff"], "f", prefix="mshop", clock="ind"))
    out.append(Scenario(["msoff", "mson"], "f", prefix="mshop", clock="ind"))
    return out


def metadata_scenarios(tier):
    """C10 under schedules: the recipient's simulation parameters are switched on (from their defaults) while the
    tick forwards a burst to it; every delivered burst must carry either the old or the new values."""
    out = []
    q = "f,f+1,f+2"
    for op in ("msrssi", "mstoa", "msci", "msta"):
        out.append(Scenario([op], q))
        out.append(Scenario([op], q, prefix="v1"))
    out.append(Scenario(["msfmt1"], q))
    out.append(Scenario(["msfmt0"], q, prefix="v1"))
    out.append(Scenario(["msfmt1", "msfmt0"], q))
    return out


def routing_scenarios(tier):
    """C02 under schedules: power / hopping / tuning commands of the RECIPIENT racing the tick that
    forwards a burst towards it (the recipient hops elsewhere but remembers an older fixed tuning
    to the sender's frequency, or is tuned to it, or is off)."""
    out = []
    for q in ("f", "f,f+1"):
        out.append(Scenario(["msoff"], q, prefix="mshop"))
        out.append(Scenario(["msoff"], q))
        out.append(Scenario(["mson"], q, prefix="msoff"))
        out.append(Scenario(["msfh"], q))
        out.append(Scenario(["msoff", "mson"], q, prefix="mshop"))
        out.append(Scenario(["msfh", "msoff"], q))
        out.append(Scenario(["mstune"], q, prefix="mshop"))
        out.append(Scenario(["mson", "msoff"], q, prefix="msoff"))
    return out


_SC = {}
_SHARED = {}


def _run_scenario(arg):
    """One work item = (scenario, preemption bound, first thread, slice k of n): the root
    execution (default schedule) is re-run by every slice (cheap) and its children - one per
    (point, alternative) - are dealt round-robin to the n slices, each explored to the bound."""
    name, bound, first, k, n, prop = arg
    sc = _SC[name]
    lins = sc.linearizations()
    # warm-up + determinism: CPython 3.12 enables opcode events only from the second settrace call of a
    # process on; after that the same schedule must give the same points every time
    sc.execute({}, 0)
    p1 = [p[:2] for p in sc.execute({}, first)[0]]
    root_pts, obs, errors, dl = sc.execute({}, first)
    if p1 != [p[:2] for p in root_pts]:
        raise HarnessError("scheduler not deterministic for scenario %s" % name)
    viol = []
    outcomes = set()
    last = {}

    def run(ch):
        pts, obs, errors, dl = sc.execute(ch, first)
        last["r"] = (obs, errors, dl)
        return pts

    def check(ch, pts):
        obs, errors, dl = last["r"]
        cls, info = sc.judge(obs, errors, dl, lins)
        if cls:
            if len(viol) < 3:
                viol.append(("%s:sched:%s:%s" % (prop, cls, sc.name),
                             {"sched": True, "scenario": sc.name, "ops": sc.ops, "queue": sc.queue,
                              "start_off": sc.start_off, "prefix": sc.prefix, "clock": sc.clock, "first": first,
                              "choices": {str(kk): v for kk, v in ch.items()}}, info))
        else:
            outcomes.add(info)

    nexec = 0
    if k == 0:
        last["r"] = (obs, errors, dl)
        check({}, root_pts)
        nexec += 1
    children = []
    for i, (tid, kind, nen, ren) in enumerate(root_pts):
        for alt in range(1, nen):
            if (1 if ren else 0) <= bound:
                children.append(({i: alt}, root_pts))
    mine = [c for j, c in enumerate(children) if j % n == k]
    st = sched.explore(run, bound, check, first_level=mine) if mine else {"executions": 0, "max_points": 0, "points_total": 0}
    return {"name": name, "bound": bound, "first": first,
            "stats": {"executions": st["executions"] + nexec, "max_points": max(st["max_points"], len(root_pts)),
                      "points_total": st["points_total"]},
            "viol": viol, "outcomes": sorted(outcomes)}


def run(ctx, family="queue"):
    if family == "queue":
        basic, others = scenarios(ctx.tier)
        b_basic, b_other = (2, 1) if ctx.quick else (2, 1)
    elif family == "drop":
        basic, others = [], drop_scenarios(ctx.tier)
        b_basic, b_other = (1, 1) if ctx.quick else (2, 2)
    elif family == "clock":
        basic, others = [], clock_scenarios(ctx.tier)
        b_basic, b_other = (1, 1) if ctx.quick else (2, 2)
    elif family == "metadata":
        basic, others = [], metadata_scenarios(ctx.tier)
        b_basic, b_other = (1, 1) if ctx.quick else (2, 2)
    else:
        basic, others = [], routing_scenarios(ctx.tier)
        b_basic, b_other = (1, 1) if ctx.quick else (2, 2)
    for s in basic + others:
        _SC[s.name] = s
    items = []
    for s in basic:
        n = 16 if b_basic >= 3 else 6
        items += [(s.name, b_basic, first, k, n, ctx.prop) for first in (0, 1) for k in range(n)]
    deep = []
    for s in others:
        b = b_other
        if not ctx.quick and family == "queue" and len(s.ops) == 1:
            b = 2                  # thorough: every single-operation scenario at bound 2
        n = 16 if b >= 3 else (4 if b >= 2 else 1)
        items += [(s.name, b, first, k, n, ctx.prop) for first in (0, 1) for k in range(n)]
    if not ctx.quick and family == "queue":
        # thorough: one scenario at preemption bound 3 (about 10^6 executions)
        deep = [basic[0]]
        items += [(s.name, 3, first, k, 64, ctx.prop) for s in deep for first in (0, 1) for k in range(64)]
    res = ctx.pmap(_run_scenario, items)
    c = ctx.cov
    nexec = 0
    per = {}
    for r in res:
        nexec += r["stats"]["executions"]
        for v in r["viol"]:
            ctx.violation(*v)
        p = per.setdefault((r["name"], r["bound"]), {"scenario": r["name"], "preemption_bound": r["bound"], "executions": 0,
                                       "max_points": 0, "outcomes": set()})
        p["executions"] += r["stats"]["executions"]
        p["max_points"] = max(p["max_points"], r["stats"]["max_points"])
        p["outcomes"].update(r["outcomes"])
    runs = []
    for p in per.values():
        p["distinct_linearizations_observed"] = len(p.pop("outcomes"))
        runs.append(p)
    c["schedules_executed"] = nexec
    c["schedule_scenarios"] = len({k[0] for k in per})
    c["preemption_bound_basic"] = b_basic
    c["preemption_bound_other"] = b_other
    c["preemption_bound_max"] = max(p["preemption_bound"] for p in runs)
    c["schedule_runs"] = runs
    c["scenarios_with_more_than_one_outcome"] = sum(1 for p in runs if p["distinct_linearizations_observed"] > 1)
    c["traces_validated_against_impl"] = c.get("traces_validated_against_impl", 0) + nexec
    ctx.sample({"schedule_scenario": (basic + others)[0].name, "threads": ["socket: main-loop dispatch", "clock: clck_handler(%d)" % F]})
    ctx.assumptions += ["two threads, one or two socket operations against one tick; preemption bound %d on the basic scenarios, %d on the others%s"
                        % (b_basic, b_other, "; thorough: 2 on every single-operation scenario and 3 on %s" % deep[0].name if deep else ""),
                        "scheduling points at shared attribute access / container iteration / lock operations (finer than CPython's own switch points)"]


def replay(ctx, case):
    sc = Scenario(case["ops"], case["queue"], case.get("start_off", False), case.get("prefix", "std"), case.get("clock", "handler"))
    lins = sc.linearizations()
    ch = {int(k): v for k, v in case["choices"].items()}
    sc.execute({}, 0)       # warm-up (see _run_scenario)
    pts, obs, errors, dl = sc.execute(ch, case["first"])
    cls, info = sc.judge(obs, errors, dl, lins)
    if cls:
        ctx.violation("%s:sched:%s:%s" % (ctx.prop, cls, sc.name), case, info)

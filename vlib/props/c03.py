"""C03 - every queued burst is transmitted exactly once, in its own frame.

Two exhaustive explorations share the reference model's fate oracle (emitted at
the tick whose FN equals the burst's / reported stale / discarded by POWEROFF /
still queued):

 1. histories: explicit-state BFS over {arrival with FN = clock+delta (matching or
    mismatching header version), clock tick, POWEROFF, POWERON, SETFORMAT} on the
    real Application, from start frames 0 and 2715644 (crossing the hyperframe
    wrap); every tick's datagrams and stale reports are compared.
 2. schedules: every interleaving (up to a preemption bound) of the socket
    thread (arrival / power command through the real main-loop dispatch) with the
    clock thread (one clck_handler) at shared-access granularity - see vlib/sched.py
    and c03_sched.py.
"""
from vlib import explore
from vlib.appworld import AppWorld
from vlib.ref import trxmodel, trxd

LEVEL = "model_checking"
F1, F2 = 935000, 890000
HYPER = 2715648


class Spec:
    def __init__(self, start, tier, kmax, ms_events=False, child=False):
        self.name = "C03/hist/start=%d" % start
        self.start = start
        self.kmax = kmax
        self.defs = trxmodel.std_config()
        self.prefix = [(0, "RXTUNE %d" % F2), (0, "TXTUNE %d" % F1), (1, "RXTUNE %d" % F1), (1, "TXTUNE %d" % F2),
                       (1, "POWERON"), (0, "POWERON")]
        self.tx = 0                 # the transceiver whose queue is exercised
        if child:
            # the bursts arrive at a child transceiver of the BTS: it is switched with its parent ("off"/"on")
            # and on its own ("coff"/"con")
            self.name = "C03/hist-child/start=%d" % start
            self.defs = trxmodel.std_config([("C1", 5700, 1)])
            self.prefix = [(2, "RXTUNE %d" % F2), (2, "TXTUNE %d" % F1)] + self.prefix
            self.tx = 2
        self.arr = [("arr", d, 1) for d in (-1, 0, 1, 2, 3)] + [("arr", 1, 0)]
        if tier != "quick":
            self.arr += [("arr", 0, 0), ("arr", 2, 0)]
        self.other = [("tick",), ("off",), ("on",), ("fmt", 0), ("fmt", 1)]
        if ms_events:
            self.other += [("msoff",), ("mson",)]
        if child:
            self.other = [("tick",), ("off",), ("on",), ("coff",), ("con",)]
            self.arr = [("arr", d, 1) for d in (0, 1, 2)]

    def build(self):
        W = AppWorld(self.defs, clck_start=self.start)
        for i, c in self.prefix:
            v = W.ctrl(i, c)
            assert not v, v
        return W

    def events(self, W, hist):
        ev = list(self.other)
        if len(W.model.trx[self.tx].queue) < self.kmax:
            ev = self.arr + ev
        return ev

    def step(self, W, ev):
        k = ev[0]
        m = W.model
        W.outcome = None
        if k == "arr":
            base = m.fn if m.clock_running else self.start
            fn = (base + ev[1]) % HYPER
            ver = m.trx[self.tx].ver if ev[2] else 1 - m.trx[self.tx].ver
            v = W.burst(self.tx, fn, tn=fn % 8, pwr=1, ver=ver)
            W.outcome = W.last_id is not None
            return v
        if k == "tick":
            if not (W.can_tick() or m.clock_running):
                return []
            v = W.tick()
            W.outcome = (len(W.last_out), )
            return v
        if k == "off":
            return W.ctrl(0, "POWEROFF")
        if k == "on":
            return W.ctrl(0, "POWERON")
        if k == "coff":
            return W.ctrl(self.tx, "POWEROFF")
        if k == "con":
            return W.ctrl(self.tx, "POWERON")
        if k == "msoff":
            return W.ctrl(1, "POWEROFF")
        if k == "mson":
            return W.ctrl(1, "POWERON")
        if k == "fmt":
            return W.ctrl(0, "SETFORMAT %d" % ev[1])
        raise ValueError(ev)

    def canon(self, W):
        return W.canon()


def run(ctx):
    from vlib.props import c03_sched
    depth = 7 if ctx.quick else 10
    kmax = 3 if ctx.quick else 4
    for start in (0, 2715644):
        spec = Spec(start, ctx.tier, kmax, ms_events=not ctx.quick)
        explore.bfs(ctx, spec, max_depth=depth, label="hist%d" % start)
    cdepth = 6 if ctx.quick else 8
    spec = Spec(2715645, ctx.tier, 2, child=True)
    explore.bfs(ctx, spec, max_depth=cdepth, label="histchild")
    c = ctx.cov
    c["history_depth"] = depth
    c["max_queued"] = kmax
    c["histories_exhaustive_to_depth"] = depth
    c03_sched.run(ctx)
    c["exhaustive"] = True
    c["evaluations"] = c["transitions"] + c.get("schedules_executed", 0)
    c["distinct_nontrivial"] = c["states"]
    ctx.assumptions += ["clock thread body replaced by direct CLCKGen.send_clck_ind() calls in the history exploration",
                        "histories bounded by depth %d and %d queued bursts; the frontier at that depth is not expanded" % (depth, kmax),
                        "frame numbers compared on the ring of 2715648 (a burst is 'past' when less than half a hyperframe behind the clock)"]


def replay(ctx, case):
    if case.get("sched"):
        from vlib.props import c03_sched
        return c03_sched.replay(ctx, case)
    start = int(case["spec"].split("=")[1])
    spec = Spec(start, "thorough", 9, ms_events=True, child="hist-child" in case["spec"])
    W = spec.build()
    hist = [tuple(e) for e in case["hist"]]
    for k, ev in enumerate(hist):
        v = spec.step(W, ev)
        if v and k == len(hist) - 1:
            for c, m in v:
                ctx.violation("%s:%s_%s" % (ctx.prop, "histchild" if "hist-child" in case["spec"] else "hist%d" % start, c), case, m)

class HarnessError(Exception):
    """The check itself failed (build error, nondeterminism, missing slice): exit 2, never a verdict."""


class AppStartFailure(Exception):
    """fake_trx.Application() raised while being constructed with a documented command line: the code under
    test cannot start in that configuration.  The runner turns it into a violation (never into exit 2)."""

    def __init__(self, argv, what, want_ports=None):
        super().__init__(list(argv), what, want_ports)
        self.argv = list(argv)
        self.what = what
        self.want_ports = want_ports      # set when the application came up but not on the documented ports

class HarnessError(Exception):
    """The check itself failed (build error, nondeterminism, missing slice): exit 2, never a verdict."""

"""Deterministic environment for the Python toolkit (trx_toolkit).

install() replaces, on the standard-library module objects themselves and
*before* the toolkit is imported: socket.socket, select.select, time.*,
threading.Thread/Event/Lock, random.*, signal.signal.  Everything the toolkit
does is then a function of what the harness feeds it.

Nothing in here knows what the toolkit is supposed to do; reference models
live in vlib.ref and the property modules.
"""
import builtins
import collections
import logging
import os
import sys
import _thread

REPO = os.environ.get("VERIF_REPO", "/repo")
TOOLKIT = os.path.join(REPO, "src/target/trx_toolkit")


class Quiescent(BaseException):
    """Raised by the fake select() when no datagram is pending: leaves the
    real main loop without being caught by any `except Exception`/bare
    `except:` written for ordinary errors (bare except would catch it, the
    main loop has none)."""


# ---------------------------------------------------------------------------
# fabric: in-memory UDP

class Fabric:
    def __init__(self):
        self.bound = {}          # port -> FakeSocket
        self.out = []            # datagrams that left the application: (src_port, dst_addr, dst_port, payload)
        self.binds = []          # (addr, port) in bind order
        self.nsent = 0

    def reset_out(self):
        o = self.out
        self.out = []
        return o

    def inject(self, dst_port, payload, src=("127.0.0.1", 0)):
        s = self.bound.get(dst_port)
        if s is None:
            raise KeyError("no socket bound on port %d" % dst_port)
        s.inbox.append((bytes(payload), src))

    def pending(self):
        return [s for s in self.bound.values() if s.inbox]


_fabric = None


def fabric():
    return _fabric


class FakeSocket:
    def __init__(self, family=None, type=None, *a, **kw):
        self.inbox = collections.deque()
        self.addr = None
        self.closed = False
        self.fab = _fabric

    def setsockopt(self, *a):
        pass

    def setblocking(self, flag):
        pass

    def settimeout(self, t):
        pass

    def bind(self, addr):
        host, port = addr
        if port in self.fab.bound and port != 0:
            raise OSError(98, "Address already in use (fake fabric): %r" % (addr,))
        if port == 0:
            port = 40000 + len(self.fab.bound)
        self.addr = (host, port)
        self.fab.bound[port] = self
        self.fab.binds.append(self.addr)

    def getsockname(self):
        return self.addr if self.addr else ("0.0.0.0", 0)

    def fileno(self):
        return 1000 + (self.addr[1] if self.addr else 0)

    def sendto(self, data, addr):
        if not isinstance(data, (bytes, bytearray, memoryview)):
            raise TypeError("a bytes-like object is required, not %r" % type(data).__name__)
        host, port = addr
        data = bytes(data)
        self.fab.nsent += 1
        src_port = self.addr[1] if self.addr else 0
        dst = self.fab.bound.get(port)
        if dst is not None and not dst.closed:
            dst.inbox.append((data, ("127.0.0.1", src_port)))
        self.fab.out.append((src_port, host, port, data))
        return len(data)

    def send(self, data):
        raise OSError(89, "Destination address required")

    def recvfrom(self, n):
        if not self.inbox:
            raise BlockingIOError(11, "Resource temporarily unavailable")
        data, src = self.inbox.popleft()
        return data[:n], src

    def recv(self, n):
        return self.recvfrom(n)[0]

    def close(self):
        self.closed = True
        if self.addr and self.fab.bound.get(self.addr[1]) is self:
            del self.fab.bound[self.addr[1]]


def fake_select(rlist, wlist, xlist, timeout=None):
    r = [s for s in rlist if getattr(s, "inbox", None)]
    if not r:
        raise Quiescent()
    return r, [], []


# ---------------------------------------------------------------------------
# virtual time

class VClock:
    def __init__(self):
        self.ns = 1_000_000_000_000   # arbitrary non-zero origin
        self.sleeps = []

    def monotonic_ns(self):
        return self.ns

    def monotonic(self):
        return self.ns / 1e9

    def time(self):
        return 1_700_000_000.0 + self.ns / 1e9

    def sleep(self, s):
        if s < 0:
            raise ValueError("sleep length must be non-negative")       # like the real time.sleep()
        if s * 1e9 >= 2 ** 63:
            raise OverflowError("timestamp too large to convert to C _PyTime_t")   # like the real time.sleep()
        self.sleeps.append(s)
        self.ns += int(round(s * 1e9))


clock = VClock()


# ---------------------------------------------------------------------------
# threads / events / locks

class FakeThread:
    """Stand-in for threading.Thread.  start() does not run the target; the
    harness decides when and how the body runs (synchronously, see run_body,
    or not at all when ticks are driven through send_clck_ind)."""
    instances = []

    def __init__(self, group=None, target=None, name=None, args=(), kwargs=None, daemon=None):
        self.target = target
        self.args = args
        self.kwargs = kwargs or {}
        self.daemon = daemon
        self.started = False
        self.alive = False
        self.joined = False
        self.ident = None
        self.name = name or "FakeThread"
        FakeThread.instances.append(self)
        self.on_start = FakeThread.on_start_default

    on_start_default = None

    def start(self):
        if self.started:
            raise RuntimeError("threads can only be started once")
        self.started = True
        self.alive = True
        if self.on_start:
            self.on_start(self)

    def run_body(self):
        try:
            return self.target(*self.args, **self.kwargs)
        finally:
            self.alive = False

    def is_alive(self):
        return self.alive

    def join(self, timeout=None):
        if FakeThread.on_join:
            FakeThread.on_join(self)
        self.joined = True
        self.alive = False

    on_join = None


class FakeEvent:
    """threading.Event whose wait() is a harness decision point."""
    wait_hook = None     # callable(event, timeout) -> bool

    def __init__(self):
        self.flag = False
        self.woken = False      # set() happened since a harness last cleared this mark (a waiter would have woken up)

    def set(self):
        self.flag = True
        self.woken = True

    def clear(self):
        self.flag = False

    def is_set(self):
        return self.flag

    def wait(self, timeout=None):
        if self.flag:
            return True
        if FakeEvent.wait_hook is not None:
            return FakeEvent.wait_hook(self, timeout)
        if timeout is not None:
            clock.ns += int(round(timeout * 1e9))
        return self.flag


class TrivialLock:
    """Lock for single-threaded worlds; counts acquisitions so that a check can
    see that critical sections exist, and fails loudly on self-deadlock."""
    lock_factory = None

    def __new__(cls, *a, **kw):
        if TrivialLock.lock_factory is not None:
            return TrivialLock.lock_factory()
        return object.__new__(cls)

    def __init__(self):
        self.held = False
        self.count = 0

    def acquire(self, blocking=True, timeout=-1):
        if self.held:
            raise RuntimeError("deadlock: lock acquired twice in a single-threaded world")
        self.held = True
        self.count += 1
        return True

    def release(self):
        if not self.held:
            raise RuntimeError("release unlocked lock")
        self.held = False

    def locked(self):
        return self.held

    def __enter__(self):
        self.acquire()
        return self

    def __exit__(self, *a):
        self.release()


# ---------------------------------------------------------------------------
# randomness: choice points

class Chooser:
    """random.randint & co. become enumerated choice points.  `script` is the
    list of alternative indices to take at successive calls (missing entries =
    alternative 0); `log` records (kind, lo, hi, n_alternatives, value)."""
    def __init__(self):
        self.script = []
        self.log = []
        self.mode = "lowhigh"
        self.default = 0

    def reset(self, script=(), mode="lowhigh", default=0):
        """default: alternative taken at points beyond the script (clamped to the number of alternatives)"""
        self.script = list(script)
        self.log = []
        self.mode = mode
        self.default = default

    def alts(self, lo, hi):
        if lo > hi:
            raise ValueError("empty range for randrange() (%d, %d, %d)" % (lo, hi + 1, hi + 1 - lo))
        if lo == hi:
            return [lo]
        if self.mode == "lowhighmid" and hi - lo >= 2:
            return [lo, hi, (lo + hi) // 2]
        return [lo, hi]

    def randint(self, lo, hi):
        alts = self.alts(lo, hi)
        i = len(self.log)
        if i < len(self.script):
            k = self.script[i]
            if k >= len(alts):
                raise IndexError("choice script out of range at point %d" % i)
        else:
            k = min(self.default, len(alts) - 1)
        v = alts[k]
        self.log.append(("randint", lo, hi, len(alts), v))
        return v

    def choice(self, seq):
        seq = list(seq)
        return seq[self.randint(0, len(seq) - 1)]

    def random(self):
        return 0.0

    def getrandbits(self, k):
        return 0


chooser = Chooser()


# ---------------------------------------------------------------------------
# logging capture

class Capture(logging.Handler):
    def __init__(self):
        logging.Handler.__init__(self, level=logging.DEBUG)
        self.records = []
        self.enabled = True

    def emit(self, record):
        if not self.enabled:
            return
        try:
            msg = record.getMessage()
        except Exception as e:          # a broken log call must not hide behaviour
            msg = "<unformattable log record: %r %r: %s>" % (record.msg, record.args, e)
        self.records.append((record.levelname, msg))

    def reset(self):
        r = self.records
        self.records = []
        return r


capture = Capture()
_installed = False
real_allocate_lock = _thread.allocate_lock
real_Thread = None
real_Event = None
_real_time = None


def install():
    """Patch the standard library (idempotent).  Must run before the toolkit
    modules are imported."""
    global _installed, _fabric, real_Thread, real_Event
    if _installed:
        return
    for m in ("fake_trx", "transceiver", "udp_link", "clck_gen", "ctrl_if", "data_if"):
        if m in sys.modules:
            raise RuntimeError("world.install() after the toolkit was imported")
    import socket, select, time, threading, random, signal
    global _real_time
    _real_time = (time.sleep, time.time, time.monotonic, time.monotonic_ns)
    _fabric = Fabric()
    socket.socket = FakeSocket
    select.select = fake_select
    time.monotonic_ns = clock.monotonic_ns
    time.monotonic = clock.monotonic
    time.time = clock.time
    time.sleep = clock.sleep
    real_Thread = threading.Thread
    real_Event = threading.Event
    threading.Thread = FakeThread
    threading.Event = FakeEvent
    threading.Lock = TrivialLock
    random.randint = chooser.randint
    random.choice = chooser.choice
    random.random = chooser.random
    random.getrandbits = chooser.getrandbits
    random.randrange = lambda a, b=None, step=1: chooser.randint(0, a - 1) if b is None else chooser.randint(a, b - 1)
    random.uniform = lambda a, b: a
    signal.signal = lambda *a, **kw: None
    root = logging.getLogger()
    root.addHandler(capture)
    root.setLevel(logging.DEBUG)
    if TOOLKIT not in sys.path:
        sys.path.insert(0, TOOLKIT)
    _installed = True


_saved = {}


def suspend():
    """Give the real threading/time primitives back (multiprocessing needs them)."""
    if not _installed:
        return
    import threading, time
    _saved.update(Thread=threading.Thread, Event=threading.Event, Lock=threading.Lock,
                  sleep=time.sleep, time=time.time, monotonic=time.monotonic, monotonic_ns=time.monotonic_ns)
    threading.Thread, threading.Event, threading.Lock = real_Thread, real_Event, real_allocate_lock
    time.sleep, time.time, time.monotonic, time.monotonic_ns = _real_time


def resume():
    if not _installed or not _saved:
        return
    import threading, time
    threading.Thread, threading.Event, threading.Lock = _saved["Thread"], _saved["Event"], _saved["Lock"]
    time.sleep, time.time, time.monotonic, time.monotonic_ns = (_saved["sleep"], _saved["time"],
                                                                _saved["monotonic"], _saved["monotonic_ns"])
    _saved.clear()


_pristine = {}


def _toolkit_modules():
    for name, mod in list(sys.modules.items()):
        f = getattr(mod, "__file__", None) or ""
        if f.startswith(TOOLKIT) and not os.path.basename(f).startswith("test_"):
            yield name, mod


def reset_toolkit_state():
    """A world must not inherit anything from the worlds built before it in the same process.  Instances are
    fresh, but mutable objects hanging off toolkit *classes* and *modules* (class-level lists, module-level
    caches) would leak from one execution into the next: the first time a module is seen, deep copies of its
    mutable class/module attributes are taken; before every new world they are put back."""
    import copy
    import types
    mutable = (list, dict, set, bytearray, collections.deque)
    for name, mod in _toolkit_modules():
        if name not in _pristine:
            snap = []
            for k, v in list(vars(mod).items()):
                if isinstance(v, mutable) and not k.startswith("__"):
                    snap.append((mod, k, copy.deepcopy(v)))
                elif isinstance(v, type) and getattr(v, "__module__", None) == name:
                    for ck, cv in list(vars(v).items()):
                        if isinstance(cv, mutable) and not ck.startswith("__"):
                            try:
                                snap.append((v, ck, copy.deepcopy(cv)))
                            except Exception:
                                pass
            # mutable default arguments of functions and methods (def f(self, items = [])) are process-wide
            # state of the same kind
            funcs = []
            for k, v in list(vars(mod).items()):
                if isinstance(v, types.FunctionType) and v.__module__ == name:
                    funcs.append(v)
                elif isinstance(v, type) and getattr(v, "__module__", None) == name:
                    for cv in vars(v).values():
                        f = getattr(cv, "__func__", cv)
                        if isinstance(f, types.FunctionType):
                            funcs.append(f)
            for f in funcs:
                d, kd = f.__defaults__, f.__kwdefaults__
                if (d and any(isinstance(x, mutable) for x in d)) or (kd and any(isinstance(x, mutable) for x in kd.values())):
                    try:
                        snap.append((f, "__defaults__", copy.deepcopy(d)))
                        snap.append((f, "__kwdefaults__", copy.deepcopy(kd)))
                    except Exception:
                        pass
            _pristine[name] = snap
        else:
            for owner, k, v in _pristine[name]:
                try:
                    cur = getattr(owner, k, None)
                    if type(cur) is type(v) and cur != v:
                        setattr(owner, k, copy.deepcopy(v))
                except Exception:
                    pass


def new_fabric():
    """Fresh fabric for a fresh world (previous sockets are forgotten)."""
    global _fabric
    reset_toolkit_state()
    _fabric = Fabric()
    FakeThread.instances = []
    capture.reset()
    chooser.reset()
    clock.ns = 1_000_000_000_000
    clock.sleeps = []
    return _fabric


class _NullOut:
    def write(self, s):
        return len(s)

    def flush(self):
        pass


def make_app(argv=()):
    """Construct the real fake_trx.Application on a fresh fabric."""
    install()
    import fake_trx
    fab = new_fabric()
    old_argv, old_print = sys.argv, builtins.print
    sys.argv = ["fake_trx.py", "--log-level", "CRITICAL"] + list(argv)
    builtins.print = lambda *a, **kw: None
    old_handlers = list(logging.getLogger().handlers)
    try:
        app = fake_trx.Application()
    except Exception as e:       # noqa: the application does not come up with this command line
        import traceback
        from vlib.errors import AppStartFailure
        tb = traceback.extract_tb(e.__traceback__)
        where = next(("%s:%d in %s" % (os.path.basename(f.filename), f.lineno, f.name) for f in reversed(tb)
                      if f.filename.startswith(TOOLKIT)), "?")
        raise AppStartFailure(argv, "%s: %s (%s)" % (type(e).__name__, e, where)) from None
    finally:
        sys.argv = old_argv
        builtins.print = old_print
    # drop the stderr handler the application installed, keep ours
    root = logging.getLogger()
    for h in list(root.handlers):
        if h is not capture and h not in old_handlers:
            root.removeHandler(h)
    if capture not in root.handlers:
        root.addHandler(capture)
    return app, fab


def pump(app):
    """Run the real main loop until no datagram is pending."""
    try:
        app.run()
    except Quiescent:
        return
    raise RuntimeError("Application.run() returned")


# ---------------------------------------------------------------------------
# canonical snapshot of toolkit objects (state hashing)

_SKIP_TYPES = (FakeSocket, TrivialLock, Capture, logging.Logger, FakeEvent)


def snapshot(obj, _seen=None, depth=0):
    """Recursive, order-preserving, hashable snapshot of an object graph made
    of toolkit instances and builtin containers.  Cycles are cut by identity
    (replaced by an index into the visit order)."""
    if _seen is None:
        _seen = {}
    if obj is None or isinstance(obj, (bool, int, float, str, bytes)):
        return obj
    if isinstance(obj, (bytearray, memoryview)):
        return bytes(obj)
    oid = id(obj)
    if oid in _seen:
        return ("@", _seen[oid])
    if isinstance(obj, _SKIP_TYPES):
        return ("skip", type(obj).__name__)
    if isinstance(obj, FakeThread):
        return ("thread", obj.alive)
    import array as _array, enum as _enum
    if isinstance(obj, _array.array):
        return ("array", obj.typecode, obj.tobytes())
    if isinstance(obj, _enum.Enum):
        return ("enum", type(obj).__name__, obj.name)
    _seen[oid] = len(_seen)
    if isinstance(obj, (list, tuple)):
        return (type(obj).__name__,) + tuple(snapshot(x, _seen, depth + 1) for x in obj)
    if isinstance(obj, dict):
        return ("dict",) + tuple((snapshot(k, _seen, depth + 1), snapshot(v, _seen, depth + 1))
                                 for k, v in obj.items())
    if isinstance(obj, (set, frozenset)):
        return ("set",) + tuple(sorted(repr(snapshot(x, _seen, depth + 1)) for x in obj))
    mod = type(obj).__module__
    d = getattr(obj, "__dict__", None)
    if d is not None and (mod in sys.modules and getattr(sys.modules[mod], "__file__", "") or "").startswith(TOOLKIT):
        return (type(obj).__name__,) + tuple((k, snapshot(v, _seen, depth + 1)) for k, v in sorted(d.items()))
    if callable(obj):
        return ("callable", getattr(obj, "__qualname__", type(obj).__name__))
    if isinstance(obj, __import__("argparse").Namespace):
        return ("ns",)
    return ("opaque", type(obj).__name__)

"""Explicit-state breadth-first search over event histories of real objects.

A state is identified by the history that reaches it.  For every frontier
history the worker builds a fresh world, replays the history through the real
handlers, applies each enabled event (one fresh world per event), evaluates the
oracle on that transition and returns the digest of the canonical successor
state.  The master deduplicates digests level by level (so the first
counterexample is a shortest one) and never deep-copies live objects.

A Spec provides:
    build()                -> W  (fresh implementation world + reference model)
    events(W, hist)        -> list of JSON-able events enabled in W
    step(W, ev)            -> list of (class, message) violations for this transition
    canon(W)               -> hashable / repr-able canonical state
    probe(W, hist)         -> list of (class, message) (optional; W is thrown away afterwards)
    skip_successor(W, ev)  -> bool (optional; True = do not enqueue, e.g. bound reached)
"""
import hashlib
import time

_SPEC = None


def digest(c):
    return hashlib.blake2b(repr(c).encode(), digest_size=12).digest()


def _replay(spec, hist):
    W = spec.build()
    for ev in hist:
        spec.step(W, ev)
    return W


def _expand(hist):
    spec = _SPEC
    out = {"succ": [], "probe": [], "nbuilds": 0, "outcomes": set()}
    W = _replay(spec, hist)
    out["nbuilds"] += 1
    if hasattr(spec, "probe"):
        pv = spec.probe(W, hist)
        out["probe"] = pv
        out["probes"] = getattr(W, "nprobe", 1)
        W = _replay(spec, hist)
        out["nbuilds"] += 1
    evs = spec.events(W, hist)
    for k, ev in enumerate(evs):
        if k:
            W = _replay(spec, hist)
            out["nbuilds"] += 1
        v = spec.step(W, ev)
        dg = None
        if not v and not (hasattr(spec, "skip_successor") and spec.skip_successor(W, ev)):
            dg = digest(spec.canon(W))
        oc = getattr(W, "outcome", None)
        if oc is not None:
            out["outcomes"].add((ev_kind(ev), oc))
        out["succ"].append((ev, dg, v))
    return out


def ev_kind(ev):
    if isinstance(ev, (list, tuple)) and ev:
        return str(ev[0])
    return str(ev)


def _probe_only(hist):
    spec = _SPEC
    W = _replay(spec, hist)
    pv = spec.probe(W, hist)
    return {"probe": pv, "probes": getattr(W, "nprobe", 1)}


def bfs(ctx, spec, max_depth, label="", max_states=None, roots=((),), probe_final=False):
    """Runs the search; merges counters into ctx.cov (prefix label) and reports
    violations through ctx.violation with the full history as the case."""
    global _SPEC
    _SPEC = spec
    pfx = (label + "_") if label else ""
    seen = set()
    frontier = []
    for r in roots:
        W = _replay(spec, r)
        dg = digest(spec.canon(W))
        if dg not in seen:
            seen.add(dg)
            frontier.append(tuple(r))
    transitions = 0
    histories = 0
    depth_done = 0
    exhausted = False
    outcomes = set()
    probes = 0
    capped = False
    t0 = time.perf_counter()
    for depth in range(max_depth):
        if not frontier:
            exhausted = True
            break
        cs = max(1, len(frontier) // (ctx.nproc * 8))
        res = ctx.pmap(_expand, frontier, chunksize=cs)
        nxt = []
        for hist, r in zip(frontier, res):
            histories += r["nbuilds"]
            probes += r.get("probes", 0) if "probe" in r and hasattr(spec, "probe") else 0
            outcomes |= r["outcomes"]
            for cls, msg in r["probe"]:
                ctx.violation("%s:%s%s" % (ctx.prop, pfx, cls), {"spec": spec.name, "hist": list(hist), "probe": True}, msg)
            for ev, dg, v in r["succ"]:
                transitions += 1
                for cls, msg in v:
                    ctx.violation("%s:%s%s" % (ctx.prop, pfx, cls),
                                  {"spec": spec.name, "hist": list(hist) + [ev]}, msg)
                if dg is not None and dg not in seen:
                    if max_states and len(seen) >= max_states:
                        capped = True
                        continue
                    seen.add(dg)
                    nxt.append(hist + (ev,))
        depth_done = depth + 1
        if len(ctx.samples) < 3 and nxt:
            ctx.sample({"spec": spec.name, "history": list(nxt[len(nxt) // 2])})
        frontier = nxt
    else:
        exhausted = not frontier
    if probe_final and frontier and hasattr(spec, "probe"):
        # the states at the depth bound are not expanded, but their behaviour is still observed
        cs = max(1, len(frontier) // (ctx.nproc * 8))
        for hist, r in zip(frontier, ctx.pmap(_probe_only, frontier, chunksize=cs)):
            histories += 1
            probes += r.get("probes", 0)
            for cls, msg in r["probe"]:
                ctx.violation("%s:%s%s" % (ctx.prop, pfx, cls), {"spec": spec.name, "hist": list(hist), "probe": True}, msg)
    c = ctx.cov
    c["states"] = c.get("states", 0) + len(seen)
    c["transitions"] = c.get("transitions", 0) + transitions
    c["traces_validated_against_impl"] = c.get("traces_validated_against_impl", 0) + histories
    c.setdefault("runs", []).append({
        "spec": spec.name, "states": len(seen), "transitions": transitions, "histories_executed": histories,
        "max_depth": depth_done, "frontier_exhausted": bool(exhausted and not capped),
        "unexpanded_frontier": len(frontier), "state_cap_hit": capped,
        "distinct_outcomes": len(outcomes), "probes": probes, "wall_s": round(time.perf_counter() - t0, 2)})
    return {"states": len(seen), "transitions": transitions, "exhausted": exhausted and not capped,
            "depth": depth_done, "outcomes": outcomes}

"""Controlled scheduler for real Python threads running toolkit code.

Exactly one registered thread runs at a time (baton = one low-level lock per
thread).  A scheduling point is taken

  * before every LOAD_ATTR / STORE_ATTR / DELETE_ATTR whose attribute name is shared
    (instance-dictionary keys of live toolkit objects + container mutator names),
  * before every GET_ITER / FOR_ITER / STORE_SUBSCR / DELETE_SUBSCR / BINARY_SUBSCR,
  * at every SchedLock.acquire (a thread finding the lock taken is blocked until release).

Opcode events come from sys.settrace with f_trace_opcodes on frames whose code
lives in the toolkit directory.  All other bytecodes touch frame-local state only.

A schedule is {point index: alternative}; alternative 0 = keep running the current
thread (or, at a forced switch, the lowest-numbered enabled thread).
"""
import dis
import sys
import _thread

from vlib import world
from vlib.errors import HarnessError

MUTATORS = {"append", "clear", "remove", "pop", "insert", "extend", "add", "discard", "update", "popleft", "sort"}
POINT_OPS = {"GET_ITER", "FOR_ITER", "STORE_SUBSCR", "DELETE_SUBSCR", "BINARY_SUBSCR"}
ATTR_OPS = {"LOAD_ATTR", "STORE_ATTR", "DELETE_ATTR", "LOAD_METHOD"}

_code_cache = {}


def _points_of(code, shared):
    key = (code, id(shared))
    m = _code_cache.get(key)
    if m is None:
        m = {}
        for ins in dis.get_instructions(code):
            if ins.opname in ATTR_OPS:
                if ins.argval in shared:
                    m[ins.offset] = "%s %s" % (ins.opname, ins.argval)
            elif ins.opname in POINT_OPS:
                m[ins.offset] = ins.opname
        _code_cache[key] = m
    return m


def shared_names(root):
    """instance-dictionary keys of every toolkit object reachable from root"""
    names = set(MUTATORS)
    seen = set()
    stack = [root]
    while stack:
        o = stack.pop()
        if id(o) in seen:
            continue
        seen.add(id(o))
        if isinstance(o, (list, tuple, set, frozenset)):
            stack.extend(o)
            continue
        if isinstance(o, dict):
            stack.extend(o.values())
            continue
        d = getattr(o, "__dict__", None)
        if d is None or isinstance(o, type):
            continue
        mod = sys.modules.get(type(o).__module__)
        if not (getattr(mod, "__file__", "") or "").startswith(world.TOOLKIT):
            continue
        names.update(d.keys())
        stack.extend(d.values())
    return frozenset(names)


class Deadlock(Exception):
    pass


class Scheduler:
    def __init__(self, shared):
        self.shared = shared
        self.threads = []          # ids 0..n-1
        self.go = []
        self.done = []
        self.blocked = []          # lock object a thread waits for, or None
        self.errors = []
        self.ident2tid = {}
        self.cur = None
        self.points = []           # (tid, kind, n_enabled, running_enabled)
        self.choices = {}
        self.deadlock = False
        self.main_wait = _thread.allocate_lock()
        self.active = False
        self.max_points = 20000

    # ---- lock used by the toolkit ------------------------------------------------
    def make_lock(self):
        return SchedLock(self)

    def tid(self):
        return self.ident2tid.get(_thread.get_ident())

    # ---- scheduling -----------------------------------------------------------------
    def enabled(self):
        return [t for t in range(len(self.threads)) if not self.done[t] and self.blocked[t] is None]

    def point(self, kind):
        """Called by the running registered thread before a visible operation."""
        me = self.tid()
        if me is None or not self.active:
            return
        en = self.enabled()
        me_enabled = me in en
        order = ([me] if me_enabled else []) + [t for t in en if t != me]
        idx = len(self.points)
        if idx >= self.max_points:
            raise HarnessError("scheduler: more than %d points in one execution (spin loop?)" % self.max_points)
        self.points.append((me, kind, len(order), me_enabled))
        if not order:
            self.deadlock = True
            raise Deadlock()
        alt = self.choices.get(idx, 0)
        if alt >= len(order):
            raise HarnessError("schedule out of range at point %d (%d alternatives)" % (idx, len(order)))
        nxt = order[alt]
        if nxt != me:
            self.switch(me, nxt)

    def switch(self, me, nxt):
        self.cur = nxt
        self.go[nxt].release()
        self.go[me].acquire()

    def join_wait(self, tid):
        """Thread.join() of a scheduled thread, called from another scheduled thread: blocks (in the
        scheduler's sense) until that thread's body has finished; a thread waiting for a lock the
        joiner holds therefore shows up as a deadlock."""
        me = self.tid()
        if me is None or not self.active or me == tid:
            return
        while not self.done[tid]:
            self.blocked[me] = ("join", tid)
            self.point("join-blocked")

    def finish(self, me):
        """thread `me` ends: hand the baton on (forced switch, a point with choices if >1 enabled)"""
        self.done[me] = True
        for t in range(len(self.blocked)):
            if self.blocked[t] == ("join", me):
                self.blocked[t] = None
        en = self.enabled()
        if not en:
            if all(self.done):
                self.main_wait.release()
            else:
                self.deadlock = True
                self.main_wait.release()
            return
        idx = len(self.points)
        self.points.append((me, "exit", len(en), False))
        alt = self.choices.get(idx, 0)
        if alt >= len(en):
            alt = 0
        self.cur = en[alt]
        self.go[en[alt]].release()

    # ---- tracing ------------------------------------------------------------------------
    def _tracer(self, frame, event, arg):
        if event != "call":
            return None
        if not frame.f_code.co_filename.startswith(world.TOOLKIT):
            return None
        frame.f_trace_opcodes = True
        pts = _points_of(frame.f_code, self.shared)
        sched = self

        def local(frame, event, arg):
            if event == "opcode":
                k = pts.get(frame.f_lasti)
                if k is not None:
                    sched.point(k)
            return local
        return local

    def _body(self, tid, fn):
        self.ident2tid[_thread.get_ident()] = tid
        self.go[tid].acquire()          # wait for the baton
        try:
            sys.settrace(self._tracer)
            try:
                fn()
            finally:
                sys.settrace(None)
        except Deadlock:
            self.errors.append((tid, "deadlock"))
            self.deadlock = True
            self.done[tid] = True
            self.main_wait.release()
            return
        except BaseException as e:     # noqa
            self.errors.append((tid, "%s: %s" % (type(e).__name__, e)))
        self.finish(tid)

    def execute(self, bodies, choices, first=0):
        """Runs the bodies as real threads under the given schedule.  Returns the
        list of points.  self.errors holds exceptions that left a body."""
        self.choices = dict(choices)
        n = len(bodies)
        self.threads = list(range(n))
        self.go = [_thread.allocate_lock() for _ in range(n)]
        for g in self.go:
            g.acquire()
        self.done = [False] * n
        self.blocked = [None] * n
        self.errors = []
        self.points = []
        self.deadlock = False
        self.main_wait.acquire()
        self.active = True
        ths = []
        for t, fn in enumerate(bodies):
            th = world.real_Thread(target=self._body, args=(t, fn), daemon=True)
            th.start()
            ths.append(th)
        # initial choice: which thread starts (point -1 is not a preemption); default thread `first`
        self.cur = first
        self.go[first].release()
        if not self.main_wait.acquire(timeout=120):   # until all done or deadlock
            self.active = False
            raise HarnessError("scheduler: execution did not finish within 120 s (points so far: %d, last: %r)"
                               % (len(self.points), self.points[-3:]))
        self.main_wait.release()
        self.active = False
        if not self.deadlock:
            for th in ths:
                th.join(10)
        return self.points


class SchedLock:
    def __init__(self, sched):
        self.sched = sched
        self.owner = None       # tid, or "main" outside scheduled threads
        self.acquisitions = 0

    def acquire(self, blocking=True, timeout=-1):
        s = self.sched
        me = s.tid() if s.active else None
        if me is None:
            if self.owner is not None:
                raise RuntimeError("lock held (owner %r) outside scheduled execution" % (self.owner,))
            self.owner = "main"
            self.acquisitions += 1
            return True
        s.point("acquire")
        while self.owner is not None:
            if not blocking:
                return False
            s.blocked[me] = self
            s.point("blocked")          # forced switch; raises Deadlock if nobody can run
        self.owner = me
        self.acquisitions += 1
        return True

    def release(self):
        s = self.sched
        if self.owner is None:
            raise RuntimeError("release unlocked lock")
        self.owner = None
        for t in range(len(s.blocked)):
            if s.blocked[t] is self:
                s.blocked[t] = None
        if s.active and s.tid() is not None:
            s.point("release")

    def locked(self):
        return self.owner is not None

    def __enter__(self):
        self.acquire()
        return self

    def __exit__(self, *a):
        self.release()


def explore(run, bound, check, max_exec=None, first_level=None):
    """Iterative preemption bounding.  run(choices) -> points list (one fresh
    execution); check(choices, points) is called for every execution.
    Returns dict(executions, max_points, bound_completed, capped)."""
    stats = {"executions": 0, "max_points": 0, "points_total": 0, "capped": False}
    stack = [({}, None)] if first_level is None else list(first_level)
    while stack:
        ch, parent = stack.pop()
        pts = run(ch)
        stats["executions"] += 1
        stats["points_total"] += len(pts)
        stats["max_points"] = max(stats["max_points"], len(pts))
        last = max(ch) if ch else -1
        if parent is not None:
            # replay determinism: the prefix up to the last deviation must be identical
            if [p[:2] for p in pts[:last + 1]] != [p[:2] for p in parent[:last + 1]]:
                raise HarnessError("schedule replay diverged before point %d" % last)
        check(ch, pts)
        if max_exec and stats["executions"] >= max_exec:
            stats["capped"] = True
            break
        # cost so far
        cost = 0
        costs = []
        for i, p in enumerate(pts):
            costs.append(cost)
            if ch.get(i, 0) != 0 and p[3]:
                cost += 1
        for i in range(last + 1, len(pts)):
            tid, kind, nen, running_enabled = pts[i]
            for alt in range(1, nen):
                c = costs[i] + (1 if running_enabled else 0)
                if c <= bound:
                    nc = dict(ch)
                    nc[i] = alt
                    stack.append((nc, pts))
    return stats

"""Check runner: tiers, seeds, evidence, known findings, VIOLATION lines, replays.

Every property module in vlib.props exposes

    LEVEL = "model_checking" | "exploration" | "fault_enumeration"
    def run(ctx): ...            # exhaustive exploration; reports through ctx
    def replay(ctx, case): ...   # re-executes one recorded case (no explorer)

Exit status: 0 = property held on everything explored (known findings are
printed as KNOWN-FINDING lines), 1 = at least one violation that is not a known
finding (VIOLATION lines), 2 = harness error (nothing it says is a verdict).
"""
import argparse
import fnmatch
import hashlib
import importlib
import json
import multiprocessing
import os
import subprocess
import sys
import time
import traceback

VERIF = os.path.dirname(os.path.dirname(os.path.abspath(__file__)))
REPO = os.environ.get("VERIF_REPO", "/repo")
TOOLKIT = os.path.join(REPO, "src/target/trx_toolkit")
MAX_REPORTED = 12          # VIOLATION lines / replay files written per run
MAX_SAMPLES = 6


from vlib.errors import HarnessError, AppStartFailure


def jsonable(o):
    if isinstance(o, (bytes, bytearray, memoryview)):
        return bytes(o).hex()
    if isinstance(o, (set, frozenset)):
        return sorted(jsonable(x) for x in o)
    if isinstance(o, tuple):
        return [jsonable(x) for x in o]
    if isinstance(o, list):
        return [jsonable(x) for x in o]
    if isinstance(o, dict):
        return {str(k): jsonable(v) for k, v in o.items()}
    if isinstance(o, (int, float, str, bool)) or o is None:
        return o
    return repr(o)


class Ctx:
    def __init__(self, prop, tier, seed, level, nproc):
        self.prop = prop
        self.tier = tier
        self.seed = seed
        self.level = level
        self.nproc = nproc
        self.quick = tier == "quick"
        self.cov = {}
        self.assumptions = []
        self.samples = []
        self.violations = []      # dicts: key, case, msg
        self._vkeys = set()
        self.n_violations = 0
        self.t0 = time.perf_counter()

    # -- reporting -------------------------------------------------------
    def violation(self, key, case, msg, **extra):
        """key: stable class of the failure (used to match known findings);
        case: JSON-able description sufficient for replay()."""
        self.n_violations += 1
        if key in self._vkeys:
            return
        self._vkeys.add(key)
        v = {"key": key, "case": jsonable(case), "msg": msg}
        v.update(jsonable(extra))
        self.violations.append(v)

    def sample(self, obj):
        if len(self.samples) < MAX_SAMPLES:
            self.samples.append(jsonable(obj))

    def add(self, name, n=1):
        self.cov[name] = self.cov.get(name, 0) + n

    def merge(self, res):
        """Merge a worker result {'cov':{}, 'viol':[(key,case,msg)], 'samples':[]}"""
        for k, v in res.get("cov", {}).items():
            if isinstance(v, (int, float)):
                self.cov[k] = self.cov.get(k, 0) + v
            elif isinstance(v, (set, frozenset)):
                self.cov.setdefault(k, set()).update(v)
            elif isinstance(v, dict):
                d = self.cov.setdefault(k, {})
                for kk, vv in v.items():
                    d[kk] = d.get(kk, 0) + vv
            else:
                self.cov[k] = v
        for v in res.get("viol", []):
            self.violation(v[0], v[1], v[2], **(v[3] if len(v) > 3 else {}))
        self.n_violations += res.get("nviol_extra", 0)
        for s in res.get("samples", []):
            self.sample(s)

    # -- parallel map ------------------------------------------------------
    def pmap(self, fn, items, chunksize=1, initializer=None, initargs=()):
        """Ordered parallel map over a list (fork workers). The seed only
        permutes the order in which items are handed out; results are returned
        in item order, so the explored set is independent of it."""
        items = list(items)
        if not items:
            return []
        order = list(range(len(items)))
        if self.seed:
            import random as _r
            _r.Random(self.seed).shuffle(order)
        n = min(self.nproc, len(items))
        if n <= 1:
            if initializer:
                initializer(*initargs)
            out = [fn(items[i]) for i in order]
        else:
            from vlib import world
            mp = multiprocessing.get_context("fork")
            world.suspend()
            try:
                with mp.Pool(n, initializer=_winit, initargs=(initializer, initargs)) as pool:
                    out = pool.map(fn, [items[i] for i in order], chunksize)
            finally:
                world.resume()
        res = [None] * len(items)
        for i, r in zip(order, out):
            res[i] = r
        return res


def _winit(initializer, initargs):
    from vlib import world
    world.resume()
    if initializer:
        initializer(*initargs)


def load_known():
    path = os.path.join(VERIF, "known_findings.json")
    if not os.path.exists(path):
        return []
    with open(path) as f:
        return json.load(f).get("findings", [])


def match_known(known, prop, key):
    for e in known:
        if e.get("property") != prop or e.get("status") != "open":
            continue
        if fnmatch.fnmatchcase(key, e["key"]):
            return e
    return None


def write_evidence(ctx, nviol):
    cov = {}
    for k, v in ctx.cov.items():
        if isinstance(v, (set, frozenset)):
            cov[k] = len(v)
        else:
            cov[k] = jsonable(v)
    cov.setdefault("samples", ctx.samples)
    if not cov["samples"]:
        cov["samples"] = ["(no sample recorded)"]
    ev = {
        "property_id": ctx.prop,
        "tier": ctx.tier,
        "seed": ctx.seed,
        "level": ctx.level,
        "coverage": cov,
        "assumptions": ctx.assumptions,
        "wall_s": round(time.perf_counter() - ctx.t0, 3),
        "violations": nviol,
    }
    # the evidence directory describes /repo itself; runs against a scratch copy (tools/seedcheck.py,
    # tools/mutants.py set VERIF_REPO) must not overwrite it
    evdir = os.path.join(VERIF, "evidence")
    if os.path.realpath(os.environ.get("VERIF_REPO", "/repo")) != "/repo":
        evdir = os.path.join(VERIF, "build", "evidence-scratch")
    os.makedirs(evdir, exist_ok=True)
    path = os.path.join(evdir, "%s.json" % ctx.prop)
    tmp = path + ".tmp"
    with open(tmp, "w") as f:
        json.dump(ev, f, indent=1, sort_keys=True)
        f.write("\n")
    os.replace(tmp, path)
    return path


def confirm(prop, path):
    """Re-run one replay file twice in fresh interpreters: both must reproduce
    the violation with identical observations, otherwise the harness is at
    fault (nondeterminism), not the code."""
    outs = []
    for _ in range(2):
        p = subprocess.run([os.path.join(VERIF, "check"), prop, "--replay", path, "--no-confirm"],
                           capture_output=True, text=True, timeout=1800)
        lines = [l for l in p.stdout.splitlines() if l.startswith("REPLAY-OBS ")]
        outs.append((p.returncode, lines))
    if outs[0] != outs[1]:
        raise HarnessError("replay of %s is not deterministic: %r vs %r" % (path, outs[0], outs[1]))
    if outs[0][0] != 1:
        raise HarnessError("replay of %s does not reproduce (rc=%s)" % (path, outs[0][0]))


def _descendants(root):
    kids = {}
    for d in os.listdir("/proc"):
        if d.isdigit():
            try:
                with open("/proc/%s/stat" % d) as f:
                    st = f.read()
                ppid = int(st[st.rindex(")") + 2:].split()[1])
                kids.setdefault(ppid, []).append(int(d))
            except (OSError, ValueError):
                pass
    out, todo = [], [root]
    while todo:
        for k in kids.get(todo.pop(), []):
            out.append(k)
            todo.append(k)
    return out


def _memory_watchdog(limit_gb):
    """A change to the code under test can make a check eat memory without bound (e.g. a list that is shared
    between calls and keeps growing).  Rather than taking the machine down, the run is aborted as a harness
    error (exit 2) when the resident memory of the check's process tree exceeds the limit."""
    import _thread
    page = os.sysconf("SC_PAGE_SIZE")
    me = os.getpid()
    real_sleep = time.sleep       # the world replaces time.sleep later; this thread must never touch the virtual clock

    def loop():
        while True:
            real_sleep(5)
            tot = 0
            pids = [me] + _descendants(me)
            for pid in pids:
                try:
                    with open("/proc/%d/statm" % pid) as f:
                        tot += int(f.read().split()[1]) * page
                except (OSError, ValueError, IndexError):
                    pass
            if tot > limit_gb * (1 << 30):
                sys.stdout.write("HARNESS-ERROR the check's process tree uses %.1f GB of memory (limit %d GB): aborted\n"
                                 % (tot / (1 << 30), limit_gb))
                sys.stdout.flush()
                for pid in pids[1:]:
                    try:
                        os.kill(pid, 9)
                    except OSError:
                        pass
                os._exit(2)
    _thread.start_new_thread(loop, ())


def _startup_violation(ctx, e):
    case = {"startup_argv": e.argv}
    if e.want_ports is not None:
        case["want_ports"] = e.want_ports
    ctx.violation("%s:startup:%s" % (ctx.prop, e.what.split(":", 1)[0]), case,
                  "fake_trx.Application() with the command line %r %s: %s"
                  % (" ".join(e.argv), "does not start" if e.want_ports is None else "does not come up as documented", e.what))


def main():
    _memory_watchdog(int(os.environ.get("VERIF_MEM_GB", "40")))
    ap = argparse.ArgumentParser()
    ap.add_argument("prop")
    ap.add_argument("--tier", default=os.environ.get("VERIF_TIER", "quick"), choices=["quick", "thorough"])
    ap.add_argument("--replay")
    ap.add_argument("--no-confirm", action="store_true")
    ap.add_argument("--nproc", type=int, default=int(os.environ.get("VERIF_NPROC", "0")) or os.cpu_count() or 1)
    args = ap.parse_args()
    prop = args.prop.upper()
    try:
        seed = int(os.environ.get("VERIF_SEED", "0") or 0)
    except ValueError:
        seed = 0
    try:
        mod = importlib.import_module("vlib.props.%s" % prop.lower())
    except ModuleNotFoundError as e:
        print("no check for %s: %s" % (prop, e))
        return 2
    ctx = Ctx(prop, args.tier, seed, mod.LEVEL, args.nproc)
    known = load_known()

    if args.replay:
        with open(args.replay) as f:
            rec = json.load(f)
        try:
            if isinstance(rec["case"], dict) and "startup_argv" in rec["case"]:
                from vlib import world
                _, fab = world.make_app(rec["case"]["startup_argv"])
                want = rec["case"].get("want_ports")
                got = sorted(p for _, p in fab.binds)
                if want is not None and got != want:
                    raise AppStartFailure(rec["case"]["startup_argv"], "PortPlan: the application bound the UDP ports %r, "
                                          "the documented plan for this command line is %r" % (got, want), want_ports=want)
            else:
                mod.replay(ctx, rec["case"])
        except AppStartFailure as e:
            _startup_violation(ctx, e)
        except HarnessError as e:
            print("HARNESS-ERROR %s" % e)
            return 2
        for v in ctx.violations:
            print("REPLAY-OBS key=%s msg=%s" % (v["key"], v["msg"]))
        hit = [v for v in ctx.violations if v["key"] == rec["key"]] or ctx.violations
        if hit:
            k = match_known(known, prop, hit[0]["key"])
            if k:
                print("KNOWN-FINDING: property=%s %s [%s]" % (prop, k["what"], hit[0]["key"]))
            print("VIOLATION property=%s replay=%s" % (prop, args.replay))
            return 1
        print("replay: no violation reproduced")
        return 0

    try:
        mod.run(ctx)
    except AppStartFailure as e:
        # the rest of the exploration is not run: the evidence says so
        _startup_violation(ctx, e)
        ctx.cov["exhaustive"] = False
        ctx.cov["aborted"] = "the application could not be started in one of the configurations"
    except HarnessError as e:
        print("HARNESS-ERROR %s" % e)
        return 2
    except Exception:
        traceback.print_exc()
        print("HARNESS-ERROR unexpected exception in the check itself")
        return 2

    new, old = [], {}
    for v in ctx.violations:
        k = match_known(known, prop, v["key"])
        if k:
            old.setdefault(k["key"], (k, []))[1].append(v)
        else:
            new.append(v)
    ctx.cov["known_finding_hits"] = sum(len(x[1]) for x in old.values())
    ctx.cov["violation_classes"] = len(ctx.violations)
    write_evidence(ctx, len(new))
    for key, (k, vs) in sorted(old.items()):
        print("KNOWN-FINDING: property=%s %s [key=%s; %d class(es) this run, e.g. %s]"
              % (prop, k["what"], key, len(vs), vs[0]["key"]))
    rc = 0
    if new:
        os.makedirs(os.path.join(VERIF, "replays"), exist_ok=True)
        for v in new[:MAX_REPORTED]:
            h = hashlib.sha1(json.dumps([v["key"], v["case"]], sort_keys=True).encode()).hexdigest()[:12]
            path = os.path.join(VERIF, "replays", "%s-%s.json" % (prop, h))
            rec = dict(v)
            rec.update({"property": prop, "tier": ctx.tier})
            with open(path, "w") as f:
                json.dump(rec, f, indent=1, sort_keys=True)
                f.write("\n")
            if hasattr(mod, "replay") and not args.no_confirm and getattr(mod, "CONFIRM", True):
                try:
                    confirm(prop, path)
                except HarnessError as e:
                    print("HARNESS-ERROR %s" % e)
                    return 2
            print("  %s: %s" % (v["key"], v["msg"]))
            print("VIOLATION property=%s replay=%s" % (prop, path))
        if len(new) > MAX_REPORTED:
            print("(%d further violation classes not written out)" % (len(new) - MAX_REPORTED))
        rc = 1
    summ = {k: (len(v) if isinstance(v, (set, frozenset)) else v) for k, v in ctx.cov.items()
            if isinstance(v, (int, float, bool, set, frozenset))}
    print("%s %s seed=%d wall=%.1fs violations=%d known=%d %s"
          % (prop, ctx.tier, seed, time.perf_counter() - ctx.t0, len(new), len(old),
             json.dumps(summ, sort_keys=True)))
    return rc


if __name__ == "__main__":
    sys.exit(main())

"""Binds the real fake_trx.Application (on the fake fabric) to the reference model:
the same event goes to both, observations at the L1-side ports are compared."""
from vlib import world
from vlib.ref import trxmodel, trxd


class AppWorld:
    def __init__(self, defs, ind_period=1, clck_start=0, script=(), choice_mode="lowhigh", choice_default=0):
        self.defs = defs
        argv = trxmodel.config_argv(defs)
        self.app, self.fab = world.make_app(argv)
        # the documented port plan: every transceiver listens on its base + 0/1/2 (+ 2 x child index)
        want = set()
        for d in defs:
            want |= {d.ctrl, d.data}
            if d.clck is not None:
                want.add(d.clck)
        got = sorted(p for _, p in self.fab.binds)
        if sorted(want) != got:
            from vlib.errors import AppStartFailure
            raise AppStartFailure(argv, "PortPlan: the application bound the UDP ports %r, the documented plan for this "
                                  "command line is %r" % (got, sorted(want)), want_ports=sorted(want))
        world.chooser.reset(script, choice_mode, choice_default)
        # constructor parameters of CLCKGen (documented configuration, default 102 / 0)
        self.app.clck_gen.ind_period = ind_period
        self.app.clck_gen.clck_start = clck_start
        self.model = trxmodel.RefApp(defs, ind_period, clck_start)
        self.judge = True
        self.nsteps = 0

    # -- observations ---------------------------------------------------------
    def gen_alive(self):
        return sum(1 for t in world.FakeThread.instances if t.alive)

    def _common(self, what, v):
        alive = self.gen_alive()
        if alive != (1 if self.model.clock_running else 0):
            v.append(("clock-generator", "%s: %d clock thread(s) alive, reference says generator is %s"
                      % (what, alive, "running" if self.model.clock_running else "stopped")))
        return v

    # -- events ------------------------------------------------------------------
    def ctrl(self, i, cmd, src=None):
        d = self.defs[i]
        payload = cmd if isinstance(cmd, (bytes, bytearray)) else ("CMD " + cmd + "\0").encode()
        src = src or (d.addr, d.ctrl + 100)
        v = []
        self.fab.inject(d.ctrl, payload, src)
        try:
            world.pump(self.app)
        except Exception as e:
            v.append(("exception", "ctrl %r to %s: %s: %s" % (payload, d.name, type(e).__name__, e)))
            self.fab.reset_out()
            return v
        out = self.fab.reset_out()
        exps = self.model.ctrl(i, payload, src)
        if exps is not None:
            mm = trxmodel.match(exps, out, self.model)
            if mm:
                try:
                    verb = bytes(payload[4:]).split(b" ")[0].split(b"\0")[0].decode("ascii")[:20] or "-"
                except Exception:
                    verb = "?"
                v.append(("reply:%s%s" % (verb, ":long" if len(payload) > 128 else ""),
                          "ctrl %r to %s: %s" % (bytes(payload[:160]), d.name, mm)))
        self.last_out = out
        return self._common("after %r to %s" % (payload, d.name), v)

    def data(self, i, payload, check_noeffect=False):
        d = self.defs[i]
        v = []
        before = world.snapshot(self.app) if check_noeffect else None
        self.fab.inject(d.data, payload, (d.addr, d.data + 100))
        try:
            world.pump(self.app)
        except Exception as e:
            v.append(("exception", "data %s to %s: %s: %s" % (bytes(payload[:16]).hex(), d.name, type(e).__name__, e)))
        out = self.fab.reset_out()
        if out:
            v.append(("data-immediate", "datagram(s) emitted on arrival of a burst, before its tick: %r" % (out,)))
        self.last_id = self.model.data(i, payload)
        if check_noeffect and self.last_id is None and not v and world.snapshot(self.app) != before:
            v.append(("data-effect", "data datagram %s (len %d) to %s is not acceptable per the reference but changed the transceiver state"
                      % (bytes(payload[:12]).hex(), len(payload), d.name)))
        return self._common("after burst to %s" % d.name, v)

    def ctrl_fault(self, i, payload, src=None):
        """A control datagram that is not a strictly well-formed command: judged by class (see
        trxmodel.classify_ctrl).  Returns (violations, state_may_have_changed)."""
        d = self.defs[i]
        src = src or (d.addr, d.ctrl + 100)
        cls = trxmodel.classify_ctrl(payload)
        if cls == "VALID":
            return self.ctrl(i, payload, src), False
        v = []
        before = world.snapshot(self.app)
        self.fab.inject(d.ctrl, payload, src)
        try:
            world.pump(self.app)
        except Exception as e:
            self.fab.reset_out()
            return [("exception", "%s control datagram %r to %s: %s: %s" % (cls, bytes(payload[:60]), d.name, type(e).__name__, e))], True
        out = self.fab.reset_out()
        what = "%s control datagram %r to %s" % (cls, bytes(payload[:60]), d.name)
        if cls == "IGNORE":
            if out:
                v.append(("nonCMD-answered", "%s: answered with %r" % (what, out[0][3][:60])))
        else:
            if len(out) > 1:
                v.append(("multiple-replies", "%s: %d datagrams" % (what, len(out))))
            for o in out[:1]:
                p = o[3]
                if (o[1], o[2]) != src:
                    v.append(("reply-dest", "%s: reply sent to %r, sender was %r" % (what, (o[1], o[2]), src)))
                if cls != "AMBIG" and not (p.startswith(b"RSP ") and p.endswith(b"\0")):
                    v.append(("reply-form", "%s: reply %r" % (what, p[:60])))
                if cls == "REJECT":
                    toks = p[:-1].split(b" ")
                    try:
                        st = int(toks[2])
                    except (ValueError, IndexError):
                        st = None
                    if st == 0 or st is None:
                        v.append(("malformed-acknowledged", "%s: acknowledged with %r instead of an error status" % (what, p[:60])))
        changed = world.snapshot(self.app) != before
        if changed and cls != "AMBIG":
            v.append(("malformed-effect", "%s changed the transceiver state" % what))
        return v, changed

    def can_tick(self):
        return self.gen_alive() > 0

    def tick(self):
        v = []
        if not self.model.clock_running:
            v.append(("clock-generator", "clock thread alive although no clock-owning transceiver is running"))
            return v
        world.capture.reset()
        fn = self.model.fn
        try:
            self.app.clck_gen.send_clck_ind()
        except Exception as e:
            v.append(("exception", "tick fn=%d: %s: %s" % (fn, type(e).__name__, e)))
        out = self.fab.reset_out()
        recs = world.capture.reset()
        exps, stale = self.model.tick()
        if exps is not None:
            mm = trxmodel.match(exps, out, self.model)
            if mm:
                v.append(("tick", "tick fn=%d: %s" % (fn, mm)))
        nstale = sum(1 for lv, msg in recs if "Stale TRXD message" in msg)
        if nstale != len(stale):
            v.append(("stale", "tick fn=%d: %d stale report(s), reference expects %d" % (fn, nstale, len(stale))))
        self.last_out = out
        return self._common("after tick fn=%d" % fn, v)

    def handler_tick(self, fn):
        """The clock handler invoked for an arbitrary frame number (what the clock
        thread does after IND CLOCK), without advancing the generator's own counter."""
        v = []
        world.capture.reset()
        try:
            self.app.clck_handler(fn)
        except Exception as e:
            v.append(("exception", "clck_handler(%d): %s: %s" % (fn, type(e).__name__, e)))
        out = self.fab.reset_out()
        recs = world.capture.reset()
        m = self.model
        saved = (m.fn, m.clock_running, m.ind_period)
        m.fn, m.clock_running, m.ind_period = fn, True, 0
        exps, stale = m.tick()
        m.fn, m.clock_running, m.ind_period = saved
        if exps is not None:
            mm = trxmodel.match(exps, out, self.model)
            if mm:
                v.append(("tick", "handler fn=%d: %s" % (fn, mm)))
        nstale = sum(1 for lv, msg in recs if "Stale TRXD message" in msg)
        if nstale != len(stale):
            v.append(("stale", "handler fn=%d: %d stale report(s), reference expects %d" % (fn, nstale, len(stale))))
        self.last_out = out
        self.last_stale = nstale
        return v

    def burst(self, i, fn, tn=0, pwr=0, bits=None, ver=None):
        """convenience: L1->TRX datagram built by the reference encoder"""
        if bits is None:
            bits = bytes((k * 7 + fn) & 1 for k in range(148))
        ver = self.model.trx[i].ver if ver is None else ver
        return self.data(i, trxd.enc_tx(ver, tn, fn, pwr, bits))

    def canon(self):
        return (world.snapshot(self.app), self.model.key())

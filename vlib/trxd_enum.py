"""Shared generator of valid TRXD messages (DESIGN.md C01 "Space"), used by C01 and C04.

The generator yields *plain dict descriptions* (never toolkit objects) so that one and the same
case can be encoded by the toolkit and by the reference (vlib/ref/trxd.py).  It is deterministic,
duplicate-free by construction and sliceable: `chunks(tier)` returns a list of small JSON-able
chunk descriptors, `cases(chunk)` yields the cases of one chunk.

Small dimensions (complete product, "points"):
  K1  tx      : ver {0,1} x legacy {0,1} x TN 0..7                                          (32)
  K2  rx v0   : legacy x TN ; the fields v0 does not carry (mod/TSC set/TSC/C-I) are None   (16)
  K2j rx v0   : legacy x (modulation, TSC set) x TSC x TN ; not-carried fields hold values  (1792)
  K3  rx v1   : legacy x (modulation, TSC set: 4 for GMSK, 2 otherwise = 14) x TSC x TN     (1792)
  K4  rx v1 NOPE : legacy x TN ; mod/TSC set/TSC None                                       (16)
  K4j rx v1 NOPE : legacy x (modulation, TSC set) x TSC x TN ; not-carried fields set       (1792)

Wide fields (swept one at a time, the base value itself is skipped because the base message is
generated separately): attenuation 0..255, RSSI -120..-47, C/I -1280..1280, ToA256 -32768..32767,
FN (quick set / all).  Three base points (low / mid / high) fix the other wide fields, the burst
pattern and - for Tx and v0 Rx - the burst length.

Which point gets which group, per tier, is decided in `plan()` and described by `rule(tier)`.
"""
from array import array

HYPER = 2715648
SUPER = 26 * 51

# modulation (reference names, see vlib/ref/trxd.py) -> (burst length, number of TSC sets)
MODS = (("GMSK", 148, 4), ("8PSK", 444, 2), ("GMSK_AB", 148, 2), ("16QAM", 592, 2), ("32QAM", 740, 2), ("AQPSK", 296, 2))
MOD_BL = {m: bl for m, bl, _ in MODS}
MOD_NSETS = {m: n for m, _, n in MODS}
MODSETS = [(m, s) for m, _, n in MODS for s in range(n)]        # 14 legal (modulation, TSC set) pairs
V0_LENS = (148, 444)

PWR_RANGE = range(0, 256)
RSSI_RANGE = range(-120, -46)
CI_RANGE = range(-1280, 1281)
TOA_RANGE = range(-32768, 32768)

# three base points of the wide fields: low, mid (all octets distinct, non-zero), high
BASES = (
    {"fn": 0, "pwr": 0, "rssi": -120, "toa": -32768, "ci": -1280, "pat_tx": ("zeros",), "pat_rx": ("zeros",), "v0bl": 148},
    {"fn": 0x123456, "pwr": 0x5a, "rssi": -77, "toa": 0x1234, "ci": 0x0123, "pat_tx": ("alt",), "pat_rx": ("ramp",), "v0bl": 444},
    {"fn": HYPER - 1, "pwr": 255, "rssi": -47, "toa": 32767, "ci": 1280, "pat_tx": ("ones",), "pat_rx": ("ones",), "v0bl": 148},
)

SLICE = 16384          # wide sweeps are cut into slices of at most this many values per chunk
FN_SLICE = 65536


# ---------------------------------------------------------------------------------------------
# FN sets

_fnq = []


def fn_quick_set():
    """boundary / byte-carry set: small values, every power of two +-1, +-1 around every multiple of
    65536 and of the superframe 26*51, the last two valid values; all inside 0..HYPER-1.
    (2^24-1 and 2^24 from DESIGN.md are not valid frame numbers: they belong to C13.)"""
    if not _fnq:
        s = {0, 1, 2, 255, 256, 257, HYPER - 2, HYPER - 1, 0x123456}
        for k in range(1, 22):
            s.update((2 ** k - 1, 2 ** k, 2 ** k + 1))
        for m in range(0, HYPER // 65536 + 1):
            s.update((m * 65536 - 1, m * 65536, m * 65536 + 1))
        for m in range(0, HYPER // SUPER + 1):
            s.update((m * SUPER - 1, m * SUPER, m * SUPER + 1))
        _fnq.extend(sorted(v for v in s if 0 <= v < HYPER))
    return _fnq


# ---------------------------------------------------------------------------------------------
# burst patterns

def hard_patterns(bl):
    yield ("zeros",)
    yield ("ones",)
    yield ("alt",)
    yield ("alt1",)
    for i in range(bl):
        yield ("walk1", i)
    for i in range(bl):
        yield ("walk0", i)


def soft_patterns(bl):
    for p in hard_patterns(bl):
        yield p
    yield ("szero",)
    yield ("ramp",)
    yield ("rampdown",)
    for pos in (0, bl // 2, bl - 1):
        for v in range(-127, 128):
            if v != 0:          # v == 0 would be ("szero",) three times
                yield ("val", pos, v)


def hard_bits(bl, pat):
    """pattern -> bytes of 0/1"""
    k = pat[0]
    if k == "zeros":
        return bytes(bl)
    if k == "ones":
        return bytes([1]) * bl
    if k == "alt":
        return bytes(i & 1 for i in range(bl))
    if k == "alt1":
        return bytes((i + 1) & 1 for i in range(bl))
    if k == "walk1":
        b = bytearray(bl)
        b[pat[1]] = 1
        return bytes(b)
    if k == "walk0":
        b = bytearray([1]) * bl
        b[pat[1]] = 0
        return bytes(b)
    if k == "raw":              # explicit content, hex of one octet per bit
        return bytes.fromhex(pat[1])
    raise ValueError("not a hard-bit pattern: %r" % (pat,))


def soft_bits(bl, pat):
    """pattern -> list of soft bits in -127..127 (hard 0 -> +127, hard 1 -> -127)"""
    k = pat[0]
    if k == "ramp":
        return [(i % 255) - 127 for i in range(bl)]
    if k == "rampdown":
        return [127 - (i % 255) for i in range(bl)]
    if k == "szero":
        return [0] * bl
    if k == "val":
        s = [0] * bl
        s[pat[1]] = pat[2]
        return s
    if k == "raw":              # explicit content, hex of one two's-complement octet per soft bit
        return [b - 256 if b > 127 else b for b in bytes.fromhex(pat[1])]
    return [(-127 if b else 127) for b in hard_bits(bl, pat)]


_bcache = {}


def burst_values(case):
    """-> bytes (Tx hard bits) / tuple of ints (Rx soft bits) / None.  Small cache (sweeps reuse one burst)."""
    if case["bl"] is None:
        return None
    key = (case["cls"], case["bl"], tuple(case["burst"]))
    v = _bcache.get(key)
    if v is None:
        if len(_bcache) > 64:
            _bcache.clear()
        if case["cls"] == "tx":
            v = hard_bits(case["bl"], key[2])
        else:
            v = tuple(soft_bits(case["bl"], key[2]))
        _bcache[key] = v
    return v


# ---------------------------------------------------------------------------------------------
# small-dimension points

_points = []


def points():
    """Complete product of the small dimensions, in a fixed order.  Each point is a dict with the
    small-dimension fields plus 'kind' and 'idx'."""
    if _points:
        return _points
    P = []
    for ver in (0, 1):
        for legacy in (False, True):
            for tn in range(8):
                P.append({"kind": "K1", "cls": "tx", "ver": ver, "legacy": legacy, "tn": tn})
    for legacy in (False, True):
        for tn in range(8):
            P.append({"kind": "K2", "cls": "rx", "ver": 0, "legacy": legacy, "tn": tn, "nope": False,
                      "mod": None, "tsc_set": None, "tsc": None})
    for kind, ver, nope in (("K3", 1, False), ("K4j", 1, True), ("K2j", 0, False)):
        for legacy in (False, True):
            for mod, ts in MODSETS:
                for tsc in range(8):
                    for tn in range(8):
                        P.append({"kind": kind, "cls": "rx", "ver": ver, "legacy": legacy, "tn": tn, "nope": nope,
                                  "mod": mod, "tsc_set": ts, "tsc": tsc})
    for legacy in (False, True):
        for tn in range(8):
            P.append({"kind": "K4", "cls": "rx", "ver": 1, "legacy": legacy, "tn": tn, "nope": True,
                      "mod": None, "tsc_set": None, "tsc": None})
    for i, p in enumerate(P):
        p["idx"] = i
    _points.extend(P)
    return _points


def is_repr(p):
    """representative subset R of the points (wide sweeps and burst patterns in quick)"""
    k = p["kind"]
    if k in ("K1", "K2", "K4"):
        return p["tn"] in (0, 7)
    if k == "K3":
        hi = MOD_NSETS[p["mod"]] - 1
        return ((not p["legacy"] and p["tsc_set"] == 0 and p["tsc"] == 0 and p["tn"] == 0) or
                (p["legacy"] and p["tsc_set"] == hi and p["tsc"] == 7 and p["tn"] == 7))
    return False


def is_fnall(p):
    """points at which thorough sweeps ALL frame numbers (subset of R)"""
    if not is_repr(p):
        return False
    if p["kind"] == "K3":
        return (p["mod"], p["legacy"]) in (("GMSK", False), ("8PSK", True))
    return p["tn"] == (7 if p["legacy"] else 0)


def wide_fields(p):
    if p["cls"] == "tx":
        return ("pwr", "fn")
    return ("rssi", "toa", "fn") if p["ver"] == 0 else ("rssi", "toa", "ci", "fn")


def point_lens(p):
    """burst lengths enumerated for burst patterns at a point"""
    if p["cls"] == "tx" or p["ver"] == 0:
        return V0_LENS
    if p["nope"]:
        return ()
    return (MOD_BL[p["mod"]],)


def base_case(p, b):
    """the base message of point p at base point b"""
    B = BASES[b]
    c = {"cls": p["cls"], "ver": p["ver"], "legacy": p["legacy"], "tn": p["tn"], "fn": B["fn"], "grp": "base", "pt": p["idx"], "base": b}
    if p["cls"] == "tx":
        c["pwr"] = B["pwr"]
        c["bl"] = B["v0bl"]
        c["burst"] = list(B["pat_tx"])
        return c
    c["rssi"] = B["rssi"]
    c["toa"] = B["toa"]
    c["nope"] = p["nope"]
    c["mod"] = p["mod"]
    c["tsc_set"] = p["tsc_set"]
    c["tsc"] = p["tsc"]
    # C/I is carried by v1 only; at the "j" points v0 holds a value in the not-carried field
    c["ci"] = B["ci"] if (p["ver"] == 1 or p["kind"] == "K2j") else None
    if p["ver"] == 0:
        c["bl"] = B["v0bl"]
    elif p["nope"]:
        c["bl"] = None
    else:
        c["bl"] = MOD_BL[p["mod"]]
    c["burst"] = None if c["bl"] is None else list(B["pat_rx"])
    return c


def field_values(field, vset):
    """value sequence of a wide field; vset: "full" (complete range), "q" (quick FN set), "all" (every FN)"""
    if field == "pwr":
        return PWR_RANGE
    if field == "rssi":
        return RSSI_RANGE
    if field == "ci":
        return CI_RANGE
    if field == "toa":
        return TOA_RANGE
    if field == "fn":
        return range(HYPER) if vset == "all" else fn_quick_set()
    raise ValueError(field)


# ---------------------------------------------------------------------------------------------
# chunks

def is_toa_repr(p):
    """representative points that get the ToA sweep in quick: all of R except that each rx v1 modulation
    keeps only one of its two corners (legacy-off corner for GMSK/GMSK_AB/32QAM, legacy-on corner for the others)"""
    if not is_repr(p):
        return False
    if p["kind"] != "K3":
        return True
    return p["legacy"] == (p["mod"] in ("8PSK", "16QAM", "AQPSK"))


def plan(p, tier):
    """-> dict field -> True/False (sweep it at this point?), plus "burst" and "fnall" """
    k = p["kind"]
    if k in ("K2j", "K4j"):
        return {}
    rep = is_repr(p)
    d = {}
    if tier == "thorough":
        full = rep or k in ("K1", "K2", "K4")           # cheap points: everything
        diag = k == "K3" and not p["legacy"] and p["tsc"] == p["tn"]
        narrow = full or (k == "K3" and not p["legacy"])
        d["pwr"] = d["rssi"] = d["ci"] = narrow
        d["fn"] = d["toa"] = full or diag
        d["burst"] = k != "K4"
        d["fnall"] = is_fnall(p)
    else:
        d["pwr"] = d["rssi"] = d["ci"] = d["fn"] = rep
        d["toa"] = is_toa_repr(p)
        d["burst"] = rep and k != "K4"
        d["fnall"] = False
    return d


FNALL_BASE = 1          # all FN are swept at the mid base point; the low and high base points keep the boundary set


def chunks(tier):
    """-> list of chunk descriptors (JSON-able lists), fixed order:
         ["base", first_point, last_point_excl]
         ["sweep", point, base, field, vset, lo, hi]   (lo/hi index the field's value sequence)
         ["burst", point, base]
    """
    P = points()
    out = []
    for lo in range(0, len(P), 128):
        out.append(["base", lo, min(lo + 128, len(P))])
    for p in P:
        d = plan(p, tier)
        if not d:
            continue
        for f in wide_fields(p):
            if not d[f]:
                continue
            for b in range(3):
                vset = "full" if f != "fn" else ("all" if (d["fnall"] and b == FNALL_BASE) else "q")
                n = len(field_values(f, vset))
                step = FN_SLICE if vset == "all" else SLICE
                for lo in range(0, n, step):
                    out.append(["sweep", p["idx"], b, f, vset, lo, min(lo + step, n)])
        if d["burst"]:
            for b in range(3):
                out.append(["burst", p["idx"], b])
    return out


def cases(chunk):
    """yield the case dicts of one chunk"""
    P = points()
    kind = chunk[0]
    if kind == "base":
        for i in range(chunk[1], chunk[2]):
            for b in range(3):
                yield base_case(P[i], b)
    elif kind == "sweep":
        _, pi, b, f, vset, lo, hi = chunk
        c0 = base_case(P[pi], b)
        c0["grp"] = "sweep:" + f
        own = c0[f]
        vals = field_values(f, vset)
        for i in range(lo, hi):
            v = vals[i]
            if v == own:            # the base message itself belongs to the "base" group
                continue
            c = dict(c0)
            c[f] = v
            yield c
    elif kind == "burst":
        _, pi, b = chunk
        p = P[pi]
        c0 = base_case(p, b)
        c0["grp"] = "burst"
        own = (c0["bl"], tuple(c0["burst"]))
        rx = p["cls"] == "rx"
        for bl in point_lens(p):
            for pat in (soft_patterns(bl) if rx else hard_patterns(bl)):
                if (bl, pat) == own:
                    continue
                c = dict(c0)
                c["bl"] = bl
                c["burst"] = list(pat)
                yield c
    else:
        raise ValueError("unknown chunk %r" % (chunk,))


def chunk_cost(chunk):
    """rough relative cost (used only to hand out heavy chunks first)"""
    P = points()
    if chunk[0] == "base":
        return (chunk[2] - chunk[1]) * 3 * 300
    p = P[chunk[1]]
    bl = 0 if p["cls"] == "tx" else (300 if p["ver"] == 0 else (0 if p["nope"] else MOD_BL[p["mod"]]))
    if chunk[0] == "sweep":
        return (chunk[6] - chunk[5]) * (60 + bl)
    return sum(len(list(hard_patterns(l))) + (770 if p["cls"] == "rx" else 0) for l in point_lens(p)) * (60 + bl)


def mutation_bases(tier):
    """base messages whose encodings span the mutation neighbourhood of C04.
    thorough: every point of K1..K4 at the three base points;
    quick: every point of K1, K2, K4 at the three base points and the K3 points with TSC == TN at base point (index mod 3).
    Left out because they encode to octets that are already there: K2j/K4j (same octets as K2/K4 messages) and the
    version-1 points with legacy on (padding applies to version 0 only, same octets as with legacy off)."""
    out = []
    for p in points():
        k = p["kind"]
        if k in ("K2j", "K4j") or (p["ver"] == 1 and p["legacy"]):
            continue
        bases = (0, 1, 2)
        if tier != "thorough" and k == "K3":
            if p["tsc"] != p["tn"]:
                continue
            bases = (p["idx"] % 3,)
        for b in bases:
            c = base_case(p, b)
            c["grp"] = "mut"
            out.append(c)
    return out


def case_key(c):
    """canonical identity of a case (message + legacy flag)"""
    b = c.get("burst")
    return (c["cls"], c["ver"], c["legacy"], c["tn"], c["fn"], c.get("pwr"), c.get("rssi"), c.get("toa"), c.get("ci"),
            c.get("nope"), c.get("mod"), c.get("tsc_set"), c.get("tsc"), c["bl"], tuple(b) if b is not None else None)


def class_of(c):
    if c["cls"] == "tx":
        return "tx_v%d" % c["ver"]
    return "rx_v%d%s" % (c["ver"], "_nope" if (c["ver"] == 1 and c["nope"]) else "")


# ---------------------------------------------------------------------------------------------
# the two encoders' views of a case

def build_tk(dm, c):
    """toolkit message object (data_msg module `dm` of the tree under test) for case c"""
    if c["cls"] == "tx":
        m = dm.TxMsg(fn=c["fn"], tn=c["tn"], ver=c["ver"])
        m.pwr = c["pwr"]
        m.burst = bytearray(burst_values(c))
        return m
    m = dm.RxMsg(fn=c["fn"], tn=c["tn"], ver=c["ver"])
    m.rssi = c["rssi"]
    m.toa256 = c["toa"]
    m.ci = c["ci"]
    m.nope_ind = c["nope"]
    m.mod_type = None if c["mod"] is None else dm.Modulation[TK_NAME[c["mod"]]]
    m.tsc_set = c["tsc_set"]
    m.tsc = c["tsc"]
    if c["bl"] is not None:
        m.burst = burst_array(c)[:]
    return m


_acache = {}


def burst_array(c):
    """array('b') of the Rx soft bits of case c (cached; callers must copy before handing it to code under test)"""
    vals = burst_values(c)
    a = _acache.get(id(vals))
    if a is None or a[0] is not vals:
        if len(_acache) > 64:
            _acache.clear()
        a = _acache[id(vals)] = (vals, array('b', vals))
    return a[1]


TK_NAME = {"GMSK": "ModGMSK", "8PSK": "Mod8PSK", "GMSK_AB": "ModGMSK_AB", "16QAM": "Mod16QAM",
           "32QAM": "Mod32QAM", "AQPSK": "ModAQPSK"}


def rule(tier):
    t = tier == "thorough"
    return (
        "vlib/trxd_enum.py: complete product of the small dimensions = 5440 points (tx: ver x legacy x TN = 32; rx v0: legacy x TN "
        "with not-carried fields None = 16, and x 14 (modulation, TSC set) x 8 TSC with not-carried fields set = 1792; rx v1 burst: "
        "legacy x 14 (modulation, TSC set) x TSC x TN = 1792; rx v1 NOPE: 16 with mod/TSC None + 1792 with them set), each at 3 base "
        "points of the wide fields (low/mid/high incl. burst pattern; burst 148/444/148 for tx and rx v0, the modulation's length for "
        "rx v1) [group base]. Wide fields swept ONE AT A TIME over the complete range (pwr 0..255, RSSI -120..-47, C/I -1280..1280, "
        "ToA256 all 65536, FN: %s) at each of the 3 base points, base value skipped: %s. Burst patterns (zeros, ones, 2 alternating, "
        "walking 1 and walking 0 through every position; soft bits additionally all-0, 2 ramps, every value -127..127 except 0 at first/"
        "middle/last position), lengths 148 and 444 for tx / rx v0 and the modulation's own for rx v1, x 3 base points: %s. "
        "Cases are distinct by construction (counted per chunk with a set; chunk descriptors are unique)."
        % ("every valid FN 0..2715647 at the mid base point of 10 points (tx v0/v1 x legacy, rx v0 x legacy, rx v1 GMSK and 8-PSK, "
           "rx v1 NOPE x 2), the 6312-value boundary/byte-carry set elsewhere" if t else
           "6312-value boundary/byte-carry set (0,1,2,255..257, 2^k-1..2^k+1, +-1 around every multiple of 65536 and of 26*51, "
           "2715646, 2715647)",
           "pwr/RSSI/C-I at all tx, rx v0, rx v1 NOPE(None) points and all 896 rx v1 burst points with legacy off; ToA and FN at all "
           "tx, rx v0, NOPE(None) points and the 112 rx v1 burst points with legacy off and TSC == TN; everything at the 28 "
           "representative points" if t else
           "at the 28 representative points (tx: ver x legacy x TN{0,7}; rx v0 and rx v1 NOPE: legacy x TN{0,7}; rx v1 burst: every "
           "modulation at (legacy off, set 0, TSC 0, TN 0) and (legacy on, highest set, TSC 7, TN 7); the ToA sweep at one of "
           "these two corners per modulation)",
           "at every point that carries a burst" if t else "at the 24 representative points that carry a burst"))


# ---------------------------------------------------------------------------------------------
# in-place edits of ONE message object between two encodes (history legs of C01 / C04)

def _raw(cls, vals):
    return ["raw", bytes(vals).hex() if cls == "tx" else bytes(v & 0xff for v in vals).hex()]


def inplace_plan(c):
    """Successive in-place edits applied to ONE toolkit object that was built for case c and has encoded it once.
    Yields (label, op, new_case): op = ("elem", index, value) -> obj.burst[index] = value (container not replaced),
    ("slice", values) -> obj.burst[:] = values, ("attr", name, value) -> setattr(obj, name, value); new_case is the
    valid message the object describes after the edit (edits accumulate)."""
    cls = c["cls"]
    cur = dict(c, grp="inplace")
    if c["bl"] is not None:
        bl = c["bl"]
        vals = list(burst_values(c))
        for label, i in (("burst-first", 0), ("burst-middle", bl // 2), ("burst-last", bl - 1)):
            vals[i] = (vals[i] ^ 1) if cls == "tx" else (-vals[i] if vals[i] else 1)
            cur = dict(cur, burst=_raw(cls, vals))
            yield label, ("elem", i, vals[i]), cur
        vals = list(hard_bits(bl, ("alt1",))) if cls == "tx" else soft_bits(bl, ("rampdown",))
        cur = dict(cur, burst=_raw(cls, vals))
        yield "burst-slice", ("slice", vals), cur
    edits = [("fn", "fn", (c["fn"] + 1) % HYPER), ("tn", "tn", (c["tn"] + 1) % 8)]
    if cls == "tx":
        edits.append(("pwr", "pwr", (c["pwr"] + 1) % 256))
    else:
        edits.append(("rssi", "rssi", -120 + (c["rssi"] + 120 + 1) % 74))
        edits.append(("toa", "toa256", -c["toa"] - 1))
        if c["ver"] == 1:
            edits.append(("ci", "ci", -c["ci"] if c["ci"] else 1))
            if not c["nope"]:
                edits.append(("tsc", "tsc", (c["tsc"] + 1) % 8))
                edits.append(("tsc_set", "tsc_set", c["tsc_set"] ^ 1))
    for field, attr, v in edits:
        cur = dict(cur)
        cur[field] = v
        yield attr, ("attr", attr, v), cur


def apply_inplace(obj, op):
    if op[0] == "elem":
        obj.burst[op[1]] = op[2]
    elif op[0] == "slice":
        obj.burst[:] = bytes(op[1]) if isinstance(obj.burst, (bytes, bytearray)) else array(obj.burst.typecode, op[1])
    else:
        setattr(obj, op[1], op[2])


def inplace_here(chunk, i):
    """in-place visits: every case of a base chunk, every 64th of a burst-pattern chunk, every 256th of a sweep"""
    return i % (1 if chunk[0] == "base" else (64 if chunk[0] == "burst" else 256)) == 0

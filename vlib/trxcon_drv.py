"""Build and drive csrc/drv_trxcon.c: the tree's trxcon transceiver interface (src/host/trxcon/src/trx_if.c,
compiled unmodified, ASan+UBSan) behind a line protocol.  Used by the trxcon legs of C04, C05 and C14.

    exe = trxcon_drv.build(bdir)                 # bdir from cbuild.builddir(); caller cleans up
    d = trxcon_drv.Driver(exe)
    res = d.batch(["cmd POWERON", "rsp " + b"RSP POWERON 0\\0".hex()])     # -> list of dicts, one per line
    res = d.cases([["fresh", "rxdata 00..."], ["fresh", "rsp 525350"]])     # crash-isolated groups
    with trxcon_drv.Session(exe) as s:  r = s.send("cmd POWERON")           # interactive

Every result is the JSON object the driver printed for that line.  When the driver dies (ASan exit 99,
UBSan exit 98, a signal) the line being executed gets {"died": True, "how": "asan"|"ubsan"|"signal"|"exit",
"rc": .., "signal": .., "report": <digest>, "stderr": <tail>} and
  * batch(): the remaining lines are executed in a NEW process (fresh trx instance) - results carry on;
  * cases(): the remaining lines of that case get {"skipped": True}; the next case starts a new process.

Line formats (see the header of csrc/drv_trxcon.c):
    rxdata <hex|->                           datagram -> DATA socket, real trx_data_rx_cb via the osmo_fd registry
    txdata <fn> <tn> <pwr> <nbits> <hex|->   real trx_if_handle_phyif_burst_req (hex: one octet 00/01 per bit)
    cmd RESET|POWERON|POWEROFF|MEASURE <band_arfcn>|SETFREQ_H0 <band_arfcn>|
        SETFREQ_H1 <hsn> <maio> <n> <arfcn>*n|SETSLOT <tn> <pchan>|SETTA <ta>|TYPE <n>
    rsp <hex|->                              datagram -> CTRL socket, real trx_ctrl_read_cb
    poll ctrl|data      timeout      fresh [fn_advance] [failopen=<n>]      close      state
"""
import json
import os
import re
import signal
import subprocess

from vlib import cbuild
from vlib.errors import HarnessError

SHIM = os.path.join(cbuild.CSRC, "shim_trxcon_if")
ENV = {"ASAN_OPTIONS": "detect_leaks=0:abort_on_error=0:exitcode=99",
       "UBSAN_OPTIONS": "print_stacktrace=1:halt_on_error=1:exitcode=98"}


def build(bdir, sanitize=True):
    """-> path of the driver executable.  Everything is compiled from cbuild.REPO ($VERIF_REPO)."""
    emb = os.path.join(cbuild.LIBOSMO, "include")
    trx_if = os.path.join(cbuild.TRXCON, "src", "trx_if.c")
    if not os.path.exists(trx_if):
        raise HarnessError("trxcon_drv: %s not found" % trx_if)
    # the tree's own gsm_utils.c (gsm_arfcn2freq10) and talloc.c, against the embedded headers only
    gsm_o = cbuild.compile(bdir, "gsm_utils.o", [os.path.join(cbuild.LIBOSMO, "src/gsm/gsm_utils.c")],
                           cbuild.firmware_flags(bdir) + ["-c"], sanitize=sanitize)
    tal_o = cbuild.compile(bdir, "talloc.o", [os.path.join(cbuild.LIBOSMO, "src/talloc.c")],
                           ["-I", emb, "-c", "-ffunction-sections", "-fdata-sections"], sanitize=sanitize)
    utl_o = cbuild.compile(bdir, "utils.o", [os.path.join(cbuild.LIBOSMO, "src/utils.c")],
                           cbuild.firmware_flags(bdir) + ["-c"], sanitize=sanitize)
    flags = ["-I", SHIM,                                        # stand-ins for the system libosmocore only
             "-I", os.path.join(cbuild.TRXCON, "include"),      # the repo's own trxcon headers
             "-I", emb,                                         # the tree's embedded libosmocore headers
             "-D_GNU_SOURCE", "-ffunction-sections", "-fdata-sections", "-Wl,--gc-sections"]
    return cbuild.compile(bdir, "drv_trxcon",
                          [os.path.join(cbuild.CSRC, "drv_trxcon.c"), trx_if,
                           os.path.join(SHIM, "shim_trxcon_if.c"), gsm_o, tal_o, utl_o],
                          flags, sanitize=sanitize)


def _digest(err):
    """Deterministic digest of a sanitizer report (no addresses / pids / paths)."""
    out = []
    for l in err.splitlines():
        l = l.strip()
        m = re.match(r"==\d+==ERROR: AddressSanitizer: (\S+)(?: on unknown address (0x[0-9a-f]+))?", l)
        if m:
            out.append("AddressSanitizer: %s%s" % (m.group(1), (" at address " + m.group(2)) if m.group(2) else ""))
            continue
        m = re.match(r"==\d+==The signal is caused by a (\w+) memory access", l)
        if m:
            out.append("%s access" % m.group(1))
            continue
        m = re.match(r"((?:READ|WRITE) of size \d+)", l)
        if m:
            out.append(m.group(1))
            continue
        m = re.match(r"#(\d) 0x[0-9a-f]+ in (\S+) (\S+)", l)
        if m:
            # keep the frames in the code under test / driver; of libc and sanitizer runtime only the innermost
            fn, where = m.group(2), os.path.basename(m.group(3))
            if "+0x" in where:
                continue
            if int(m.group(1)) == 0 or not (fn.startswith("__") or fn.startswith("_IO_") or "sanitizer" in where):
                out.append("#%s %s %s" % (m.group(1), fn, where))
            continue
        m = re.search(r"([^/\s]+:\d+):\d+: runtime error: (.*)", l)
        if m:
            out.append("UBSan %s: %s" % (m.group(1), re.sub(r"0x[0-9a-f]{5,}", "0x..", m.group(2))))
    return " | ".join(out[:10])[:1000]


def _death(rc, err):
    d = {"died": True, "rc": rc, "report": _digest(err), "stderr": err[-3000:]}
    if rc == 99:
        d["how"] = "asan"
    elif rc == 98:
        d["how"] = "ubsan"
    elif rc < 0:
        d["how"] = "signal"
        d["signal"] = -rc
        try:
            d["signame"] = signal.Signals(-rc).name
        except ValueError:
            pass
    else:
        d["how"] = "exit"
    return d


def _env(extra=None):
    e = dict(os.environ)
    e.update(ENV)
    if extra:
        e.update(extra)
    return e


def _parse(stdout):
    """-> (results by local index, index being executed when the output ended or None)"""
    res = {}
    pending = None
    for line in stdout.split("\n"):
        if not line.startswith("@"):
            continue
        m = re.match(r"@(\d+) (.*)$", line)
        if not m:
            m2 = re.match(r"@(\d+) ?$", line)
            if m2:
                pending = int(m2.group(1))
            continue
        idx, body = int(m.group(1)), m.group(2)
        try:
            res[idx] = json.loads(body)
            pending = None
        except ValueError:
            pending = idx            # died while printing
    return res, pending


class Driver:
    def __init__(self, exe, mode="", env=None, timeout=600):
        self.exe, self.mode, self.env, self.timeout = exe, mode, env, timeout
        self.processes = 0
        self.deaths = 0

    def _run(self, lines):
        """One process over `lines`; -> (list of results, death-dict or None, n_done)"""
        data = ("\n".join(lines) + "\n").encode()
        p = subprocess.run([self.exe] + ([self.mode] if self.mode else []), input=data, capture_output=True,
                           env=_env(self.env), timeout=self.timeout)
        self.processes += 1
        out = p.stdout.decode(errors="replace")
        err = p.stderr.decode(errors="replace")
        res, pending = _parse(out)
        done = [res[i] for i in range(len(lines)) if i in res]
        if p.returncode == 0 and len(done) == len(lines):
            return done, None, len(lines)
        if p.returncode == 0:
            raise HarnessError("trxcon driver: %d of %d requests answered, exit 0\n%s" % (len(done), len(lines), err[-1500:]))
        k = pending if pending is not None else len(done)
        if k >= len(lines):
            raise HarnessError("trxcon driver died (rc=%d) outside a request:\n%s" % (p.returncode, err[-2500:]))
        self.deaths += 1
        d = _death(p.returncode, err)
        d["index"] = k
        d["line"] = lines[k]
        return [res[i] for i in range(k)], d, k

    MAX_DEATHS = 25      # a change that makes trxcon die on every request must not cost one process per request

    def batch(self, lines, restart=True):
        """Results for all lines; after a death the rest runs in a new process (its instance is fresh).
        After MAX_DEATHS deaths in one batch the remaining lines are not run ({"skipped": True})."""
        lines = [l for l in lines]
        out = []
        pos = 0
        deaths = 0
        while pos < len(lines):
            done, death, k = self._run(lines[pos:])
            out += done
            if death is None:
                break
            death["index"] = pos + k
            out.append(death)
            pos += k + 1
            deaths += 1
            if not restart or deaths >= self.MAX_DEATHS:
                out += [{"skipped": True} for _ in lines[pos:]]
                break
        return out

    def cases(self, cases):
        """cases: list of lists of lines (start each with 'fresh' for an own trx instance).  All cases run
        in one process as long as it lives; a death costs only the rest of that case."""
        flat, owner = [], []
        for ci, c in enumerate(cases):
            for l in c:
                flat.append(l)
                owner.append(ci)
        results = [[] for _ in cases]
        pos = 0
        deaths = 0
        while pos < len(flat):
            done, death, k = self._run(flat[pos:])
            for j, r in enumerate(done):
                results[owner[pos + j]].append(r)
            if death is None:
                break
            ci = owner[pos + k]
            death["index"] = pos + k
            death["case"] = ci
            results[ci].append(death)
            pos += k + 1
            while pos < len(flat) and owner[pos] == ci:
                results[ci].append({"skipped": True})
                pos += 1
            deaths += 1
            if deaths >= 4 * self.MAX_DEATHS:
                while pos < len(flat):
                    results[owner[pos]].append({"skipped": True})
                    pos += 1
        return results


class Session:
    """Interactive use: one request, one reply."""

    def __init__(self, exe, mode="", env=None):
        self.p = subprocess.Popen([exe] + ([mode] if mode else []), stdin=subprocess.PIPE, stdout=subprocess.PIPE,
                                  stderr=subprocess.PIPE, env=_env(env))
        self.n = 0
        self.dead = None

    def send(self, line):
        if self.dead:
            return dict(self.dead, again=True)
        try:
            self.p.stdin.write((line + "\n").encode())
            self.p.stdin.flush()
            reply = self.p.stdout.readline().decode(errors="replace")
        except (BrokenPipeError, OSError):
            reply = ""
        m = re.match(r"@(\d+) (\{.*\})\s*$", reply)
        if m:
            self.n += 1
            return json.loads(m.group(2))
        # no complete reply: the driver died while executing this line
        try:
            self.p.stdin.close()
        except OSError:
            pass
        err = self.p.stderr.read().decode(errors="replace")
        rc = self.p.wait()
        self.dead = _death(rc, err)
        self.dead["index"] = self.n
        self.dead["line"] = line
        return self.dead

    def close(self):
        if self.p.poll() is None:
            try:
                self.p.stdin.close()
            except OSError:
                pass
            try:
                self.p.wait(timeout=10)
            except subprocess.TimeoutExpired:
                self.p.kill()
                self.p.wait()
        for f in (self.p.stdout, self.p.stderr):
            try:
                f.close()
            except OSError:
                pass

    def __enter__(self):
        return self

    def __exit__(self, *a):
        self.close()


# ------------------------------------------------------------------------------------------------------
# self-test
# ------------------------------------------------------------------------------------------------------
def _rx_v0(tn, fn, rssi, toa256, soft, pad=False):
    """TRX -> L1 v0 datagram written from the layout: ver|tn, fn BE, -rssi, toa256 BE (2's compl.), soft 0..254"""
    b = bytes([tn & 7]) + fn.to_bytes(4, "big") + bytes([(-rssi) & 0xff]) + (toa256 & 0xffff).to_bytes(2, "big")
    b += bytes(soft)
    if pad:
        b += b"\x00\x00"
    return b


def _exp_soft(usoft):
    return [(-127 if u == 255 else 127 - u) for u in usoft]


def _s8(hexs):
    return [x - 256 if x > 127 else x for x in bytes.fromhex(hexs)]


def selftest(verbose=True):
    log = []

    def say(*a):
        s = " ".join(str(x) for x in a)
        log.append(s)
        if verbose:
            print(s)

    def check(cond, what):
        say(("  ok   " if cond else "  FAIL ") + what)
        if not cond:
            selftest.failed += 1
    selftest.failed = 0
    b = cbuild.builddir("trxcon_selftest")
    try:
        exe = build(b)
        say("built", exe)
        d = Driver(exe)

        # ---- (a) rxdata -------------------------------------------------------------------------
        u148 = [(i * 7) % 255 for i in range(148)]
        u148[0], u148[1], u148[2] = 0, 254, 255
        u444 = [(i * 3 + 1) % 256 for i in range(444)]
        vec = [
            ("148 soft bits", _rx_v0(3, 1234567, -60, -300, u148), 148, u148, 3, 1234567, -60, -300),
            ("148 soft bits + 2 legacy pad octets", _rx_v0(7, 0, -110, 0, u148, pad=True), 148, u148, 7, 0, -110, 0),
            ("444 soft bits", _rx_v0(0, 2715647, -1, 32767, u444), 444, u444, 0, 2715647, -1, 32767),
            ("444 soft bits + pad, negative toa", _rx_v0(5, 51, -47, -32768, u444, pad=True), 444, u444, 5, 51, -47, -32768),
        ]
        res = d.batch(["rxdata " + v[1].hex() for v in vec])
        for v, r in zip(vec, res):
            say("rxdata", v[0], "->", {k: (r[k] if k != "ind" else dict(r["ind"], soft=r["ind"]["soft"][:16] + "...") if r["ind"] else None)
                                       for k in ("rc", "ind", "rts")})
            i = r.get("ind") or {}
            check(r.get("rc") == 0 and i.get("len") == v[2] and i.get("tn") == v[4] and i.get("fn") == v[5]
                  and i.get("rssi") == v[6] and i.get("toa256") == v[7] and _s8(i.get("soft", "")) == _exp_soft(v[3]),
                  "fields fn/tn/rssi/toa256/len/soft bits as sent")
            check(r.get("rts") == {"fn": (v[5] + 2) % 2715648, "tn": v[4]}, "RTS indication at fn + fn_advance(2)")
        bad = d.batch(["rxdata " + _rx_v0(0, 2715648, -60, 0, u148).hex(),      # FN = hyperframe
                       "rxdata " + (bytes([0x10]) + _rx_v0(0, 1, -60, 0, u148)[1:]).hex(),   # version 1
                       "rxdata " + _rx_v0(0, 1, -60, 0, u148)[:100].hex(),       # wrong length
                       "rxdata 0000", "rxdata -", "poll data"])
        say("rxdata rejects:", [(r.get("rc"), r.get("ind")) for r in bad])
        check([r.get("rc") for r in bad[:4]] == [-22, -95, -22, -22] and all(r.get("ind") is None for r in bad),
              "FN>=hyperframe -EINVAL, version!=0 -ENOTSUP, bad length -EINVAL, short -EINVAL, no indication")
        check(bad[4].get("rc") == 0 and bad[5].get("rc") == -1, "empty datagram -> read()==0 -> rc 0; nothing to read -> rc -1")

        # ---- (b) txdata -------------------------------------------------------------------------
        bits = bytes((i * 5 + (i >> 3)) & 1 for i in range(148))
        r = d.batch(["txdata 2715647 5 33 148 " + bits.hex(), "txdata 7 2 0 0 -"])
        say("txdata ->", r[0]["rc"], r[0]["dgrams"][0][:24] + "...", "| empty burst ->", r[1])
        exp = bytes([5]) + (2715647).to_bytes(4, "big") + bytes([33]) + bits
        check(r[0]["rc"] == 0 and r[0]["dgrams"] == [exp.hex()], "datagram = tn, fn BE, pwr, 148 hard bits (154 octets)")
        check(r[1]["dgrams"] == [(bytes([2]) + (7).to_bytes(4, "big") + bytes([0])).hex()], "burst_len 0 -> 6-octet datagram")

        # ---- (c) cmd / rsp ------------------------------------------------------------------------
        r = d.batch(["fresh", "cmd POWERON", "rsp " + b"RSP POWERON 0\0".hex(),
                     "cmd MEASURE 1", "rsp " + b"RSP MEASURE 0 935200 -67\0".hex(),
                     "cmd RESET", "rsp " + b"RSP POWEROFF 0\0".hex(), "rsp " + b"RSP ECHO 0\0".hex(),
                     "cmd SETTA -5", "timeout", "rsp " + b"RSP SETTA 0 -5\0".hex()])
        for x in r:
            say("  ", {k: v for k, v in x.items() if k not in ("bad_priv",)})
        txt = lambda h: bytes.fromhex(h)
        check(r[1]["rc"] == 0 and [txt(h) for h in r[1]["sent"]] == [b"CMD POWERON\0"] and r[1]["state"] == "RSP_WAIT"
              and r[1]["queued"] == 1 and r[1]["timer"], "POWERON: 'CMD POWERON\\0' sent, RSP_WAIT, 1 queued, timer armed")
        check(r[2]["rc"] == 0 and r[2]["dequeued"] and r[2]["state"] == "ACTIVE" and r[2]["queued"] == 0
              and not r[2]["terminated"] and r[2]["powered_up"], "RSP POWERON 0: accepted, dequeued, ACTIVE, powered_up")
        check([txt(h) for h in r[3]["sent"]] == [b"CMD MEASURE 935200\0"], "MEASURE 1 -> 'CMD MEASURE 935200'")
        check(r[4]["upcall"] == {"type": "MEASURE", "band_arfcn": 1, "dbm": -67, "n": 1} and r[4]["dequeued"],
              "RSP MEASURE -> trxcon_phyif_handle_rsp(MEASURE, arfcn 1, -67 dBm), dequeued")
        say("   note: FSM state after RSP MEASURE is %r (trx_ctrl_read_cb has no state change in its MEASURE branch)" % r[4]["state"])
        check([txt(h) for h in r[5]["sent"]] == [b"CMD POWEROFF\0"] and r[5]["queued"] == 2, "RESET queues POWEROFF + ECHO, sends the first")
        check([txt(h) for h in r[6]["sent"]] == [b"CMD ECHO\0"] and r[6]["dequeued"], "RSP POWEROFF 0 -> next command ECHO sent")
        check(r[7]["state"] == "IDLE" and r[7]["queued"] == 0, "RSP ECHO 0 -> IDLE")
        check(r[9]["fired"] and [txt(h) for h in r[9]["sent"]] == [b"CMD SETTA -5\0"], "timeout -> retransmission of 'CMD SETTA -5'")
        check(r[10]["dequeued"] and r[10]["state"] == "IDLE", "RSP SETTA 0 -5 accepted")

        # ---- (d) fresh + death attribution ---------------------------------------------------------
        r = d.cases([["fresh", "cmd POWERON", "rsp " + b"RSP POWERON 1\0".hex(), "state"],
                     ["fresh", "cmd POWERON", "timeout", "timeout", "timeout", "timeout", "state"]])
        say("critical command rejected:", r[0][2])
        check(r[0][2]["rc"] == -5 and r[0][2]["terminated"] and r[0][2]["term_cause"] == 3 and r[0][2]["parent_events"] == 1
              and r[0][2]["fds_registered"] == 0 and r[0][3]["open"] is False,
              "RSP POWERON 1 -> -EIO, FSM terminated (cause ERROR), parent told, fds unregistered, instance freed")
        say("4 timeouts:", [(x.get("fired"), x.get("state"), x.get("terminated")) for x in r[1][2:6]])
        check(r[1][5]["terminated"] and r[1][5]["term_cause"] == 4, "4th timeout -> 'Transceiver offline', terminated (cause TIMEOUT)")
        # ---- (e) death detection and restart (the driver kills itself on request) -------------------
        r = d.batch(["state", "selfcrash asan", "state", "selfcrash abort", "cmd POWERON", "selfcrash ubsan"])
        say("deaths:", [(x.get("how"), x.get("rc"), x.get("index"), x.get("report", "")[:60]) if x.get("died") else x.get("op") for x in r])
        check(r[0].get("op") == "state" and r[1].get("died") and r[1]["how"] == "asan" and r[1]["rc"] == 99 and r[1]["index"] == 1
              and r[2].get("op") == "state" and r[3].get("died") and r[3]["how"] == "signal" and r[3]["signal"] == 6 and r[3]["index"] == 3
              and r[4].get("op") == "cmd" and r[4]["rc"] == 0 and r[5].get("how") == "ubsan" and r[5]["rc"] == 98,
              "ASan death (exit 99), SIGABRT and UBSan death (exit 98) attributed to the request being executed; batch resumes at the next request")
        with Session(exe) as s:
            a = s.send("cmd POWERON")
            bb = s.send("selfcrash segv")
            c = s.send("state")
        check(a.get("rc") == 0 and bb.get("died") and bb["how"] == "asan" and "SEGV" in bb["report"] and c.get("again"),
              "interactive Session: reply per request, death detected (%s)" % bb.get("report", "")[:50])

        # ---- informational: DESIGN.md section 4 row 7 (not part of pass/fail) -----------------------
        r = d.cases([["fresh", "cmd POWERON", "rsp " + b"RSP POWERON\0".hex(), "state"]])[0]
        say("suspected defect 7, 'RSP POWERON\\0' (verb, no status):",
            ("driver DIED: " + r[2]["report"]) if r[2].get("died") else "survived: %r" % (r[2],))
        say("selftest:", "PASSED" if not selftest.failed else "%d FAILED" % selftest.failed,
            "(%d driver processes, %d deaths)" % (d.processes, d.deaths))
        return selftest.failed == 0, log
    finally:
        cbuild.cleanup(b)


if __name__ == "__main__":
    import sys
    ok, _ = selftest()
    sys.exit(0 if ok else 1)

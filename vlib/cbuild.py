"""Builds C drivers against the *unmodified* sources of /repo's working tree and
runs them.  Build directories live under /verif/build/<name>.<pid> and are
removed by the caller (cleanup()) or at interpreter exit.
"""
import atexit
import os
import shutil
import subprocess

from vlib.errors import HarnessError

VERIF = os.path.dirname(os.path.dirname(os.path.abspath(__file__)))
REPO = os.environ.get("VERIF_REPO", "/repo")
CSRC = os.path.join(VERIF, "csrc")
FW = os.path.join(REPO, "src/target/firmware")
LIBOSMO = os.path.join(REPO, "src/shared/libosmocore")
TRXCON = os.path.join(REPO, "src/host/trxcon")
L23 = os.path.join(REPO, "src/host/layer23")

SAN = ["-fsanitize=address,undefined", "-fno-sanitize-recover=all", "-fno-omit-frame-pointer"]
_dirs = []


def _rm_all():
    for d in _dirs:
        shutil.rmtree(d, ignore_errors=True)


atexit.register(_rm_all)


def builddir(name):
    d = os.path.join(VERIF, "build", "%s.%d" % (name, os.getpid()))
    shutil.rmtree(d, ignore_errors=True)
    os.makedirs(d)
    _dirs.append(d)
    return d


def cleanup(d):
    shutil.rmtree(d, ignore_errors=True)
    if d in _dirs:
        _dirs.remove(d)


def firmware_flags(bdir):
    """Include set under which firmware/layer1, firmware/comm and the embedded
    libosmocore compile on the host.  An empty config.h is provided where
    gsm_utils.c / panic.c look for it ("../../config.h", "../config.h")."""
    cfg = os.path.join(bdir, "cfg")
    os.makedirs(os.path.join(cfg, "a", "b"), exist_ok=True)
    for p in (cfg, os.path.join(cfg, "a")):
        open(os.path.join(p, "config.h"), "a").close()
    return ["-I", os.path.join(CSRC, "shim_fw"),
            "-I", os.path.join(cfg, "a", "b"), "-I", os.path.join(cfg, "a"),
            "-idirafter", os.path.join(FW, "include"),
            "-I", os.path.join(LIBOSMO, "include"),
            "-I", os.path.join(REPO, "include"),
            "-ffunction-sections", "-fdata-sections", "-Wl,--gc-sections"]


def compile(bdir, out, sources, flags=(), sanitize=True, opt="-O1", cc="gcc", quiet=True):
    exe = os.path.join(bdir, out)
    cmd = [cc, opt, "-g", "-w" if quiet else "-Wall"] + (SAN if sanitize else []) + list(flags) + ["-o", exe] + list(sources)
    p = subprocess.run(cmd, capture_output=True, text=True)
    if p.returncode != 0:
        raise HarnessError("C build failed (%s):\n%s\n%s" % (" ".join(cmd), p.stdout[-3000:], p.stderr[-6000:]))
    return exe


def run(exe, args=(), stdin=None, timeout=3600, env=None):
    e = dict(os.environ)
    e.setdefault("ASAN_OPTIONS", "detect_leaks=0:abort_on_error=0:exitcode=99")
    e.setdefault("UBSAN_OPTIONS", "print_stacktrace=1:halt_on_error=1:exitcode=98")
    if env:
        e.update(env)
    p = subprocess.run([exe] + [str(a) for a in args], input=stdin, capture_output=True, timeout=timeout, env=e)
    return p.returncode, p.stdout, p.stderr

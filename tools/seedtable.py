#!/usr/bin/env python3
"""Prints the detection matrix (markdown) from /verif/seeded/*/meta.json."""
import glob, json, os
rows = []
for m in sorted(glob.glob(os.path.join(os.path.dirname(os.path.dirname(os.path.abspath(__file__))), "seeded", "*", "meta.json"))):
    d = json.load(open(m))
    name = os.path.basename(os.path.dirname(m))
    patch = open(os.path.join(os.path.dirname(m), "patch.diff")).read()
    files = sorted({l[6:].strip() for l in patch.splitlines() if l.startswith("+++ b/")})
    caught = [c for c, r in d.get("checks", {}).items() if r.get("caught")]
    missed = [c for c, r in d.get("checks", {}).items() if not r.get("caught")]
    keys = []
    for c in caught:
        keys += d["checks"][c].get("keys", [])[:2]
    rows.append("| %s | %s | %s | %s | %s |" % (name, ", ".join(os.path.basename(f) for f in files), "yes" if d.get("confirmed") else "NO",
                                                ", ".join(caught) or "-", "; ".join("`%s`" % k for k in keys[:3])))
print("| seeded change | file(s) | confirmed (demo fails with / passes without, suite green) | caught by (quick) | first keys |")
print("|---|---|---|---|---|")
print("\n".join(rows))

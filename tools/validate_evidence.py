#!/usr/bin/env python3
import json, sys, glob, jsonschema
schema = json.load(open("/root/.vp/EVIDENCE.schema.json"))
rc = 0
for p in sorted(glob.glob("/verif/evidence/*.json")):
    try:
        jsonschema.validate(json.load(open(p)), schema); print("ok ", p)
    except Exception as e:
        rc = 1; print("BAD", p, str(e)[:300])
sys.exit(rc)
